//! C06: compiled bytecode vs interpreter. Case: `prog <class> <hex of the source>`.
//! Observation: `A=<interpreter result>|B=<run_program result in a fresh interpreter>|P=<hex of the
//! program as loaded: registers, decoded constants, instructions, whether each function id is registered>`;
//! `err:<stage>:<kind>` where a stage fails, `panic:<stage>` where the host panicked, and `skip` when the
//! interpreter itself does not evaluate the program (the property is about programs it evaluates).
use crate::common::*;
use crate::interp::*;
use mech_interpreter::*;
use mech_core::*;

fn slug(p: &Box<dyn std::any::Any + Send>) -> String {
  let m = if let Some(s) = p.downcast_ref::<String>() { s.clone() } else if let Some(s) = p.downcast_ref::<&str>() { s.to_string() } else { "?".to_string() };
  // the message up to the first value it prints
  let m = m.split(" for ").next().unwrap_or("").to_string() + if m.contains(" for ") { " for" } else { "" };
  m.chars().take(60).map(|c| if c.is_ascii_alphanumeric() { c } else { '_' }).collect()
}

pub fn run(src: &str) -> String {
  let tree = match parse_code(src) { Ok(t) => t, Err(_) => return "skip".into() };
  let mut a = Interpreter::new(0);
  let ra = match std::panic::catch_unwind(std::panic::AssertUnwindSafe(|| a.interpret(&tree))) {
    Ok(Ok(v)) => canon(&v), Ok(Err(_)) => return "skip".into(), Err(_) => return "skip".into() };
  let head = format!("A={}", ra);
  let bytes = match std::panic::catch_unwind(std::panic::AssertUnwindSafe(|| a.compile())) {
    Ok(Ok(b)) => b, Ok(Err(e)) => return format!("{}|B=err:compile:{}|P=", head, e.kind_name()), Err(p) => return format!("{}|B=panic:compile:{}|P=", head, slug(&p)) };
  let prog = match std::panic::catch_unwind(std::panic::AssertUnwindSafe(|| ParsedProgram::from_bytes(&bytes))) {
    Ok(Ok(p)) => p, Ok(Err(e)) => return format!("{}|B=err:load:{}|P=", head, e.kind_name()), Err(p) => return format!("{}|B=panic:load:{}|P=", head, slug(&p)) };
  let mut b = Interpreter::new(1);
  // the program as loaded, for the model of run_program
  let dump = {
    let consts: Vec<String> = match std::panic::catch_unwind(std::panic::AssertUnwindSafe(|| prog.decode_const_entries())) {
      Ok(Ok(vs)) => vs.iter().map(|v| hexs(&canon(v))).collect(), Ok(Err(e)) => vec![format!("!err:run:{}", e.kind_name())], Err(p) => vec![format!("!panic:run:{}", slug(&p))] };
    let fx = b.functions(); let fx = fx.borrow();
    let known = |id: &u64| if fx.functions.contains_key(id) { "1".to_string() } else { format!("0#{:x}", id) };
    let instrs: Vec<String> = prog.instrs.iter().map(|i| match i {
      DecodedInstr::ConstLoad { dst, const_id } => format!("cl:{}:{}", dst, const_id),
      DecodedInstr::NullOp { fxn_id, dst } => format!("op:0:{}:{}", known(fxn_id), dst),
      DecodedInstr::UnOp { fxn_id, dst, src } => format!("op:1:{}:{}:{}", known(fxn_id), dst, src),
      DecodedInstr::BinOp { fxn_id, dst, lhs, rhs } => format!("op:2:{}:{}:{}:{}", known(fxn_id), dst, lhs, rhs),
      DecodedInstr::TernOp { fxn_id, dst, a, b, c } => format!("op:3:{}:{}:{}:{}:{}", known(fxn_id), dst, a, b, c),
      DecodedInstr::QuadOp { fxn_id, dst, a, b, c, d } => format!("op:4:{}:{}:{}:{}:{}:{}", known(fxn_id), dst, a, b, c, d),
      DecodedInstr::VarArg { fxn_id, dst, args } => format!("op:v:{}:{}:{}", known(fxn_id), dst, args.iter().map(|x| x.to_string()).collect::<Vec<_>>().join(":")),
      DecodedInstr::Ret { src } => format!("ret:{}", src),
      DecodedInstr::Unknown { opcode, .. } => format!("unk:{}", opcode),
    }).collect();
    let raw: Vec<String> = prog.const_entries.iter().map(|e| {
      let tag = prog.types.entries.get(e.type_id as usize).map(|t| format!("{:?}", t.tag)).unwrap_or("?".into());
      let (st, en) = (e.offset as usize, (e.offset + e.length) as usize);
      if en <= prog.const_blob.len() { format!("{}:{}", tag, hexb(&prog.const_blob[st..en])) } else { format!("{}:!", tag) } }).collect();
    let mut syms: Vec<String> = prog.symbols.values().map(|r| r.to_string()).collect(); syms.sort();
    format!("regs={};consts={};instrs={};syms={};raw={}", prog.header.reg_count, consts.join(","), instrs.join(","), syms.join(","), raw.join(","))
  };
  let rb = match std::panic::catch_unwind(std::panic::AssertUnwindSafe(|| b.run_program(&prog))) {
    Ok(Ok(v)) => canon(&v), Ok(Err(e)) => format!("err:run:{}", e.kind_name()), Err(p) => format!("panic:run:{}", slug(&p)) };
  format!("{}|B={}|P={}", head, rb, hexs(&dump))
}

/// C07 `cdec`: the constants of the compiled program as the loader decodes them, next to the bytes they were
/// decoded from: `consts=<hex canon>,…;raw=<Tag:hex>,…` (`skip` when the program does not evaluate or compile)
pub fn const_dump(src: &str) -> String {
  let tree = match parse_code(src) { Ok(t) => t, Err(_) => return "skip".into() };
  let mut a = Interpreter::new(0);
  match std::panic::catch_unwind(std::panic::AssertUnwindSafe(|| a.interpret(&tree))) { Ok(Ok(_)) => {}, _ => return "skip".into() };
  let bytes = match std::panic::catch_unwind(std::panic::AssertUnwindSafe(|| a.compile())) { Ok(Ok(b)) => b, _ => return "skip".into() };
  let prog = match std::panic::catch_unwind(std::panic::AssertUnwindSafe(|| ParsedProgram::from_bytes(&bytes))) { Ok(Ok(p)) => p, Ok(Err(e)) => return format!("err:load:{}", e.kind_name()), Err(p) => return format!("panic:load:{}", slug(&p)) };
  let consts: Vec<String> = match std::panic::catch_unwind(std::panic::AssertUnwindSafe(|| prog.decode_const_entries())) {
    Ok(Ok(vs)) => vs.iter().map(|v| hexs(&canon(v))).collect(), Ok(Err(e)) => return format!("err:decode:{}", e.kind_name()), Err(p) => return format!("panic:decode:{}", slug(&p)) };
  let raw: Vec<String> = prog.const_entries.iter().map(|e| {
    let tag = prog.types.entries.get(e.type_id as usize).map(|t| format!("{:?}", t.tag)).unwrap_or("?".into());
    let (st, en) = (e.offset as usize, (e.offset + e.length) as usize);
    if en <= prog.const_blob.len() { format!("{}:{}", tag, hexb(&prog.const_blob[st..en])) } else { format!("{}:!", tag) } }).collect();
  format!("consts={};raw={}", consts.join(","), raw.join(","))
}

/// sources whose compiled form holds constants of every kind (for C07's `cdec` class)
pub fn constant_sources(seed: u64, thorough: bool) -> Vec<String> {
  let mut scratch = Sink::new();
  generate(seed, thorough, &mut scratch).into_iter().filter_map(|c| {
    let f: Vec<&str> = c.split('\t').collect();
    if ["literals-and-calls", "strings-names-arity", "compound", "conversions", "sets", "tables", "matrix-literals"].contains(&f[1]) { String::from_utf8(crate::c07::unhex(f[2])).ok() } else { None } }).collect()
}

pub fn exec(case: &str) -> String {
  let f: Vec<&str> = case.split('\t').collect();
  let src = String::from_utf8(crate::c07::unhex(f[2])).unwrap();
  if f[0] == "plan" { return plan_obs(&src); }
  run(&src)
}

pub fn generate(seed: u64, thorough: bool, sink: &mut Sink) -> Vec<String> {
  let mut out: Vec<String> = vec![];
  let mut scratch = Sink::new();
  let take = |cases: Vec<String>, n: usize| -> Vec<String> { let k = cases.len(); if k <= n { cases } else { let step = k / n; cases.into_iter().step_by(step.max(1)).take(n).collect() } };
  let per = if thorough { 4000 } else { 450 };
  let mut push = |class: &str, srcs: Vec<String>, sink: &mut Sink| { for s in srcs { sink.hit(&format!("class:{}", class)); out.push(format!("prog\t{}\t{}", class, hexs(&s))); } };
  // operators on scalars and matrices of every kind (distinct operands)
  push("operators", take(crate::c01::generate(seed, thorough, &mut scratch), per * 2).iter().map(|c| crate::c01::source(c)).collect(), sink);
  push("indexing", take(crate::c03::generate(seed, thorough, &mut scratch), per).iter().map(|c| crate::c03::source(c)).collect(), sink);
  push("assignment", take(crate::c04::generate(seed, thorough, &mut scratch), per).iter().map(|c| { let (d, s) = crate::c04::sources(c); format!("{}{}", d, s) }).collect(), sink);
  push("ranges", take(crate::c15::generate(seed, thorough, &mut scratch), per).iter().map(|c| { let f: Vec<&str> = c.split('\t').collect(); crate::c15::source(&f) }).collect(), sink);
  push("matrix-literals", take(crate::c11::generate(seed, thorough, &mut scratch), per / 2).iter().map(|c| crate::c11::source(c)).collect(), sink);
  push("conversions", take(crate::c12::generate(seed, thorough, &mut scratch), per / 2).iter().map(|c| crate::c12::source(c)).collect(), sink);
  push("sets", take(crate::c14::generate(seed, thorough, &mut scratch), per / 2).iter().map(|c| crate::c14::source(c)).collect(), sink);
  push("tables", take(crate::c18::generate(seed, thorough, &mut scratch), per / 3).iter().map(|c| crate::c18::source(c)).collect(), sink);
  // literals of every kind standing alone, and stdlib calls
  let lits = ["10", "2.5", "true", "\"hello\"", "7u8", "300u16", "70000u32", "5u64", "9u128", "1/3", "3+4i", "0x1f", "[1 2 3]", "[1; 2]", "[1 2; 3 4]", "[true false]", "[\"a\" \"b\"]",
    "{1, 2, 3}", "(1, 2)", ":atom", "1..=4", "x := 10", "x := [1u8 2u8]", "x := \"s\"", "x := 1 > 2", "x := !true", "x := -(3)", "x<u8> := 7", "x<f32> := 2.5", "x<i64> := 5", "~x := 1; x = 2", "~x := 10; x += 20", "~x := 10; x -= 1; x -= 1",
    "x := 2; y := x - 7", "x := [1 2 3]; y := x'", "x := [1 2; 3 4] ** [5 6; 7 8]", "x := math/sin(0.0)", "x := math/cos(0.0)", "x := stats/sum/row([1 2 3])", "x := combinatorics/n-choose-k(10, 2)",
    "x := [1 2 3]; y := x[2]", "x := 1 + 2 * 3", "x := (1 + 2) * 3", "x := 7 % 4", "x := 2 ^ 10", "x := \"a\" == \"b\"", "x := true && false", "x := true || false", "x := true xor true"];
  push("literals-and-calls", lits.iter().map(|s| s.to_string()).collect(), sink);
  // strings and names of every byte length per character (constants carry a byte length), and
  // concatenations of every arity (each arity up to four has an instruction form of its own)
  let mut rng = Rng::new(seed ^ 0xC06);
  let mut extra: Vec<String> = vec![];
  let chars = ["a", "b", "z", " ", "é", "ö", "π", "Δ", "日", "本", "語", "😀", "🤖", "ß", "0", "_"];
  for _ in 0..(if thorough { 600 } else { 80 }) {
    let long = rng.chance(1, 8); let len = rng.below(if long { 300 } else { 9 }) as usize;
    let st: String = (0..len).map(|_| *rng.pick(&chars)).collect();
    match rng.below(4) {
      0 => extra.push(format!("\"{}\"", st)),
      1 => extra.push(format!("x := \"{}\"", st)),
      2 => { let k2 = 1 + rng.below(5); let st2: String = (0..k2).map(|_| *rng.pick(&chars)).collect(); extra.push(format!("x := [\"{}\" \"{}\"]", st, st2)); }
      _ => { let k3 = 1 + rng.below(3); let name: String = (0..k3).map(|_| *rng.pick(&["π", "Δ", "é", "x", "y", "日", "α", "ß"])).collect(); extra.push(format!("{} := {}; q := {} + 1", name, 1 + rng.below(9), name)); }
    }
  }
  for s in ["\"héllo\"", "x := \"日本語\"", "x := \"aé\"", "π := 3", "Δx := 1; y := Δx + 1", "x := \"\"", "x := \"😀\"", "x := [\"héllo\" \"wörld\"]"] { extra.push(s.to_string()); }
  for k in 1..=7usize {
    let v = |i: usize| (10 * i + 1).to_string();
    extra.push(format!("[{}]", (1..=k).map(|i| v(i)).collect::<Vec<_>>().join("; ")));
    extra.push(format!("[{}]", (1..=k).map(|i| v(i)).collect::<Vec<_>>().join(" ")));
    extra.push(format!("x := [{}]", (1..=k).map(|i| format!("{} {}", v(i), v(i + 20))).collect::<Vec<_>>().join("; ")));
    extra.push(format!("a := [1 2]; b := [3 4]; c := [5 6]; x := [{}]", (0..k).map(|i| ["a", "b", "c"][i % 3]).collect::<Vec<_>>().join("; ")));
    extra.push(format!("a := [1; 2]; b := [3; 4]; c := [5; 6]; x := [{}]", (0..k).map(|i| ["a", "b", "c"][i % 3]).collect::<Vec<_>>().join(" ")));
    extra.push(format!("x := [{}]", (1..=k).map(|i| format!("{}u8", i)).collect::<Vec<_>>().join("; ")));
    extra.push(format!("x := [{}]", (1..=k).map(|i| if i % 2 == 0 { "true" } else { "false" }).collect::<Vec<_>>().join("; ")));
  }
  push("strings-names-arity", extra, sink);
  // compound constants: sets, tables and tuples whose elements are of every scalar kind, with parts that differ
  // (real and imaginary part, numerator and denominator) so that a part written twice or swapped is visible
  let mut comp: Vec<String> = vec![];
  let elems: Vec<(&str, Vec<String>)> = vec![
    ("c64", (0..6).map(|_| { let re = rng.range(-9, 9); let mut im = rng.range(-9, 9); if im == re || im == 0 { im = re + 3; } format!("{}{}{}i", re, if im < 0 { "-" } else { "+" }, im.abs()) }).collect()),
    ("r64", (0..6).map(|_| { let n = rng.range(1, 9); let mut d = rng.range(2, 9); if d == n { d += 1; } format!("{}/{}", n, d) }).collect()),
    ("f64", (0..6).map(|_| format!("{}.5", rng.range(0, 40))).collect()),
    ("string", vec!["\"a\"".into(), "\"bc\"".into(), "\"\"".into(), "\"dé\"".into(), "\"e f\"".into(), "\"g\"".into()]),
    ("bool", vec!["true".into(), "false".into(), "true".into(), "false".into(), "true".into(), "false".into()]),
  ];
  for (kind, vals) in elems.iter() {
    for n in 1..=3usize {
      comp.push(format!("x := {{{}}}", vals[..n].join(", ")));
      comp.push(format!("x := {{{}}}; y := x", vals[..n].join(", ")));
      comp.push(format!("x := ({})", vals[..n.max(2)].join(", ")));
      if *kind != "string" || true { comp.push(format!("x := |a<{}> b<f64>|{}", kind, (0..n).map(|i| format!(" {} {} |", vals[i], i + 1)).collect::<String>())); }
      comp.push(format!("x := {{{}}}; y := {{{}}}; z := x ∪ y", vals[..n].join(", "), vals[n..(n + 2).min(6)].join(", ")));
    }
    comp.push(format!("x := ({}, 7)", vals[0]));
    comp.push(format!("x := {{({}, 2), ({}, 5)}}", vals[0], vals[1]));
  }
  for k in ["u8", "i8", "u16", "i16", "u32", "i32", "u64", "i64", "f32"] {
    comp.push(format!("x := |a<{}> b<bool>| 1 true | 2 false | 3 true |", k));
    comp.push(format!("x := |a<{}>| 7 | 8 |", k));
  }
  // every integer kind as the element kind of a table column, a set, a tuple and a matrix nested in a tuple:
  // negative values for the signed kinds, values above the signed range for the unsigned ones, column position varied
  for (k, bits, signed) in [("u8", 8u32, false), ("i8", 8, true), ("u16", 16, false), ("i16", 16, true), ("u32", 32, false), ("i32", 32, true),
                            ("u64", 64, false), ("i64", 64, true), ("u128", 128, false), ("i128", 128, true)] {
    let hi: u128 = if bits >= 64 { (1u128 << 52) + 5 } else if signed { (1u128 << (bits - 1)) - 1 } else { (1u128 << bits) - 1 };
    let a = if signed { format!("-{}", 2 + rng.below(100)) } else { format!("{}", hi) };
    let b = format!("{}", 1 + rng.below(100));
    let c = if signed { format!("-{}", 1 + rng.below(9)) } else { format!("{}", hi - 1) };
    comp.push(format!("x := |a<u8> b<{}>| 1 {} | 3 {} |", k, a, b));
    comp.push(format!("x := |b<{}> a<string>| {} \"p\" | {} \"q\" | {} \"r\" |", k, b, a, c));
    comp.push(format!("x := |a<{}> b<{}>| {} {} | {} {} |", k, k, a, b, c, a));
    comp.push(format!("x := |a<{}>| {} |", k, a));
    if !signed {
      comp.push(format!("x := {{{}{}, {}{}}}", hi, k, b, k));
      comp.push(format!("x := ({}{}, {}{})", b, k, hi, k));
      comp.push(format!("x := ({}{}, \"s\", [{}{} {}{}])", b, k, b, k, hi, k));
    }
  }
  push("compound", comp, sink);
  // statement sequences: three to seven statements over a few variables that are read several times, combined with
  // each other and later assigned or op-assigned (the compiler keeps one register per value: re-use is where a wrong
  // register shows), over scalars or row vectors of one shape, the last statement a variable or an expression
  let mut seqs: Vec<String> = vec![];
  for _ in 0..(if thorough { 3000 } else { 300 }) {
    let vector = rng.chance(1, 3);
    let lit = |rng: &mut Rng| -> String { if vector { format!("[{} {} {}]", rng.range(1, 9), rng.range(1, 9), rng.range(1, 9)) } else { format!("{}", rng.range(1, 9)) } };
    let names = ["a", "b", "c", "d", "e"];
    let mut defined: Vec<(&str, bool)> = vec![];
    let mut lines: Vec<String> = vec![];
    let n = 3 + rng.below(5) as usize;
    for _ in 0..n {
      let ops = ["+", "-", "*", "+", "-"];
      let operand = |rng: &mut Rng, defined: &Vec<(&str, bool)>| -> String { if !defined.is_empty() && rng.chance(3, 4) { rng.pick(defined).0.to_string() } else { lit(rng) } };
      let expr = |rng: &mut Rng, defined: &Vec<(&str, bool)>| -> String {
        match rng.below(4) { 0 => operand(rng, defined), _ => format!("{} {} {}", operand(rng, defined), rng.pick(&ops), operand(rng, defined)) } };
      let muts: Vec<&str> = defined.iter().filter(|d| d.1).map(|d| d.0).collect();
      let fresh: Vec<&str> = names.iter().copied().filter(|x| !defined.iter().any(|d| d.0 == *x)).collect();
      match rng.below(6) {
        0 | 1 if !fresh.is_empty() => { let m = rng.chance(2, 3); let nm = fresh[0]; lines.push(format!("{}{} := {}", if m { "~" } else { "" }, nm, expr(&mut rng, &defined))); defined.push((nm, m)); }
        2 | 3 if !muts.is_empty() => { let t = *rng.pick(&muts); lines.push(format!("{} {}= {}", t, rng.pick(&["+", "-", "*"]), operand(&mut rng, &defined))); }
        // (whole-variable `=` compiles to an unregistered function at the pinned commit: finding C06-D6, its own samples)
        4 | 5 if !defined.is_empty() => { lines.push(format!("{} {} {}", operand(&mut rng, &defined), rng.pick(&ops), operand(&mut rng, &defined))); }
        _ => { if !fresh.is_empty() { let nm = fresh[0]; lines.push(format!("~{} := {}", nm, lit(&mut rng))); defined.push((nm, true)); } }
      }
    }
    // the last statement is an operation (a program that ends in a bare operand is finding C06-D8, class last-statement-bare)
    seqs.push(lines.join("\n"));
  }
  for s in ["~a := 1\nb := 2\nc := a + b\na += b", "~x := 5\n1 + x\nx += 2", "~a := [1 2 3]\nb := [4 5 6]\nc := a + b\nd := a * b\na += b", "~a := 2\nb := a * a\nc := b - a\na *= c\nd := a + b"] { seqs.push(s.to_string()); }
  push("statement-sequences", seqs, sink);
  push("last-statement-bare", ["~a := 1\nb := a + a\n5", "~a := 1\nb := a + a\na", "~a := 9\n~b := a + a\n[1 2 3]", "a := 3 + 8\n~b := 3\nb -= b\na", "~a := [6 2 5]\nb := a + a\na"].iter().map(|s| s.to_string()).collect(), sink);
  // the compiler itself (class `plan`): the plan the interpreter built, read from the step texts, against the instruction
  // stream compiled from it — every statement sequence, and a sample of every other class
  let every = if std::env::var("MVH_PLAN_ALL").is_ok() { 1 } else if thorough { 4 } else { 6 };
  let mut plans: Vec<String> = vec![];
  let mut seen: std::collections::HashMap<String, usize> = std::collections::HashMap::new();
  for c in out.iter() {
    let f: Vec<&str> = c.split('\t').collect();
    let k = seen.entry(f[1].to_string()).or_insert(0); *k += 1;
    let whole = f[1] == "statement-sequences" || f[1] == "last-statement-bare" || f[1] == "literals-and-calls" || f[1] == "strings-names-arity";
    if whole || (*k - 1) % every == 0 {
      sink.hit(&format!("plan:{}", f[1])); plans.push(format!("plan\t{}\t{}", f[1], f[2]));
      if f[1] == "statement-sequences" && *k <= 2 { sink.sample(c.clone()); sink.sample(plans[plans.len() - 1].clone()); }
    }
  }
  out.extend(plans);
  out
}


// ---- the plan and what the compiler made of it (case class `plan`) ----

/// the top-level fields of the `{:#?}` text of a struct: its name, then (field, value text) in declaration order
fn debug_fields(text: &str) -> Option<(String, Vec<(String, String)>)> {
  let mut lines = text.lines();
  let head = lines.next()?;
  let name = head.strip_suffix(" {")?.to_string();
  if name.is_empty() || !name.chars().all(|c| c.is_ascii_alphanumeric() || c == '_') { return None; }
  let mut fields: Vec<(String, String)> = vec![];
  let mut closed = false;
  for l in lines {
    if closed { return None; }
    if l == "}" { closed = true; continue; }
    let body = l.strip_prefix("    ")?;
    let is_field = body.chars().next().map(|c| c.is_ascii_alphabetic() || c == '_').unwrap_or(false)
      && body.find(": ").map(|k| body[..k].chars().all(|c| c.is_ascii_alphanumeric() || c == '_')).unwrap_or(false);
    if is_field { let k = body.find(": ").unwrap(); fields.push((body[..k].to_string(), body[k + 2..].to_string())); }
    else { let last = fields.last_mut()?; last.1.push('\n'); last.1.push_str(body); }
  }
  if closed { Some((name, fields)) } else { None }
}

/// the address `Ref`'s Debug prints at the start of `v` (`@0x<16 hex digits>: …`)
fn ref_addr(v: &str) -> Option<u64> { let h = v.strip_prefix("@0x")?; if h.len() < 17 || &h[16..17] != ":" { return None; } u64::from_str_radix(&h[..16], 16).ok() }

fn first_addr(v: &str) -> Option<u64> { let k = v.find("@0x")?; ref_addr(&v[k..]) }

enum Cells { One(u64), Tuple(Vec<u64>), Many(Vec<u64>), None }

/// the elements of a `[ … ]` or `( … )` value, each reduced to the first address it prints
fn seq_addrs(v: &str) -> Option<Vec<u64>> {
  if v == "[]" || v == "()" { return Some(vec![]); }
  let mut out = vec![]; let mut cur: Option<String> = None;
  for l in v.lines().skip(1) {
    if l == "]," || l == "]" || l == ")," || l == ")" { break; }
    let b = l.strip_prefix("    ")?;
    if !b.starts_with(' ') && !b.starts_with(')') && !b.starts_with(']') && !b.starts_with('}') { if let Some(c) = cur.take() { out.push(first_addr(&c)?); } cur = Some(b.to_string()); }
    else if let Some(c) = cur.as_mut() { c.push('\n'); c.push_str(b); }
  }
  if let Some(c) = cur.take() { out.push(first_addr(&c)?); }
  Some(out)
}

/// the cell(s) a field holds: a `Ref` is its address; a `Value` or `Matrix` wrapping a `Ref` (`F64(@0x…)`) is the address
/// of that `Ref` (`Value::addr`, `Matrix::addr`); a tuple or a `Vec` of either is the list; a field that prints no address
/// (a number, a kind, a marker) is no cell; any other text that prints an address is not understood (`None`)
fn cells_of(v: &str) -> Option<Cells> {
  if let Some(a) = ref_addr(v) { return Some(Cells::One(a)); }
  if !v.contains("@0x") { return Some(if v.starts_with('[') { Cells::Many(vec![]) } else { Cells::None }); }
  if v.starts_with('[') { return seq_addrs(v).map(Cells::Many); }
  if v.starts_with('(') { return seq_addrs(v).map(Cells::Tuple); }
  let wrapper = v.chars().next().map(|c| c.is_ascii_uppercase()).unwrap_or(false) && v.contains('(');
  if wrapper { return first_addr(v).map(Cells::One); }
  None
}

/// Structs whose `compile` does not hand its cells to the `compile_*op!` macro in the order "output, then the other
/// cell-valued fields as declared" — read from the source, one line each: (struct, class, fields in the order compiled).
///  * comprehensions and the matrix-to-set conversion compile their output cell only (`compile_nullop!(…, self.out, …)`):
///    src/interpreter/src/expressions.rs:261-271 and 349-359, stdlib/convert/mat_to_mat.rs;
///  * the indexed assignments generated by `impl_assign_fxn_s!` and `impl_set_all_fxn_s!` pass `sink, ixes, source`
///    (src/interpreter/src/stdlib/assign/matrix.rs:102 and :196) although they declare `source, ixes, sink` like the others,
///    which pass `sink, source, ixes`.
const COMPILED_AS: &[(&str, &str, &[&str])] = &[
  ("ValueSetComprehension", "0", &["out"]),
  ("ValueMatrixComprehension", "0", &["out"]),
  ("ConvertMatToSet", "0", &["out"]),
  ("Assign1DS", "2", &["sink", "ixes", "source"]),
  ("Assign1DB", "2", &["sink", "ixes", "source"]),
  ("Assign2DASS", "2", &["sink", "ixes", "source"]),
  ("Assign2DSAS", "2", &["sink", "ixes", "source"]),
  ("Assign1DRS", "2", &["sink", "ixes", "source"]),
  ("Assign1DRB", "2", &["sink", "ixes", "source"]),
  ("Set2DARS", "2", &["sink", "ixes", "source"]),
  ("Set2DARB", "2", &["sink", "ixes", "source"]),
  ("Set2DRAS", "2", &["sink", "ixes", "source"]),
  ("Set2DRAB", "2", &["sink", "ixes", "source"]),
];

/// one plan step read from `MechFunction::to_string()`: (struct name, arity class, out address, argument addresses, every
/// address in the order printed).  The output cell is the field named `out`, else `var` (variable definitions), else `sink`
/// (assignments); the arguments are the other cell-valued fields in declaration order (a tuple field counts as its
/// elements); a struct whose arguments are one `Vec` field is variadic.  `COMPILED_AS` lists the structs read otherwise.
fn read_step(text: &str) -> Result<(String, String, u64, Vec<u64>, Vec<u64>), String> {
  let (name, fields) = debug_fields(text).ok_or_else(|| format!("text:{}", text.lines().next().unwrap_or("").chars().take(24).filter(|c| c.is_ascii_alphanumeric()).collect::<String>()))?;
  let mut cells: Vec<(String, Cells)> = vec![]; let mut printed: Vec<u64> = vec![];
  for (f, v) in fields.iter() {
    let c = cells_of(v).ok_or_else(|| format!("field:{}.{}", name, f))?;
    match &c { Cells::One(a) => printed.push(*a), Cells::Tuple(v) | Cells::Many(v) => printed.extend(v.iter().copied()), Cells::None => {} }
    cells.push((f.clone(), c));
  }
  if let Some((_, cls, order)) = COMPILED_AS.iter().find(|e| e.0 == name) {
    let mut regs: Vec<u64> = vec![];
    for f in order.iter() {
      match cells.iter().find(|c| c.0 == *f).map(|c| &c.1) { Some(Cells::One(a)) => regs.push(*a), Some(Cells::Tuple(v)) => regs.extend(v.iter().copied()), _ => return Err(format!("listed-field:{}.{}", name, f)) }
    }
    if regs.is_empty() { return Err(format!("no-out:{}", name)); }
    return Ok((name, cls.to_string(), regs[0], regs[1..].to_vec(), printed));
  }
  let out_name = ["out", "var", "sink"].iter().find(|n| cells.iter().any(|f| f.0 == **n)).ok_or_else(|| format!("no-out:{}", name))?;
  let mut out = None; let mut args: Vec<u64> = vec![]; let mut lists = 0; let mut singles = 0;
  for (f, c) in cells.iter() {
    match c {
      Cells::One(a) => if f == out_name { out = Some(*a); } else { args.push(*a); singles += 1; },
      Cells::Tuple(v) => { if f == out_name { return Err(format!("out-is-list:{}", name)); } args.extend(v.iter().copied()); singles += v.len(); },
      Cells::Many(v) => { if f == out_name { return Err(format!("out-is-list:{}", name)); } args.extend(v.iter().copied()); lists += 1; },
      Cells::None => if f == out_name { return Err(format!("out-not-a-cell:{}", name)); },
    }
  }
  let out = out.ok_or_else(|| format!("no-out:{}", name))?;
  let cls = if lists == 1 && singles == 0 { "v".to_string() } else if lists == 0 && args.len() <= 4 { args.len().to_string() } else { return Err(format!("mixed-args:{}", name)); };
  Ok((name, cls, out, args, printed))
}

/// `S=<step>;<step>…|R=<reg_count>,<const_count>|I=<instr>,<instr>…` — the plan as read from the step texts (addresses
/// numbered in the order the texts print them), and the instruction stream the real compiler made of it; `skip:<why>` where a
/// step's cells cannot be read, the interpreter does not evaluate the program or there is nothing to compile
pub fn plan_obs(src: &str) -> String {
  let tree = match parse_code(src) { Ok(t) => t, Err(_) => return "skip:parse".into() };
  let mut a = Interpreter::new(0);
  match std::panic::catch_unwind(std::panic::AssertUnwindSafe(|| a.interpret(&tree))) { Ok(Ok(_)) => {}, _ => return "skip:interpret".into() };
  let texts: Vec<String> = { let plan = a.plan(); let plan = plan.borrow(); plan.iter().map(|s| s.to_string()).collect() };
  if texts.is_empty() { return "skip:empty-plan".into(); }
  let mut names: std::collections::HashMap<u64, usize> = std::collections::HashMap::new();
  let mut steps: Vec<String> = vec![];
  for t in texts.iter() {
    let (_, cls, out, args, printed) = match read_step(t) { Ok(s) => s, Err(why) => return format!("skip:{}", why) };
    // addresses are numbered in the order the texts print them (declaration order of the fields, not the order of compilation)
    let mut num = |x: u64| { let n = names.len(); *names.entry(x).or_insert(n) };
    for x in printed { num(x); }
    let o = num(out);
    steps.push(format!("{}:{}{}", cls, o, args.iter().map(|x| format!(":{}", num(*x))).collect::<String>()));
  }
  let bytes = match std::panic::catch_unwind(std::panic::AssertUnwindSafe(|| a.compile())) { Ok(Ok(b)) => b, Ok(Err(_)) => return "skip:compile-error".into(), Err(_) => return "skip:compile-panic".into() };
  let prog = match std::panic::catch_unwind(std::panic::AssertUnwindSafe(|| ParsedProgram::from_bytes(&bytes))) { Ok(Ok(p)) => p, _ => return "skip:load".into() };
  let instrs: Vec<String> = prog.instrs.iter().map(|i| match i {
    DecodedInstr::ConstLoad { dst, const_id } => format!("cl:{}:{}", dst, const_id),
    DecodedInstr::NullOp { fxn_id, dst } => format!("op:0:{:x}:{}", fxn_id, dst),
    DecodedInstr::UnOp { fxn_id, dst, src } => format!("op:1:{:x}:{}:{}", fxn_id, dst, src),
    DecodedInstr::BinOp { fxn_id, dst, lhs, rhs } => format!("op:2:{:x}:{}:{}:{}", fxn_id, dst, lhs, rhs),
    DecodedInstr::TernOp { fxn_id, dst, a, b, c } => format!("op:3:{:x}:{}:{}:{}:{}", fxn_id, dst, a, b, c),
    DecodedInstr::QuadOp { fxn_id, dst, a, b, c, d } => format!("op:4:{:x}:{}:{}:{}:{}:{}", fxn_id, dst, a, b, c, d),
    DecodedInstr::VarArg { fxn_id, dst, args } => format!("op:v:{:x}:{}{}", fxn_id, dst, args.iter().map(|x| format!(":{}", x)).collect::<String>()),
    DecodedInstr::Ret { src } => format!("ret:{}", src),
    DecodedInstr::Unknown { opcode, .. } => format!("unk:{}", opcode),
  }).collect();
  format!("S={}|R={},{}|I={}", steps.join(";"), prog.header.reg_count, prog.const_entries.len(), instrs.join(","))
}

/// statistics of the `plan` class, from the observations: how many plans were compared and why the others were not
pub fn tally(case: &str, obs: &str, sink: &mut Sink) {
  if !case.starts_with("plan\t") { return; }
  if let Some(why) = obs.strip_prefix("skip:") { sink.hit(&format!("plan-skipped:{}", why)); } else if obs.starts_with("S=") { sink.hit("plan-compared"); sink.hit(&format!("plan-steps:{}", obs.split('|').next().unwrap_or("").split(';').count().min(20)));
    // which instruction forms the compared plans contain, and how often a step re-uses a cell that already has a register
    let mut seen: std::collections::HashSet<&str> = std::collections::HashSet::new();
    for st in obs.split('|').next().unwrap_or("").trim_start_matches("S=").split(';') {
      let f: Vec<&str> = st.split(':').collect();
      sink.hit(&format!("plan-step-class:{}", f[0]));
      let mut reused = false; for a in f[1..].iter() { if !seen.insert(*a) { reused = true; } }
      if reused { sink.hit("plan-steps-reusing-a-cell"); }
    } }
}

/// probing aid: the raw text of every plan step and the instruction stream compiled from the plan
pub fn plan_probe(src: &str) -> String {
  let tree = match parse_code(src) { Ok(t) => t, Err(e) => return format!("parse: {}", e) };
  let mut a = Interpreter::new(0);
  match std::panic::catch_unwind(std::panic::AssertUnwindSafe(|| a.interpret(&tree))) { Ok(Ok(_)) => {}, _ => return "interpret failed".into() };
  let mut out = String::new();
  { let plan = a.plan(); let plan = plan.borrow(); for (i, s) in plan.iter().enumerate() { out.push_str(&format!("--- step {}\n{}\n", i, s.to_string())); } }
  let bytes = match std::panic::catch_unwind(std::panic::AssertUnwindSafe(|| a.compile())) { Ok(Ok(b)) => b, _ => return out + "compile failed" };
  let prog = match ParsedProgram::from_bytes(&bytes) { Ok(p) => p, Err(_) => return out + "load failed" };
  out.push_str(&format!("OBS {}\n", plan_obs(src)));
  out.push_str(&format!("regs={} consts={}\n", prog.header.reg_count, prog.const_entries.len()));
  for i in prog.instrs.iter() { out.push_str(&format!("{:?}\n", i)); }
  out
}
