#!/usr/bin/env python3
"""Regenerates lean/MechVerif/Gen/ConvertTables.lean from the two conversion routines of /repo:

* `ValueKind::is_convertible_to` (src/core/src/value.rs): every flat arm `(A, B) | (C, D) | … => true` gives its pairs
  of variant names, in source order; the arms with constructor patterns (Matrix, Option, Set, …) are listed by their
  heads only; the last arm must be `_ => self == other` (then every kind converts to itself) or `_ => false`;
* the kind annotation `ConvertKind` (src/interpreter/src/stdlib/convert/scalar.rs): the rows
  `src, "feature" => dst, "feature", …;` of the invocation of `impl_conversion_match_arms!` in `impl_conversion_fxn`,
  plus the arms written out by hand `(Value::X(..), Value::Kind(ValueKind::Y))` between two scalar kinds;
* the matrix annotation (mat_to_mat.rs): the rows of `impl_conversion_mat_to_mat_fxn! { src, "f" => [dst, "f", …]; … }`
  of the non-wasm configuration and whether a matrix of the target's element kind is passed through unchanged;
* mod.rs: the rows of `impl_lossy_from!(src => dst, …)` (conversions that are Rust `as` casts).

Names are written into the Lean file exactly as they stand in the source; what they mean in the model is said on the
Lean side (Model/ConvertTable.lean).  Anything the reader does not recognise makes `generate` return (False, reason)."""
import os, re, sys

class Unrecognised(Exception):
    pass

def read(repo, rel):
    return open(os.path.join(repo, rel), newline='').read().replace('\r\n', '\n').replace('\r', '\n')

def strip_comments(text):
    """remove // and (nested) /* */ comments, keep string literals"""
    out, i, n, depth = [], 0, len(text), 0
    while i < n:
        if text.startswith('/*', i): depth += 1; i += 2; continue
        if depth:
            if text.startswith('*/', i): depth -= 1; i += 2
            else: i += 1
            continue
        if text.startswith('//', i):
            while i < n and text[i] != '\n': i += 1
            continue
        if text[i] == '"':
            j = i + 1
            while j < n and text[j] != '"': j += 2 if text[j] == '\\' else 1
            out.append(text[i:j + 1]); i = j + 1; continue
        out.append(text[i]); i += 1
    return ''.join(out)

def balanced(text, start, open_c, close_c):
    """text[start] is just after an opening bracket; returns the index of the matching closing bracket"""
    d, i, n = 1, start, len(text)
    while i < n:
        c = text[i]
        if c == '"':
            i += 1
            while i < n and text[i] != '"': i += 2 if text[i] == '\\' else 1
        elif c == open_c: d += 1
        elif c == close_c:
            d -= 1
            if d == 0: return i
        i += 1
    raise Unrecognised("unbalanced %s%s" % (open_c, close_c))

def split_top(text, sep):
    """split at `sep` outside every bracket and string"""
    parts, d, cur, i, n = [], 0, [], 0, len(text)
    while i < n:
        c = text[i]
        if c == '"':
            j = i + 1
            while j < n and text[j] != '"': j += 2 if text[j] == '\\' else 1
            cur.append(text[i:j + 1]); i = j + 1; continue
        if c in '([{': d += 1
        elif c in ')]}': d -= 1
        if d == 0 and text.startswith(sep, i):
            parts.append(''.join(cur)); cur = []; i += len(sep); continue
        cur.append(c); i += 1
    parts.append(''.join(cur))
    return parts

# ---------------------------------------------------------------------------------------------------------------------
# is_convertible_to

def match_arms(body):
    """the arms `pattern [if guard] => expr` of a match body, in order"""
    arms, i, n = [], 0, len(body)
    while True:
        while i < n and body[i] in ' \t\n,': i += 1
        if i >= n: break
        # pattern (and guard) up to the `=>` outside brackets
        d, j = 0, i
        while j < n:
            c = body[j]
            if c in '([{': d += 1
            elif c in ')]}': d -= 1
            elif d == 0 and body.startswith('=>', j): break
            j += 1
        if j >= n: raise Unrecognised("match arm without `=>`: " + body[i:i + 60])
        pat = body[i:j].strip()
        k = j + 2
        while k < n and body[k] in ' \t\n': k += 1
        if k < n and body[k] == '{':
            e = balanced(body, k + 1, '{', '}')
            expr = body[k:e + 1]; i = e + 1
        else:
            d, e = 0, k
            while e < n:
                c = body[e]
                if c in '([{': d += 1
                elif c in ')]}': d -= 1
                elif d == 0 and c == ',': break
                e += 1
            expr = body[k:e].strip(); i = e + 1
        arms.append((pat, expr))
    return arms

def split_guard(pat):
    """`pattern if guard` -> (pattern, guard); the `if` outside every bracket"""
    d = 0
    for m in re.finditer(r'[(\[{)\]}]|\bif\b', pat):
        t = m.group(0)
        if t in '([{': d += 1
        elif t in ')]}': d -= 1
        elif d == 0: return pat[:m.start()].strip(), pat[m.end():].strip()
    return pat.strip(), None

PAIR = re.compile(r'^\(\s*(?:ValueKind::)?([A-Z]\w*)\s*,\s*(?:ValueKind::)?([A-Z]\w*)\s*\)$')

def side_head(s):
    """head of one side of a structural pattern: constructor name, `_` for a binder / wildcard, or None"""
    s = s.strip()
    m = re.match(r'^(?:ValueKind::)?([A-Z]\w*)\s*\(', s)
    if m: return m.group(1), True
    if re.match(r'^(?:ValueKind::)?[A-Z]\w*$', s): return s.split('::')[-1], False
    if re.match(r'^(?:_|[a-z_]\w*)$', s): return '_', False
    return None

def extract_is_convertible(repo):
    src = strip_comments(read(repo, 'src/core/src/value.rs'))
    m = re.search(r'pub\s+fn\s+is_convertible_to\s*\(\s*&\s*self\s*,\s*other\s*:\s*&\s*ValueKind\s*\)\s*->\s*bool\s*\{', src)
    if not m: raise Unrecognised("value.rs: `pub fn is_convertible_to(&self, other: &ValueKind) -> bool` not found")
    body = src[m.end():balanced(src, m.end(), '{', '}')]
    mm = re.search(r'match\s*\(\s*self\s*,\s*other\s*\)\s*\{', body)
    if not mm: raise Unrecognised("is_convertible_to: `match (self, other)` not found")
    pre = body[:mm.start()].strip()
    if not re.match(r'^(use\s+ValueKind::\*\s*;)?$', pre): raise Unrecognised("is_convertible_to: statements before the match: " + pre[:60])
    end = balanced(body, mm.end(), '{', '}')
    if body[end + 1:].strip(): raise Unrecognised("is_convertible_to: statements after the match")
    arms = match_arms(body[mm.end():end])
    if not arms: raise Unrecognised("is_convertible_to: no arms")
    pairs, structural, default = [], [], None
    for idx, (pat, expr) in enumerate(arms):
        if pat == '_':
            if idx != len(arms) - 1: raise Unrecognised("is_convertible_to: `_` arm is not the last one")
            e = re.sub(r'\s+', ' ', expr)
            if e in ('self == other', 'other == self', '*self == *other'): default = True
            elif e == 'false': default = False
            else: raise Unrecognised("is_convertible_to: default arm is `%s`" % e)
            continue
        pat, guard = split_guard(pat)
        alts = [a.strip() for a in split_top(pat, '|') if a.strip()]
        if guard is None and all(PAIR.match(a) for a in alts):
            if expr != 'true': raise Unrecognised("is_convertible_to: arm %s… yields `%s`, not `true`" % (alts[0], expr))
            pairs += [PAIR.match(a).groups() for a in alts]
            continue
        # a structural arm: every alternative must have a constructor with arguments on at least one side,
        # so that it cannot match a pair of two scalar kinds
        if expr != 'true': raise Unrecognised("is_convertible_to: arm `%s` yields `%s`" % (pat[:40], expr[:40]))
        for a in alts:
            if not (a.startswith('(') and a.endswith(')')): raise Unrecognised("is_convertible_to: pattern `%s`" % a[:60])
            sides = split_top(a[1:-1], ',')
            if len(sides) != 2: raise Unrecognised("is_convertible_to: pattern `%s`" % a[:60])
            h = [side_head(s) for s in sides]
            if None in h: raise Unrecognised("is_convertible_to: pattern `%s`" % a[:60])
            if not (h[0][1] or h[1][1]): raise Unrecognised("is_convertible_to: arm `%s` could match two scalar kinds and is not a plain pair" % a[:60])
            structural.append((h[0][0], h[1][0]))
    if default is None: raise Unrecognised("is_convertible_to: no `_ =>` arm")
    if len(pairs) < 10: raise Unrecognised("is_convertible_to: only %d pairs read" % len(pairs))
    return pairs, structural, default

# ---------------------------------------------------------------------------------------------------------------------
# ConvertKind (scalar.rs), mat_to_mat.rs, mod.rs

ROW_ITEM = re.compile(r'^\s*(\w+)\s*,\s*"(\w+)"\s*$')

def type_feature_list(text, what):
    """`T, "feature", U, "feature", …` -> [T, U, …]"""
    items = [x for x in split_top(text, ',') if x.strip()]
    if len(items) % 2: raise Unrecognised("%s: odd list `%s`" % (what, text.strip()[:60]))
    out = []
    for a, b in zip(items[0::2], items[1::2]):
        if not re.match(r'^\s*\w+\s*$', a) or not re.match(r'^\s*"\w+"\s*$', b): raise Unrecognised("%s: item `%s, %s`" % (what, a.strip(), b.strip()))
        out.append(a.strip())
    return out

def extract_scalar(repo):
    src = strip_comments(read(repo, 'src/interpreter/src/stdlib/convert/scalar.rs'))
    # the macro: every (input, target) of a row must become an accepting arm, and the last arm must reject
    m = re.search(r'macro_rules!\s*impl_conversion_match_arms\s*\{', src)
    if not m: raise Unrecognised("scalar.rs: macro impl_conversion_match_arms not found")
    mac = src[m.end():balanced(src, m.end(), '{', '}')]
    flat = re.sub(r'\s+', '', mac)
    if '(Value::[<$input_type:camel>](arg),Value::Kind(ValueKind::[<$target_type:camel>]))=>{Ok(Box::new(ConvertScalarToScalarBasic{' not in flat:
        raise Unrecognised("scalar.rs: the (input, target) arm of impl_conversion_match_arms does not build ConvertScalarToScalarBasic")
    if not re.search(r'x=>Err\(MechError::new\(UnsupportedConversionError\{from:x\.0\.kind\(\),to:x\.1\.kind\(\)\}', flat):
        raise Unrecognised("scalar.rs: the last arm of impl_conversion_match_arms is not the UnsupportedConversionError")
    f = re.search(r'fn\s+impl_conversion_fxn\s*\([^)]*\)\s*->\s*MResult<Box<dyn MechFunction>>\s*\{', src)
    if not f: raise Unrecognised("scalar.rs: fn impl_conversion_fxn not found")
    body = src[f.end():balanced(src, f.end(), '{', '}')]
    inv = re.search(r'impl_conversion_match_arms!\s*\(', body)
    if not inv: raise Unrecognised("scalar.rs: impl_conversion_fxn does not invoke impl_conversion_match_arms!")
    args = body[inv.end():balanced(body, inv.end(), '(', ')')]
    first = split_top(args, ',')[0]
    if re.sub(r'\s+', '', first) != '(source_value,target_kind)': raise Unrecognised("scalar.rs: first macro argument is `%s`" % first.strip())
    rest = args[len(first) + 1:]
    rows = []
    for row in split_top(rest, ';'):
        if not row.strip(): continue
        lr = row.split('=>')
        if len(lr) != 2: raise Unrecognised("scalar.rs: row `%s`" % row.strip()[:60])
        s = type_feature_list(lr[0], "scalar.rs row source")
        if len(s) != 1: raise Unrecognised("scalar.rs: row source `%s`" % lr[0].strip())
        for t in type_feature_list(lr[1], "scalar.rs row of " + s[0]): rows.append((s[0], t))
    if len(rows) < 10: raise Unrecognised("scalar.rs: only %d (source, target) pairs read" % len(rows))
    # arms written by hand between two plain variants, in the macro and in the function
    explicit = []
    for text in (mac, body):
        for mm in re.finditer(r'\(\s*Value::(\w+)\s*\(\s*(?:ref\s+)?\w+\s*\)\s*,\s*Value::Kind\s*\(\s*ValueKind::(\w+)\s*\)\s*\)\s*(?:if\b[^{;]*?)?=>', text):
            if (mm.group(1), mm.group(2)) not in explicit: explicit.append((mm.group(1), mm.group(2)))
    return rows, explicit

def extract_mat(repo):
    src = strip_comments(read(repo, 'src/interpreter/src/stdlib/convert/mat_to_mat.rs'))
    invs = list(re.finditer(r'((?:#\[[^\]]*\]\s*)*)impl_conversion_mat_to_mat_fxn!\s*\{', src))
    pick = [m for m in invs if 'wasm32' not in m.group(1) or re.search(r'not\s*\(\s*target_arch\s*=\s*"wasm32"\s*\)', m.group(1))]
    if len(pick) != 1: raise Unrecognised("mat_to_mat.rs: %d invocations of impl_conversion_mat_to_mat_fxn! for the native target" % len(pick))
    m = pick[0]
    body = src[m.end():balanced(src, m.end(), '{', '}')]
    rows = []
    for row in split_top(body, ';'):
        if not row.strip(): continue
        lr = row.split('=>')
        if len(lr) != 2: raise Unrecognised("mat_to_mat.rs: row `%s`" % row.strip()[:60])
        s = type_feature_list(lr[0], "mat_to_mat.rs row source")
        r = lr[1].strip()
        if len(s) != 1 or not (r.startswith('[') and r.endswith(']')): raise Unrecognised("mat_to_mat.rs: row `%s`" % row.strip()[:60])
        for t in type_feature_list(r[1:-1], "mat_to_mat.rs row of " + s[0]): rows.append((s[0], t))
    if len(rows) < 10: raise Unrecognised("mat_to_mat.rs: only %d pairs read" % len(rows))
    mac = re.search(r'macro_rules!\s*impl_conversion_mat_to_mat_fxn\s*\{', src)
    if not mac: raise Unrecognised("mat_to_mat.rs: macro impl_conversion_mat_to_mat_fxn not found")
    mb = re.sub(r'\s+', '', src[mac.end():balanced(src, mac.end(), '{', '}')])
    if '(Value::[<Matrix$src:camel>](v),ValueKind::Matrix(target_kind,dims))ifmatches!(target_kind.as_ref(),ValueKind::[<$dst:camel>])=>' not in mb:
        raise Unrecognised("mat_to_mat.rs: the (src, dst) arm of the macro is not recognised")
    passthrough = 'source_element_kind==*target_element_kind' in mb and 'ConvertMatPassthrough{out:Ref::new(source_value.clone())}' in mb
    return rows, passthrough

def extract_lossy(repo):
    src = strip_comments(read(repo, 'src/interpreter/src/stdlib/convert/mod.rs'))
    mac = re.search(r'macro_rules!\s*impl_lossy_from\s*\{', src)
    if not mac: raise Unrecognised("mod.rs: macro impl_lossy_from not found")
    mb = re.sub(r'\s+', '', src[mac.end():balanced(src, mac.end(), '{', '}')])
    if 'implLossyFrom<$from>for$to{fnlossy_from(value:$from)->Self{valueas$to}}' not in mb:
        raise Unrecognised("mod.rs: impl_lossy_from! is not `value as $to`")
    pairs = []
    for m in re.finditer(r'impl_lossy_from!\s*\(', src):
        args = src[m.end():balanced(src, m.end(), '(', ')')]
        for row in split_top(args, ';'):
            if not row.strip(): continue
            lr = row.split('=>')
            if len(lr) != 2 or not re.match(r'^\s*\w+\s*$', lr[0]): raise Unrecognised("mod.rs: impl_lossy_from! row `%s`" % row.strip()[:60])
            for t in lr[1].split(','):
                if not re.match(r'^\s*\w+\s*$', t): raise Unrecognised("mod.rs: impl_lossy_from! target `%s`" % t.strip())
                pairs.append((lr[0].strip(), t.strip()))
    if len(pairs) < 10: raise Unrecognised("mod.rs: only %d `as` conversions read" % len(pairs))
    return pairs

def extract(repo="/repo"):
    return extract_is_convertible(repo), extract_scalar(repo), extract_mat(repo), extract_lossy(repo)

def lean_pairs(ps, per_line=8):
    items = ['("%s", "%s")' % p for p in ps]
    lines = [", ".join(items[i:i + per_line]) for i in range(0, len(items), per_line)]
    return "  [" + ",\n   ".join(lines) + "]"

def generate(root, repo="/repo"):
    try:
        (pairs, structural, default), (rows, explicit), (mrows, passthrough), lossy = extract(repo)
    except (Unrecognised, OSError, ValueError, IndexError) as e:
        return False, "C12 conversion-table extraction failed: %s" % e
    out = os.path.join(root, 'lean', 'MechVerif', 'Gen', 'ConvertTables.lean')
    b = lambda x: "true" if x else "false"
    L = ["/- GENERATED by tools/extract_convert.py from src/core/src/value.rs (is_convertible_to) and",
         "   src/interpreter/src/stdlib/convert/{scalar,mat_to_mat,mod}.rs — do not edit. -/",
         "import MechVerif.Lemmas.ConvertTable", "namespace MechVerif.Gen.ConvertTables", "open MechVerif.Scalar MechVerif.Convert", "",
         "/-- `ValueKind::is_convertible_to`: the pairs of the flat arms `(A, B) | … => true`, as written -/",
         "def convertiblePairs : List (String × String) :=", lean_pairs(pairs), "",
         "/-- heads of its arms with constructor patterns (`_` = a binder or wildcard) -/",
         "def convertibleStructural : List (String × String) :=", lean_pairs(structural), "",
         "/-- is its last arm `_ => self == other` -/", "def convertibleDefaultIsEquality : Bool := %s" % b(default), "",
         "/-- kind annotation of a scalar: (source type, target type) of every row of `impl_conversion_match_arms!` -/",
         "def scalarRows : List (String × String) :=", lean_pairs(rows), "",
         "/-- arms written by hand `(Value::X(_), Value::Kind(ValueKind::Y))` in scalar.rs -/",
         "def scalarExplicit : List (String × String) :=", lean_pairs(explicit), "",
         "/-- kind annotation of a matrix: (source element type, target element type) of every row of",
         "    `impl_conversion_mat_to_mat_fxn!` (native target) -/",
         "def matRows : List (String × String) :=", lean_pairs(mrows), "",
         "/-- a matrix whose element kind is the target's is passed through unchanged -/",
         "def matPassthroughSameKind : Bool := %s" % b(passthrough), "",
         "/-- rows of `impl_lossy_from!`: conversions that are the Rust cast `value as $to` -/",
         "def asCastPairs : List (String × String) :=", lean_pairs(lossy), "",
         "/-- `is_convertible_to` accepts, on the model's kinds, exactly the pairs `implicitlyConvertible` says -/",
         "theorem C12_is_convertible_table_is_model :",
         "    tableAgrees (fun a b => convertiblePairs.contains (a.variantName, b.variantName) || (convertibleDefaultIsEquality && a == b))",
         "      implicitlyConvertible = true := by decide", "",
         "/-- its remaining pairs all involve `Index`, a kind outside the model; no other unknown name occurs -/",
         "theorem C12_is_convertible_names_known : convertiblePairs.all (fun p => variantPairKnown p) = true := by decide", "",
         "/-- the scalar annotation accepts exactly the pairs the model's `convertScalarImpl` accepts -/",
         "theorem C12_scalar_table_is_model :",
         "    tableAgrees (fun a b => scalarRows.contains (a.rustType, b.rustType) || scalarExplicit.contains (a.variantName, b.variantName))",
         "      scalarAccepts = true := by decide", "",
         "theorem C12_scalar_names_known :",
         "    (scalarRows.all (fun p => rustPairKnown p) && scalarExplicit.all (fun p => explicitArmKnown p)) = true := by decide", "",
         "/-- the matrix annotation accepts exactly the pairs the model's `convertElemImpl` accepts (complex → string, which",
         "    the model leaves out, excepted) -/",
         "theorem C12_mat_table_is_model :",
         "    tableAgrees (fun a b => (matRows.contains (a.rustType, b.rustType) || (matPassthroughSameKind && a == b)) && !matNotModelled a b)",
         "      matAccepts = true := by decide", "",
         "theorem C12_mat_names_known : matRows.all (fun p => rustPairKnown p) = true := by decide", "",
         "/-- the conversions done by `as` are exactly those between the twelve integer and float kinds -/",
         "theorem C12_as_casts_are_numeric_pairs :",
         "    (tableAgrees (fun a b => asCastPairs.contains (a.rustType, b.rustType)) (fun a b => isNumeric a && isNumeric b) &&",
         "     asCastPairs.all (fun p => rustPairKnown p)) = true := by decide", "",
         "end MechVerif.Gen.ConvertTables", ""]
    text = "\n".join(L)
    old = open(out).read() if os.path.exists(out) else None
    if old != text: open(out, 'w').write(text)
    return True, "C12 conversion tables extracted: is_convertible_to %d pairs + %d structural arms, scalar annotation %d rows + %d explicit arms, matrix annotation %d rows, %d `as` casts" % (
        len(pairs), len(structural), len(rows), len(explicit), len(mrows), len(lossy))

if __name__ == '__main__':
    root = os.path.dirname(os.path.dirname(os.path.abspath(__file__)))
    if len(sys.argv) > 1 and sys.argv[1] == '--show':
        for part in extract(sys.argv[2] if len(sys.argv) > 2 else "/repo"): print(part)
    else:
        print(generate(root, sys.argv[1] if len(sys.argv) > 1 else "/repo"))
