/-
The accepted skeleton of the runner (Model/FsmIR.lean `expectedRunner`, `expectedValidator`), run with the model's
leaf operations, is Model/Fsm.lean's `stepArms` / `run` / `validate`.
-/
import MechVerif.Model.FsmIR
namespace MechVerif.FsmIR
open MechVerif.Arms MechVerif.Fsm

abbrev MS := Store MPat Target E StateV Env S
abbrev MOut := Out MS S StateV FErr

theorem applyTarget_not_stuck (env : Env) (t : Target) : applyTarget env t ≠ .ok .stuck := by
  cases t with
  | next n args => simp only [applyTarget]; cases evalAs env args <;> simp
  | output e => simp only [applyTarget]; cases evalS env e <;> simp

/-- what `taken t` does in a store whose clone is `env'` (`ce`: the shared environment) -/
def TakenSpec (env' : Env) (tg : Target) (ce : Env) (o : MOut) : Prop :=
  match applyTarget env' tg with
  | .error e => o = .fail e
  | .ok (.out v _) => o = .ret (.value v)
  | .ok (.moved s' _) => ∃ σ', o = .brk σ' ∧ σ'.state = s' ∧ σ'.callEnv = ce ∧ σ'.transitioned = some true
  | .ok .stuck => True

theorem exec_taken (k : Nat) (arms : List MArm) (t : TransRef) (σ : MS) (env' : Env) (tg : Target)
    (he : σ.armEnv = some env') (ht : σ.transOf t = some tg) :
    TakenSpec env' tg σ.callEnv (exec modelOps k arms (taken t) σ) := by
  unfold TakenSpec
  simp only [taken, exec, Store.env, he, ht, modelOps, applyOp]
  cases h : applyTarget env' tg with
  | error e => simp
  | ok r =>
    cases r with
    | moved s' e1 => simp [Store.setEnv, Store.setB]
    | out v e1 => simp
    | stuck => simp

/-- the value of a guard's condition: the wildcard holds -/
def condVal (env' : Env) : Option E → Except FErr S
  | none => .ok (.bool true)
  | some c => evalS env' c

/-- one turn of the guard loop -/
def GuardSpec (env' : Env) (c : Option E) (tg : Target) (σ : MS) (o : MOut) : Prop :=
  match condVal env' c with
  | .error e => o = .fail e
  | .ok (.bool true) => TakenSpec env' tg σ.callEnv o
  | .ok (.bool false) => ∃ σ', o = .cont σ' ∧ σ'.state = σ.state ∧ σ'.callEnv = σ.callEnv ∧
      σ'.transitioned = σ.transitioned ∧ σ'.armEnv = σ.armEnv
  | .ok _ => o = .fail .guardKind

theorem exec_guardBody (k : Nat) (arms : List MArm) (σ : MS) (env' : Env) (c : Option E) (tg : Target)
    (he : σ.armEnv = some env') (hg : σ.guard = some (c, tg)) :
    GuardSpec env' c tg σ (exec modelOps k arms guardBody σ) := by
  unfold GuardSpec
  cases c with
  | none =>
    simp only [condVal, guardBody, exec, hg, Store.setB, Store.evalB, Store.getB, Option.map, Bool.not_true]
    exact exec_taken k arms .guard _ env' tg he (by simp [Store.transOf])
  | some c =>
    simp only [condVal, guardBody, exec, hg, Store.env, he, modelOps, condOp]
    cases hc : evalS env' c with
    | error e => simp
    | ok v =>
      cases v with
      | num kd n => simp
      | str t => simp
      | bool b =>
        cases b with
        | true =>
          simp only [Store.setB, Store.evalB, Store.getB, Option.map, Bool.not_true]
          exact exec_taken k arms .guard _ env' tg he (by simp [Store.transOf, hg])
        | false =>
          simp only [Store.setB, Store.evalB, Store.getB, Option.map, Bool.not_false]
          exact ⟨_, rfl, rfl, rfl, rfl, he⟩

/-- one turn of a `for` loop, given how its body ended -/
def loopStep {α : Type} (f : α → MS → MOut) (rest : List α) : MOut → MOut
  | .next s' => iter f rest s'
  | .cont s' => iter f rest s'
  | .brk s' => .next s'
  | .ret r => .ret r
  | .fail e => .fail e
  | .unbound => .unbound

theorem iter_cons {α : Type} (f : α → MS → MOut) (a : α) (as : List α) (s : MS) :
    iter f (a :: as) s = loopStep f as (f a s) := by
  simp only [iter, loopStep]
  cases f a s <;> rfl

/-- a taken arm or guard ends the loop it is in -/
def TakenLoopSpec (env' : Env) (tg : Target) (ce : Env) (o : MOut) : Prop :=
  match applyTarget env' tg with
  | .error e => o = .fail e
  | .ok (.out v _) => o = .ret (.value v)
  | .ok (.moved s' _) => ∃ σ', o = .next σ' ∧ σ'.state = s' ∧ σ'.callEnv = ce ∧ σ'.transitioned = some true
  | .ok .stuck => True

theorem taken_loopStep {α : Type} (f : α → MS → MOut) (rest : List α) (env' : Env) (tg : Target) (ce : Env) (o : MOut)
    (h : TakenSpec env' tg ce o) : TakenLoopSpec env' tg ce (loopStep f rest o) := by
  unfold TakenSpec at h
  unfold TakenLoopSpec
  cases hat : applyTarget env' tg with
  | error e => rw [hat] at h; simp only at h ⊢; subst h; rfl
  | ok r =>
    rw [hat] at h
    cases r with
    | moved s' e1 => simp only at h ⊢; obtain ⟨σ', rfl, h1, h2, h3⟩ := h; exact ⟨σ', rfl, h1, h2, h3⟩
    | out v e1 => simp only at h ⊢; subst h; rfl
    | stuck => trivial

/-- what the guard loop does in a store whose clone is `env'` and whose flag is down -/
def GuardsSpec (env' : Env) (gs : List (Option E × Target)) (st : StateV) (ce : Env) (o : MOut) : Prop :=
  match firstGuard env' (gs.map toGuard) with
  | .error e => o = .fail e
  | .ok none => ∃ σ', o = .next σ' ∧ σ'.state = st ∧ σ'.callEnv = ce ∧ σ'.transitioned = some false
  | .ok (some g) => TakenLoopSpec env' g.target ce o

theorem guards_loop (k : Nat) (arms : List MArm) (env' : Env) : ∀ (gs : List (Option E × Target)) (σ : MS),
    σ.armEnv = some env' → σ.transitioned = some false →
    GuardsSpec env' gs σ.state σ.callEnv
      (iter (fun g s' => exec modelOps k arms guardBody { s' with guard := some g }) gs σ) := by
  intro gs
  induction gs with
  | nil =>
    intro σ he ht
    simp only [GuardsSpec, List.map_nil, firstGuard, iter]
    exact ⟨σ, rfl, rfl, rfl, ht⟩
  | cons g gs ih =>
    intro σ he ht
    obtain ⟨c, tg⟩ := g
    have hb := exec_guardBody k arms { σ with guard := some (c, tg) } env' c tg he rfl
    rw [iter_cons]
    unfold GuardsSpec
    simp only [List.map_cons, toGuard, firstGuard]
    generalize exec modelOps k arms guardBody { σ with guard := some (c, tg) } = o at hb ⊢
    unfold GuardSpec at hb
    cases c with
    | none =>
      simp only [condVal] at hb
      exact taken_loopStep _ gs env' tg σ.callEnv o hb
    | some c =>
      simp only [condVal] at hb
      simp only []
      cases hc : evalS env' c with
      | error e => rw [hc] at hb; simp only at hb ⊢; subst hb; rfl
      | ok v =>
        rw [hc] at hb
        cases v with
        | num kd n => simp only at hb ⊢; subst hb; rfl
        | str t => simp only at hb ⊢; subst hb; rfl
        | bool b =>
          cases b with
          | true => exact taken_loopStep _ gs env' tg σ.callEnv o hb
          | false =>
            simp only at hb ⊢
            obtain ⟨σ', rfl, h1, h2, h3, h4⟩ := hb
            simp only [loopStep]
            have := ih σ' (h4.trans he) (h3.trans ht)
            rw [h1, h2] at this
            exact this

theorem matchOp_clear (p : MPat) (b : Body) (s : StateV) (env : Env) :
    matchOp p s (clearVars p.2 env) =
      .ok (match armMatch ⟨p.1, p.2, b⟩ s env with
           | some e => (true, e)
           | none => (false, clearVars p.2 env)) := by
  unfold matchOp armMatch
  simp only []
  split <;> simp_all

/-- clone, clear the clone, match against the clone -/
theorem exec_prologue (k : Nat) (arms : List MArm) (rest : Stmt) (σ : MS) (p : MPat) (b : Body) (hp : σ.pat = some p) :
    exec modelOps k arms (withPrologue rest) σ =
      exec modelOps k arms rest
        (match armMatch ⟨p.1, p.2, b⟩ σ.state σ.callEnv with
         | some e => { σ with armEnv := some e, matched := some true }
         | none => { σ with armEnv := some (clearVars p.2 σ.callEnv), matched := some false }) := by
  simp only [withPrologue, exec, Store.env, Store.setEnv, Store.setB, hp, modelOps, matchOp_clear p b]
  cases armMatch ⟨p.1, p.2, b⟩ σ.state σ.callEnv <;> rfl

/-- how the scan of the arms ends, given the model's step -/
def StepSpec (r : Except FErr StepR) (st : StateV) (ce : Env) (o : MOut) : Prop :=
  match r with
  | .error e => o = .fail e
  | .ok (.out v _) => o = .ret (.value v)
  | .ok .stuck => ∃ σ', o = .next σ' ∧ σ'.state = st ∧ σ'.callEnv = ce ∧ σ'.transitioned = some false
  | .ok (.moved s' e') => ∃ σ', o = .next σ' ∧ σ'.state = s' ∧ σ'.callEnv = e' ∧ σ'.transitioned = some true

theorem takenLoop_step (env' : Env) (tg : Target) (st : StateV) (ce : Env) (o : MOut)
    (h : TakenLoopSpec env' tg ce o) : StepSpec (leave ce (applyTarget env' tg)) st ce o := by
  unfold TakenLoopSpec at h
  unfold StepSpec
  have hns := applyTarget_not_stuck env' tg
  cases hat : applyTarget env' tg with
  | error e => rw [hat] at h; simpa [leave] using h
  | ok r =>
    rw [hat] at h
    cases r with
    | moved s' e1 => simpa [leave] using h
    | out v e1 => simpa [leave] using h
    | stuck => exact absurd hat hns

/-- the body of the loop over the arms -/
def armFn (k : Nat) (arms : List MArm) : MArm → MS → MOut :=
  armDispatch (exec modelOps k arms Stmt.cont) (exec modelOps k arms transitionArm) (exec modelOps k arms guardArm)

theorem arms_loop (k : Nat) (arms : List MArm) : ∀ (l : List MArm) (σ : MS) (st : StateV) (ce : Env),
    σ.state = st → σ.callEnv = ce → σ.transitioned = some false →
    StepSpec (Fsm.stepArms st ce (l.filterMap armOf)) st ce (iter (armFn k arms) l σ) := by
  intro l
  induction l with
  | nil =>
    intro σ st ce hs hc ht
    simp only [List.filterMap_nil, Fsm.stepArms, StepSpec, iter]
    exact ⟨σ, rfl, hs, hc, ht⟩
  | cons a l ih =>
    intro σ st ce hs hc ht
    subst hs hc
    rw [iter_cons]
    cases a with
    | comment =>
      simp only [armFn, armDispatch, exec, loopStep, List.filterMap_cons, armOf]
      exact ih _ _ _ rfl rfl ht
    | transition p t =>
      simp only [armFn, armDispatch, transitionArm, List.filterMap_cons, armOf]
      rw [exec_prologue k arms _ _ p (.direct t) rfl]
      simp only []
      cases hm : armMatch ⟨p.1, p.2, .direct t⟩ σ.state σ.callEnv with
      | none =>
        simp only [exec, Store.evalB, Store.getB, loopStep, Fsm.stepArms, hm]
        exact ih _ _ _ rfl rfl ht
      | some env' =>
        simp only [exec, Store.evalB, Store.getB, Fsm.stepArms, hm]
        exact takenLoop_step env' t σ.state σ.callEnv _
          (taken_loopStep _ l env' t σ.callEnv _ (exec_taken k arms .arm _ env' t (by rfl) (by rfl)))
    | guard p gs =>
      simp only [armFn, armDispatch, guardArm, List.filterMap_cons, armOf]
      rw [exec_prologue k arms _ _ p (.guarded (gs.map toGuard)) rfl]
      simp only []
      cases hm : armMatch ⟨p.1, p.2, .guarded (gs.map toGuard)⟩ σ.state σ.callEnv with
      | none =>
        simp only [exec, Store.evalB, Store.getB, Option.map, Bool.not_false, loopStep, Fsm.stepArms, hm]
        exact ih _ _ _ rfl rfl ht
      | some env' =>
        simp only [exec, Store.evalB, Store.getB, Option.map, Bool.not_true, Fsm.stepArms, hm]
        have hg := guards_loop k arms env' gs
          { σ with pat := some p, trans := none, guards := some gs, armEnv := some env', matched := some true } rfl ht
        simp only [] at hg
        generalize iter _ gs _ = o at hg ⊢
        unfold GuardsSpec at hg
        cases hfg : firstGuard env' (gs.map toGuard) with
        | error e => rw [hfg] at hg; simp only at hg ⊢; subst hg; rfl
        | ok og =>
          rw [hfg] at hg
          cases og with
          | none =>
            simp only at hg ⊢
            obtain ⟨σ', rfl, h1, h2, h3⟩ := hg
            simp only [h3, loopStep]
            exact ih _ _ _ h1 h2 h3
          | some g =>
            simp only at hg ⊢
            refine takenLoop_step env' g.target σ.state σ.callEnv _ ?_
            unfold TakenLoopSpec at hg ⊢
            cases hat : applyTarget env' g.target with
            | error e => rw [hat] at hg; simp only at hg ⊢; subst hg; rfl
            | ok r =>
              rw [hat] at hg
              cases r with
              | moved s' e1 =>
                simp only at hg ⊢
                obtain ⟨σ', rfl, h1, h2, h3⟩ := hg
                simp only [h3, loopStep]
                exact ⟨σ', rfl, h1, h2, h3⟩
              | out v e1 => simp only at hg ⊢; subst hg; rfl
              | stuck => trivial

/-- one turn of the step loop -/
def BodySpec (r : Except FErr StepR) (st : StateV) (o : MOut) : Prop :=
  match r with
  | .error e => o = .fail e
  | .ok (.out v _) => o = .ret (.value v)
  | .ok .stuck => o = .ret (.state st)
  | .ok (.moved s' e') => ∃ σ', o = .next σ' ∧ σ'.state = s' ∧ σ'.callEnv = e'

theorem exec_stepBody (arms : List MArm) (n : Nat) (σ : MS) :
    BodySpec (Fsm.stepArms σ.state σ.callEnv (arms.filterMap armOf)) σ.state (exec modelOps n arms stepBody σ) := by
  have ha := arms_loop n arms arms (σ.setB .transitioned false) σ.state σ.callEnv rfl rfl rfl
  simp only [armFn, exec] at ha
  simp only [stepBody, exec]
  generalize iter _ arms _ = o at ha ⊢
  unfold StepSpec at ha
  unfold BodySpec
  cases hs : Fsm.stepArms σ.state σ.callEnv (arms.filterMap armOf) with
  | error e => rw [hs] at ha; simp only at ha ⊢; subst ha; rfl
  | ok r =>
    rw [hs] at ha
    cases r with
    | moved s' e1 =>
      simp only at ha ⊢
      obtain ⟨σ', rfl, h1, h2, h3⟩ := ha
      simp only [Store.evalB, Store.getB, h3, Option.map, Bool.not_true]
      exact ⟨σ', rfl, h1, h2⟩
    | out v e1 => simp only at ha ⊢; subst ha; rfl
    | stuck =>
      simp only at ha ⊢
      obtain ⟨σ', rfl, h1, h2, h3⟩ := ha
      simp only [Store.evalB, Store.getB, h3, Option.map, Bool.not_false, h1]

theorem steps_loop (arms : List MArm) (n : Nat) : ∀ (k : Nat) (σ : MS),
    Out.result (match iter (fun (_ : Unit) s' => exec modelOps n arms stepBody s') (List.replicate k ()) σ with
            | .next s' => exec modelOps n arms .failLimit s'
            | o => o) =
      some (Except.map ofResult (run (arms.filterMap armOf) k σ.state σ.callEnv)) := by
  intro k
  induction k with
  | zero => intro σ; rfl
  | succ k ih =>
    intro σ
    rw [List.replicate_succ, iter_cons]
    have hb := exec_stepBody arms n σ
    simp only [run]
    generalize exec modelOps n arms stepBody σ = o at hb ⊢
    unfold BodySpec at hb
    cases hs : Fsm.stepArms σ.state σ.callEnv (arms.filterMap armOf) with
    | error e => rw [hs] at hb; simp only at hb ⊢; subst hb; rfl
    | ok r =>
      rw [hs] at hb
      cases r with
      | moved s' e1 =>
        simp only at hb ⊢
        obtain ⟨σ', rfl, h1, h2⟩ := hb
        simp only [loopStep]
        rw [ih σ', h1, h2]
      | out v e1 => simp only at hb ⊢; subst hb; rfl
      | stuck => simp only at hb ⊢; subst hb; rfl

/-- `runSkeleton` of the accepted skeleton with the model's leaves is the model's `run` -/
theorem runSkeleton_expected (arms : List MArm) (k : Nat) (s : StateV) (env : Env) :
    runSkeleton modelOps expectedRunner k arms s env = some (Except.map ofResult (run (arms.filterMap armOf) k s env)) := by
  have h := steps_loop arms k k { state := s, callEnv := env }
  simp only [] at h
  rw [← h]
  simp only [runSkeleton, expectedRunner, exec, stepCount]
  generalize iter _ _ _ = o
  cases o <;> rfl

/-! ### the validation pass -/

theorem nameOf_varmOf (a : Fsm.Arm) : (varmOf a).stateName expectedValidator = some a.name := by
  unfold varmOf
  cases a.body <;> simp [VArm.stateName, expectedValidator]

theorem stateNames_expected (arms : List Fsm.Arm) :
    stateNames expectedValidator (arms.map varmOf) = arms.map (·.name) := by
  induction arms with
  | nil => rfl
  | cons a l ih =>
    unfold stateNames at ih ⊢
    simp only [List.map_cons, List.filterMap_cons, nameOf_varmOf, ih]

def guardTargets (gs : List Guard) : List String :=
  gs.filterMap (fun g => match g.target with | .next n _ => some n | _ => none)

theorem guardTargets_all (names : List String) (gs : List Guard) :
    (gs.map (fun g => [vtOf g.target])).all (fun ts => (targetNames expectedValidator ts).all names.contains) =
      (guardTargets gs).all names.contains := by
  induction gs with
  | nil => rfl
  | cons g gs ih =>
    unfold guardTargets at ih ⊢
    simp only [List.map_cons, List.all_cons, List.filterMap_cons, ih]
    cases hg : g.target <;> simp [targetNames, vtOf, expectedValidator]

theorem armTargets_ok (names : List String) (a : Fsm.Arm) :
    (varmOf a).targetsOk expectedValidator names .all .all .all =
    (match a.body with
     | .direct (.next n _) => [n]
     | .direct _ => []
     | .guarded gs => guardTargets gs).all names.contains := by
  unfold varmOf
  cases hb : a.body with
  | direct t => cases t <;> simp [VArm.targetsOk, pick, targetNames, vtOf, expectedValidator]
  | guarded gs => simp only [VArm.targetsOk, pick]; exact guardTargets_all names gs

theorem targets_expected (names : List String) (arms : List Fsm.Arm) (d : Option (List String)) (st : Option String) :
    checkOk expectedValidator names (arms.map varmOf) d st (.targets .all .all .all) =
      (arms.flatMap (fun a => match a.body with
        | .direct (.next n _) => [n]
        | .direct _ => []
        | .guarded gs => guardTargets gs)).all names.contains := by
  induction arms with
  | nil => rfl
  | cons a l ih =>
    unfold checkOk at ih ⊢
    simp only [List.map_cons, List.all_cons, List.flatMap_cons, List.all_append, armTargets_ok, ih]

/-- `runValidator` of the accepted validator is the model's `validate` -/
theorem runValidator_expected (m : Machine) :
    runValidator expectedValidator FErr.undefinedState (m.arms.map varmOf) (some m.declared) (some m.start.1) = validate m := by
  unfold runValidator validate
  simp only [stateNames_expected]
  have ht := targets_expected (m.arms.map (·.name)) m.arms (some m.declared) (some m.start.1)
  have hd : checkOk expectedValidator (m.arms.map (·.name)) (m.arms.map varmOf) (some m.declared) (some m.start.1) (.declared .all)
      = m.declared.all (m.arms.map (·.name)).contains := rfl
  have hs : checkOk expectedValidator (m.arms.map (·.name)) (m.arms.map varmOf) (some m.declared) (some m.start.1) .start
      = (m.arms.map (·.name)).contains m.start.1 := rfl
  have hc : expectedValidator.checks = [.declared .all, .start, .targets .all .all .all] := rfl
  have he : expectedValidator.emptyOk = true := rfl
  have htg : targets m = m.arms.flatMap (fun a => match a.body with
        | .direct (.next n _) => [n]
        | .direct _ => []
        | .guarded gs => guardTargets gs) := rfl
  rw [hc, he, htg]
  simp only [List.all_cons, List.all_nil, Bool.and_true, Bool.true_and, ht, hd, hs]
  generalize (m.arms.map (·.name)).isEmpty = b1
  generalize m.declared.all _ = b2
  generalize List.contains _ m.start.1 = b3
  generalize List.all _ _ = b4
  cases b1 <;> cases b2 <;> cases b3 <;> cases b4 <;> rfl

end MechVerif.FsmIR
