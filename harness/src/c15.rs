//! C15: ranges. Case: `range <kind> <excl|incl> <a> <step|-> <b> [<operand form>]`
use crate::common::*;
use crate::interp::*;

const IKINDS: &[(&str, i128, i128)] = &[
  ("u8", 0, 255), ("u16", 0, 65535), ("u32", 0, 4294967295), ("u64", 0, (1i128 << 53)), ("u128", 0, (1i128 << 53)),
  ("i8", -128, 127), ("i16", -32768, 32767), ("i32", -2147483648, 2147483647), ("i64", -(1i128 << 53), (1i128 << 53)), ("i128", -(1i128 << 53), (1i128 << 53)),
];

fn lit(kind: &str, t: &str) -> String {
  // operand text from the case encoding: decimal for ints, hex bits for floats
  match kind {
    "f64" => { let x = f64::from_bits(u64::from_str_radix(t, 16).unwrap()); fmt_float(x) }
    "f32" => { let x = f32::from_bits(u32::from_str_radix(t, 16).unwrap()); fmt_float(x as f64) }
    _ => t.to_string(),
  }
}
fn fmt_float(x: f64) -> String {
  let s = format!("{}", x);
  if s.contains('.') || s.contains("inf") || s.contains("NaN") { s } else { format!("{}.0", s) }
}

pub fn source(f: &[&str]) -> String {
  let kind = f[1]; let incl = f[2] == "incl"; let has_step = f[4] != "-";
  let mode = if f.len() > 6 { f[6] } else { "var" };
  let op = if incl { "..=" } else { ".." };
  let annot = if kind == "f64" { "".to_string() } else { format!("<{}>", kind) };
  // operand forms, one letter each for start, step, end: `l` written in place, `v` a variable, `m` a mutable variable
  let forms: Vec<char> = match mode {
    "var" => vec!['v'; 3], "mut" => vec!['m'; 3], "lit" => if kind == "f64" { vec!['l'; 3] } else { vec!['v'; 3] },
    m => m.chars().collect(),
  };
  // literal operands carry their kind; negative f64 literals are parenthesised
  let p = |t: &str| { let l = lit(kind, t); if kind != "f64" { format!("{}{}", l, annot) } else if l.starts_with('-') { format!("({})", l) } else { l } };
  let mut s = String::new();
  // as before, the three names are defined whichever forms are used
  let def = |name: &str, t: &str, form: char| format!("{}{}{} := {}\n", if form == 'm' { "~" } else { "" }, name, annot, lit(kind, t));
  s.push_str(&def("a", f[3], forms[0]));
  if has_step { s.push_str(&def("s", f[4], forms[1])); }
  s.push_str(&def("b", f[5], forms[2]));
  let opnd = |name: &str, t: &str, form: char| if form == 'l' { p(t) } else { name.to_string() };
  if has_step { s.push_str(&format!("{}..{}{}{}", opnd("a", f[3], forms[0]), opnd("s", f[4], forms[1]), op, opnd("b", f[5], forms[2]))); }
  else { s.push_str(&format!("{}{}{}", opnd("a", f[3], forms[0]), op, opnd("b", f[5], forms[2]))); }
  s
}

pub fn exec(case: &str) -> String {
  let f: Vec<&str> = case.split('\t').collect();
  let src = source(&f);
  match eval(&src) {
    Ok(v) => canon(&v),
    Err(e) => if e == "hostpanic" || e == "notcode" || e == "parseerr" || e == "parsepanic" { format!("harness:{}", e) } else { "err".to_string() },
  }
}

fn fbits(kind: &str, x: f64) -> String { if kind == "f64" { format!("{:016x}", x.to_bits()) } else { format!("{:08x}", (x as f32).to_bits()) } }

pub fn generate(seed: u64, thorough: bool, sink: &mut Sink) -> Vec<String> {
  let mut rng = Rng::new(seed);
  let mut cases = vec![];
  let per_kind = if thorough { 3000 } else { 260 };
  for (kind, lo, hi) in IKINDS {
    for n in 0..per_kind {
      // anchor points: boundaries of the kind and small values
      let anchors = [*lo, *lo + 1, -3, 0, 1, 7, *hi - 9, *hi - 1, *hi];
      let mut pick = |rng: &mut Rng| -> i128 {
        let a = *rng.pick(&anchors);
        let v = a + rng.range(-4, 12) as i128;
        v.clamp(*lo, *hi)
      };
      let a = pick(&mut rng);
      let span = match rng.below(6) { 0 => 0, 1 => -(rng.range(1, 5) as i128), 2 => (hi - lo), _ => rng.range(0, 40) as i128 };
      let b = (a + span).clamp(*lo, *hi);
      let form = if rng.chance(1, 2) { "incl" } else { "excl" };
      let step = match rng.below(8) { 0 | 1 | 2 => "-".to_string(), 3 => "0".to_string(),
        4 if *lo < 0 => (-(rng.range(1, 4))).to_string(), _ => rng.range(1, 9).to_string() };
      // keep results small: a full-span range is only generated for 8-bit kinds
      if span > 300 && !(kind.ends_with('8') && !kind.ends_with("128")) { continue; }
      // `-32768<i16>` is the negation of a literal that does not fit the kind (a matter of literals, C13), so the
      // least value of a signed kind is never written in place
      let mixed: String = [a.to_string(), step.clone(), b.to_string()].iter().map(|t| { let c = *rng.pick(&['l', 'v', 'v', 'm']); if c == 'l' && *lo < 0 && *t == lo.to_string() { 'v' } else { c } }).collect();
      let mode = if rng.chance(1, 2) { mixed.as_str() } else { *rng.pick(&["var", "var", "mut"]) };
      cases.push(format!("range\t{}\t{}\t{}\t{}\t{}\t{}", kind, form, a, step, b, mode));
      sink.hit(&format!("{}:{}:{}", kind, form, if step == "-" { "nostep" } else if step == "0" { "zerostep" } else if step.starts_with('-') { "negstep" } else { "step" }));
      sink.hit(&format!("operands:{}", mode));
      if n < 3 { sink.sample(cases[cases.len() - 1].clone()); }
    }
  }
  for kind in ["f64", "f32"] {
    for _ in 0..(per_kind * 2) {
      let q = |rng: &mut Rng| -> f64 { (rng.range(-40, 60) as f64) / [1.0, 2.0, 4.0, 8.0][rng.below(4) as usize] };
      let a = q(&mut rng);
      let b = match rng.below(6) { 0 => a, 1 => a - (rng.range(1, 8) as f64) / 4.0, _ => a + (rng.range(0, 80) as f64) / 8.0 };
      let form = if rng.chance(1, 2) { "incl" } else { "excl" };
      let step = match rng.below(8) { 0 | 1 | 2 => "-".to_string(), 3 => fbits(kind, 0.0), 4 => fbits(kind, -(rng.range(1, 8) as f64) / 4.0),
        _ => fbits(kind, (rng.range(1, 24) as f64) / 8.0) };
      let mixed: String = (0..3).map(|_| *rng.pick(&['l', 'v', 'v', 'm'])).collect();
      let mode = if rng.chance(1, 2) { mixed.as_str() } else if kind == "f64" { *rng.pick(&["var", "mut", "lit"]) } else { *rng.pick(&["var", "mut"]) };
      cases.push(format!("range\t{}\t{}\t{}\t{}\t{}\t{}", kind, form, fbits(kind, a), step, fbits(kind, b), mode));
      sink.hit(&format!("{}:{}:{}:{}", kind, form, if step == "-" { "nostep" } else { "step" }, mode));
    }
  }
  // f32 operands that are not dyadic (tenths): the span b - a is not representable in f32, so a count computed from
  // a span rounded in f32 differs from the count of the terms before the end; stepped forms, both endings
  for _ in 0..(per_kind * 2) {
    let a = (rng.range(-30, 60) as f64) / 10.0;
    let b = a + (rng.range(1, 45) as f64) / 10.0;
    let s = (*rng.pick(&[1i64, 2, 3, 4, 5, 7, 1, 2])) as f64 / 10.0;
    let form = if rng.chance(1, 2) { "incl" } else { "excl" };
    let mode = *rng.pick(&["var", "mut", "vvm", "mvv"]);
    cases.push(format!("range\tf32\t{}\t{}\t{}\t{}\t{}", form, fbits("f32", a), fbits("f32", s), fbits("f32", b), mode));
    sink.hit(&format!("f32-tenths:{}", form));
  }
  // kinds without a range implementation
  for (a, s, b, f) in [("1/2", "-", "5/2", "excl"), ("1/2", "-", "5/2", "incl"), ("1/4", "1/2", "2/1", "incl"), ("3/1", "-", "1/1", "excl")] { cases.push(format!("range\tr64\t{}\t{}\t{}\t{}\tvar", f, a, s, b)); sink.hit("r64"); }
  cases
}
