import MechVerif.Gen.ConcatKernels
import MechVerif.Lemmas.Concat
open MechVerif.Num MechVerif.Mat MechVerif.Concat
#check @Nat.mul_add_mod
#check @Nat.mul_add_mod'
#check @Nat.add_mul_mod_self_left
#check @Nat.add_mul_mod_self_right
#check @Nat.mul_add_mod_self_left
#check @List.take_drop
#check @List.drop_drop
#check @List.take_append_drop
#check @List.drop_eq_getElem_cons
#check @List.take_add
#check @List.take_succ
