import MechVerif.Driver.Util
import MechVerif.Model.Crc
import MechVerif.Model.Bytecode
import MechVerif.Model.Loader
import MechVerif.Model.Emit
namespace MechVerif.Driver
open MechVerif.Crc MechVerif.Bytecode

def bytesOfHex (s : String) : Option (List Byte) :=
  (unhexBytes s).map (fun b => b.toList.map (fun x => BitVec.ofNat 8 x.toNat))

def hex8 (v : BitVec 32) : String :=
  String.ofList ((List.range 8).reverse.map (fun i => hexNibble ((v.toNat >>> (4 * i)) % 16)))

def flipBitAt (f : List Byte) (b : Nat) : List Byte :=
  f.modify (b / 8) (fun x => x ^^^ (1#8 <<< (b % 8)))

def parseHexNat (s : String) : Nat :=
  s.toList.foldl (fun acc c => acc * 16 + (hexDigit c).getD 0) 0

def mutate (f : List Byte) (spec : String) : Option (List Byte) :=
  match spec.splitOn ":" with
  | ["none"] => some f
  | ["trunc", n] => n.toNat?.map (fun n => f.take n)
  | ["flip", b] => b.toNat?.map (fun b => flipBitAt f b)
  | ["burst", s, m] =>
    match s.toNat? with
    | none => none
    | some start =>
      let mask := parseHexNat m
      some ((List.range 32).foldl (fun g i => if mask.testBit i && (start + i) / 8 < g.length then flipBitAt g (start + i) else g) f)
  | _ => none

def verifyObs (f : List Byte) (pristine : Bool) : String :=
  match verify f with
  | .error .short => "rejected:short"
  | .error .crc => "rejected:crc"
  | .ok _ => if pristine then "accepted" else "crc-pass"

def parseInstr (s : String) : Option Instr :=
  match s.splitOn ":" with
  | ["C", d, c] => do pure (.constLoad (← d.toNat?) (← c.toNat?))
  | ["N", f, d] => do pure (.nullOp (← f.toNat?) (← d.toNat?))
  | ["U", f, d, a] => do pure (.unOp (← f.toNat?) (← d.toNat?) (← a.toNat?))
  | ["B", f, d, a, b] => do pure (.binOp (← f.toNat?) (← d.toNat?) (← a.toNat?) (← b.toNat?))
  | ["T", f, d, a, b, c] => do pure (.ternOp (← f.toNat?) (← d.toNat?) (← a.toNat?) (← b.toNat?) (← c.toNat?))
  | ["Q", f, d, a, b, c, e] => do pure (.quadOp (← f.toNat?) (← d.toNat?) (← a.toNat?) (← b.toNat?) (← c.toNat?) (← e.toNat?))
  | ["V", f, d, args] => do
      let as ← if args.isEmpty then some [] else (args.splitOn ",").mapM (·.toNat?)
      pure (.varArg (← f.toNat?) (← d.toNat?) as)
  | ["R", s] => do pure (.ret (← s.toNat?))
  | _ => none

def instrText : Instr → String
  | .constLoad d c => s!"C:{d}:{c}"
  | .nullOp f d => s!"N:{f}:{d}"
  | .unOp f d a => s!"U:{f}:{d}:{a}"
  | .binOp f d a b => s!"B:{f}:{d}:{a}:{b}"
  | .ternOp f d a b c => s!"T:{f}:{d}:{a}:{b}:{c}"
  | .quadOp f d a b c e => s!"Q:{f}:{d}:{a}:{b}:{c}:{e}"
  | .varArg f d args => s!"V:{f}:{d}:" ++ ",".intercalate (args.map toString)
  | .ret s => s!"R:{s}"

def instrsText (is : List Instr) : String :=
  if is.isEmpty then "-" else ";".intercalate (is.map instrText)

def sortS (l : List String) : List String := (l.toArray.qsort (· < ·)).toList

def hexOfBytesL (l : List Byte) : String := hexOfBytes (ByteArray.mk (l.map (fun b => UInt8.ofNat b.toNat)).toArray)

def utf8Valid (l : List Byte) : Bool := String.validateUTF8 (ByteArray.mk (l.map (fun b => UInt8.ofNat b.toNat)).toArray)

def lerrText : Loader.LErr → String
  | .short => "err:FileTooShort" | .crc => "err:CrcMismatch" | .io => "err:IoError" | .magic => "err:InvalidMagicNumber"
  | .unknownType _ => "err:UnknownConstantType" | .utf8 => "err:InvalidUtf8InDict"
  | .instr .truncated => "err:TruncatedInstruction" | .instr .eof => "err:IoError"
  | .instr (.invalidOpcode _) => "err:InvalidOpcode" | .instr .fuel => "err:fuel"

/-- keep the last entry of each key (HashMap insertion), then sort the rendered entries -/
def lastWins {α : Type} (l : List (Nat × α)) : List (Nat × α) :=
  l.foldl (fun acc p => (acc.filter (fun q => q.1 != p.1)) ++ [p]) []

def loadedText (p : Loader.Loaded) : String :=
  let h := p.header
  let hf := ",".intercalate ([hexOfBytesL h.magic] ++ ([h.version, h.mechVer, h.flags, h.regCount, h.instrCount, h.featureCount, h.featureOff,
    h.typesCount, h.typesOff, h.constCount, h.constTblOff, h.constTblLen, h.constBlobOff, h.constBlobLen, h.symbolsLen, h.symbolsOff,
    h.instrOff, h.instrLen, h.dictOff, h.dictLen, h.reserved].map toString))
  let feats := ",".intercalate (p.features.map toString)
  let types := ";".intercalate (p.types.map (fun t => s!"{t.1}:" ++ (if t.2.isEmpty then "-" else hexOfBytesL t.2)))
  let consts := ";".intercalate (p.consts.map (fun c => s!"{c.typeId}:{c.enc}:{c.align}:{c.flags}:{c.reserved}:{c.offset}:{c.length}"))
  -- `symbols` is a map id -> register (the last entry of an id wins); `mutable_symbols` is the set of ids
  -- that had the flag in any of their entries
  let syms := ";".intercalate (sortS ((lastWins (p.symbols.map (fun s => (s.1, s.2)))).map (fun s =>
    s!"{s.1}:{if p.symbols.any (fun t => t.1 == s.1 && t.2.1) then 1 else 0}:{s.2.2}")))
  let dict := ";".intercalate (sortS ((lastWins p.dict).map (fun d => s!"{d.1}:" ++ (if d.2.isEmpty then "-" else hexOfBytesL d.2))))
  let instrs := if p.instrs.isEmpty then "" else ";".intercalate (p.instrs.map instrText)
  s!"ok|H={hf}|F={feats}|T={types}|C={consts}|B=" ++ (if p.blob.isEmpty then "-" else hexOfBytesL p.blob) ++ s!"|S={syms}|I={instrs}|D={dict}"

def runC07 (fields : List String) (obs : String) : String × String × String :=
  let eqv (m : String) := (m, if obs == m then "ok" else "bad:expected " ++ m, "-")
  match fields with
  | ["load", cls, hx] =>
    (match bytesOfHex hx with
     | none => ("bad-case", "bad-case", "-")
     | some bs =>
       -- the constant decoder's outcome (V=…) is echoed: only the loader is modelled here
       let vpart := match obs.splitOn "|V=" with | [_, v] => "|V=" ++ v | _ => ""
       let model := match Loader.load utf8Valid bs with
         | .ok p => loadedText p ++ vpart
         | .error e => lerrText e
       let verdict :=
         if obs == "abort" then "bad:the loader aborted the process"
         else if obs == "hang" then "bad:the loader did not return within 20 s"
         else if obs.startsWith "panic" then "bad:the loader panicked"
         else if (obs.splitOn "|V=panic").length > 1 then "bad:the constant decoder panicked"
         else if obs.endsWith "|V=abort" then "bad:the constant decoder aborted the process"
         else if obs.endsWith "|V=hang" then "bad:the constant decoder did not return within 20 s"
         else if cls == "emitted" && !(obs.startsWith "ok|") then "bad:an emitted file was rejected"
         else if (cls == "flip" || cls == "burst" || cls == "truncated") && obs.startsWith "ok|" then "bad:a damaged file was accepted"
         else "ok"
       -- C07-D6: the decoders of string, matrix, set and table constants (`ConstElem::from_le`) panic on a
       -- payload that is not what the compiler wrote; scalar constants are decoded with explicit size checks
       let viaFromLe := match Loader.load utf8Valid bs with
         | .ok p => p.consts.any (fun c => match p.types[c.typeId]? with
             | some (tag, _) => tag == 15 || (21 ≤ tag && tag ≤ 37) || tag == 42 || tag == 45
             | none => false)
         | .error _ => false
       -- the panics of the from_le decoders: a declared length / shape / count beyond the payload, a short read, an
       -- element decoder that is not implemented.  A panic of another origin (an index or slice of the loader or of
       -- decode_const_entries itself) is not this finding.
       let slug := ((obs.splitOn "|V=panic:").getD 1 "")
       let fromLePanic := ["String__from_le", "Cannot_create_Matrix", "read_", "not_implemented", "called__Result", "range_start_index", "capacity_overflow", "index_out_of_bounds"].any (fun p => slug.startsWith p)
       let region := if verdict == "ok" then "-" else if (((obs.splitOn "|V=panic").length > 1 && fromLePanic) || obs.endsWith "|V=abort" || obs.endsWith "|V=hang") && viaFromLe then "C07-D6" else "-"
       (model, verdict, region))
  | ["crc", h] =>
    match bytesOfHex h with
    | some f => eqv (hex8 (crc32 f))
    | none => ("bad-case", "bad-case", "-")
  | ["dmg", h, spec] =>
    match bytesOfHex h with
    | none => ("bad-case", "bad-case", "-")
    | some f =>
      match mutate f spec with
      | none => ("bad-case", "bad-case", "-")
      | some g =>
        -- files reaching `dmg … none` with a valid trailer are emitted files: they must load
        let pristine := spec == "none"
        let m := verifyObs g pristine
        -- spec: a damaged emitted file must be rejected (any error kind); a pristine one accepted;
        -- arbitrary byte strings (pristine, but failing the CRC) must be rejected without a host panic
        let v :=
          if pristine then (if obs == m then "ok" else "bad:expected " ++ m)
          else if obs.startsWith "rejected" then "ok" else "bad:damaged file must be rejected"
        -- model agreement is on the CRC stage only: any rejection kind after a CRC pass is not modelled here
        let m' := if !pristine && m == "crc-pass" then obs else m
        (m', v, "-")
  | ["sweep", h, kind] =>
    match bytesOfHex h with
    | none => ("bad-case", "bad-case", "-")
    | some f =>
      if kind == "flips" then
        -- by theorem C07_verify_rejects_flip every single-bit flip of a verifying file is rejected
        let n := 8 * f.length
        eqv s!"rejected={n}/{n}"
      else
        let n := f.length
        let rej := ((List.range n).filter (fun k => !verifies (f.take k))).length
        let m := s!"rejected={rej}/{n}"
        (m, if obs == s!"rejected={n}/{n}" then "ok" else "bad:every truncation must be rejected", "-")
  | ["rt", h] =>
    -- the model loads the file and writes it again (Model/Emit.lean `toBytes`, theorem C07_file_roundtrip)
    match bytesOfHex h with
    | none => ("bad-case", "bad-case", "-")
    | some f =>
      let m := match Loader.load utf8Valid f with
        | .ok L => if Loader.toBytes L == f then "same" else "diff"
        | .error _ => "err"
      (m, if obs == "same" then "ok" else "bad:decoding and re-encoding an emitted file must reproduce its bytes", "-")
  | ["instrs", t] =>
    let parsed := if t == "-" then some [] else (t.splitOn ";").mapM parseInstr
    match parsed with
    | none => ("bad-case", "bad-case", "-")
    | some is =>
      let enc := encodeInstrs is
      let m := match decodeInstrs (enc.length + 1) enc with
        | .ok is' => "ok:" ++ instrsText is'
        | .error .truncated => "err:truncated"
        | .error _ => "err:other"
      let region := if noTrailingRet is then "-" else "C07-D4"
      (m, if obs == "ok:" ++ instrsText is then "ok" else "bad:instruction stream must round-trip", region)
  | _ => ("bad-case", "bad-case", "-")

end MechVerif.Driver
