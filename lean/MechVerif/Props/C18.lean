/-
C18 — Table joins are the relational-algebra joins on the shared columns.

`joinRows` is the loop of `build_joined_table` (Model/Table.lean); `specRows` is the
declarative join (Lemmas/Table.lean).  All statements hold for all tables: any number of
columns and rows, any cell values, duplicate keys, empty sides, no shared column.
-/
import MechVerif.Lemmas.Table
import MechVerif.Lemmas.JoinKernel
namespace MechVerif.Tbl
open MechVerif.SetM

/-- The loops compute the relational-algebra join, row for row and in a fixed order (so in
    particular as a multiset), for every join operator. -/
theorem C18_join_is_relational (mode : JoinMode) (L R : List Col) (A B : List Row) :
    joinRows mode L R A B = specRows mode L R A B := joinRows_eq_spec mode L R A B

/-! what the declarative join is, operator by operator -/

/-- inner join: every matching pair (a, b) exactly once, merged -/
theorem C18_inner_pairs (L R : List Col) (A B : List Row) :
    specRows .inner L R A B =
      ((A.flatMap (fun a => B.map (fun b => (a, b)))).filter (fun p => rowsMatch (commonCols L R) p.1 p.2)).map
        (fun p => mergeRow (rhsOnly L R) p.1 p.2) := by
  simp only [specRows]
  induction A with
  | nil => rfl
  | cons a A ih =>
    simp only [List.flatMap_cons, List.filter_append, List.map_append, ih]
    congr 1
    simp [rowsFor, List.filter_map, List.map_map, Function.comp_def]

/-- left outer join: the matching pairs, and each left row without a partner once, padded
    with empty cells -/
theorem C18_left_rows (L R : List Col) (A B : List Row) (r : Row) :
    r ∈ specRows .left L R A B ↔
      (∃ a ∈ A, ∃ b ∈ B, rowsMatch (commonCols L R) a b = true ∧ r = mergeRow (rhsOnly L R) a b) ∨
      (∃ a ∈ A, (∀ b ∈ B, rowsMatch (commonCols L R) a b = false) ∧ r = padRight (rhsOnly L R) a) := by
  simp only [specRows, rowsFor, List.mem_flatMap]
  constructor
  · rintro ⟨a, ha, hr⟩
    split at hr
    · next he =>
      simp only [List.mem_singleton] at hr
      exact Or.inr ⟨a, ha, (filter_isEmpty_iff _ _).1 he, hr⟩
    · simp only [List.mem_map, List.mem_filter] at hr
      obtain ⟨b, ⟨hb, hm⟩, rfl⟩ := hr
      exact Or.inl ⟨a, ha, b, hb, hm, rfl⟩
  · rintro (⟨a, ha, b, hb, hm, rfl⟩ | ⟨a, ha, hno, rfl⟩)
    · refine ⟨a, ha, ?_⟩
      split
      · next he => have := (filter_isEmpty_iff _ _).1 he b hb; rw [hm] at this; cases this
      · exact List.mem_map.2 ⟨b, List.mem_filter.2 ⟨hb, hm⟩, rfl⟩
    · refine ⟨a, ha, ?_⟩
      rw [if_pos ((filter_isEmpty_iff _ _).2 hno)]
      exact List.mem_singleton.2 rfl

/-- right outer join = the inner join followed by each right row without a partner once -/
theorem C18_right_rows (L R : List Col) (A B : List Row) :
    specRows .right L R A B = specRows .inner L R A B ++
      (B.filter (fun b => !A.any (fun a => rowsMatch (commonCols L R) a b))).map
        (padLeft L.length (commonCols L R) (rhsOnly L R)) := by
  have : rowsFor .right (commonCols L R) (rhsOnly L R) B = rowsFor .inner (commonCols L R) (rhsOnly L R) B := by
    funext a; rfl
  simp [specRows, this, unmatchedRight, matchedBy]

/-- full outer join = the left outer join followed by the unmatched right rows -/
theorem C18_full_rows (L R : List Col) (A B : List Row) :
    specRows .full L R A B = specRows .left L R A B ++
      (B.filter (fun b => !A.any (fun a => rowsMatch (commonCols L R) a b))).map
        (padLeft L.length (commonCols L R) (rhsOnly L R)) := by
  have : rowsFor .full (commonCols L R) (rhsOnly L R) B = rowsFor .left (commonCols L R) (rhsOnly L R) B := by
    funext a; rfl
  simp [specRows, this, unmatchedRight, matchedBy]

/-- left semi join: the left rows that have a partner, each once, unchanged and in order -/
theorem C18_semi_rows (L R : List Col) (A B : List Row) :
    specRows .semi L R A B = A.filter (fun a => B.any (rowsMatch (commonCols L R) a)) := by
  simp only [specRows]
  induction A with
  | nil => rfl
  | cons a A ih =>
    simp only [List.flatMap_cons, List.filter_cons, ih]
    cases h : B.any (rowsMatch (commonCols L R) a)
    · have : (B.filter (rowsMatch (commonCols L R) a)).isEmpty = true := by
        rw [filter_isEmpty_iff]; intro b hb
        cases hm : rowsMatch (commonCols L R) a b with
        | false => rfl
        | true => have := List.any_eq_true.2 ⟨b, hb, hm⟩; rw [h] at this; cases this
      simp [rowsFor, this]
    · obtain ⟨b, hb, hm⟩ := List.any_eq_true.1 h
      have : (B.filter (rowsMatch (commonCols L R) a)).isEmpty = false := by
        cases he : (B.filter (rowsMatch (commonCols L R) a)).isEmpty with
        | false => rfl
        | true => have := (filter_isEmpty_iff _ _).1 he b hb; rw [hm] at this; cases this
      simp [rowsFor, this]

/-- left anti join: the left rows without a partner -/
theorem C18_anti_rows (L R : List Col) (A B : List Row) :
    specRows .anti L R A B = A.filter (fun a => !B.any (rowsMatch (commonCols L R) a)) := by
  simp only [specRows]
  induction A with
  | nil => rfl
  | cons a A ih =>
    simp only [List.flatMap_cons, List.filter_cons, ih]
    cases h : B.any (rowsMatch (commonCols L R) a)
    · have : (B.filter (rowsMatch (commonCols L R) a)).isEmpty = true := by
        rw [filter_isEmpty_iff]; intro b hb
        cases hm : rowsMatch (commonCols L R) a b with
        | false => rfl
        | true => have := List.any_eq_true.2 ⟨b, hb, hm⟩; rw [h] at this; cases this
      simp [rowsFor, this]
    · obtain ⟨b, hb, hm⟩ := List.any_eq_true.1 h
      have : (B.filter (rowsMatch (commonCols L R) a)).isEmpty = false := by
        cases he : (B.filter (rowsMatch (commonCols L R) a)).isEmpty with
        | false => rfl
        | true => have := (filter_isEmpty_iff _ _).1 he b hb; rw [hm] at this; cases this
      simp [rowsFor, this]

/-- semi and anti join partition the left table -/
theorem C18_semi_anti_partition (L R : List Col) (A B : List Row) :
    (specRows .semi L R A B).length + (specRows .anti L R A B).length = A.length := by
  rw [C18_semi_rows, C18_anti_rows]
  induction A with
  | nil => rfl
  | cons a A ih =>
    simp only [List.filter_cons]
    cases B.any (rowsMatch (commonCols L R) a) <;> simp <;> omega

/-- without a commonly named column every pair matches: the join is the cross product -/
theorem C18_no_shared_is_product (L R : List Col) (A B : List Row) (h : commonCols L R = []) :
    specRows .inner L R A B = A.flatMap (fun a => B.map (fun b => mergeRow (rhsOnly L R) a b)) := by
  simp only [specRows]
  congr 1
  funext a
  have : B.filter (rowsMatch [] a) = B := List.filter_eq_self.2 (fun b _ => by simp [rowsMatch])
  simp [rowsFor, h, this]

/-! shape: the union of the columns, optional where a partner can be missing -/

theorem C18_row_width (mode : JoinMode) (L R : List Col) (A B : List Row)
    (hA : ∀ a ∈ A, a.length = L.length) (r : Row) (hr : r ∈ specRows mode L R A B) :
    r.length = (match mode with | .semi | .anti => L.length | _ => L.length + (rhsOnly L R).length) := by
  have hfor : ∀ a ∈ A, ∀ r ∈ rowsFor mode (commonCols L R) (rhsOnly L R) B a,
      r.length = (match mode with | .semi | .anti => L.length | _ => L.length + (rhsOnly L R).length) := by
    intro a ha r hr
    cases mode <;> simp only [rowsFor] at hr
    · obtain ⟨b, _, rfl⟩ := List.mem_map.1 hr; simp [mergeRow, hA a ha]
    · split at hr
      · simp only [List.mem_singleton] at hr; subst hr; simp [padRight, hA a ha]
      · obtain ⟨b, _, rfl⟩ := List.mem_map.1 hr; simp [mergeRow, hA a ha]
    · obtain ⟨b, _, rfl⟩ := List.mem_map.1 hr; simp [mergeRow, hA a ha]
    · split at hr
      · simp only [List.mem_singleton] at hr; subst hr; simp [padRight, hA a ha]
      · obtain ⟨b, _, rfl⟩ := List.mem_map.1 hr; simp [mergeRow, hA a ha]
    · split at hr
      · simp only [List.mem_singleton] at hr; rw [hr]; exact hA a ha
      · cases hr
    · split at hr
      · simp only [List.mem_singleton] at hr; rw [hr]; exact hA a ha
      · cases hr
  have hun : ∀ r ∈ unmatchedRight L.length (commonCols L R) (rhsOnly L R) A B,
      r.length = L.length + (rhsOnly L R).length := by
    intro r hr
    obtain ⟨b, _, rfl⟩ := List.mem_map.1 hr
    simp [padLeft]
  cases mode <;> simp only [specRows] at hr
  · obtain ⟨a, ha, h⟩ := List.mem_flatMap.1 hr; exact hfor a ha r h
  · obtain ⟨a, ha, h⟩ := List.mem_flatMap.1 hr; exact hfor a ha r h
  · rcases List.mem_append.1 hr with h | h
    · obtain ⟨a, ha, h⟩ := List.mem_flatMap.1 h; exact hfor a ha r h
    · exact hun r h
  · rcases List.mem_append.1 hr with h | h
    · obtain ⟨a, ha, h⟩ := List.mem_flatMap.1 h; exact hfor a ha r h
    · exact hun r h
  · obtain ⟨a, ha, h⟩ := List.mem_flatMap.1 hr; exact hfor a ha r h
  · obtain ⟨a, ha, h⟩ := List.mem_flatMap.1 hr; exact hfor a ha r h

/-- the result has the left columns followed by the right columns that are not join keys
    (semi/anti: the left columns), by name -/
theorem C18_column_names (mode : JoinMode) (L R : List Col) :
    (joinCols mode L R).map (·.name) =
      (match mode with
       | .semi | .anti => L.map (·.name)
       | _ => L.map (·.name) ++ (rhsOnly L R).filterMap (fun j => (R[j]?).map (·.name))) := by
  have hL : ∀ (f : Col × Nat → Col), (∀ ci, (f ci).name = ci.1.name) →
      (L.zipIdx.map f).map (·.name) = L.map (·.name) := by
    intro f hf
    rw [List.map_map]
    calc List.map ((·.name) ∘ f) L.zipIdx = List.map ((·.name) ∘ Prod.fst) L.zipIdx :=
          List.map_congr_left (fun ci _ => hf ci)
      _ = (L.zipIdx.map Prod.fst).map (·.name) := by rw [List.map_map]
      _ = L.map (·.name) := by rw [List.zipIdx_map_fst]
  have hR : ∀ (g : Col → Col), (∀ c, (g c).name = c.name) →
      ((rhsOnly L R).filterMap (fun j => (R[j]?).map g)).map (·.name) =
        (rhsOnly L R).filterMap (fun j => (R[j]?).map (·.name)) := by
    intro g hg
    rw [List.map_filterMap]
    congr 1
    funext j
    cases R[j]? <;> simp [hg]
  cases mode <;> simp only [joinCols] <;> first
    | rfl
    | (rw [List.map_append, hL _ (by intro ci; split <;> rfl), hR _ (by intro c; split <;> rfl)])

/-- a right-only column is optional exactly under the operators that keep unmatched left
    rows (left, full); a left-only column exactly under those that keep unmatched right
    rows (right, full); join keys never are -/
theorem C18_optional_right (mode : JoinMode) (L R : List Col) (j : Nat) (c : Col)
    (hj : j ∈ rhsOnly L R) (hc : R[j]? = some c) (hopt : c.opt = false) (hm : mode ≠ .semi ∧ mode ≠ .anti) :
    ∃ c' ∈ joinCols mode L R, c'.name = c.name ∧ c'.kind = c.kind ∧
      (c'.opt = true ↔ (mode = .left ∨ mode = .full)) := by
  cases mode <;> simp only [joinCols] <;> first
    | exact absurd rfl hm.1
    | exact absurd rfl hm.2
    | (refine ⟨_, List.mem_append.2 (Or.inr (List.mem_filterMap.2 ⟨j, hj, by rw [hc]; rfl⟩)), ?_⟩
       simp [hopt])

/-! empty cells sit exactly in the padded positions -/

/-- In a left outer join of tables without empty cells, a row has empty cells exactly when
    its left row had no partner, and then exactly in the right-only columns. -/
theorem C18_left_padding (ro : List Nat) (a : Row) (ha : ∀ c ∈ a, c ≠ none) (i : Nat)
    (hi : i < (padRight ro a).length) : (padRight ro a)[i] = none ↔ a.length ≤ i := by
  simp only [padRight]
  by_cases h : i < a.length
  · rw [List.getElem_append_left h]
    constructor
    · intro hn; exact absurd hn (ha _ (List.getElem_mem h))
    · intro hle; omega
  · rw [List.getElem_append_right (by omega)]
    simp; omega

theorem C18_merge_no_empty (ro : List Nat) (a b : Row) (ha : ∀ c ∈ a, c ≠ none)
    (hb : ∀ j ∈ ro, cellAt b j ≠ none) : ∀ c ∈ mergeRow ro a b, c ≠ none := by
  intro c hc
  simp only [mergeRow, List.mem_append, List.mem_map] at hc
  rcases hc with hc | ⟨j, hj, rfl⟩
  · exact ha c hc
  · exact hb j hj

/-! row selection -/

/-- Selecting by an index vector returns exactly those rows, in the order of the indices
    (repeats allowed); an index that is 0 or past the last row is an error. -/
theorem C18_select_index (rows : List Row) (ix : List Nat) (out : List Row)
    (h : selectIdx rows ix = some out) :
    out.length = ix.length ∧ ∀ k (hk : k < ix.length), ∃ hk' : k < out.length,
      1 ≤ ix[k] ∧ rows[ix[k] - 1]? = some out[k] := by
  induction ix generalizing out with
  | nil => simp only [selectIdx, List.mapM_nil, Option.pure_def, Option.some.injEq] at h; subst h; simp
  | cons i ix ih =>
    simp only [selectIdx, List.mapM_cons, Option.bind_eq_bind, Option.pure_def] at h
    cases hi : (if i = 0 then none else rows[i - 1]?) with
    | none => rw [hi] at h; simp at h
    | some r =>
      rw [hi] at h
      simp only [Option.bind_some] at h
      cases hrest : List.mapM (fun i => if i = 0 then none else rows[i - 1]?) ix with
      | none => rw [hrest] at h; simp at h
      | some rest =>
        rw [hrest] at h
        simp only [Option.bind_some, Option.some.injEq] at h
        subst h
        obtain ⟨hl, hall⟩ := ih rest hrest
        refine ⟨by simp [hl], ?_⟩
        intro k hk
        cases k with
        | zero =>
          refine ⟨by simp, ?_⟩
          simp only [List.getElem_cons_zero]
          split at hi
          · cases hi
          · exact ⟨by omega, hi⟩
        | succ k =>
          simp only [List.length_cons] at hk
          obtain ⟨hk', h1, h2⟩ := hall k (by omega)
          exact ⟨by simp; omega, by simpa using h1, by simpa using h2⟩

theorem C18_select_index_rejects (rows : List Row) (ix : List Nat) (i : Nat) (hi : i ∈ ix)
    (hbad : i = 0 ∨ rows.length < i) : selectIdx rows ix = none := by
  induction ix with
  | nil => cases hi
  | cons j ix ih =>
    simp only [selectIdx, List.mapM_cons, Option.bind_eq_bind, Option.pure_def]
    rcases List.mem_cons.1 hi with rfl | hi'
    · have : (if i = 0 then none else rows[i - 1]?) = none := by
        rcases hbad with h0 | hlt
        · simp [h0]
        · split
          · rfl
          · exact List.getElem?_eq_none (by omega)
      rw [this]; rfl
    · have := ih hi'
      simp only [selectIdx] at this
      rw [this]
      cases (if j = 0 then none else rows[j - 1]?) <;> rfl

/-- Selecting by a mask with one flag per row returns exactly the flagged rows, in order. -/
theorem C18_select_mask (rows : List Row) (mask : List Bool) (h : mask.length = rows.length) :
    selectMask rows mask = ((List.range rows.length).filter (fun i => mask.getD i false)).map (fun i => rows.getD i []) := by
  induction rows generalizing mask with
  | nil => simp [selectMask]
  | cons r rows ih =>
    cases mask with
    | nil => simp at h
    | cons m mask =>
      simp only [List.length_cons, Nat.add_right_cancel_iff] at h
      have := ih mask h
      simp only [selectMask, List.zip_cons_cons, List.filter_cons, List.length_cons] at this ⊢
      rw [List.range_succ_eq_map]
      simp only [List.filter_cons, List.getD_cons_zero, List.filter_map, List.map_map]
      cases m <;> simp [this, Function.comp_def]


/-! ### the kernel as written

`Gen/JoinKernel.lean` is `TableJoinFxn::build_joined_table` with `rows_match`, `merge_rows`, `lhs_only_row` and
`make_optional_kind`, regenerated from table_ops.rs by tools/extract_join.py on every run, as Lean definitions over
`MechTable`s (columns keyed by id, names in a hash map iterated in any order, result rows as hash maps from id to value
that a last loop transposes into columns).  `toTable` reads a `MechTable` as a model table (columns in `data` order,
rows `1..=rows`).  `WF` says the two maps of a table have the same keys without duplicates and the column names are
distinct; `Compat` that an id shared by the two tables stands for the same name in both. -/

section AsWritten
open MechVerif.JoinIR MechVerif.Gen.JoinKernel

/-- The table `build_joined_table` returns is, column for column and row for row (in order), the model's join — for
    every mode, all tables, and every iteration order of the `col_names` hash maps. -/
theorem C18_kernel_as_written (mode : Gen.JoinKernel.JoinMode) (lhs rhs : MechTable)
    (hl : WF lhs) (hr : WF rhs) (hc : Compat lhs rhs) :
    toTable (build_joined_table lhs rhs mode) = join (toMode mode) (toTable lhs) (toTable rhs) :=
  kernel_join hl hr hc mode

/-- hence its rows are the relational-algebra join (list equality, so in particular as a multiset) -/
theorem C18_kernel_rows_are_relational (mode : Gen.JoinKernel.JoinMode) (lhs rhs : MechTable)
    (hl : WF lhs) (hr : WF rhs) (hc : Compat lhs rhs) :
    (toTable (build_joined_table lhs rhs mode)).rows =
      specRows (toMode mode) (toTable lhs).cols (toTable rhs).cols (toTable lhs).rows (toTable rhs).rows :=
  kernel_rows hl hr hc mode

/-- inner join as written: every matching pair (a, b) exactly once, merged -/
theorem C18_inner_join_as_written (lhs rhs : MechTable) (hl : WF lhs) (hr : WF rhs) (hc : Compat lhs rhs) :
    (toTable (build_joined_table lhs rhs .Inner)).rows =
      (((toTable lhs).rows.flatMap (fun a => (toTable rhs).rows.map (fun b => (a, b)))).filter
        (fun p => rowsMatch (commonCols (toTable lhs).cols (toTable rhs).cols) p.1 p.2)).map
        (fun p => mergeRow (rhsOnly (toTable lhs).cols (toTable rhs).cols) p.1 p.2) := by
  rw [C18_kernel_rows_are_relational .Inner lhs rhs hl hr hc]; exact C18_inner_pairs _ _ _ _

/-- left outer join as written -/
theorem C18_left_outer_as_written (lhs rhs : MechTable) (hl : WF lhs) (hr : WF rhs) (hc : Compat lhs rhs) (r : Row) :
    r ∈ (toTable (build_joined_table lhs rhs .LeftOuter)).rows ↔
      (∃ a ∈ (toTable lhs).rows, ∃ b ∈ (toTable rhs).rows,
        rowsMatch (commonCols (toTable lhs).cols (toTable rhs).cols) a b = true ∧
        r = mergeRow (rhsOnly (toTable lhs).cols (toTable rhs).cols) a b) ∨
      (∃ a ∈ (toTable lhs).rows,
        (∀ b ∈ (toTable rhs).rows, rowsMatch (commonCols (toTable lhs).cols (toTable rhs).cols) a b = false) ∧
        r = padRight (rhsOnly (toTable lhs).cols (toTable rhs).cols) a) := by
  rw [C18_kernel_rows_are_relational .LeftOuter lhs rhs hl hr hc]; exact C18_left_rows _ _ _ _ r

/-- right and full outer join as written: the inner / left outer join followed by each right row without a partner once,
    padded on the left (join keys taken from the right row) -/
theorem C18_right_outer_as_written (lhs rhs : MechTable) (hl : WF lhs) (hr : WF rhs) (hc : Compat lhs rhs) :
    (toTable (build_joined_table lhs rhs .RightOuter)).rows =
      (toTable (build_joined_table lhs rhs .Inner)).rows ++
      ((toTable rhs).rows.filter (fun b => !(toTable lhs).rows.any
          (fun a => rowsMatch (commonCols (toTable lhs).cols (toTable rhs).cols) a b))).map
        (padLeft (toTable lhs).cols.length (commonCols (toTable lhs).cols (toTable rhs).cols)
          (rhsOnly (toTable lhs).cols (toTable rhs).cols)) := by
  rw [C18_kernel_rows_are_relational .RightOuter lhs rhs hl hr hc, C18_kernel_rows_are_relational .Inner lhs rhs hl hr hc]
  exact C18_right_rows _ _ _ _

theorem C18_full_outer_as_written (lhs rhs : MechTable) (hl : WF lhs) (hr : WF rhs) (hc : Compat lhs rhs) :
    (toTable (build_joined_table lhs rhs .FullOuter)).rows =
      (toTable (build_joined_table lhs rhs .LeftOuter)).rows ++
      ((toTable rhs).rows.filter (fun b => !(toTable lhs).rows.any
          (fun a => rowsMatch (commonCols (toTable lhs).cols (toTable rhs).cols) a b))).map
        (padLeft (toTable lhs).cols.length (commonCols (toTable lhs).cols (toTable rhs).cols)
          (rhsOnly (toTable lhs).cols (toTable rhs).cols)) := by
  rw [C18_kernel_rows_are_relational .FullOuter lhs rhs hl hr hc, C18_kernel_rows_are_relational .LeftOuter lhs rhs hl hr hc]
  exact C18_full_rows _ _ _ _

/-- semi and anti join as written: the left rows with / without a partner, each once, unchanged, in order -/
theorem C18_semi_anti_as_written (lhs rhs : MechTable) (hl : WF lhs) (hr : WF rhs) (hc : Compat lhs rhs) :
    (toTable (build_joined_table lhs rhs .LeftSemi)).rows =
      (toTable lhs).rows.filter (fun a => (toTable rhs).rows.any
        (rowsMatch (commonCols (toTable lhs).cols (toTable rhs).cols) a)) ∧
    (toTable (build_joined_table lhs rhs .LeftAnti)).rows =
      (toTable lhs).rows.filter (fun a => !(toTable rhs).rows.any
        (rowsMatch (commonCols (toTable lhs).cols (toTable rhs).cols) a)) := by
  rw [C18_kernel_rows_are_relational .LeftSemi lhs rhs hl hr hc, C18_kernel_rows_are_relational .LeftAnti lhs rhs hl hr hc]
  exact ⟨C18_semi_rows _ _ _ _, C18_anti_rows _ _ _ _⟩

/-- the columns as written: by name the left columns followed by the right columns that are not join keys (semi/anti:
    the left columns) -/
theorem C18_columns_union_as_written (mode : Gen.JoinKernel.JoinMode) (lhs rhs : MechTable)
    (hl : WF lhs) (hr : WF rhs) (hc : Compat lhs rhs) :
    (toTable (build_joined_table lhs rhs mode)).cols.map (·.name) =
      (match toMode mode with
       | .semi | .anti => (toTable lhs).cols.map (·.name)
       | _ => (toTable lhs).cols.map (·.name) ++
          (rhsOnly (toTable lhs).cols (toTable rhs).cols).filterMap (fun j => ((toTable rhs).cols[j]?).map (·.name))) := by
  have := kernel_cols hl hr hc mode
  simp only [toTable]
  rw [this]; exact C18_column_names _ _ _

/-- optionality as written: a right-only column becomes optional exactly under left and full outer join -/
theorem C18_optional_right_as_written (mode : Gen.JoinKernel.JoinMode) (lhs rhs : MechTable)
    (hl : WF lhs) (hr : WF rhs) (hc : Compat lhs rhs) (j : Nat) (c : Col)
    (hj : j ∈ rhsOnly (toTable lhs).cols (toTable rhs).cols) (hcj : (toTable rhs).cols[j]? = some c)
    (hopt : c.opt = false) (hm : mode ≠ .LeftSemi ∧ mode ≠ .LeftAnti) :
    ∃ c' ∈ (toTable (build_joined_table lhs rhs mode)).cols, c'.name = c.name ∧ c'.kind = c.kind ∧
      (c'.opt = true ↔ (mode = .LeftOuter ∨ mode = .FullOuter)) := by
  have hcols := kernel_cols hl hr hc mode
  simp only [toTable] at hj hcj ⊢
  rw [hcols]
  have hm' : toMode mode ≠ .semi ∧ toMode mode ≠ .anti := by cases mode <;> simp_all [toMode]
  obtain ⟨c', hc', h1, h2, h3⟩ := C18_optional_right (toMode mode) _ _ j c hj hcj hopt hm'
  refine ⟨c', hc', h1, h2, h3.trans ?_⟩
  cases mode <;> simp [toMode]

/-- the `NativeFunctionCompiler` wrappers hand these modes to `compile_table_join`, which calls
    `build_joined_table(arguments[0], arguments[1], mode)`; the word forms (`register_descriptor!`) and the symbol forms
    (`TableOp` arms of expressions.rs, operands in order) reach the wrapper of their mode -/
theorem C18_compilers_as_written :
    operands = (0, 1) ∧ compilers = [("TableInnerJoin", .Inner), ("TableLeftOuterJoin", .LeftOuter), ("TableRightOuterJoin", .RightOuter),
      ("TableFullOuterJoin", .FullOuter), ("TableLeftSemiJoin", .LeftSemi), ("TableLeftAntiJoin", .LeftAnti)] ∧
    descriptors = [("table/join", "TableInnerJoin"), ("table/left-outer-join", "TableLeftOuterJoin"),
      ("table/right-outer-join", "TableRightOuterJoin"), ("table/full-outer-join", "TableFullOuterJoin"),
      ("table/left-semi-join", "TableLeftSemiJoin"), ("table/left-anti-join", "TableLeftAntiJoin")] ∧
    symbolForms = [("InnerJoin", "TableInnerJoin", true), ("LeftOuterJoin", "TableLeftOuterJoin", true),
      ("RightOuterJoin", "TableRightOuterJoin", true), ("FullOuterJoin", "TableFullOuterJoin", true),
      ("LeftSemiJoin", "TableLeftSemiJoin", true), ("LeftAntiJoin", "TableLeftAntiJoin", true)] := by
  decide

end AsWritten

/-! non-vacuity -/

example : specRows .inner [⟨"k", .bool, false⟩, ⟨"a", .bool, false⟩] [⟨"k", .bool, false⟩, ⟨"b", .bool, false⟩]
    [[some (.bool true), some (.bool false)], [some (.bool true), some (.bool true)]]
    [[some (.bool true), some (.bool true)], [some (.bool false), some (.bool true)]] =
    [[some (.bool true), some (.bool false), some (.bool true)], [some (.bool true), some (.bool true), some (.bool true)]] := by
  decide

/-! the kernel as written on two small tables (the `col_names` maps in different orders): the hypotheses of the
    as-written theorems hold and the full outer join is the expected one -/
section
open MechVerif.JoinIR MechVerif.Gen.JoinKernel
private def bv (x : Bool) : Value := ⟨some (.bool x)⟩
private def exL : MechTable := ⟨2, 2, [(10, (.base .bool, [bv true, bv false])), (11, (.base .bool, [bv true, bv true]))], [(11, "a"), (10, "k")]⟩
private def exR : MechTable := ⟨3, 2, [(10, (.base .bool, [bv true, bv true, bv false])), (12, (.base .bool, [bv false, bv true, bv true]))], [(10, "k"), (12, "b")]⟩

example : WF exL ∧ WF exR ∧ Compat exL exR ∧
    (toTable (build_joined_table exR exL .FullOuter)).rows =
      [[some (.bool true), some (.bool false), some (.bool true)],
       [some (.bool true), some (.bool true), some (.bool true)],
       [some (.bool false), some (.bool true), some (.bool true)]] ∧
    (toTable (build_joined_table exR exL .FullOuter)).cols = [⟨"k", .bool, false⟩, ⟨"b", .bool, true⟩, ⟨"a", .bool, true⟩] := by
  refine ⟨⟨by decide, by decide, by decide, ?_⟩, ⟨by decide, by decide, by decide, ?_⟩, ?_, by decide, by decide⟩
  · intro id; simp [exL]; omega
  · intro id; simp [exR]
  · intro l hl r hr h
    simp only [exL, exR, List.mem_cons, List.not_mem_nil, or_false] at hl hr
    rcases hl with rfl | rfl <;> rcases hr with rfl | rfl <;> simp_all
end

end MechVerif.Tbl
