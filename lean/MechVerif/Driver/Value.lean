/- Canonical value text shared by the interpreter-facing sub-protocols. -/
import MechVerif.Driver.Util
import MechVerif.Model.Num
namespace MechVerif.Driver
open MechVerif.Num

/-- exact dyadic rational m * 2^e -/
structure Dy where
  m : Int
  e : Int
deriving Repr

def Dy.ofInt (v : Int) : Dy := ⟨v, 0⟩

/-- bring two dyadics to a common exponent -/
def Dy.align (x y : Dy) : Int × Int × Int :=
  let e := min x.e y.e
  (x.m * (2 ^ (x.e - e).toNat : Int), y.m * (2 ^ (y.e - e).toNat : Int), e)

def Dy.add (x y : Dy) : Dy := let (a, b, e) := Dy.align x y; ⟨a + b, e⟩
def Dy.sub (x y : Dy) : Dy := let (a, b, e) := Dy.align x y; ⟨a - b, e⟩
def Dy.lt (x y : Dy) : Bool := let (a, b, _) := Dy.align x y; a < b
def Dy.le (x y : Dy) : Bool := let (a, b, _) := Dy.align x y; a ≤ b
def Dy.eq (x y : Dy) : Bool := let (a, b, _) := Dy.align x y; a == b
def Dy.mulNat (x : Dy) (n : Nat) : Dy := ⟨x.m * n, x.e⟩
def Dy.sign (x : Dy) : Int := if x.m < 0 then -1 else if x.m == 0 then 0 else 1
def Dy.isInt (x : Dy) : Bool := x.e ≥ 0 || x.m % (2 ^ (-x.e).toNat : Int) == 0

/-- exact value of an f64 bit pattern (none for inf / nan) -/
def dyOfF64Bits (b : UInt64) : Option Dy :=
  let n := b.toNat
  let sign : Int := if n / 2 ^ 63 == 1 then -1 else 1
  let ex : Nat := (n / 2 ^ 52) % 2048
  let mant : Nat := n % 2 ^ 52
  if ex == 2047 then none
  else if ex == 0 then some ⟨sign * (mant : Int), -1074⟩
  else some ⟨sign * ((mant + 2 ^ 52 : Nat) : Int), (ex : Int) - 1075⟩

def dyOfF32Bits (b : UInt32) : Option Dy :=
  let n := b.toNat
  let sign : Int := if n / 2 ^ 31 == 1 then -1 else 1
  let ex : Nat := (n / 2 ^ 23) % 256
  let mant : Nat := n % 2 ^ 23
  if ex == 255 then none
  else if ex == 0 then some ⟨sign * (mant : Int), -149⟩
  else some ⟨sign * ((mant + 2 ^ 23 : Nat) : Int), (ex : Int) - 150⟩

def parseHex (s : String) : Nat := s.toList.foldl (fun acc c => acc * 16 + (hexDigit c).getD 0) 0

def hexFixed (v : Nat) (digits : Nat) : String :=
  String.ofList ((List.range digits).reverse.map (fun i => hexNibble ((v >>> (4 * i)) % 16)))

def f64Text (x : Float) : String := if x.isNaN then "7ff8000000000000" else hexFixed x.toBits.toNat 16
def f32Text (x : Float32) : String := if x.isNaN then "7fc00000" else hexFixed x.toBits.toNat 8
def f64OfText (s : String) : Float := Float.ofBits (UInt64.ofNat (parseHex s))
def f32OfText (s : String) : Float32 := Float32.ofBits (UInt32.ofNat (parseHex s))

def parseInt (s : String) : Option Int := s.toInt?

/-- `mat:<kind>:<r>x<c>:[e1 e2 …]` -/
def matText (kind : String) (rows cols : Nat) (els : List String) : String :=
  s!"mat:{kind}:{rows}x{cols}:[" ++ " ".intercalate els ++ "]"

structure MatObs where
  kind : String
  rows : Nat
  cols : Nat
  els : List String

def parseMatObs (s : String) : Option MatObs :=
  match s.splitOn ":" with
  | ["mat", kind, shape, body] =>
    match shape.splitOn "x" with
    | [r, c] =>
      match r.toNat?, c.toNat? with
      | some r, some c =>
        let inner := ((body.drop 1).dropEnd 1).toString
        let els := if inner.isEmpty then [] else inner.splitOn " "
        some ⟨kind, r, c, els⟩
      | _, _ => none
    | _ => none
  | _ => none

end MechVerif.Driver
