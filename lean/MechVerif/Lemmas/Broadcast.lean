import MechVerif.Spec.Broadcast
namespace MechVerif.Mat
open MechVerif.Num

variable {α β : Type}

theorem bindE_ok {γ δ : Type} {x : Except Err γ} {g : γ → Except Err δ} {z : δ} :
    bindE x g = .ok z ↔ ∃ a, x = .ok a ∧ g a = .ok z := by
  cases x with
  | error e => simp [bindE]
  | ok a => simp [bindE]

theorem mapE_ok {γ δ : Type} {x : Except Err γ} {g : γ → δ} {z : δ} :
    mapE x g = .ok z ↔ ∃ a, x = .ok a ∧ z = g a := by
  cases x with
  | error e => simp [mapE]
  | ok a => simp [mapE]; exact eq_comm

theorem getE_ok {γ : Type} {l : List γ} {k : Nat} {x : γ} : getE l k = .ok x ↔ l[k]? = some x := by
  unfold getE
  cases h : l[k]? with
  | none => simp
  | some y => simp

theorem tab_sound {γ : Type} (g : Nat → Except Err γ) : ∀ (n s : Nat) (d : List γ),
    tabulateM g s n = .ok d →
    d.length = n ∧ ∀ k, k < n → ∃ y, g (s + k) = .ok y ∧ d[k]? = some y := by
  intro n
  induction n with
  | zero => intro s d h; simp [tabulateM] at h; subst h; simp
  | succ n ih =>
    intro s d h
    simp only [tabulateM] at h
    split at h
    · simp at h
    · rename_i y hy
      split at h
      · simp at h
      · rename_i ys hys
        simp only [Except.ok.injEq] at h; subst h
        obtain ⟨hl, hk⟩ := ih (s + 1) ys hys
        refine ⟨by simp [hl], ?_⟩
        intro k hklt
        cases k with
        | zero => exact ⟨y, by simpa using hy, by simp⟩
        | succ k =>
          obtain ⟨y', h1, h2⟩ := hk k (by omega)
          refine ⟨y', ?_, by simpa using h2⟩
          rw [show s + (k + 1) = s + 1 + k by omega]; exact h1

theorem tab_complete {γ : Type} (g : Nat → Except Err γ) : ∀ (n s : Nat),
    (∀ k, k < n → ∃ y, g (s + k) = .ok y) → ∃ d, tabulateM g s n = .ok d := by
  intro n
  induction n with
  | zero => intro s _; exact ⟨[], rfl⟩
  | succ n ih =>
    intro s h
    obtain ⟨y, hy⟩ := h 0 (by omega)
    obtain ⟨ys, hys⟩ := ih (s + 1) (fun k hk => by
      obtain ⟨y', h'⟩ := h (k + 1) (by omega)
      exact ⟨y', by rw [show s + 1 + k = s + (k + 1) by omega]; exact h'⟩)
    refine ⟨y :: ys, ?_⟩
    simp only [tabulateM]
    simp only [Nat.add_zero] at hy
    rw [hy, hys]

theorem cellwise_sound (f : α → α → Except Err β) (A B : Nat → Except Err α) (n : Nat) (d : List β)
    (h : cellwise f A B n = .ok d) :
    d.length = n ∧ ∀ k, k < n → ∃ x y z, A k = .ok x ∧ B k = .ok y ∧ f x y = .ok z ∧ d[k]? = some z := by
  obtain ⟨hl, hk⟩ := tab_sound _ n 0 d h
  refine ⟨hl, ?_⟩
  intro k hklt
  obtain ⟨z, hz, hd⟩ := hk k hklt
  simp only [Nat.zero_add] at hz
  obtain ⟨x, hx, hz2⟩ := bindE_ok.mp hz
  obtain ⟨y, hy, hz3⟩ := bindE_ok.mp hz2
  exact ⟨x, y, z, hx, hy, hz3, hd⟩

theorem cellwise_complete (f : α → α → Except Err β) (A B : Nat → Except Err α) (n : Nat)
    (h : ∀ k, k < n → ∃ x y z, A k = .ok x ∧ B k = .ok y ∧ f x y = .ok z) :
    ∃ d, cellwise f A B n = .ok d := by
  apply tab_complete
  intro k hk
  obtain ⟨x, y, z, hx, hy, hz⟩ := h k hk
  exact ⟨z, by simp only [Nat.zero_add]; rw [hx]; simp only [bindE]; rw [hy]; simp only [bindE]; exact hz⟩

/-! ### index arithmetic, confined here -/

theorem lin_lt (i j R C : Nat) (hi : i < R) (hj : j < C) : j * R + i < R * C := by
  have : (j + 1) * R ≤ C * R := Nat.mul_le_mul_right R (by omega)
  rw [Nat.add_mul, Nat.one_mul] at this
  rw [Nat.mul_comm R C]
  omega

theorem lin_mod (i j R : Nat) (hi : i < R) : (j * R + i) % R = i := by
  rw [Nat.add_comm, Nat.add_mul_mod_self_right, Nat.mod_eq_of_lt hi]

theorem lin_div (i j R : Nat) (hi : i < R) : (j * R + i) / R = j := by
  have hR : 0 < R := by omega
  rw [Nat.add_comm, Nat.add_mul_div_right _ _ hR, Nat.div_eq_of_lt hi, Nat.zero_add]

/-! ### storage forms versus shape classes -/

theorem form_RD (r c : Nat) : formOf r c = .RD ↔ isRow r c := by
  unfold formOf isRow
  split
  · simp_all
  · split <;> simp_all

theorem form_VD (r c : Nat) : formOf r c = .VD ↔ isCol r c := by
  unfold formOf isCol
  split
  · rename_i h; simp only [reduceCtorEq, false_iff]; omega
  · split <;> simp_all

theorem form_MD (r c : Nat) : formOf r c = .MD ↔ isMatrix r c := by
  unfold isMatrix
  rw [← form_RD, ← form_VD]
  cases formOf r c <;> simp

end MechVerif.Mat

namespace MechVerif.Mat
open MechVerif.Num
variable {α β : Type}

theorem form_cases (r c : Nat) :
    (formOf r c = .RD ∧ r = 1 ∧ c ≠ 1) ∨ (formOf r c = .VD ∧ c = 1 ∧ r ≠ 1) ∨
    (formOf r c = .MD ∧ ¬ (r = 1 ∧ c ≠ 1) ∧ ¬ (c = 1 ∧ r ≠ 1)) := by
  unfold formOf
  split
  · left; simp_all
  · split
    · right; left; simp_all
    · right; right; simp_all

/-- what `dispatch` decides for two matrices, as plain arithmetic facts -/
theorem dispatch_mat (m n : Mat α) (k : Kernel) (h : dispatch (.mat m) (.mat n) = .ok k) :
    (k = .zip ∧ m.rows = n.rows ∧ m.cols = n.cols) ∨
    (k = .matCol ∧ isMatrix m.rows m.cols ∧ isCol n.rows n.cols ∧ m.rows = n.rows) ∨
    (k = .matRow ∧ isMatrix m.rows m.cols ∧ isRow n.rows n.cols ∧ m.cols = n.cols) ∨
    (k = .colMat ∧ isCol m.rows m.cols ∧ isMatrix n.rows n.cols ∧ m.rows = n.rows) ∨
    (k = .rowMat ∧ isRow m.rows m.cols ∧ isMatrix n.rows n.cols ∧ m.cols = n.cols) := by
  unfold dispatch Mat.form at h
  rcases form_cases m.rows m.cols with ⟨f1, g1⟩ | ⟨f1, g1⟩ | ⟨f1, g1⟩ <;>
  rcases form_cases n.rows n.cols with ⟨f2, g2⟩ | ⟨f2, g2⟩ | ⟨f2, g2⟩ <;>
  simp only [f1, f2] at h <;>
  (try (split at h <;> simp only [Except.ok.injEq, reduceCtorEq] at h)) <;>
  (try subst h) <;>
  simp_all [isMatrix, isRow, isCol]

theorem dispatch_mat_error (m n : Mat α) (e : Err) (h : dispatch (.mat m) (.mat n) = .error e) :
    bshape (.mat m.rows m.cols) (.mat n.rows n.cols) = none := by
  unfold dispatch Mat.form at h
  simp only [bshape, isMatrix, isRow, isCol]
  rcases form_cases m.rows m.cols with ⟨f1, g1⟩ | ⟨f1, g1⟩ | ⟨f1, g1⟩ <;>
  rcases form_cases n.rows n.cols with ⟨f2, g2⟩ | ⟨f2, g2⟩ | ⟨f2, g2⟩ <;>
  simp only [f1, f2] at h
  all_goals (try split at h)
  all_goals (try (simp only [reduceCtorEq] at h))
  all_goals (
    have c0 : ¬ (m.rows = n.rows ∧ m.cols = n.cols) := by omega
    have c1 : ¬ ((¬(m.rows = 1 ∧ m.cols ≠ 1) ∧ ¬(m.cols = 1 ∧ m.rows ≠ 1)) ∧ (n.cols = 1 ∧ n.rows ≠ 1) ∧ n.rows = m.rows) := by omega
    have c2 : ¬ ((¬(m.rows = 1 ∧ m.cols ≠ 1) ∧ ¬(m.cols = 1 ∧ m.rows ≠ 1)) ∧ (n.rows = 1 ∧ n.cols ≠ 1) ∧ n.cols = m.cols) := by omega
    have c3 : ¬ ((m.cols = 1 ∧ m.rows ≠ 1) ∧ (¬(n.rows = 1 ∧ n.cols ≠ 1) ∧ ¬(n.cols = 1 ∧ n.rows ≠ 1)) ∧ m.rows = n.rows) := by omega
    have c4 : ¬ ((m.rows = 1 ∧ m.cols ≠ 1) ∧ (¬(n.rows = 1 ∧ n.cols ≠ 1) ∧ ¬(n.cols = 1 ∧ n.rows ≠ 1)) ∧ m.cols = n.cols) := by omega
    simp only [c0, c1, c2, c3, c4, if_false])

end MechVerif.Mat

namespace MechVerif.Mat
open MechVerif.Num
variable {α β : Type}

theorem dispatch_mat_bshape (m n : Mat α) (k : Kernel) (h : dispatch (.mat m) (.mat n) = .ok k) :
    bshape (.mat m.rows m.cols) (.mat n.rows n.cols) =
      some (.mat (outShape k (.mat m) (.mat n)).1 (outShape k (.mat m) (.mat n)).2) := by
  rcases dispatch_mat m n k h with ⟨hk, h1, h2⟩ | ⟨hk, hm, hn, he⟩ | ⟨hk, hm, hn, he⟩ | ⟨hk, hm, hn, he⟩ | ⟨hk, hm, hn, he⟩
  · subst hk
    simp only [bshape, outShape]
    rw [if_pos ⟨h1, h2⟩]
  · subst hk
    simp only [bshape, outShape]
    unfold isMatrix isRow isCol at hm
    unfold isCol at hn
    have c0 : ¬ (m.rows = n.rows ∧ m.cols = n.cols) := by omega
    rw [if_neg c0, if_pos ⟨by unfold isMatrix isRow isCol; omega, by unfold isCol; omega, he.symm⟩]
  · subst hk
    simp only [bshape, outShape]
    unfold isMatrix isRow isCol at hm
    unfold isRow at hn
    have c0 : ¬ (m.rows = n.rows ∧ m.cols = n.cols) := by omega
    have c1 : ¬ (isMatrix m.rows m.cols ∧ isCol n.rows n.cols ∧ n.rows = m.rows) := by
      unfold isMatrix isRow isCol; omega
    rw [if_neg c0, if_neg c1, if_pos ⟨by unfold isMatrix isRow isCol; omega, by unfold isRow; omega, he.symm⟩]
  · subst hk
    simp only [bshape, outShape]
    unfold isMatrix isRow isCol at hn
    unfold isCol at hm
    have c0 : ¬ (m.rows = n.rows ∧ m.cols = n.cols) := by omega
    have c1 : ¬ (isMatrix m.rows m.cols ∧ isCol n.rows n.cols ∧ n.rows = m.rows) := by
      unfold isMatrix isRow isCol; omega
    have c2 : ¬ (isMatrix m.rows m.cols ∧ isRow n.rows n.cols ∧ n.cols = m.cols) := by
      unfold isMatrix isRow isCol; omega
    rw [if_neg c0, if_neg c1, if_neg c2,
      if_pos ⟨by unfold isCol; omega, by unfold isMatrix isRow isCol; omega, he⟩]
  · subst hk
    simp only [bshape, outShape]
    unfold isMatrix isRow isCol at hn
    unfold isRow at hm
    have c0 : ¬ (m.rows = n.rows ∧ m.cols = n.cols) := by omega
    have c1 : ¬ (isMatrix m.rows m.cols ∧ isCol n.rows n.cols ∧ n.rows = m.rows) := by
      unfold isMatrix isRow isCol; omega
    have c2 : ¬ (isMatrix m.rows m.cols ∧ isRow n.rows n.cols ∧ n.cols = m.cols) := by
      unfold isMatrix isRow isCol; omega
    have c3 : ¬ (isCol m.rows m.cols ∧ isMatrix n.rows n.cols ∧ m.rows = n.rows) := by
      unfold isMatrix isRow isCol; omega
    rw [if_neg c0, if_neg c1, if_neg c2, if_neg c3,
      if_pos ⟨by unfold isRow; omega, by unfold isMatrix isRow isCol; omega, he⟩]

/-- the linear accessor of the left operand is the broadcast accessor of the spec -/
theorem lhsAt_bAt (m n : Mat α) (k : Kernel) (h : dispatch (.mat m) (.mat n) = .ok k)
    (i j : Nat)
    (hi : i < (outShape k (.mat m) (.mat n)).1) (hj : j < (outShape k (.mat m) (.mat n)).2) (x : α) :
    lhsAt k (.mat m) (outShape k (.mat m) (.mat n)).1 (j * (outShape k (.mat m) (.mat n)).1 + i) = .ok x →
    bAt (.mat m) (outShape k (.mat m) (.mat n)).1 (outShape k (.mat m) (.mat n)).2 i j = some x := by
  rcases dispatch_mat m n k h with ⟨hk, h1, h2⟩ | ⟨hk, hm, hn, he⟩ | ⟨hk, hm, hn, he⟩ | ⟨hk, hm, hn, he⟩ | ⟨hk, hm, hn, he⟩
  all_goals subst hk
  all_goals simp only [outShape] at hi hj ⊢
  all_goals simp only [lhsAt, bAt, getE_ok]
  · intro hx; simp only [and_self, if_true, Mat.get?, hi, hj]; exact hx
  · intro hx; simp only [and_self, if_true, Mat.get?, hi, hj]; exact hx
  · intro hx; simp only [and_self, if_true, Mat.get?, hi, hj]; exact hx
  · intro hx
    unfold isMatrix isRow isCol at hn
    unfold isCol at hm
    have c0 : ¬ (m.rows = n.rows ∧ m.cols = n.cols) := by omega
    rw [if_neg c0, if_pos ⟨hm.1, he⟩]
    rw [lin_mod i j n.rows hi] at hx
    have : 0 < m.cols := by omega
    simp only [Mat.get?, he, hi, this, and_self, if_true, Nat.zero_mul, Nat.zero_add]
    exact hx
  · intro hx
    unfold isMatrix isRow isCol at hn
    unfold isRow at hm
    have c0 : ¬ (m.rows = n.rows ∧ m.cols = n.cols) := by omega
    have c1 : ¬ (m.cols = 1 ∧ m.rows = n.rows) := by omega
    rw [if_neg c0, if_neg c1, if_pos ⟨hm.1, he⟩]
    rw [lin_div i j n.rows hi] at hx
    have h0 : 0 < m.rows := by omega
    have hjc : j < m.cols := by omega
    simp only [Mat.get?, h0, hjc, and_self, if_true, hm.1, Nat.mul_one, Nat.add_zero]
    exact hx

theorem rhsAt_bAt (m n : Mat α) (k : Kernel) (h : dispatch (.mat m) (.mat n) = .ok k)
    (i j : Nat)
    (hi : i < (outShape k (.mat m) (.mat n)).1) (hj : j < (outShape k (.mat m) (.mat n)).2) (y : α) :
    rhsAt k (.mat n) (outShape k (.mat m) (.mat n)).1 (j * (outShape k (.mat m) (.mat n)).1 + i) = .ok y →
    bAt (.mat n) (outShape k (.mat m) (.mat n)).1 (outShape k (.mat m) (.mat n)).2 i j = some y := by
  rcases dispatch_mat m n k h with ⟨hk, h1, h2⟩ | ⟨hk, hm, hn, he⟩ | ⟨hk, hm, hn, he⟩ | ⟨hk, hm, hn, he⟩ | ⟨hk, hm, hn, he⟩
  all_goals subst hk
  all_goals simp only [outShape] at hi hj ⊢
  all_goals simp only [rhsAt, bAt, getE_ok]
  · intro hy
    rw [if_pos ⟨h1.symm, h2.symm⟩]
    simp only [Mat.get?, ← h1, ← h2, hi, hj, and_self, if_true]; exact hy
  · intro hy
    unfold isMatrix isRow isCol at hm
    unfold isCol at hn
    have c0 : ¬ (n.rows = m.rows ∧ n.cols = m.cols) := by omega
    rw [if_neg c0, if_pos ⟨hn.1, he.symm⟩]
    rw [lin_mod i j m.rows hi] at hy
    have : 0 < n.cols := by omega
    have hin : i < n.rows := by omega
    simp only [Mat.get?, hin, this, and_self, if_true, Nat.zero_mul, Nat.zero_add]
    exact hy
  · intro hy
    unfold isMatrix isRow isCol at hm
    unfold isRow at hn
    have c0 : ¬ (n.rows = m.rows ∧ n.cols = m.cols) := by omega
    have c1 : ¬ (n.cols = 1 ∧ n.rows = m.rows) := by omega
    rw [if_neg c0, if_neg c1, if_pos ⟨hn.1, he.symm⟩]
    rw [lin_div i j m.rows hi] at hy
    have h0 : 0 < n.rows := by omega
    have hjc : j < n.cols := by omega
    simp only [Mat.get?, h0, hjc, and_self, if_true, hn.1, Nat.mul_one, Nat.add_zero]
    exact hy
  · intro hy; simp only [and_self, if_true, Mat.get?, hi, hj]; exact hy
  · intro hy; simp only [and_self, if_true, Mat.get?, hi, hj]; exact hy

end MechVerif.Mat
