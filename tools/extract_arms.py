#!/usr/bin/env python3
"""Regenerates lean/MechVerif/Gen/ArmsSkeleton.lean from src/interpreter/src/functions.rs and
src/interpreter/src/expressions.rs: the control skeleton, statement by statement, of

* `execute_user_function` (arity test, the broadcast attempt, the choice arms / plain body, the tail-call `loop`:
  scope, which arguments the inputs are bound to, which arguments the arms are run on, `Return` breaks, `TailCall`
  replaces the arguments) as a value of `MechVerif.ArmsIR.FStmt`,
* `execute_function_match_arms` (the enum block, the loop over the arms and its direction, where the pattern
  environment is created, what is matched, the tail-call recognition, body, coercion, the error for no arm),
* `match_expression` (source, base environment, the wildcard / exhaustiveness test before the loop, the loop over the
  arms and its direction, where the arm's environment is cloned and from what, the pattern test and into which
  environment, the guard and whether it is gated by the pattern, body, arm-kind validation, the error for no arm) as a
  value of `MechVerif.ArmsIR.MStmt`.

The tokeniser and statement parser are those of tools/extract_fsm.py (comments dropped, CRLF accepted, layout
irrelevant), extended by `loop { .. }` and `break <value>`; `#[cfg(..)]` attributes inside the bodies are dropped (the
features are on in the build that is tested).  Names are resolved by binding: parameters by their types, every local by
the expression it is bound to.  `trace_println!(..)` is dropped.  Anything the reader does not know makes `generate`
return (False, reason) — it never guesses.  A recognised skeleton that differs from the accepted one is written out as
it is; then `C16_*_as_written` (`decide`) fail.

Not read (leaves; hand model + correspondence): `try_broadcast_user_function`, `bind_function_inputs`, the plain
statement body, the contents of the enum block of `execute_function_match_arms` below its
`if let ValueKind::Enum(..) = input_kind`, `pattern_matches_arguments`, `pattern_matches_value_with_semantics`,
`expression`, `coerce_function_output_kind`, `infer_missing_enum_match_patterns`, `validate_match_arm_output_kinds`,
`match_validate_arm_kinds`, `guard_expression_true`, and the two blocks of `match_expression` for sources that contain
empty values (`value_contains_empty(..)`)."""
import importlib.util, os, sys

FN_SRC = "src/interpreter/src/functions.rs"
EX_SRC = "src/interpreter/src/expressions.rs"

_here = os.path.dirname(os.path.abspath(__file__))
_spec = importlib.util.spec_from_file_location("_extract_fsm_for_arms", os.path.join(_here, "extract_fsm.py"))
rs = importlib.util.module_from_spec(_spec); _spec.loader.exec_module(rs)     # a private copy: patched below
Unrecognised = rs.Unrecognised
_pe, _ps = rs.parse_expr, rs.parse_stmt

def _parse_expr(t, i, stops):
    if i < len(t) and t[i] == 'break' and i + 1 < len(t) and t[i + 1] not in stops:
        if t[i + 1].startswith("'"): raise Unrecognised("labelled break")
        j = rs.find0(t, i + 1, stops); return ('breakv', t[i + 1:j]), j
    return _pe(t, i, stops)

def _parse_stmt(t, i):
    if t[i] == 'loop' and i + 1 < len(t) and t[i + 1] == '{':
        k = rs.close_of(t, i + 1); return ('loop', rs.parse_block(t[i + 2:k])), k + 1
    return _ps(t, i)

rs.parse_expr, rs.parse_stmt = _parse_expr, _parse_stmt

def strip_cfg(toks):
    out, i = [], 0
    while i < len(toks):
        if toks[i] == '#' and i + 1 < len(toks) and toks[i + 1] == '[':
            k = rs.close_of(toks, i + 1)
            if toks[i + 2] != 'cfg': raise Unrecognised("attribute #[%s ..] inside a body" % toks[i + 2])
            i = k + 1; continue
        out.append(toks[i]); i += 1
    return out

def strip_path(t):
    """`crate::patterns::f` -> `f`"""
    out, i = [], 0
    while i < len(t):
        if t[i:i + 4] == ['crate', '::', 'patterns', '::']: i += 4; continue
        out.append(t[i]); i += 1
    return out

def norm(t, scope):
    """bound names replaced by what they are bound to (not after `.` or next to `::`)"""
    t = strip_path(t)
    out = []
    for i, x in enumerate(t):
        if x in scope and not (i > 0 and t[i - 1] in ('.', '::')) and not (i + 1 < len(t) and t[i + 1] == '::'):
            out.append('<%s>' % scope[x])
        else: out.append(x)
    return out

def toks(s):
    """tokens of a pattern; `<TAG>` stands for a bound name"""
    t, out, i = rs.tokenize(s), [], 0
    while i < len(t):
        if t[i] == '<' and i + 2 < len(t) and t[i + 2] == '>' and t[i + 1].isupper():
            out.append('<%s>' % t[i + 1]); i += 3
        else: out.append(t[i]); i += 1
    return out

def any_wildcard(n, prefix):
    """`<prefix> |x| matches!(x.pattern, Pattern::Wildcard))`"""
    L = len(prefix)
    return len(n) > L + 3 and n[:L] == prefix and n[L] == '|' and n[L + 2] == '|' and rs.is_ident(n[L + 1]) and \
        n[L + 3:] == ['matches', '!', '(', n[L + 1], '.', 'pattern', ',', 'Pattern', '::', 'Wildcard', ')', ')']

def no_trace(stmts):
    return [s for s in stmts if not (s[0] == 'macro' and s[1] == 'trace_println')]

def seq(items):
    items = [x for x in items if x is not None]
    if not items: return ('skip',)
    r = items[-1]
    for x in reversed(items[:-1]): r = ('seq', x, r)
    return r

def is_err(node, name):
    """`return Err(.. <name> ..)` / the value `Err(.. <name> ..)`"""
    if node[0] == 'return': node = node[1]
    if node is None or node[0] != 'leaf': return False
    t = node[1]
    errs = [x for x in t if x.endswith('Error') and x != 'MechError'] + [x for x in t if x == 'IncorrectNumberOfArguments']
    return t[:2] == ['Err', '('] and errs == [name]

def bind_params(fname, params, types):
    scope = {}
    for name, ty in params:
        tags = [tag for key, tag in types if key in ty]
        if len(tags) != 1: raise Unrecognised("%s: parameter %s of type `%s`" % (fname, name, rs.show(ty)))
        if tags[0] in scope.values(): raise Unrecognised("%s: two parameters of one type" % fname)
        scope[name] = tags[0]
    if sorted(scope.values()) != sorted(tag for _, tag in types): raise Unrecognised("%s: parameters" % fname)
    return scope

def let_name(pat):
    return rs.let_name(pat)[0]

def args_of(t, scope, what):
    """an argument list expression: `input_arg_values` / `&current_args` / `next_args` / `x.clone()`"""
    n = norm(t, scope)
    if n[:1] == ['&']: n = n[1:]
    if n[-4:] == ['.', 'clone', '(', ')']: n = n[:-4]
    m = {'<A>': '.orig', '<CUR>': '.cur', '<NEXT>': '.next'}
    if len(n) == 1 and n[0] in m: return m[n[0]]
    raise Unrecognised("%s: `%s` is not an argument list" % (what, rs.show(t)))

def bexp(t, scope, what):
    n = norm(t, scope)
    parts = rs.split0(n, '&&')
    def atom(a):
        if a[:1] == ['!']: return ('not', atom(a[1:]))
        if a == ['<MATCHED>']: return ('var', '.matched')
        if a == ['<PASSED>']: return ('var', '.passed')
        raise Unrecognised("%s: condition `%s`" % (what, rs.show(t)))
    r = atom(parts[0])
    for p in parts[1:]: r = ('and', r, atom(p))
    return r

def arm_iter(it, pat, scope, base, what):
    """`<base>.iter()[.rev()].enumerate()` / `&<base>`: the direction and the names of index and arm"""
    n = norm(it, scope)
    if n[:1] == ['&']: n = n[1:]
    if n[:len(base)] != base: raise Unrecognised("%s: loop over `%s`" % (what, rs.show(it)))
    rest, rev, enum = n[len(base):], 0, False
    while rest:
        if rest[:4] == ['.', 'iter', '(', ')']: pass
        elif rest[:4] == ['.', 'rev', '(', ')']:
            if enum: raise Unrecognised("%s: `.rev()` after `.enumerate()`" % what)
            rev += 1
        elif rest[:4] == ['.', 'enumerate', '(', ')'] and not enum: enum = True
        else: raise Unrecognised("%s: loop over `%s`" % (what, rs.show(it)))
        rest = rest[4:]
    if enum:
        if not (len(pat) == 5 and pat[0] == '(' and pat[2] == ',' and pat[4] == ')'): raise Unrecognised("%s: loop pattern" % what)
        ix, arm = pat[1], pat[3]
    else: ix, arm = None, rs.the_ident(pat, what)
    return ('.reverse' if rev % 2 else '.forward'), ix, arm

# ---- execute_user_function ---------------------------------------------------------------------------------------------

class User:
    def block(self, stmts, scope):
        scope = dict(scope)
        return seq([self.stmt(s, scope) for s in no_trace(stmts)])

    def stmt(self, s, scope):
        k = s[0]
        if k == 'if':
            _, cond, then, els = s
            n = norm(cond, scope)
            then = no_trace(then)
            if n in (toks("<A>.len() != <F>.input.len()"), toks("<F>.input.len() != <A>.len()")) and els is None \
               and len(then) == 1 and is_err(then[0], 'IncorrectNumberOfArguments'):
                return ('arityCheck',)
            if n[:6] == ['let', 'Some', '(', n[3], ')', '='] and rs.is_ident(n[3]) and els is None:
                c = rs.call_of(cond[6:])
                if c and c[0] == 'try_broadcast_user_function' and c[2] and len(c[1]) == 3 and norm(c[1][0], scope) == ['<F>'] \
                   and norm(c[1][2], scope) == ['<I>'] and len(then) == 1 and then[0] == ('return', ('leaf', ['Ok', '(', n[3], ')'])):
                    return ('tryBroadcast', args_of(c[1][1], scope, "try_broadcast_user_function"))
            raise Unrecognised("execute_user_function: if `%s`" % rs.show(cond))
        if k == 'let':
            _, pat, rhs = s
            name = let_name(pat)
            if rhs[0] == 'if':
                if norm(rhs[1], scope) != toks("! <F>.code.match_arms.is_empty()") or rhs[3] is None:
                    raise Unrecognised("execute_user_function: let %s = if `%s`" % (name, rs.show(rhs[1])))
                r = ('ifArms', self.block(rhs[2], scope), ('plainBody',))
                scope[name] = 'OUTPUT'
                return r
            if rhs[0] == 'leaf':
                n = norm(rhs[1], scope)
                if n == toks("FunctionScope::enter(<I>)"):
                    scope[name] = 'SCOPE'; return ('enterScope',)
                c = rs.call_of(rhs[1])
                if c and c[0] == 'execute_function_match_arms' and c[2] and len(c[1]) == 3 and norm(c[1][0], scope) == ['<F>'] \
                   and norm(c[1][2], scope) == ['<I>']:
                    r = ('callArms', args_of(c[1][1], scope, c[0])); scope[name] = 'STEP'; return r
                if n[-4:] == ['.', 'clone', '(', ')']:
                    r = ('setCur', args_of(rhs[1], scope, "let " + name))
                    if 'CUR' in scope.values(): raise Unrecognised("execute_user_function: a second argument local")
                    scope[name] = 'CUR'; return r
            raise Unrecognised("execute_user_function: let %s" % name)
        if k == 'loop': return ('loop', self.block(s[1], scope))
        if k == 'leaf':
            n = norm(s[1], scope)
            c = rs.call_of(s[1])
            if c and c[0] == 'bind_function_inputs' and c[2] and len(c[1]) == 3 and norm(c[1][0], scope) == ['<F>'] and norm(c[1][2], scope) == ['<I>']:
                return ('bindInputs', args_of(c[1][1], scope, c[0]))
            if n == toks("drop(<SCOPE>)"): return ('dropScope',)
            raise Unrecognised("execute_user_function: statement `%s`" % rs.show(s[1]))
        if k == 'match':
            _, scrut, arms = s
            n = norm(scrut, scope)
            if n == ['<STEP>'] and len(arms) == 2:
                got = {}
                for p, e in arms:
                    if not (p[:3] in (['FunctionCallStep', '::', 'Return'], ['FunctionCallStep', '::', 'TailCall']) and len(p) == 6
                            and p[3] == '(' and p[5] == ')' and rs.is_ident(p[4])) or p[2] in got:
                        raise Unrecognised("execute_user_function: arm `%s` of the match on the step" % rs.show(p))
                    inner = dict(scope); inner[p[4]] = 'VALUE' if p[2] == 'Return' else 'NEXT'
                    got[p[2]] = self.block(e[1] if e[0] == 'block' else [e], inner)
                return ('matchStep', got['Return'], got['TailCall'])
            if n == ['<OUTPUT>'] and len(arms) == 2:
                ok = False
                for p, e in arms:
                    body = no_trace(e[1]) if e[0] == 'block' else [e]
                    if len(p) == 4 and p[0] in ('Ok', 'Err') and len(body) == 1 and body[0][0] == 'leaf' and body[0][1] == p and not (len(body[0]) > 2 and body[0][2]):
                        ok = True
                    else: ok = False; break
                if ok and sorted(p[0] for p, _ in arms) == ['Err', 'Ok']: return ('returnOutput',)
            raise Unrecognised("execute_user_function: match on `%s`" % rs.show(scrut))
        if k == 'breakv':
            if norm(s[1], scope) == toks("Ok(<VALUE>)"): return ('breakValue',)
            raise Unrecognised("execute_user_function: break `%s`" % rs.show(s[1]))
        if k == 'assign':
            _, lhs, op, rhs = s
            if op == '=' and norm(lhs, scope) == ['<CUR>']: return ('setCur', args_of(rhs, scope, "assignment"))
            raise Unrecognised("execute_user_function: assignment to `%s`" % rs.show(lhs))
        raise Unrecognised("execute_user_function: statement of kind %s" % k)

# ---- execute_function_match_arms -------------------------------------------------------------------------------------

WILD_ANY = "<F>.code.match_arms.iter().any(|arm| matches!(arm.pattern, Pattern::Wildcard))"

class ArmsFn:
    def block(self, stmts, scope):
        scope = dict(scope)
        return seq([self.stmt(s, scope) for s in no_trace(stmts)])

    def enum_block(self, stmts, scope):
        """everything the block does sits under `if let ValueKind::Enum(..) = <the kind of the single input>`"""
        st = no_trace(stmts)
        if not (len(st) == 2 and st[0][0] == 'let' and st[0][2][0] == 'leaf' and st[1][0] == 'if' and st[1][3] is None): return False
        hw = let_name(st[0][1])
        n = norm(st[0][2][1], scope)
        if not any_wildcard(n, toks("<F>.code.match_arms.iter().any(")): return False
        if norm(st[1][1], scope) != ['!', hw, '&&'] + toks("<F>.input.len() == 1"): return False
        a = no_trace(st[1][2])
        if not (len(a) == 1 and a[0][0] == 'if' and a[0][3] is None): return False
        c = a[0][1]
        if not (c[:5] == ['let', 'Some', '(', '(', '_'] and c[5] == ',' and c[7:10] == [')', ')', '='] and norm(c[10:], scope) == toks("<F>.input.iter().next()")): return False
        kn = c[6]
        b = no_trace(a[0][2])
        if not (len(b) == 2 and b[0][0] == 'let' and b[0][2][0] == 'leaf' and b[1][0] == 'if' and b[1][3] is None): return False
        ik = let_name(b[0][1])
        if b[0][2][1][:6] != ['kind_annotation', '(', '&', kn, '.', 'kind']: return False
        c2 = b[1][1]
        return c2[:5] == ['let', 'ValueKind', '::', 'Enum', '('] and c2[-2:] == ['=', ik]

    def stmt(self, s, scope):
        k = s[0]
        if k == 'block':
            if self.enum_block(s[1], scope): return ('enumCheck',)
            raise Unrecognised("execute_function_match_arms: the block before the arm loop")
        if k == 'for':
            _, pat, it, body = s
            n = norm(it, scope)
            if 'ARM' not in scope.values():
                d, ix, arm = arm_iter(it, pat, scope, toks("<F>.code.match_arms"), "execute_function_match_arms")
                inner = dict(scope); inner[arm] = 'ARM'
                if ix and ix != '_': inner[ix] = 'IX'
                return ('forArms', d, self.block(body, inner))
            if n in (toks("<CALL>.args.iter()"), toks("&<CALL>.args")) and len(pat) == 5 and pat[0] == '(' and pat[1] == '_' and pat[2] == ',' and pat[4] == ')':
                inner = dict(scope); inner[pat[3]] = 'ARGEXPR'
                b = no_trace(body)
                if len(b) == 1 and b[0][0] == 'leaf' and norm(b[0][1], inner) == toks("<TAIL>.push(expression(<ARGEXPR>, Some(&<ENV>), <I>)?)"):
                    return ('evalTailArgs',)
            raise Unrecognised("execute_function_match_arms: loop over `%s`" % rs.show(it))
        if k == 'let':
            _, pat, rhs = s
            name = let_name(pat)
            if rhs[0] != 'leaf': raise Unrecognised("execute_function_match_arms: let %s" % name)
            n = norm(rhs[1], scope)
            if n in (toks("Environment::new()"), toks("Environment::default()")):
                if 'ENV' in scope.values(): raise Unrecognised("execute_function_match_arms: a second environment")
                scope[name] = 'ENV'; return ('newEnv',)
            c = rs.call_of(strip_path(rhs[1]))
            if c and c[0] == 'pattern_matches_arguments' and c[2] and len(c[1]) == 4 and norm(c[1][0], scope) == toks("&<ARM>.pattern") \
               and norm(c[1][2], scope) == toks("&mut <ENV>") and norm(c[1][3], scope) == ['<I>']:
                a = norm(c[1][1], scope)
                if a not in (['<A>'], ['&', '<A>']): raise Unrecognised("execute_function_match_arms: matched against `%s`" % rs.show(c[1][1]))
                scope[name] = 'MATCHED'; return ('matchArgs', '.orig')
            if n[:4] == toks("Vec::with_capacity(") or n == toks("Vec::new()"):
                scope[name] = 'TAIL'; return None
            if n == toks("expression(&<ARM>.expression, Some(&<ENV>), <I>)?"):
                scope[name] = 'OUT'; return ('evalBody',)
            if n == toks("coerce_function_output_kind(detach_value(&<OUT>), <F>, <I>)?"):
                scope[name] = 'COERCED'; return ('coerce',)
            raise Unrecognised("execute_function_match_arms: let %s = `%s`" % (name, rs.show(rhs[1])))
        if k == 'if':
            _, cond, then, els = s
            n = norm(cond, scope)
            if n[:1] == ['let']:
                if els is None and n[:5] == toks("let Expression::FunctionCall(") and n[6:] == toks(") = &<ARM>.expression") and rs.is_ident(n[5]):
                    inner = dict(scope); inner[n[5]] = 'CALL'
                    t = no_trace(then)
                    if len(t) == 1 and t[0][0] == 'if' and t[0][3] is None and \
                       norm(t[0][1], inner) in (toks("<CALL>.name.hash() == <F>.code.name.hash()"), toks("<F>.code.name.hash() == <CALL>.name.hash()")):
                        return ('ifSelfCall', self.block(t[0][2], inner))
                raise Unrecognised("execute_function_match_arms: if `%s`" % rs.show(cond))
            if n in (toks("<TAIL>.len() == <F>.input.len()"), toks("<F>.input.len() == <TAIL>.len()")) and els is None:
                return ('ifTailArity', self.block(then, scope))
            c = bexp(cond, scope, "execute_function_match_arms")
            return ('ite', c, self.block(then, scope), self.block(els, scope) if els is not None else ('skip',))
        if k == 'return':
            e = s[1]
            if e and e[0] == 'leaf':
                n = norm(e[1], scope)
                if n == toks("Ok(FunctionCallStep::TailCall(<TAIL>))"): return ('returnTail',)
                if n == toks("Ok(FunctionCallStep::Return(<COERCED>))"): return ('returnValue',)
            raise Unrecognised("execute_function_match_arms: return")
        if k == 'leaf':
            if not (len(s) > 2 and s[2]) and is_err(s, 'FunctionOutputUndefinedError'): return ('failNoArm',)
            raise Unrecognised("execute_function_match_arms: statement `%s`" % rs.show(s[1]))
        raise Unrecognised("execute_function_match_arms: statement of kind %s" % k)

# ---- match_expression --------------------------------------------------------------------------------------------------

class MatchFn:
    def block(self, stmts, scope):
        scope = dict(scope)
        return seq([self.stmt(s, scope) for s in no_trace(stmts)])

    def envref(self, t, scope, what, refs):
        n = norm(t, scope)
        r = ''
        if n[:2] == ['&', 'mut']: r, n = '&mut', n[2:]
        elif n[:1] == ['&']: r, n = '&', n[1:]
        if r in refs and n == ['<BASE>']: return '.base'
        if r in refs and n == ['<AENV>']: return '.arm'
        raise Unrecognised("match_expression: %s: `%s` is not an environment" % (what, rs.show(t)))

    def guard(self, name, rhs, scope):
        gate = 'false'
        if rhs[0] == 'leaf':
            t = rhs[1]
            if norm(t[:2], scope) == ['<MATCHED>', '&&'] and t[2:3] == ['match']:
                gate = 'true'
                m, j = rs.parse_expr(t, 2, rs.ALLSTOP)
                if j != len(t): raise Unrecognised("match_expression: let %s" % name)
                rhs = m
        if rhs[0] != 'match' or norm(rhs[1], scope) != toks("&<ARM>.guard") or len(rhs[2]) != 2:
            raise Unrecognised("match_expression: let %s is not the guard test" % name)
        env = None
        for p, e in rhs[2]:
            if p == ['None'] and e == ('leaf', ['true']): continue
            if len(p) == 4 and p[:2] == ['Some', '('] and p[3] == ')' and rs.is_ident(p[2]) and e[0] == 'leaf' and env is None:
                c = rs.call_of(e[1])
                if c and c[0] == 'guard_expression_true' and c[2] and len(c[1]) == 3 and c[1][0] == [p[2]] and norm(c[1][2], scope) == ['<I>']:
                    env = self.envref(c[1][1], scope, "guard", ('&',)); continue
            raise Unrecognised("match_expression: arm `%s` of the guard test" % rs.show(p))
        if env is None or sorted(p[0] for p, _ in rhs[2]) != ['None', 'Some']: raise Unrecognised("match_expression: the guard test")
        return ('guard', gate, env)

    def stmt(self, s, scope):
        k = s[0]
        if k == 'let':
            _, pat, rhs = s
            name = let_name(pat)
            if rhs[0] == 'match':
                n = norm(rhs[1], scope)
                if n == ['&', '<SRC0>'] and len(rhs[2]) == 2:
                    (p1, e1), (p2, e2) = rhs[2]
                    if p1[:4] == toks("Value::MutableReference(") and len(p1) == 6 and e1 == ('leaf', [p1[4]] + toks(".borrow().clone()")) \
                       and p2 == ['_'] and e2[0] == 'leaf' and norm(e2[1], scope) == toks("<SRC0>.clone()"):
                        scope[name] = 'SRC'; return ('detach',)
                if n == toks("&<ARM>.pattern") and len(rhs[2]) == 2:
                    (p1, e1), (p2, e2) = rhs[2]
                    if p1 == toks("Pattern::Wildcard") and e1[0] == 'leaf' and e1[1] in (['true'], ['false']) and p2 == ['_'] and e2[0] == 'leaf':
                        c = rs.call_of(strip_path(e2[1]))
                        if c and c[0] == 'pattern_matches_value_with_semantics' and c[2] and len(c[1]) == 5 and norm(c[1][0], scope) == toks("&<ARM>.pattern") \
                           and norm(c[1][1], scope) == toks("&<SRC>") and norm(c[1][3], scope) == ['<I>'] \
                           and strip_path(c[1][4]) == toks("PatternMatchSemantics::OptionGuard"):
                            env = self.envref(c[1][2], scope, c[0], ('&mut',))
                            scope[name] = 'MATCHED'; return ('matchPat', e1[1][0], env)
                if n == toks("&<ARM>.guard"):
                    r = self.guard(name, rhs, scope); scope[name] = 'PASSED'; return r
                raise Unrecognised("match_expression: let %s = match `%s`" % (name, rs.show(rhs[1])))
            if rhs[0] == 'leaf':
                n = norm(rhs[1], scope)
                if n == toks("expression(&<M>.source, <CE>, <I>)?"): scope[name] = 'SRC0'; return ('evalSource',)
                if n == toks("<CE>.cloned().unwrap_or_default()"):
                    if 'BASE' in scope.values(): raise Unrecognised("match_expression: a second base environment")
                    scope[name] = 'BASE'; return ('baseFromCaller',)
                if n[-4:] == ['.', 'clone', '(', ')'] and n[:-4] in (['<BASE>'], ['<AENV>']):
                    src = '.base' if n[0] == '<BASE>' else '.arm'
                    if 'AENV' in scope.values(): raise Unrecognised("match_expression: a second arm environment")
                    scope[name] = 'AENV'; return ('cloneEnv', src)
                if n[:2] == ['<MATCHED>', '&&'] and n[2:3] == ['match']:
                    r = self.guard(name, rhs, scope); scope[name] = 'PASSED'; return r
                c = rs.call_of(rhs[1])
                if c and c[0] == 'expression' and c[2] and len(c[1]) == 3 and norm(c[1][0], scope) == toks("&<ARM>.expression") and norm(c[1][2], scope) == ['<I>'] \
                   and c[1][1][:2] == ['Some', '('] and c[1][1][-1] == ')':
                    env = self.envref(c[1][1][2:-1], scope, "body", ('&',))
                    scope[name] = 'OUTPUT'; return ('evalBody', env)
            raise Unrecognised("match_expression: let %s" % name)
        if k == 'if':
            _, cond, then, els = s
            n = norm(cond, scope)
            then = no_trace(then)
            if n[:1] == ['let']:
                if n[:5] == toks("let Expression::Var(") and rs.is_ident(n[5]) and n[6:] == toks(") = &<M>.source") and els is None and len(then) == 1 \
                   and then[0][0] == 'leaf' and norm(then[0][1], scope) == ['<BASE>'] + toks(".insert(") + [n[5]] + toks(".name.hash(), <SRC>.clone())"):
                    return ('bindSourceVar',)
                if n[:4] == toks("let Some((") and len(n) > 10 and n[5] == ',' and n[7:10] == [')', ')', '='] and els is not None \
                   and n[10:] == toks("infer_missing_enum_match_patterns(<M>, &<SRC>, <I>)"):
                    inner = dict(scope); inner[n[6]] = 'MISSING'
                    return ('ifInferMissing', self.block(then, inner), self.block(els, scope))
                raise Unrecognised("match_expression: if `%s`" % rs.show(cond))
            if n[:1] == ['!'] and any_wildcard(n[1:], toks("<M>.arms.iter().any(")) and els is None:
                return ('ifNoWildcard', self.block(then, scope))
            if n == toks("<MISSING>.is_empty()") and els is not None:
                return ('ifMissingEmpty', self.block(then, scope), self.block(els, scope))
            if n == toks("value_contains_empty(&<SRC>) && !has_identity_wildcard_coalesce_arms(<M>)") and els is None and 'ARM' not in scope.values():
                return ('emptySpecial',)
            if n == toks("value_contains_empty(&<SRC>) && is_identity_option_matrix_arm(<ARM>)") and els is None:
                return ('emptyCoalesce',)
            c = bexp(cond, scope, "match_expression")
            return ('ite', c, self.block(then, scope), self.block(els, scope) if els is not None else ('skip',))
        if k == 'for':
            _, pat, it, body = s
            if 'ARM' in scope.values(): raise Unrecognised("match_expression: a loop inside the arm loop")
            d, ix, arm = arm_iter(it, pat, scope, toks("<M>.arms"), "match_expression")
            inner = dict(scope); inner[arm] = 'ARM'
            if ix and ix != '_': inner[ix] = 'IX'
            return ('forArms', d, self.block(body, inner))
        if k == 'leaf':
            n = norm(s[1], scope)
            semi = len(s) > 2 and s[2]
            if n == toks("validate_match_arm_output_kinds(<M>, &<BASE>, <I>)?") and semi: return ('validateAll', '.base')
            if n == toks("validate_match_arm_output_kinds(<M>, &<AENV>, <I>)?") and semi: return ('validateAll', '.arm')
            c = rs.call_of(s[1])
            if c and c[0] == 'match_validate_arm_kinds' and c[2] and semi and len(c[1]) == 6 and norm(c[1][0], scope) == ['<M>'] and norm(c[1][1], scope) == ['<IX>'] \
               and norm(c[1][2], scope) == toks("&<OUTPUT>.kind()") and norm(c[1][3], scope) == toks("&<SRC>") and norm(c[1][5], scope) == ['<I>']:
                return ('validateKinds', self.envref(c[1][4], scope, c[0], ('&',)))
            if not semi and is_err(s, 'MatchNoArmMatchedError'): return ('failNoArm',)
            raise Unrecognised("match_expression: statement `%s`" % rs.show(s[1]))
        if k == 'return':
            e = s[1]
            if e and e[0] == 'leaf' and norm(e[1], scope) == toks("Ok(<OUTPUT>)"): return ('returnOutput',)
            if is_err(s, 'MatchNonExhaustiveVariantsError'): return ('failVariants',)
            if is_err(s, 'MatchNonExhaustiveError'): return ('failNonExhaustive',)
            raise Unrecognised("match_expression: return")
        raise Unrecognised("match_expression: statement of kind %s" % k)

# ---- output ------------------------------------------------------------------------------------------------------------

def lean(x, ind=2):
    pad = ' ' * ind
    def b(e):
        if e[0] == 'var': return "(.var %s)" % e[1]
        if e[0] == 'not': return "(.not %s)" % b(e[1])
        return "(.and %s %s)" % (b(e[1]), b(e[2]))
    k = x[0]
    subs = [a for a in x[1:] if isinstance(a, tuple) and a and a[0] not in ('var', 'not', 'and')]
    atoms = []
    for a in x[1:]:
        if isinstance(a, tuple) and a and a[0] in ('var', 'not', 'and'): atoms.append(b(a))
        elif not isinstance(a, tuple): atoms.append(a)
    head = '.' + k + ''.join(' ' + a for a in atoms)
    if not subs: return pad + (head if not atoms else '(' + head + ')')
    return pad + '(' + head + '\n' + '\n'.join(lean(c, ind + 1) for c in subs) + ')'

def count(x):
    return 1 + sum(count(a) for a in x[1:] if isinstance(a, tuple) and a and a[0] not in ('var', 'not', 'and'))

def read_file(repo, path):
    text = open(os.path.join(repo, path), newline='').read()
    return rs.functions(rs.tokenize(text))

def extract(repo="/repo"):
    fns = read_file(repo, FN_SRC)
    for f in ('execute_user_function', 'execute_function_match_arms'):
        if f not in fns: raise Unrecognised("no function " + f)
    P = [('FunctionDefinition', 'F'), ('Vec', 'A'), ('Interpreter', 'I')]
    params, body = fns['execute_user_function']
    user = User().block(rs.parse_block(strip_cfg(body)), bind_params('execute_user_function', params, P))
    params, body = fns['execute_function_match_arms']
    arms = ArmsFn().block(rs.parse_block(strip_cfg(body)), bind_params('execute_function_match_arms', params, P))
    fns = read_file(repo, EX_SRC)
    if 'match_expression' not in fns: raise Unrecognised("no function match_expression")
    params, body = fns['match_expression']
    m = MatchFn().block(rs.parse_block(strip_cfg(body)),
                        bind_params('match_expression', params, [('MatchExpression', 'M'), ('Environment', 'CE'), ('Interpreter', 'I')]))
    return user, arms, m

def generate(root, repo="/repo"):
    try:
        user, arms, m = extract(repo)
        tu, ta, tm = lean(user), lean(arms), lean(m)
    except (Unrecognised, OSError, IndexError, KeyError) as e:
        return False, "C16 arms-skeleton extraction failed: %s" % (e if str(e) else type(e).__name__)
    L = ["/- GENERATED by tools/extract_arms.py from src/interpreter/src/functions.rs and src/interpreter/src/expressions.rs — do not edit. -/",
         "import MechVerif.Model.ArmsIR", "namespace MechVerif.Gen.ArmsSkeleton", "open MechVerif.ArmsIR", "",
         "/-- `execute_user_function`, statement by statement (tracing dropped, locals resolved to what they are bound to) -/",
         "def userFn : FStmt :=", tu, "",
         "/-- `execute_function_match_arms` -/",
         "def fnArms : FStmt :=", ta, "",
         "/-- `match_expression` -/",
         "def matchFn : MStmt :=", tm, "",
         "/-- the call as written is the skeleton Model/Arms.lean's `callImpl` / `loopArms` are proved to be (Lemmas/ArmsSkeleton.lean) -/",
         "theorem C16_user_function_as_written : userFn = expectedUser := by decide", "",
         "/-- the arm loop of a function as written is the skeleton `stepArms` is proved to be -/",
         "theorem C16_function_arms_as_written : fnArms = expectedArms := by decide", "",
         "/-- the match expression as written is the skeleton `matchExpr` is proved to be -/",
         "theorem C16_match_expression_as_written : matchFn = expectedMatch := by decide", "",
         "end MechVerif.Gen.ArmsSkeleton", ""]
    text = "\n".join(L)
    out = os.path.join(root, 'lean', 'MechVerif', 'Gen', 'ArmsSkeleton.lean')
    old = open(out).read() if os.path.exists(out) else None
    if old != text: open(out, 'w').write(text)
    return True, "C16 arms skeleton extracted: %d + %d + %d statements" % (count(user), count(arms), count(m))

if __name__ == '__main__':
    root = os.path.dirname(_here)
    args = dict(a.split('=', 1) for a in sys.argv[1:] if '=' in a)
    if '--show' in sys.argv:
        try:
            for t in extract(args.get('repo', '/repo')): print(lean(t))
        except Unrecognised as e: print((False, str(e)))
    else: print(generate(args.get('root', root), args.get('repo', '/repo')))
