/-
C14 — Sets hold distinct elements of one kind and obey set algebra.

All statements are about the `IndexSet` model of `Model/Set.lean` (insertion-ordered list,
membership by hash lookup then `==`) for ANY element type whose `==` and `Hash` are lawful
(`Lawful`: `==` symmetric and transitive, equal values hash alike), for all sets of all sizes
in every insertion order.  `velem_lawful` (Lemmas/SetElem.lean) proves the premise for the
element values of the property: scalars of every kind, tuples, and sets of scalars.
`memE eq S x` is membership up to `==` — the mathematical `x ∈ S`.
-/
import MechVerif.Lemmas.SetElem
import MechVerif.Gen.SetKernels
import MechVerif.Gen.OperandArms
namespace MechVerif.SetM

variable {α : Type} {κ : Type} [DecidableEq κ] {eq : α → α → Bool} {key : α → κ}

/-! ### distinct elements, size -/

/-- However a set is built from a sequence of values (literal, conversion from a matrix,
    comprehension, result of an operator: all go through `from_vec`/`collect`), no two of
    its elements are equal. -/
theorem C14_no_equal_elements (h : Lawful eq key) (l : List α) : NoDup eq (fromList eq key l) :=
  nodup_fromList h l

/-- … and it holds exactly the values of the sequence. -/
theorem C14_elements_of_sequence (h : Lawful eq key) (l : List α) (z : α) :
    memE eq (fromList eq key l) z ↔ memE eq l z := memE_fromList h l z

theorem C14_ops_no_equal_elements (h : Lawful eq key) (A B : List α) :
    NoDup eq (union eq key A B) ∧ NoDup eq (inter eq key A B) ∧
    NoDup eq (diff eq key A B) ∧ NoDup eq (symdiff eq key A B) :=
  ⟨nodup_fromList h _, nodup_fromList h _, nodup_fromList h _, nodup_fromList h _⟩

/-- The reported size is the number of elements, and that number is determined by the
    mathematical set alone: two duplicate-free representations with the same members have
    the same size — whatever the insertion order and however often a value was repeated in
    the source.  (Elements are values equal to themselves; NaN is not.) -/
theorem C14_size_well_defined (h : Lawful eq key) (S T : List α) (hS : NoDup eq S) (hT : NoDup eq T)
    (hSr : ∀ x ∈ S, eq x x = true) (hTr : ∀ x ∈ T, eq x x = true)
    (hm : ∀ z, memE eq S z ↔ memE eq T z) : size S = size T := by
  have a := length_le_of_subset h S T hS (fun x hx => (hm x).1 ⟨x, hx, hSr x hx⟩)
  have b := length_le_of_subset h T S hT (fun x hx => (hm x).2 ⟨x, hx, hTr x hx⟩)
  simp only [size]; omega

/-! ### the operators are the mathematical ones -/

theorem C14_mem_union (h : Lawful eq key) (A B : List α) (z : α) :
    memE eq (union eq key A B) z ↔ memE eq A z ∨ memE eq B z := by
  unfold union
  rw [memE_fromList h, memE_append, filter_neg, memE_filter_lookup h]
  simp only [Bool.false_eq_true, if_false]
  constructor
  · rintro (ha | ⟨hb, _⟩)
    · exact Or.inl ha
    · exact Or.inr hb
  · rintro (ha | hb)
    · exact Or.inl ha
    · by_cases ha : memE eq A z
      · exact Or.inl ha
      · exact Or.inr ⟨hb, ha⟩

theorem C14_mem_inter (h : Lawful eq key) (A B : List α) (z : α) :
    memE eq (inter eq key A B) z ↔ memE eq A z ∧ memE eq B z := by
  unfold inter
  rw [memE_fromList h, filter_pos, memE_filter_lookup h]
  simp

theorem C14_mem_diff (h : Lawful eq key) (A B : List α) (z : α) :
    memE eq (diff eq key A B) z ↔ memE eq A z ∧ ¬ memE eq B z := by
  unfold diff
  rw [memE_fromList h, filter_neg, memE_filter_lookup h]
  simp

theorem C14_mem_symdiff (h : Lawful eq key) (A B : List α) (z : α) :
    memE eq (symdiff eq key A B) z ↔ (memE eq A z ∧ ¬ memE eq B z) ∨ (memE eq B z ∧ ¬ memE eq A z) := by
  unfold symdiff
  rw [memE_fromList h, memE_append, filter_neg, filter_neg, memE_filter_lookup h, memE_filter_lookup h]
  simp

/-! ### relations and membership -/

theorem C14_subset_iff (h : Lawful eq key) (A B : List α) (hA : NoDup eq A) :
    isSubset eq key A B = true ↔ ∀ x ∈ A, memE eq B x := by
  simp only [isSubset, Bool.and_eq_true, decide_eq_true_eq, List.all_eq_true]
  constructor
  · rintro ⟨_, hall⟩ x hx; exact (lookup_iff h B x).1 (hall x hx)
  · intro hall
    exact ⟨length_le_of_subset h A B hA hall, fun x hx => (lookup_iff h B x).2 (hall x hx)⟩

/-- in terms of members up to `==` (for sets of values equal to themselves) -/
theorem C14_subset_iff_members (h : Lawful eq key) (A B : List α) (hA : NoDup eq A)
    (hAr : ∀ x ∈ A, eq x x = true) :
    isSubset eq key A B = true ↔ ∀ z, memE eq A z → memE eq B z := by
  rw [C14_subset_iff h A B hA]
  constructor
  · rintro hall z ⟨y, hy, hzy⟩; exact memE_congr h hzy (hall y hy)
  · intro hall x hx; exact hall x ⟨x, hx, hAr x hx⟩

theorem C14_superset_iff (h : Lawful eq key) (A B : List α) (hB : NoDup eq B) :
    isSuperset eq key A B = true ↔ ∀ x ∈ B, memE eq A x := C14_subset_iff h B A hB

/-- proper subset: contained, and B has an element A lacks -/
theorem C14_proper_subset_iff (h : Lawful eq key) (A B : List α) (hA : NoDup eq A) (hB : NoDup eq B)
    (hBr : ∀ x ∈ B, eq x x = true) :
    properSubset eq key A B = true ↔ (∀ x ∈ A, memE eq B x) ∧ ∃ b ∈ B, ¬ memE eq A b := by
  simp only [properSubset, Bool.and_eq_true, decide_eq_true_eq]
  rw [C14_subset_iff h A B hA]
  constructor
  · rintro ⟨hsub, hlt⟩
    refine ⟨hsub, ?_⟩
    apply Classical.byContradiction
    intro hno
    have : ∀ b ∈ B, memE eq A b := by
      intro b hb
      apply Classical.byContradiction
      intro hnb
      exact hno ⟨b, hb, hnb⟩
    have := length_le_of_subset h B A hB this
    omega
  · rintro ⟨hsub, b, hb, hnb⟩
    refine ⟨hsub, ?_⟩
    apply length_lt_of_ssubset h A B hA hsub b hb
    intro x hx
    cases hxb : eq x b with
    | false => rfl
    | true => exact absurd ⟨x, hx, h.symm _ _ hxb⟩ hnb

theorem C14_proper_superset_iff (h : Lawful eq key) (A B : List α) (hA : NoDup eq A) (hB : NoDup eq B)
    (hAr : ∀ x ∈ A, eq x x = true) :
    properSuperset eq key A B = true ↔ (∀ x ∈ B, memE eq A x) ∧ ∃ a ∈ A, ¬ memE eq B a := by
  have := C14_proper_subset_iff h B A hB hA hAr
  simp only [properSubset, properSuperset, isSuperset, gt_iff_lt] at this ⊢
  exact this

/-- membership test: true exactly for the members (the kind guard of `element_of` only
    skips lookups that could not succeed) -/
theorem C14_element_of (h : Lawful eq key) (S : List α) (x : α) :
    lookup eq key S x = true ↔ memE eq S x := lookup_iff h S x

theorem C14_elementOf_kind {K : Type} [DecidableEq K] (h : Lawful eq key) (kind : α → K)
    (hk : ∀ x y, eq x y = true → kind x = kind y) (S : List α) (hu : ∀ y ∈ S, ∀ z ∈ S, kind y = kind z)
    (x : α) : elementOf eq key kind x S = true ↔ memE eq S x := by
  unfold elementOf kindOf
  cases S with
  | nil => simp [memE]
  | cons y t =>
    simp only [List.head?_cons, Option.map_some, Bool.and_eq_true, decide_eq_true_eq]
    rw [lookup_iff h]
    constructor
    · exact fun hh => hh.2
    · rintro ⟨w, hw, hxw⟩
      refine ⟨?_, ⟨w, hw, hxw⟩⟩
      rw [hk x w hxw]
      exact hu y (List.mem_cons_self ..) w hw

/-! ### order independence -/

/-- The results of the operators depend only on the mathematical sets: replacing the
    operands by any other representations of the same sets (other insertion orders, repeats
    in the source) gives results with the same members — and the same relations. -/
theorem C14_order_independent (h : Lawful eq key) (A A' B B' : List α)
    (hA : ∀ z, memE eq A z ↔ memE eq A' z) (hB : ∀ z, memE eq B z ↔ memE eq B' z) (z : α) :
    (memE eq (union eq key A B) z ↔ memE eq (union eq key A' B') z) ∧
    (memE eq (inter eq key A B) z ↔ memE eq (inter eq key A' B') z) ∧
    (memE eq (diff eq key A B) z ↔ memE eq (diff eq key A' B') z) ∧
    (memE eq (symdiff eq key A B) z ↔ memE eq (symdiff eq key A' B') z) := by
  simp only [C14_mem_union h, C14_mem_inter h, C14_mem_diff h, C14_mem_symdiff h, hA z, hB z]
  exact ⟨trivial, trivial, trivial, trivial⟩

/-- a permutation of the written elements is the same set -/
theorem C14_literal_order (h : Lawful eq key) (l l' : List α) (hp : l.Perm l') (z : α) :
    memE eq (fromList eq key l) z ↔ memE eq (fromList eq key l') z := by
  rw [memE_fromList h, memE_fromList h]
  simp only [memE]
  constructor
  · rintro ⟨y, hy, he⟩; exact ⟨y, hp.mem_iff.1 hy, he⟩
  · rintro ⟨y, hy, he⟩; exact ⟨y, hp.mem_iff.2 hy, he⟩

/-! ### one kind -/

theorem fromList_subset (l : List α) : ∀ x ∈ fromList eq key l, x ∈ l := by
  have : ∀ (l acc : List α), ∀ x ∈ l.foldl (insert eq key) acc, x ∈ acc ∨ x ∈ l := by
    intro l
    induction l with
    | nil => intro acc x hx; exact Or.inl hx
    | cons y l ih =>
      intro acc x hx
      simp only [List.foldl_cons] at hx
      rcases ih _ x hx with h1 | h1
      · unfold insert at h1
        split at h1
        · exact Or.inl h1
        · simp only [List.mem_append, List.mem_singleton] at h1
          rcases h1 with h1 | h1
          · exact Or.inl h1
          · exact Or.inr (by simp [h1])
      · exact Or.inr (List.mem_cons_of_mem _ h1)
  intro x hx
  rcases this l [] x hx with h1 | h1
  · cases h1
  · exact h1

/-- A set literal that is accepted holds elements of one kind only. -/
theorem C14_literal_one_kind {K : Type} [DecidableEq K] (kind : α → K) (l S : List α)
    (h : literal eq key kind l = some S) : ∀ y ∈ S, ∀ z ∈ S, kind y = kind z := by
  cases l with
  | nil => simp only [literal, Option.some.injEq] at h; subst h; intro y hy; cases hy
  | cons x t =>
    simp only [literal] at h
    split at h
    · next hall =>
      simp only [Option.some.injEq] at h; subst h
      rw [List.all_eq_true] at hall
      intro y hy z hz
      have hy' := hall y (fromList_subset _ y hy)
      have hz' := hall z (fromList_subset _ z hz)
      simp only [decide_eq_true_eq] at hy' hz'
      rw [hy', hz']
    · cases h

/-- Intersection and difference keep the kind of the left operand; union and symmetric
    difference of two sets of one kind have that kind. -/
theorem C14_ops_one_kind {K : Type} (kind : α → K) (k : K) (A B : List α)
    (hA : ∀ y ∈ A, kind y = k) (hB : ∀ y ∈ B, kind y = k) :
    (∀ y ∈ union eq key A B, kind y = k) ∧ (∀ y ∈ inter eq key A B, kind y = k) ∧
    (∀ y ∈ diff eq key A B, kind y = k) ∧ (∀ y ∈ symdiff eq key A B, kind y = k) := by
  refine ⟨?_, ?_, ?_, ?_⟩ <;> intro y hy <;> have hy' := fromList_subset _ y hy
  · rcases List.mem_append.1 hy' with h1 | h1
    · exact hA y h1
    · exact hB y (List.mem_filter.1 h1).1
  · exact hA y (List.mem_filter.1 hy').1
  · exact hA y (List.mem_filter.1 hy').1
  · rcases List.mem_append.1 hy' with h1 | h1
    · exact hA y (List.mem_filter.1 h1).1
    · exact hB y (List.mem_filter.1 h1).1

/-! ### comprehensions -/

/-- A comprehension is the set of the yielded values of the generated environments that
    pass the filters. -/
theorem C14_comprehension {ε : Type} (h : Lawful eq key) (envs : List ε) (keep : ε → Bool)
    (yield : ε → α) (z : α) :
    memE eq (comprehension eq key envs keep yield) z ↔ ∃ e ∈ envs, keep e = true ∧ eq z (yield e) = true := by
  unfold comprehension
  rw [memE_fromList h]
  simp only [memE, List.mem_map, List.mem_filter]
  constructor
  · rintro ⟨y, ⟨e, ⟨he, hk⟩, rfl⟩, hz⟩; exact ⟨e, he, hk, hz⟩
  · rintro ⟨e, he, hk, hz⟩; exact ⟨_, ⟨e, ⟨he, hk⟩, rfl⟩, hz⟩

theorem C14_comprehension_no_equal_elements {ε : Type} (h : Lawful eq key) (envs : List ε)
    (keep : ε → Bool) (yield : ε → α) : NoDup eq (comprehension eq key envs keep yield) :=
  nodup_fromList h _

/-! ### the premise holds for the element values of Mech -/

theorem C14_values_lawful (g : Atom → Nat) : Lawful VElem.eq (VElem.key g) := velem_lawful g

/-- equal values have equal kinds (inner sets being of one kind themselves) -/
theorem C14_eq_same_kind (x y : VElem) (h : VElem.eq x y = true)
    (hy1 : ∀ B, y.val = .set B → ∀ a ∈ B, ∀ b ∈ B, a.kind = b.kind) : x.kind = y.kind := by
  obtain ⟨x, hx⟩ := x
  obtain ⟨y, hy⟩ := y
  have atomk : ∀ a b : Atom, a.eq b = true → a.kind = b.kind := by
    intro a b hab
    cases a <;> cases b <;> simp_all [Atom.eq, Atom.kind]
  have tupk : ∀ s t : List Atom, tupEq s t = true → s.map Atom.kind = t.map Atom.kind := by
    intro s
    induction s with
    | nil => intro t ht; cases t with | nil => rfl | cons _ _ => simp [tupEq] at ht
    | cons a s ih =>
      intro t ht
      cases t with
      | nil => simp [tupEq] at ht
      | cons b t =>
        simp only [tupEq, Bool.and_eq_true] at ht
        simp only [List.map_cons, List.cons.injEq]
        exact ⟨atomk a b ht.1, ih t ht.2⟩
  cases x <;> cases y <;> simp only [VElem.eq, Elem.eq] at h <;> try cases h
  · simp only [VElem.kind, Elem.kind]; rw [atomk _ _ h]
  · simp only [VElem.kind, Elem.kind]; rw [tupk _ _ h]
  · next A B =>
    simp only [VElem.kind, Elem.kind]
    rw [innerEq_iff] at h
    rw [h.1]
    congr 1
    cases A with
    | nil =>
      have : B = [] := List.eq_nil_of_length_eq_zero h.1.symm
      subst this; rfl
    | cons a A =>
      cases B with
      | nil => simp at h
      | cons b B =>
        simp only [List.head?_cons, Option.map_some, Option.some.injEq]
        obtain ⟨w, hw, haw⟩ := h.2 a (List.mem_cons_self ..)
        rw [atomk a w haw]
        exact hy1 (b :: B) rfl w hw b (List.mem_cons_self ..)

/-! ### why the hash of a set must not depend on insertion order -/

/-- the hash the pinned commit used before the `fix:` commit: the element hashes in insertion
    order -/
def seqKey : Elem → List Atom
  | .atom a => [a.key]
  | .tup t => tupKey t
  | .set A => A.map Atom.key

/-- With it, `{{1,2},{2,1}}` holds two equal elements (finding C14-D1, repaired). -/
theorem C14_sequence_hash_breaks_distinctness :
    let one := Atom.f64 0x3ff0000000000000
    let two := Atom.f64 0x4000000000000000
    let s := fromList Elem.eq seqKey [.set [one, two], .set [two, one]]
    s.length = 2 ∧ Elem.eq (.set [one, two]) (.set [two, one]) = true := by
  decide

end MechVerif.SetM

/-! ### the set kernels as they are written in the source

`Gen/SetKernels.lean` is regenerated from machines/set/src on every run (`tools/extract_setops.py`): for each of the
twelve binary set operators the expression its `solve` evaluates over its two arguments, in the order its `new`
binds them.  Its theorem `C14_set_kernels_as_written_ok` (`decide`) says each is — up to writing `x.len() > y.len()`
for `y.len() < x.len()` — the expression `expected` lists; the theorems here say what those expressions mean. -/
namespace MechVerif.SetIR
open MechVerif.SetM

variable {α κ K : Type} [DecidableEq κ] [DecidableEq K] (eq : α → α → Bool) (key : α → κ)

/-- writing a length comparison the other way round changes nothing -/
theorem C14_norm_keeps_meaning (A B : List α) (e : SExpr) :
    evalRel eq key A B (norm e) = evalRel eq key A B e := by
  induction e with
  | lenGt x y => simp only [norm, evalRel]
  | and p q ihp ihq => simp only [norm, evalRel, ihp, ihq]
  | not p ih => simp only [norm, evalRel, ih]
  | kindGuard s e p o ih => rfl
  | _ => rfl

/-- **The set-valued kernels as written are the model's operators**: `lhs ∪ rhs` evaluates
    `lhs.set.union(&rhs.set)` with the operands in this order, and likewise ∩ ∖ Δ. -/
theorem C14_written_operations_are_the_model (A B : List α) :
    (expected "union").bind (evalSet eq key A B) = some (union eq key A B) ∧
    (expected "intersection").bind (evalSet eq key A B) = some (inter eq key A B) ∧
    (expected "difference").bind (evalSet eq key A B) = some (diff eq key A B) ∧
    (expected "symmetric_difference").bind (evalSet eq key A B) = some (symdiff eq key A B) :=
  ⟨rfl, rfl, rfl, rfl⟩

/-- **The relation kernels as written are the model's relations.** -/
theorem C14_written_relations_are_the_model (A B : List α) :
    (expected "subset").bind (evalRel eq key A B) = some (isSubset eq key A B) ∧
    (expected "superset").bind (evalRel eq key A B) = some (isSuperset eq key A B) ∧
    (expected "proper_subset").bind (evalRel eq key A B) = some (properSubset eq key A B) ∧
    (expected "proper_superset").bind (evalRel eq key A B) = some (properSuperset eq key A B) ∧
    (expected "equals").bind (evalRel eq key A B) = some (setEq eq key A B) ∧
    (expected "not_equals").bind (evalRel eq key A B) = some (!setEq eq key A B) :=
  ⟨rfl, rfl, rfl, rfl, rfl, rfl⟩

/-- membership kernels: the first argument is the element, the second the set; outside the guard the
    answer is the constant written in the `else` branch -/
def evalMem (kind : α → K) (x : α) (S : List α) : SExpr → Option Bool
  | .kindGuard .a2 .a1 (.call .contains .a2 .a1) o =>
    some (match kindOf kind S with | some k => if k = kind x then lookup eq key S x else o | none => o)
  | .kindGuard .a2 .a1 (.not (.call .contains .a2 .a1)) o =>
    some (match kindOf kind S with | some k => if k = kind x then !lookup eq key S x else o | none => o)
  | _ => none

/-- **`x ∈ S` as written is the model's membership** (false unless the set's kind is the element's kind and the
    lookup finds it), and `x ∉ S` is its negation. -/
theorem C14_written_membership_is_the_model (kind : α → K) (x : α) (S : List α) :
    (expected "element_of").bind (evalMem eq key kind x S) = some (elementOf eq key kind x S) ∧
    (expected "not_element_of").bind (evalMem eq key kind x S) = some (!elementOf eq key kind x S) := by
  constructor
  · simp only [expected, Option.bind, evalMem, elementOf]
    cases kindOf kind S with
    | none => rfl
    | some k => by_cases h : k = kind x <;> simp [h]
  · simp only [expected, Option.bind, evalMem, elementOf]
    cases kindOf kind S with
    | none => rfl
    | some k => by_cases h : k = kind x <;> simp [h]

/-! non-vacuity: the extracted kernel of ∖, and an operand swap is refused -/
example : (Gen.SetKernels.kernels.find? (fun e => e.1 == "difference")).map (·.2) = some (.call .difference .a1 .a2) := by decide
example : kernelOk ("difference", .call .difference .a2 .a1) = false := by decide
example : kernelOk ("proper_superset", .and (.call .isSuperset .a1 .a2) (.lenGt .a1 .a2)) = true := by decide

end MechVerif.SetIR

/-! ### operands that are references to variables (the fallback arms of the twelve compilers, as written) -/
namespace MechVerif.RangeArms

/-- **Whichever of its two operands is a variable, a set operator's kernel receives the operands' values in the order
    written** (`Gen/OperandArms.lean` is regenerated from machines/set/src on every run; `C14_fallback_arms_ok` is its
    `decide` proof). -/
theorem C14_operand_forms_reach_the_kernel {α : Type} (f : String × Nat × List Arm)
    (hf : f ∈ Gen.OperandArms.setForms) (a b : Opnd α) (href : a.isRef = true ∨ b.isRef = true) :
    dispatch f.2.2 [a, b] = some [a.value, b.value] := by
  simp only [Gen.OperandArms.setForms, List.mem_cons, List.mem_nil_iff, or_false] at hf
  rcases hf with rfl | rfl | rfl | rfl | rfl | rfl | rfl | rfl | rfl | rfl | rfl | rfl <;>
    cases a <;> cases b <;> simp [Opnd.isRef] at href <;> rfl

end MechVerif.RangeArms
