/-
C17 — State machines run their declared transitions to the terminal state.

Statements are about the model of Model/Fsm.lean (`invoke`, `run`, `stepArms`,
`firstGuard`, `validate`), for all machines, arguments, step limits and run lengths.
Last section: the control skeleton of `execute_fsm_pipe_impl` and of the validation pass, regenerated from the
source on every run (Gen/FsmSkeleton.lean), run with the model's leaf operations, is `run` / `stepArms` / `validate`.
-/
import MechVerif.Model.Fsm
import MechVerif.Lemmas.FsmSkeleton
import MechVerif.Gen.FsmSkeleton
namespace MechVerif.Fsm
open MechVerif.Arms

/-! ### one step: the first arm that applies, the first guard that holds -/

/-- an arm is passed over when its pattern does not match the current state, or when it
    matches but none of its guards holds -/
def Skips (arm : Arm) (s : StateV) (env : Env) : Prop :=
  armMatch arm s env = none ∨
  ∃ env' gs, armMatch arm s env = some env' ∧ arm.body = .guarded gs ∧ firstGuard env' gs = .ok none

/-- The step taken from a state is decided by the first arm that is not passed over; the
    arms after it are not consulted. -/
theorem C17_first_arm_direct (s : StateV) (env env' : Env) (pre post : List Arm) (arm : Arm) (t : Target)
    (hpre : ∀ a ∈ pre, Skips a s env) (hm : armMatch arm s env = some env') (hb : arm.body = .direct t) :
    stepArms s env (pre ++ arm :: post) = leave env (applyTarget env' t) := by
  induction pre with
  | nil => simp [stepArms, hm, hb]
  | cons a pre ih =>
    simp only [List.cons_append, stepArms]
    rcases hpre a (List.mem_cons_self ..) with h | ⟨e', gs, h1, h2, h3⟩
    · rw [h]; exact ih (fun x hx => hpre x (List.mem_cons_of_mem _ hx))
    · rw [h1]; simp only [h2, h3]; exact ih (fun x hx => hpre x (List.mem_cons_of_mem _ hx))

theorem C17_first_arm_guarded (s : StateV) (env env' : Env) (pre post : List Arm) (arm : Arm)
    (gs : List Guard) (g : Guard)
    (hpre : ∀ a ∈ pre, Skips a s env) (hm : armMatch arm s env = some env') (hb : arm.body = .guarded gs)
    (hg : firstGuard env' gs = .ok (some g)) :
    stepArms s env (pre ++ arm :: post) = leave env (applyTarget env' g.target) := by
  induction pre with
  | nil => simp [stepArms, hm, hb, hg]
  | cons a pre ih =>
    simp only [List.cons_append, stepArms]
    rcases hpre a (List.mem_cons_self ..) with h | ⟨e', gs', h1, h2, h3⟩
    · rw [h]; exact ih (fun x hx => hpre x (List.mem_cons_of_mem _ hx))
    · rw [h1]; simp only [h2, h3]; exact ih (fun x hx => hpre x (List.mem_cons_of_mem _ hx))

/-- Conversely, whenever a step moves or outputs, it comes from such a first applicable arm. -/
theorem C17_step_origin (s : StateV) (env : Env) (arms : List Arm) (r : StepR)
    (h : stepArms s env arms = .ok r) (hr : ∀ (x : Unit), r ≠ .stuck) :
    ∃ pre arm post env', arms = pre ++ arm :: post ∧ (∀ a ∈ pre, Skips a s env) ∧
      armMatch arm s env = some env' ∧
      ((∃ t, arm.body = .direct t ∧ leave env (applyTarget env' t) = .ok r) ∨
       (∃ gs g, arm.body = .guarded gs ∧ firstGuard env' gs = .ok (some g) ∧ leave env (applyTarget env' g.target) = .ok r)) := by
  induction arms with
  | nil => simp only [stepArms, Except.ok.injEq] at h; exact absurd h.symm (hr ())
  | cons a rest ih =>
    simp only [stepArms] at h
    cases hm : armMatch a s env with
    | none =>
      rw [hm] at h
      obtain ⟨pre, arm, post, env', h1, h2, h3, h4⟩ := ih h
      refine ⟨a :: pre, arm, post, env', by simp [h1], ?_, h3, h4⟩
      intro x hx
      rcases List.mem_cons.1 hx with rfl | hx
      · exact Or.inl hm
      · exact h2 x hx
    | some env' =>
      rw [hm] at h
      cases hb : a.body with
      | direct t =>
        simp only [hb] at h
        exact ⟨[], a, rest, env', rfl, (fun _ hx => by cases hx), hm, Or.inl ⟨t, hb, h⟩⟩
      | guarded gs =>
        simp only [hb] at h
        cases hg : firstGuard env' gs with
        | error e => rw [hg] at h; cases h
        | ok og =>
          rw [hg] at h
          cases og with
          | some g => exact ⟨[], a, rest, env', rfl, (fun _ hx => by cases hx), hm, Or.inr ⟨gs, g, hb, hg, h⟩⟩
          | none =>
            obtain ⟨pre, arm, post, env'', h1, h2, h3, h4⟩ := ih h
            refine ⟨a :: pre, arm, post, env'', by simp [h1], ?_, h3, h4⟩
            intro x hx
            rcases List.mem_cons.1 hx with rfl | hx
            · exact Or.inr ⟨env', gs, hm, hb, hg⟩
            · exact h2 x hx

/-- What an arm's pattern bound does not outlive the arm: the machine goes on with the environment the
    step started from (its inputs), whichever arm was taken. -/
theorem C17_bindings_do_not_outlive_arm (s : StateV) (env : Env) (arms : List Arm) (s' : StateV) (env'' : Env)
    (h : stepArms s env arms = .ok (.moved s' env'')) : env'' = env := by
  obtain ⟨pre, arm, post, env', _, _, _, h4⟩ := C17_step_origin s env arms _ h (fun _ => by intro hc; cases hc)
  have key : ∀ (x : Except FErr StepR), leave env x = .ok (.moved s' env'') → env'' = env := by
    intro x hx
    cases x with
    | error e => cases hx
    | ok r =>
      cases r with
      | moved s1 e1 => simp only [leave, Except.ok.injEq, StepR.moved.injEq] at hx; exact hx.2.symm
      | out v e1 => simp only [leave, Except.ok.injEq] at hx; cases hx
      | stuck => simp only [leave, Except.ok.injEq] at hx; cases hx
  rcases h4 with ⟨t, _, h5⟩ | ⟨gs, g, _, _, h5⟩
  · exact key _ h5
  · exact key _ h5

/-- Among the guards of an arm the first one that holds wins: every guard before it
    evaluated to false. -/
theorem C17_first_guard_wins (env : Env) (gs : List Guard) (g : Guard) (h : firstGuard env gs = .ok (some g)) :
    ∃ gpre gpost, gs = gpre ++ g :: gpost ∧
      (∀ x ∈ gpre, ∃ c, x.cond = some c ∧ evalS env c = .ok (.bool false)) ∧
      (g.cond = none ∨ ∃ c, g.cond = some c ∧ evalS env c = .ok (.bool true)) := by
  induction gs with
  | nil => simp [firstGuard] at h
  | cons x rest ih =>
    simp only [firstGuard] at h
    cases hc : x.cond with
    | none =>
      rw [hc] at h
      simp only [Except.ok.injEq, Option.some.injEq] at h; subst h
      exact ⟨[], rest, rfl, (fun _ hx => by cases hx), Or.inl hc⟩
    | some c =>
      rw [hc] at h
      simp only at h
      cases he : evalS env c with
      | error e => rw [he] at h; cases h
      | ok v =>
        rw [he] at h
        cases v with
        | num k n => cases h
        | str t => cases h
        | bool b =>
          cases b with
          | true =>
            simp only [Except.ok.injEq, Option.some.injEq] at h; subst h
            exact ⟨[], rest, rfl, (fun _ hx => by cases hx), Or.inr ⟨c, hc, he⟩⟩
          | false =>
            obtain ⟨gpre, gpost, h1, h2, h3⟩ := ih h
            refine ⟨x :: gpre, gpost, by simp [h1], ?_, h3⟩
            intro y hy
            rcases List.mem_cons.1 hy with rfl | hy
            · exact ⟨c, hc, he⟩
            · exact h2 y hy

/-- a guard that is not a bool is an error, not a silent choice -/
theorem C17_guard_must_be_bool (env : Env) (g : Guard) (rest : List Guard) (c : E) (k : NK) (n : Int)
    (hc : g.cond = some c) (he : evalS env c = .ok (.num k n)) :
    firstGuard env (g :: rest) = .error .guardKind := by
  simp [firstGuard, hc, he]

/-! ### the run: the declared sequence of states, bounded by the transition limit -/

/-- `Reaches arms j a b`: `j` moves lead from configuration `a` to `b` -/
inductive Reaches (arms : List Arm) : Nat → StateV × Env → StateV × Env → Prop where
  | zero (a : StateV × Env) : Reaches arms 0 a a
  | succ {j : Nat} {a b : StateV × Env} {s' : StateV} {env' : Env} :
      stepArms a.1 a.2 arms = .ok (.moved s' env') → Reaches arms j (s', env') b → Reaches arms (j + 1) a b

/-- A machine returns a value exactly when, within the limit, its moves lead to a state whose
    step is an output arm — and the value is that arm's. -/
theorem C17_run_value (arms : List Arm) : ∀ (k : Nat) (s : StateV) (env : Env) (v : S),
    run arms k s env = .ok (.value v) ↔
      ∃ j, j < k ∧ ∃ s' env' env'', Reaches arms j (s, env) (s', env') ∧ stepArms s' env' arms = .ok (.out v env'') := by
  intro k
  induction k with
  | zero => intro s env v; simp [run]
  | succ k ih =>
    intro s env v
    simp only [run]
    cases hs : stepArms s env arms with
    | error e =>
      simp only [false_iff, reduceCtorEq]
      rintro ⟨j, _, s', env', env'', hr, ho⟩
      cases hr with
      | zero => rw [hs] at ho; cases ho
      | succ hstep _ => rw [hs] at hstep; cases hstep
    | ok r =>
      cases r with
      | out w e =>
        simp only [Except.ok.injEq, Result.value.injEq]
        constructor
        · rintro rfl; exact ⟨0, by omega, s, env, e, .zero _, hs⟩
        · rintro ⟨j, _, s', env', env'', hr, ho⟩
          cases hr with
          | zero => rw [hs] at ho; simp only [Except.ok.injEq, StepR.out.injEq] at ho; exact ho.1
          | succ hstep _ => rw [hs] at hstep; cases hstep
      | stuck =>
        simp only [Except.ok.injEq, reduceCtorEq, false_iff]
        rintro ⟨j, _, s', env', env'', hr, ho⟩
        cases hr with
        | zero => rw [hs] at ho; cases ho
        | succ hstep _ => rw [hs] at hstep; cases hstep
      | moved s1 env1 =>
        simp only
        rw [ih s1 env1 v]
        constructor
        · rintro ⟨j, hj, s', env', env'', hr, ho⟩
          exact ⟨j + 1, by omega, s', env', env'', .succ hs hr, ho⟩
        · rintro ⟨j, hj, s', env', env'', hr, ho⟩
          cases hr with
          | zero => rw [hs] at ho; cases ho
          | succ hstep hrest =>
            rw [hs] at hstep
            simp only [Except.ok.injEq, StepR.moved.injEq] at hstep
            obtain ⟨rfl, rfl⟩ := hstep
            exact ⟨_, by omega, s', env', env'', hrest, ho⟩

/-- A machine that keeps moving is stopped with the limit error after `k` transitions — it
    does not hang. -/
theorem C17_limit_stops (arms : List Arm) : ∀ (k : Nat) (s : StateV) (env : Env),
    (∀ j, j < k → ∃ s' env' s'' env'', Reaches arms j (s, env) (s', env') ∧ stepArms s' env' arms = .ok (.moved s'' env'')) →
    run arms k s env = .error .limit := by
  intro k
  induction k with
  | zero => intro s env _; rfl
  | succ k ih =>
    intro s env h
    obtain ⟨s0, env0, s1, env1, hr0, hm0⟩ := h 0 (by omega)
    cases hr0
    simp only [run, hm0]
    apply ih
    intro j hj
    obtain ⟨s', env', s'', env'', hr, hm⟩ := h (j + 1) (by omega)
    cases hr with
    | succ hstep hrest =>
      rw [hm0] at hstep
      simp only [Except.ok.injEq, StepR.moved.injEq] at hstep
      obtain ⟨rfl, rfl⟩ := hstep
      exact ⟨s', env', s'', env'', hrest, hm⟩

/-- The states visited are at most as many as the limit, start with the start state, and
    each next one is the target of the step from the one before. -/
theorem C17_visited_bounded (arms : List Arm) : ∀ (k : Nat) (s : StateV) (env : Env),
    (visited arms k s env).length ≤ k := by
  intro k
  induction k with
  | zero => intro s env; simp [visited]
  | succ k ih =>
    intro s env
    simp only [visited, List.length_cons]
    split
    · next s' env' _ => have := ih s' env'; omega
    · simp

theorem C17_visited_chain (arms : List Arm) : ∀ (k : Nat) (s : StateV) (env : Env) (i : Nat) (si : StateV),
    (visited arms k s env)[i]? = some si → ∃ envi, Reaches arms i (s, env) (si, envi) := by
  intro k
  induction k with
  | zero => intro s env i si h; simp [visited] at h
  | succ k ih =>
    intro s env i si h
    simp only [visited] at h
    cases i with
    | zero => simp only [List.getElem?_cons_zero, Option.some.injEq] at h; subst h; exact ⟨env, .zero _⟩
    | succ i =>
      simp only [List.getElem?_cons_succ] at h
      split at h
      · next s' env' hstep =>
        obtain ⟨envi, hr⟩ := ih s' env' i si h
        exact ⟨envi, .succ hstep hr⟩
      · simp at h

/-! ### array-pattern states -/

/-- Before an arm is tried every variable of its pattern — in the prefix and in the suffix of an
    array pattern alike — is unbound, so a revisited arm binds the current elements afresh
    instead of comparing them with what an earlier visit bound. -/
theorem C17_pattern_variables_rebound (pats : List P) (env : Env) (x : Nat) (h : x ∈ pats.flatMap varsOfP) :
    (clearVars pats env).get x = none := by
  unfold clearVars Env.get
  have : (List.filter (fun p => !((pats.flatMap varsOfP).contains p.1)) env).find? (fun p => p.1 == x) = none := by
    rw [List.find?_eq_none]
    intro p hp hpx
    rw [List.mem_filter] at hp
    have hx : p.1 = x := by simpa using hpx
    rw [hx] at hp
    have : (pats.flatMap varsOfP).contains x = true := by simpa using h
    rw [this] at hp
    simp at hp
  rw [this]; rfl

/-- the variables of an array pattern are those of its prefix and of its suffix -/
theorem C17_array_pattern_variables (pre suf : List SP) (spread : Bool) (x : Nat) :
    x ∈ varsOfP (.arr pre spread suf) ↔ (x ∈ pre.flatMap varsOfSP ∨ x ∈ suf.flatMap varsOfSP) := by
  simp only [varsOfP, List.mem_append]

/-- Bindings other than the arm's own pattern variables are kept (inputs stay visible). -/
theorem C17_other_bindings_kept (pats : List P) (env : Env) (x : Nat) (h : x ∉ pats.flatMap varsOfP) :
    (clearVars pats env).get x = env.get x := by
  unfold clearVars Env.get
  congr 1
  induction env with
  | nil => rfl
  | cons p env ih =>
    simp only [List.filter_cons]
    by_cases hp : (pats.flatMap varsOfP).contains p.1 = true
    · simp only [hp, Bool.not_true, Bool.false_eq_true, if_false]
      have hne : (p.1 == x) = false := by
        have : p.1 ∈ pats.flatMap varsOfP := by simpa using hp
        have : p.1 ≠ x := fun e => h (e ▸ this)
        simpa using this
      simp only [List.find?_cons, hne]
      exact ih
    · have hp' : (pats.flatMap varsOfP).contains p.1 = false := by simpa using hp
      simp only [hp', Bool.not_false, if_true, List.find?_cons]
      cases (p.1 == x) with
      | true => rfl
      | false => exact ih

/-! ### the call: what is rejected, what kind is returned -/

theorem C17_wrong_argument_count (m : Machine) (k : Nat) (args : List V) (h : m.inputs.length ≠ args.length) :
    invoke m k args = .error .arity := by
  simp [invoke, h]

theorem bindInputs_kinds : ∀ (ds : List (Nat × IK)) (args : List V) (env env' : Env),
    bindInputs ds args env = .ok env' → ∀ p ∈ ds.zip args, kindOfV p.2 = some p.1.2 := by
  intro ds
  induction ds with
  | nil => intro args env env' _ p hp; cases args <;> simp at hp
  | cons d ds ih =>
    intro args env env' h p hp
    cases args with
    | nil => simp at hp
    | cons a as =>
      obtain ⟨x, kd⟩ := d
      simp only [bindInputs] at h
      split at h
      · next hk =>
        simp only [List.zip_cons_cons, List.mem_cons] at hp
        rcases hp with rfl | hp
        · exact hk
        · exact ih as _ env' h p hp
      · cases h

/-- Arguments of the wrong kind are rejected: a call that runs had every argument of its
    declared kind. -/
theorem C17_argument_kinds (m : Machine) (k : Nat) (args : List V) (r : Result) (h : invoke m k args = .ok r) :
    m.inputs.length = args.length ∧ ∀ p ∈ m.inputs.zip args, kindOfV p.2 = some p.1.2 := by
  simp only [invoke] at h
  split at h
  · cases h
  · next hl =>
    refine ⟨by simpa using hl, ?_⟩
    cases hb : bindInputs m.inputs args [] with
    | error e => rw [hb] at h; cases h
    | ok env => exact bindInputs_kinds m.inputs args [] env hb

theorem validate_ok (m : Machine) (h : validate m = .ok ()) (hne : m.arms ≠ []) :
    (∀ d ∈ m.declared, d ∈ m.arms.map (·.name)) ∧ m.start.1 ∈ m.arms.map (·.name) ∧
    (∀ t ∈ targets m, t ∈ m.arms.map (·.name)) := by
  simp only [validate] at h
  have hemp : (m.arms.map (·.name)).isEmpty = false := by
    cases hm : m.arms with
    | nil => exact absurd hm hne
    | cons a r => rfl
  rw [hemp] at h
  simp only [Bool.false_eq_true, if_false] at h
  split at h
  · cases h
  · next h1 =>
    split at h
    · cases h
    · next h2 =>
      split at h
      · cases h
      · next h3 =>
        simp only [Bool.not_eq_true', Bool.not_eq_false, List.all_eq_true, List.contains_iff_mem] at h1 h2 h3
        refine ⟨fun d hd => by simpa using h1 d hd, by simpa using h2, fun t ht => by simpa using h3 t ht⟩

/-- A machine that runs has an arm for every declared state, for its start state and for
    every transition target: a transition to an undeclared state and a declared state
    without an arm are rejected. -/
theorem C17_well_formed_or_rejected (m : Machine) (k : Nat) (args : List V) (r : Result)
    (h : invoke m k args = .ok r) (hne : m.arms ≠ []) :
    (∀ d ∈ m.declared, d ∈ m.arms.map (·.name)) ∧ m.start.1 ∈ m.arms.map (·.name) ∧
    (∀ t ∈ targets m, t ∈ m.arms.map (·.name)) := by
  simp only [invoke] at h
  split at h
  · cases h
  · cases hb : bindInputs m.inputs args [] with
    | error e => rw [hb] at h; cases h
    | ok env =>
      rw [hb] at h
      simp only at h
      cases hs : evalAs env m.start.2 with
      | error e => rw [hs] at h; cases h
      | ok vs =>
        rw [hs] at h
        simp only at h
        cases hv : validate m with
        | error e => rw [hv] at h; cases h
        | ok u => cases u; exact validate_ok m hv hne

/-- What a machine with a declared output kind returns is a value of that kind — never a
    halted state, never a value of another kind. -/
theorem C17_output_kind (m : Machine) (k : Nat) (args : List V) (r : Result) (kd : NK)
    (h : invoke m k args = .ok r) (hk : m.outKind = some kd) : ∃ v, r = .value v ∧ kindOfS v = some kd := by
  simp only [invoke] at h
  split at h
  · cases h
  · cases hb : bindInputs m.inputs args [] with
    | error e => rw [hb] at h; cases h
    | ok env =>
      rw [hb] at h
      simp only at h
      cases hs : evalAs env m.start.2 with
      | error e => rw [hs] at h; cases h
      | ok vs =>
        rw [hs] at h
        simp only at h
        cases hv : validate m with
        | error e => rw [hv] at h; cases h
        | ok u =>
          rw [hv] at h
          simp only at h
          cases hr : run m.arms k ⟨m.start.1, vs⟩ env with
          | error e => rw [hr] at h; cases h
          | ok res =>
            rw [hr, hk] at h
            cases res with
            | halted s => cases h
            | value v =>
              simp only at h
              split at h
              · next hkv => simp only [Except.ok.injEq] at h; subst h; exact ⟨v, rfl, hkv⟩
              · cases h

/-- The run starts in the declared start state with the given arguments. -/
theorem C17_starts_in_start_state (m : Machine) (k : Nat) (args : List V) (r : Result)
    (h : invoke m k args = .ok r) :
    ∃ env vs, bindInputs m.inputs args [] = .ok env ∧ evalAs env m.start.2 = .ok vs ∧
      run m.arms k ⟨m.start.1, vs⟩ env = .ok r := by
  simp only [invoke] at h
  split at h
  · cases h
  · cases hb : bindInputs m.inputs args [] with
    | error e => rw [hb] at h; cases h
    | ok env =>
      rw [hb] at h
      simp only at h
      cases hs : evalAs env m.start.2 with
      | error e => rw [hs] at h; cases h
      | ok vs =>
        rw [hs] at h
        simp only at h
        cases hv : validate m with
        | error e => rw [hv] at h; cases h
        | ok u =>
          rw [hv] at h
          simp only at h
          cases hr : run m.arms k ⟨m.start.1, vs⟩ env with
          | error e => rw [hr] at h; cases h
          | ok res =>
            rw [hr] at h
            refine ⟨env, vs, rfl, hs, ?_⟩
            cases hok : m.outKind with
            | none => rw [hok] at h; simp only [Except.ok.injEq] at h; rw [hr, h]
            | some kd =>
              rw [hok] at h
              cases res with
              | halted s => cases h
              | value v =>
                simp only at h
                split at h
                · simp only [Except.ok.injEq] at h; rw [hr, h]
                · cases h

/-! ### the runner and the validation pass as written

`Gen.FsmSkeleton.runner : FsmIR.Stmt` is `execute_fsm_pipe_impl` read statement by statement by tools/extract_fsm.py
(step loop `0..max_steps`, loop over the arms, clone / clear / match on the clone, guard loop, `apply_transitions`,
`break` / `continue` / `return`, the limit error), `Gen.FsmSkeleton.validator` what `validate_fsm_state_coverage`
collects and looks up.  `FsmIR.runSkeleton` / `FsmIR.runValidator` give them their meaning with the leaf operations
as parameters; `FsmIR.modelOps` are the model's leaves (`clearVars`, `matchPs`, `evalS`, `applyTarget`). -/

open MechVerif.FsmIR in
/-- The runner as written, on any list of `FsmArm`s (comments included), any state, environment and limit, returns
    what the model's `run` returns on the arms that are not comments: the value of an output arm, the state it halts
    in, the limit error after `max_steps` turns, a guard or evaluation error. -/
theorem C17_runner_as_written_is_run (sarms : List MArm) (k : Nat) (s : StateV) (env : Env) :
    runSkeleton modelOps Gen.FsmSkeleton.runner k sarms s env =
      some (Except.map ofResult (run (sarms.filterMap armOf) k s env)) := by
  rw [Gen.FsmSkeleton.C17_runner_as_written]
  exact runSkeleton_expected sarms k s env

open MechVerif.FsmIR in
theorem armOf_sarmOf (a : Arm) : armOf (sarmOf a) = some a := by
  obtain ⟨n, ps, b⟩ := a
  cases b with
  | direct t => rfl
  | guarded gs =>
    simp only [sarmOf, armOf, List.map_map, Option.some.injEq, Arm.mk.injEq, Body.guarded.injEq, true_and]
    induction gs with
    | nil => rfl
    | cons g gs ih => simp only [List.map_cons, ih]; rfl

open MechVerif.FsmIR in
/-- … in particular on every machine of the model -/
theorem C17_runner_as_written_on_model (arms : List Arm) (k : Nat) (s : StateV) (env : Env) :
    runSkeleton modelOps Gen.FsmSkeleton.runner k (arms.map sarmOf) s env = some (Except.map ofResult (run arms k s env)) := by
  rw [C17_runner_as_written_is_run]
  have : (arms.map sarmOf).filterMap armOf = arms := by
    induction arms with
    | nil => rfl
    | cons a l ih => simp only [List.map_cons, List.filterMap_cons, armOf_sarmOf, ih]
  rw [this]

open MechVerif.FsmIR in
/-- One scan of the arms as written (clone before clear, clear and match on the clone, guards in order, nothing written
    back) started with the flag down ends as the model's `stepArms` says: error, output, no arm applied (flag still
    down, state and shared environment untouched), or moved (flag up, new state, shared environment untouched). -/
theorem C17_arm_scan_as_written_is_stepArms (n : Nat) (arms l : List MArm) (σ : MS) (ht : σ.transitioned = some false) :
    StepSpec (stepArms σ.state σ.callEnv (l.filterMap armOf)) σ.state σ.callEnv
      (iter (armDispatch (exec modelOps n arms Stmt.cont) (exec modelOps n arms transitionArm) (exec modelOps n arms guardArm)) l σ) :=
  arms_loop n arms l σ σ.state σ.callEnv rfl rfl ht

open MechVerif.FsmIR in
/-- The validation pass as written accepts exactly the machines `validate` accepts. -/
theorem C17_validator_as_written_is_validate (m : Machine) :
    runValidator Gen.FsmSkeleton.validator FErr.undefinedState (m.arms.map varmOf) (some m.declared) (some m.start.1) =
      validate m := by
  rw [Gen.FsmSkeleton.C17_validator_as_written]
  exact runValidator_expected m

open MechVerif.FsmIR in
/-- So the theorems above hold of the runner as written; e.g. it returns a value exactly when, within the limit, its
    moves reach a state whose step is an output arm -/
theorem C17_run_value_as_written (arms : List Arm) (k : Nat) (s : StateV) (env : Env) (v : S) :
    runSkeleton modelOps Gen.FsmSkeleton.runner k (arms.map sarmOf) s env = some (.ok (.value v)) ↔
      ∃ j, j < k ∧ ∃ s' env' env'', Reaches arms j (s, env) (s', env') ∧ stepArms s' env' arms = .ok (.out v env'') := by
  rw [C17_runner_as_written_on_model, ← C17_run_value]
  cases run arms k s env with
  | error e => simp [Except.map]
  | ok r => cases r <;> simp [Except.map, ofResult]

open MechVerif.FsmIR in
/-- … and a machine that keeps moving is stopped by the runner as written with the limit error after exactly `k` turns -/
theorem C17_limit_stops_as_written (arms : List Arm) (k : Nat) (s : StateV) (env : Env)
    (h : ∀ j, j < k → ∃ s' env' s'' env'', Reaches arms j (s, env) (s', env') ∧ stepArms s' env' arms = .ok (.moved s'' env'')) :
    runSkeleton modelOps Gen.FsmSkeleton.runner k (arms.map sarmOf) s env = some (.error .limit) := by
  rw [C17_runner_as_written_on_model, C17_limit_stops arms k s env h]
  rfl

/-! ### the seeded changes have another meaning

The changes the tie is meant to catch are not merely other text: run on a small machine each gives another result
than the accepted skeleton (so `exec` tells them apart, and `decide` in Gen/FsmSkeleton.lean fails for a reason). -/
section mutants
open MechVerif.FsmIR MechVerif.Arms Stmt

def runnerWith (range : Range) (tArm gArm : Stmt) : Stmt :=
  seq (forSteps range (seq (setB .transitioned false) (seq (forArms cont tArm gArm) (ite (.not (.var .transitioned)) returnState skip)))) failLimit

theorem runnerWith_expected : runnerWith .exclusive transitionArm guardArm = expectedRunner := rfl

def stA : StateV := ⟨"A", []⟩

/-- `0..=max_steps`: with limit 0 a turn is still made -/
theorem C17_mutant_inclusive_bound :
    runSkeleton modelOps (runnerWith .inclusive transitionArm guardArm) 0 [] stA [] = some (.ok (.state stA)) ∧
    runSkeleton modelOps expectedRunner 0 [] stA [] = some (.error .limit) := ⟨rfl, rfl⟩

/-- a guarded arm without a guard that holds, then a direct arm for the same state -/
def fallArms : List MArm := [.guard ("A", []) [], .transition ("A", []) (.output (.lit (.bool true)))]

/-- `break` instead of falling through after a guarded arm whose guards all fail: the later arm is not tried -/
theorem C17_mutant_guards_fail_stops :
    runSkeleton modelOps (runnerWith .exclusive transitionArm
        (withPrologue (seq (ite (.not (.var .matched)) cont skip) (seq (forGuards guardBody) brk)))) 1 fallArms stA [] =
      some (.ok (.state stA)) ∧
    runSkeleton modelOps expectedRunner 1 fallArms stA [] = some (.ok (.value (.bool true))) := ⟨rfl, rfl⟩

/-- `A(x) -> B`, `B => x` -/
def leakArms : List MArm :=
  [.transition ("A", [.sp (.bind 0)]) (.next "B" []), .transition ("B", []) (.output (.var 0))]

/-- `*call_env = arm_env` after the transitions: what `A`'s pattern bound is visible in `B` -/
theorem C17_mutant_write_back :
    runSkeleton modelOps (runnerWith .exclusive
        (withPrologue (ite (.var .matched) (seq (apply .arm .arm) (seq (assign .call .arm) (seq returnIfOut (seq (setB .transitioned true) brk)))) skip))
        guardArm) 5 leakArms ⟨"A", [.sc (.num .u64 5)]⟩ [] = some (.ok (.value (.num .u64 5))) ∧
    runSkeleton modelOps expectedRunner 5 leakArms ⟨"A", [.sc (.num .u64 5)]⟩ [] = some (.error (.eval .undef)) := ⟨rfl, rfl⟩

/-- `B(x) -> B`, `A => x` with `x` an input -/
def shadowArms : List MArm :=
  [.transition ("B", [.sp (.bind 0)]) (.next "B" []), .transition ("A", []) (.output (.var 0))]

/-- `clear_pattern_bindings(pattern, call_env)` before the clone: scanning past an arm whose pattern names an input
    loses the input -/
theorem C17_mutant_clear_before_clone :
    runSkeleton modelOps (runnerWith .exclusive
        (seq (clear .call) (seq (clone .call) (seq (matchPat .arm) (ite (.var .matched) (taken .arm) skip))))
        guardArm) 5 shadowArms stA [(0, .sc (.num .u64 7))] = some (.error (.eval .undef)) ∧
    runSkeleton modelOps expectedRunner 5 shadowArms stA [(0, .sc (.num .u64 7))] = some (.ok (.value (.num .u64 7))) := ⟨rfl, rfl⟩

/-- an arm whose second guard goes to a state without an arm -/
def badSecondGuard : List VArm := [.guard (some "A") [[(.next, some "A")], [(.next, some "Z")]]]

/-- only the first guard's transitions validated: the undefined target of the second guard is accepted -/
theorem C17_mutant_first_guard_validated :
    runValidator { expectedValidator with checks := [.declared .all, .start, .targets .all .first .all] }
        FErr.undefinedState badSecondGuard (some []) (some "A") = .ok () ∧
    runValidator expectedValidator FErr.undefinedState badSecondGuard (some []) (some "A") = .error .undefinedState := ⟨rfl, rfl⟩

end mutants
end MechVerif.Fsm
