/-
The generated definitions of `Gen/IncludeHelpers.lean` (the line-level helpers of the include expander, translated from
`src/mechfs.rs` on every run) compute the functions of `Model/Include.lean`, for all lines, and never panic.
-/
import MechVerif.Gen.IncludeHelpers
import MechVerif.Lemmas.Include
namespace MechVerif.IncludeIR
open MechVerif.Include MechVerif.Gen.IncludeHelpers

/-- length of the run of elements `c` at positions `k, k+1, …` with `p position c` -/
def scanLen (p : Nat → Char → Bool) : Nat → Text → Nat
  | _, [] => 0
  | k, c :: cs => if p k c then 1 + scanLen p (k + 1) cs else 0

theorem idx_append (pre : Text) (c : Char) (cs : Text) : idx (pre ++ c :: cs) pre.length = .ok c := by
  simp [idx]

/-- a scanning `while` over the characters of `b` stops after the run -/
theorem whileUp_scan (b : Text) (p : Nat → Char → Bool) :
    ∀ (suf pre : Text), b = pre ++ suf →
      whileUp (len b) (fun k => bindE (idx b k) (fun c => .ok (p k c))) pre.length
        = .ok (pre.length + scanLen p pre.length suf) := by
  intro suf
  induction suf with
  | nil =>
    intro pre hb
    subst hb
    rw [whileUp]
    simp [len, scanLen]
  | cons c cs ih =>
    intro pre hb
    rw [whileUp]
    have hlt : pre.length < len b := by subst hb; simp [len]
    have hidx : idx b pre.length = .ok c := by subst hb; exact idx_append pre c cs
    simp only [hlt, if_true, hidx, bindE_ok, scanLen]
    cases hp : p pre.length c with
    | false => simp
    | true =>
      have := ih (pre ++ [c]) (by subst hb; simp)
      simp only [List.length_append, List.length_singleton] at this
      simp only [this, if_true]
      congr 1
      omega

theorem scanLen_const (p : Char → Bool) : ∀ (s : Text) (k : Nat), scanLen (fun _ c => p c) k s = (s.takeWhile p).length := by
  intro s
  induction s with
  | nil => intro k; simp [scanLen]
  | cons c cs ih =>
    intro k
    simp only [scanLen, List.takeWhile_cons]
    by_cases hp : p c = true
    · simp [hp, ih]; omega
    · simp [hp]

theorem scanLen_spaces : ∀ (s : Text) (k : Nat), k ≤ 4 →
    k + scanLen (fun i c => (c == ' ') && decide (i < 4)) k s = min (k + (s.takeWhile (· == ' ')).length) 4 := by
  intro s
  induction s with
  | nil => intro k hk; simp [scanLen]; omega
  | cons c cs ih =>
    intro k hk
    simp only [scanLen, List.takeWhile_cons]
    by_cases hc : (c == ' ') = true
    · by_cases h4 : k < 4
      · have := ih (k + 1) (by omega)
        simp [h4, hc] at this ⊢
        omega
      · simp [h4, hc]
        omega
    · simp [hc]; omega

theorem usub_add_left (a b : Nat) : usub (a + b) a = .ok b := by
  simp [usub]

/-- `code_fence_delimiter` as written = the model's `codeFenceDelimiter`, for every line; it never panics -/
theorem code_fence_delimiter_eq (line : Text) : code_fence_delimiter line = .ok (codeFenceDelimiter line) := by
  have h1 := whileUp_scan line (fun i c => (c == ' ') && decide (i < 4)) line [] rfl
  have h2 := scanLen_spaces line 0 (by omega)
  simp only [List.length_nil, Nat.zero_add] at h1 h2
  rw [h2] at h1
  have hmin : ∀ a b : Nat, min a b = Nat.min a b := fun _ _ => rfl
  rw [hmin] at h1
  unfold code_fence_delimiter codeFenceDelimiter
  generalize Nat.min (List.takeWhile (fun x => x == ' ') line).length 4 = i at h1
  simp only [asBytes, byteAsChar, h1, bindE_ok]
  by_cases hc : i > 3 ∨ i ≥ line.length
  · have : (decide (i > 3) || decide (i ≥ len line)) = true := by simpa [len] using hc
    have this' : (decide (i > 3) || decide (i ≥ line.length)) = true := this
    simp only [this, this', if_true]
  · have hlt : i < line.length := by omega
    have hnc : (decide (i > 3) || decide (i ≥ len line)) = false := by
      simp [len]; omega
    have hnc' : (decide (i > 3) || decide (i ≥ line.length)) = false := hnc
    simp only [hnc, hnc']
    cases hd : line.drop i with
    | nil => have := congrArg List.length hd; simp at this; omega
    | cons m rest =>
      have hb : line = line.take i ++ m :: rest := by rw [← hd, List.take_append_drop]
      have hl : (line.take i).length = i := by simp; omega
      generalize line.take i = pre at hb hl
      subst hb
      subst hl
      have h3 := whileUp_scan (pre ++ m :: rest) (fun _ c => c == m) (m :: rest) pre rfl
      rw [scanLen_const] at h3
      simp only [idx_append, bindE_ok]
      by_cases hm : (m != '`' && m != '~') = true
      · simp [hm]
      · simp only [hm]
        simp only [h3, bindE_ok, List.takeWhile_cons, beq_self_eq_true, if_true, List.length_cons, usub_add_left]
        have e : 1 + (List.takeWhile (fun x => x == m) rest).length = (List.takeWhile (fun c => c == m) rest).length + 1 := by omega
        rw [e]
        by_cases h3' : (List.takeWhile (fun c => c == m) rest).length + 1 < 3 <;> simp [hnc, h3']

theorem length_takeWhile_le' (p : Char → Bool) (l : Text) : (l.takeWhile p).length ≤ l.length :=
  (List.takeWhile_sublist p).length_le

/-- the position after the run lies inside the line (so `&line[after..]` does not panic) -/
theorem codeFence_after_le (line : Text) (m : Char) (c a : Nat)
    (h : codeFenceDelimiter line = some (m, c, a)) : a ≤ line.length := by
  unfold codeFenceDelimiter at h
  simp only at h
  split at h
  · cases h
  · split at h
    · cases h
    · rename_i marker rest hd
      split at h
      · cases h
      · split at h
        · cases h
        · simp only [Option.some.injEq, Prod.mk.injEq] at h
          obtain ⟨_, _, rfl⟩ := h
          have h1 := congrArg List.length hd
          have h2 := length_takeWhile_le' (· == marker) rest
          simp at h1
          omega

theorem dropWhile_all (p : Char → Bool) : ∀ l : Text, (l.dropWhile p).all p = l.all p := by
  intro l
  induction l with
  | nil => rfl
  | cons c cs ih =>
    by_cases hp : p c = true
    · simp only [List.dropWhile_cons, hp, if_true, ih, List.all_cons, Bool.true_and]
    · simp [List.dropWhile_cons, hp]

theorem dropWhile_isEmpty (p : Char → Bool) : ∀ l : Text, (l.dropWhile p).isEmpty = l.all p := by
  intro l
  induction l with
  | nil => rfl
  | cons c cs ih =>
    by_cases hp : p c = true
    · simp only [List.dropWhile_cons, hp, if_true, ih, List.all_cons, Bool.true_and]
    · simp [List.dropWhile_cons, hp]

/-- `s.trim_matches(p).is_empty()` says that every character of `s` satisfies `p` -/
theorem trimMatches_isEmpty (p : Char → Bool) (s : Text) : isEmpty (trimMatches p s) = s.all p := by
  unfold isEmpty trimMatches
  rw [show ∀ l : Text, l.reverse.isEmpty = l.isEmpty from fun l => by cases l <;> simp]
  rw [dropWhile_isEmpty, List.all_reverse, dropWhile_all]

/-- `is_code_fence_close` as written = the model's `isFenceClose`, for every line, marker and length; never panics -/
theorem is_code_fence_close_eq (line : Text) (marker : Char) (minLen : Nat) :
    is_code_fence_close line marker minLen = .ok (isFenceClose line marker minLen) := by
  unfold is_code_fence_close isFenceClose
  rw [code_fence_delimiter_eq]
  simp only [bindE_ok]
  cases h : codeFenceDelimiter line with
  | none => rfl
  | some r =>
    obtain ⟨m, c, a⟩ := r
    have ha := codeFence_after_le line m c a h
    simp only
    by_cases hc : (m != marker || decide (c < minLen)) = true
    · have hc' : (m != marker || decide (c < minLen)) = true := hc
      simp [hc]
    · simp only [hc, sliceFrom, ha, if_true, bindE_ok, trimMatches_isEmpty]
      simp

/-- closed form of `standalone_braced_content`: the trimmed line starts with `{` and ends with `}`; what is between -/
def standaloneBraced (l : Text) : Option Text :=
  let t := trimWs l
  if t.head? == some '{' && t.getLast? == some '}' then some ((t.drop 1).dropLast) else none

theorem braced_length (t : Text) (h1 : t.head? = some '{') (h2 : t.getLast? = some '}') : 2 ≤ t.length := by
  match t, h1, h2 with
  | [a], h1, h2 =>
    simp at h1 h2
    subst h1
    exact absurd h2 (by decide)
  | _ :: _ :: _, _, _ => simp

theorem slice_inner (t : Text) (h : 2 ≤ t.length) : (t.take (t.length - 1)).drop 1 = (t.drop 1).dropLast := by
  rw [List.dropLast_eq_take, List.drop_take, List.length_drop]

/-- `standalone_braced_content` as written: never panics, and returns the text between the braces -/
theorem standalone_braced_content_eq (l : Text) :
    standalone_braced_content l = .ok (standaloneBraced l) := by
  unfold standalone_braced_content standaloneBraced
  simp only [trim, startsWithChar, endsWithChar]
  by_cases hc : ((trimWs l).head? == some '{' && (trimWs l).getLast? == some '}') = true
  · have h12 := hc
    simp only [Bool.and_eq_true, beq_iff_eq] at h12
    have hlen := braced_length _ h12.1 h12.2
    have hu : usub (trimWs l).length 1 = .ok ((trimWs l).length - 1) := by
      simp only [usub]; rw [if_pos (by omega)]
    have hs : slice (trimWs l) 1 ((trimWs l).length - 1) = .ok ((trimWs l).take ((trimWs l).length - 1) |>.drop 1) := by
      simp only [slice]; rw [if_pos (by omega)]
    simp only [hc, Bool.not_true, hu, hs, bindE_ok, slice_inner _ hlen]
    simp
  · simp only [hc]
    simp

/-- `looks_like_mech_include` as written -/
theorem looks_like_mech_include_eq (c : Text) :
    looks_like_mech_include c = .ok (endsWith (trimWs c) ".mec".toList) := by
  unfold looks_like_mech_include
  rfl

/-- the two brace helpers, used the way `expand_mechdown_include_tokens` uses them, compute the model's `includeTarget` -/
theorem includeTarget_eq (body : Text) :
    includeTargetOf standalone_braced_content looks_like_mech_include body = .ok (includeTarget body) := by
  unfold includeTargetOf includeTarget
  rw [standalone_braced_content_eq]
  simp only [bindE_ok, standaloneBraced, trim]
  by_cases hc : ((trimWs body).head? == some '{' && (trimWs body).getLast? == some '}') = true
  · have h12 := hc
    simp only [Bool.and_eq_true, beq_iff_eq] at h12
    have hlen := braced_length _ h12.1 h12.2
    have hd : decide (2 ≤ (trimWs body).length) = true := by simpa using hlen
    simp only [hc, hd, if_true, looks_like_mech_include_eq, bindE_ok, Bool.and_true]
    split <;> rfl
  · have hc' : ((trimWs body).head? == some '{' && (trimWs body).getLast? == some '}' &&
        decide (2 ≤ (trimWs body).length)) = false := by
      simp only [Bool.not_eq_true] at hc
      rw [hc]; rfl
    simp only [hc, hc']
    rfl

end MechVerif.IncludeIR
