import MechVerif.Model.Bytecode
namespace MechVerif.Bytecode
open MechVerif.Crc (Byte)

theorem leBytes_length (k v : Nat) : (leBytes k v).length = k := by
  induction k generalizing v with
  | zero => rfl
  | succ k ih => simp [leBytes, ih]

theorem unle_leBytes (k : Nat) : ∀ v, v < 256 ^ k → unle (leBytes k v) = v := by
  induction k with
  | zero => intro v h; simp at h; subst h; rfl
  | succ k ih =>
    intro v h
    simp only [leBytes, unle]
    have hd : v / 256 < 256 ^ k := by
      rw [Nat.pow_succ] at h
      exact Nat.div_lt_of_lt_mul (by rw [Nat.mul_comm]; exact h)
    rw [ih _ hd]
    simp only [BitVec.toNat_ofNat]
    omega

theorem readLE_leBytes (k v : Nat) (rest : List Byte) (h : v < 256 ^ k) :
    readLE k (leBytes k v ++ rest) = some (v, rest) := by
  unfold readLE
  have hl := leBytes_length k v
  have h1 : ¬ (leBytes k v ++ rest).length < k := by simp [hl]
  simp only [h1, if_false]
  have h2 : (leBytes k v ++ rest).take k = leBytes k v := List.take_left' hl
  have h3 : (leBytes k v ++ rest).drop k = rest := List.drop_left' hl
  rw [h2, h3, unle_leBytes k v h]

theorem read4 (v : Nat) (rest : List Byte) (h : v < U32) :
    readLE 4 (leBytes 4 v ++ rest) = some (v, rest) :=
  readLE_leBytes 4 v rest (by unfold U32 at h; omega)

theorem read8 (v : Nat) (rest : List Byte) (h : v < U64) :
    readLE 8 (leBytes 8 v ++ rest) = some (v, rest) :=
  readLE_leBytes 8 v rest (by unfold U64 at h; omega)

theorem readU32s_u32s (args : List Nat) (rest : List Byte) (h : ∀ a ∈ args, a < U32) :
    readU32s args.length (u32s args ++ rest) = some (args, rest) := by
  induction args with
  | nil => simp [readU32s, u32s]
  | cons a as ih =>
    have ha : a < U32 := h a List.mem_cons_self
    have has : ∀ x ∈ as, x < U32 := fun x hx => h x (List.mem_cons_of_mem _ hx)
    simp only [List.length_cons, readU32s, u32s, List.flatMap_cons, List.append_assoc]
    rw [read4 a _ ha]
    have := ih has
    simp only [u32s] at this
    simp [this]

theorem decodeBody_encode (i : Instr) (hwf : i.wf) (rest : List Byte) :
    ∃ op body, encodeInstr i = op :: body ∧ decodeBody op (body ++ rest) = .ok (i, rest) := by
  cases i with
  | constLoad d c =>
    obtain ⟨h1, h2⟩ := hwf
    exact ⟨_, _, rfl, by simp [decodeBody, readFields, List.append_assoc, read4, h1, h2]⟩
  | nullOp f d =>
    obtain ⟨h1, h2⟩ := hwf
    exact ⟨_, _, rfl, by simp [decodeBody, readFields, List.append_assoc, read4, read8, h1, h2]⟩
  | unOp f d s =>
    obtain ⟨h1, h2, h3⟩ := hwf
    exact ⟨_, _, rfl, by simp [decodeBody, readFields, List.append_assoc, read4, read8, h1, h2, h3]⟩
  | binOp f d l r =>
    obtain ⟨h1, h2, h3, h4⟩ := hwf
    exact ⟨_, _, rfl, by simp [decodeBody, readFields, List.append_assoc, read4, read8, h1, h2, h3, h4]⟩
  | ternOp f d a b c =>
    obtain ⟨h1, h2, h3, h4, h5⟩ := hwf
    exact ⟨_, _, rfl, by simp [decodeBody, readFields, List.append_assoc, read4, read8, h1, h2, h3, h4, h5]⟩
  | quadOp f d a b c e =>
    obtain ⟨h1, h2, h3, h4, h5, h6⟩ := hwf
    exact ⟨_, _, rfl, by simp [decodeBody, readFields, List.append_assoc, read4, read8, h1, h2, h3, h4, h5, h6]⟩
  | varArg f d args =>
    obtain ⟨h1, h2, h3, h4⟩ := hwf
    exact ⟨_, _, rfl, by simp [decodeBody, readFields, List.append_assoc, read4, read8, h1, h2, h3, readU32s_u32s args rest h4]⟩
  | ret s =>
    exact ⟨_, _, rfl, by simp [decodeBody, readFields, read4, show s < U32 from hwf]⟩

theorem encodeInstr_length (i : Instr) :
    5 ≤ (encodeInstr i).length ∧ (isRet i = false → 9 ≤ (encodeInstr i).length) := by
  cases i <;> simp [encodeInstr, leBytes_length, isRet] <;> omega

theorem encodeInstrs_nonempty_length (is : List Instr) (h : is ≠ []) :
    5 ≤ (encodeInstrs is).length := by
  cases is with
  | nil => exact absurd rfl h
  | cons i is =>
    have := (encodeInstr_length i).1
    simp [encodeInstrs] at *
    omega

theorem decode_encode (is : List Instr) :
    (∀ i ∈ is, i.wf) → noTrailingRet is = true →
    ∀ fuel, (encodeInstrs is).length ≤ fuel → decodeInstrs fuel (encodeInstrs is) = .ok is := by
  induction is with
  | nil => intro _ _ fuel _; simp [encodeInstrs, decodeInstrs]
  | cons i is ih =>
    intro hwf hnt fuel hfuel
    have hi : i.wf := hwf i List.mem_cons_self
    have his : ∀ x ∈ is, x.wf := fun x hx => hwf x (List.mem_cons_of_mem _ hx)
    obtain ⟨op, body, henc, hdec⟩ := decodeBody_encode i hi (encodeInstrs is)
    have hcons : encodeInstrs (i :: is) = op :: (body ++ encodeInstrs is) := by
      simp [encodeInstrs, henc]
    have hlen := encodeInstr_length i
    rw [henc] at hlen
    have hnt' : noTrailingRet is = true := by
      cases is with
      | nil => rfl
      | cons j js => simpa [noTrailingRet] using hnt
    have h8 : ¬ (op :: (body ++ encodeInstrs is)).length < 8 := by
      cases hr : isRet i with
      | false => have := hlen.2 hr; simp at *; omega
      | true =>
        have hne : is ≠ [] := by
          intro he; subst he; simp [noTrailingRet, hr] at hnt
        have := encodeInstrs_nonempty_length is hne
        have := hlen.1
        simp at *; omega
    rw [hcons] at hfuel ⊢
    cases fuel with
    | zero => simp at hfuel
    | succ fuel =>
      simp only [decodeInstrs, h8, if_false, hdec]
      rw [ih his hnt' fuel (by simp at hfuel; omega)]

end MechVerif.Bytecode
