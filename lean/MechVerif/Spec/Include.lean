/-
Reference semantics for C20: textual substitution over the include graph.

* `Expands fs p s` — the relational spec: `s` is the text of `p` with every
  stand-alone include line outside code fences replaced by an expansion of its
  target (and that line's own newline kept).  It has no derivation through a
  cycle or through a missing target.
* `subst` — the executable reference expander: plain recursive substitution with
  no cycle bookkeeping at all (depth-limited only so that it is total); together
  with a graph search it is the oracle for the failing-input search.
-/
import MechVerif.Model.Include
namespace MechVerif.Include

inductive ExpandsLines (fs : FS) : Path → Fence → List Text → Text → Prop
  | nil (dir : Path) (st : Fence) : ExpandsLines fs dir st [] []
  | inFence (dir : Path) (m : Char) (k : Nat) (l : Text) (ls : List Text) (r : Text) :
      ExpandsLines fs dir (if isFenceClose l m k then none else some (m, k)) ls r →
      ExpandsLines fs dir (some (m, k)) (l :: ls) (l ++ r)
  | openFence (dir : Path) (l : Text) (ls : List Text) (r : Text) (m : Char) (k a : Nat) :
      codeFenceDelimiter l = some (m, k, a) →
      ExpandsLines fs dir (some (m, k)) ls r →
      ExpandsLines fs dir none (l :: ls) (l ++ r)
  | plain (dir : Path) (l : Text) (ls : List Text) (r : Text) :
      codeFenceDelimiter l = none →
      includeTarget (stripNl l).1 = none →
      ExpandsLines fs dir none ls r →
      ExpandsLines fs dir none (l :: ls) (l ++ r)
  | incl (dir : Path) (l : Text) (ls : List Text) (raw : Text) (q : Path) (src s r : Text) :
      codeFenceDelimiter l = none →
      includeTarget (stripNl l).1 = some raw →
      resolve fs dir raw = some q →
      fs.read q = some src →
      ExpandsLines fs q.dropLast none (splitLines src) s →
      ExpandsLines fs dir none ls r →
      ExpandsLines fs dir none (l :: ls) (s ++ (stripNl l).2 ++ r)

/-- `s` is the full expansion of file `p` -/
def Expands (fs : FS) (p : Path) (s : Text) : Prop :=
  ∃ src, fs.read p = some src ∧ ExpandsLines fs p.dropLast none (splitLines src) s

/-- include edge of the graph: `q` is the resolved target of a stand-alone include
    line of `p` outside code fences -/
def Edge (fs : FS) (p q : Path) : Prop := q ∈ targets fs p

/-- transitive closure of `Edge` -/
inductive Reach (fs : FS) : Path → Path → Prop
  | step {p q : Path} : Edge fs p q → Reach fs p q
  | trans {p m q : Path} : Edge fs p m → Reach fs m q → Reach fs p q

/-- executable reference: substitution without any cycle bookkeeping -/
def subst (fs : FS) : Nat → Path → Option Text
  | 0, _ => none
  | n + 1, p =>
    match fs.read p with
    | none => none
    | some src =>
      match expandLines (fun q => match subst fs n q with
                                  | some s => .ok s
                                  | none => .error .fuel) fs p.dropLast none (splitLines src) with
      | .ok s => some s
      | .error _ => none

/-- files reachable from `p` (bounded breadth-first closure) -/
def reachable (fs : FS) : Nat → List Path → List Path → List Path
  | 0, seen, _ => seen
  | n + 1, seen, frontier =>
    let next := (frontier.flatMap (targets fs)).eraseDups.filter (fun q => !seen.contains q)
    if next.isEmpty then seen else reachable fs n (seen ++ next) next

def reachFrom (fs : FS) (p : Path) : List Path := reachable fs (fs.files.length + 1) [p] [p]

/-- is `p` on a cycle: can `p` be reached from one of its own targets -/
def onCycle (fs : FS) (p : Path) : Bool :=
  (targets fs p).any (fun q => (reachFrom fs q).contains p)

def dangling (fs : FS) (p : Path) : List Text :=
  match fs.read p with
  | none => []
  | some src => danglingLines fs p.dropLast none (splitLines src)

inductive Verdict where
  | mustBeOk (s : Text)
  | mustBeError (cycle : Bool) (missing : List Text)
  | rootMissing
deriving Repr

/-- what the property demands for loading `root` -/
def verdict (fs : FS) (root : Text) : Verdict :=
  match resolve fs [] root with
  | none => .rootMissing
  | some p =>
    let rs := reachFrom fs p
    let cyc := rs.any (onCycle fs)
    let miss := rs.flatMap (dangling fs)
    if cyc || !miss.isEmpty then .mustBeError cyc miss
    else match subst fs (fs.files.length + 1) p with
      | some s => .mustBeOk s
      | none => .mustBeError true []

end MechVerif.Include
