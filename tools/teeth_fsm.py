#!/usr/bin/env python3
"""Teeth of the C17 translator tie, without touching /repo: writes `git show HEAD:` of state_machines.rs into a
temporary tree, applies one small change, runs tools/extract_fsm.py on the copy (`repo=` argument) and builds
MechVerif.Props.C17 with the skeleton generated from it; reports which Lean proof fails, or that the reader refused
the shape (the check would print a NOTE and keep the committed skeleton), or that the change was absorbed
(re-formatting, renaming).  Gen/FsmSkeleton.lean is regenerated from the unchanged copy at the end.
usage: tools/teeth_fsm.py [experiment-id …]"""
import os, re, shutil, subprocess, sys, tempfile
ROOT = os.path.dirname(os.path.dirname(os.path.abspath(__file__)))
sys.path.insert(0, os.path.join(ROOT, "tools"))
import extract_fsm as EF

GUARD_ERR = """other => {
                    return Err(MechError::new(
                      FsmGuardConditionKindMismatchError {
                        arm_index: arm_idx,
                        guard_index: guard_idx,
                        actual_kind: other.kind(),
                      },
                      None,
                    )
                    .with_compiler_loc());
                  }"""

def rename(text):
    for a, b in [("arm_env", "scratch"), ("matched", "hit"), ("pattern_matched", "hit2"), ("transitioned", "moved"),
                 ("call_env", "shared"), ("out", "produced"), ("guard", "g"), ("guards", "gs"), ("guard_passes", "holds"),
                 ("state_names", "known"), ("transitions", "ts"), ("pattern", "pat"), ("cond", "c0"), ("arm", "a"),
                 ("declared", "d"), ("start_state", "s0"), ("target", "tgt")]:
        text = re.sub(r'(?<![\w.])%s\b' % a, b, text)      # not after a `.`: field names stay
    return text

def reformat(text):
    text = re.sub(r'(?m)^( +)', lambda m: '\t' * (len(m.group(1)) // 2), text)
    text = text.replace("let mut transitioned = false;", "let mut transitioned /* the flag */\n=\nfalse ; // reset every turn")
    text = text.replace("for step in 0..p.max_steps {", "for step in 0 .. p . max_steps\n{")
    return text.replace('\n', '\r\n')

# (id, what, old text (white space flexible) or a function on the whole text, new text)
EXPERIMENTS = [
 ("inclusive-bound", "`for step in 0..=p.max_steps`", "for step in 0..p.max_steps {", "for step in 0..=p.max_steps {"),
 ("clear-before-clone", "Transition arm: `clear_pattern_bindings(pattern, call_env)` before the clone",
  "let mut arm_env = call_env.clone(); clear_pattern_bindings(pattern, &mut arm_env); let matched =",
  "clear_pattern_bindings(pattern, call_env); let mut arm_env = call_env.clone(); let matched ="),
 ("clear-before-clone-guard", "Guard arm: the same",
  "let mut arm_env = call_env.clone(); clear_pattern_bindings(pattern, &mut arm_env); let pattern_matched =",
  "clear_pattern_bindings(pattern, call_env); let mut arm_env = call_env.clone(); let pattern_matched ="),
 ("clear-dropped", "Guard arm: the clearing dropped",
  "clear_pattern_bindings(pattern, &mut arm_env); let pattern_matched =", "let pattern_matched ="),
 ("match-on-shared", "Transition arm: the pattern matched against `call_env`",
  "let matched = pattern_matches_value(pattern, state, &mut arm_env, p)?;", "let matched = pattern_matches_value(pattern, state, call_env, p)?;"),
 ("apply-on-shared", "Transition arm: `apply_transitions(transitions, state, call_env, p)`",
  "apply_transitions(transitions, state, &mut arm_env, p)?;", "apply_transitions(transitions, state, call_env, p)?;"),
 ("write-back", "Transition arm: `*call_env = arm_env;` after the transitions",
  "let out = apply_transitions(transitions, state, &mut arm_env, p)?;", "let out = apply_transitions(transitions, state, &mut arm_env, p)?; *call_env = arm_env;"),
 ("write-back-guard", "Guard arm: `*call_env = arm_env.clone();` after the transitions",
  "let out = apply_transitions(&guard.transitions, state, &mut arm_env, p)?;",
  "let out = apply_transitions(&guard.transitions, state, &mut arm_env, p)?; *call_env = arm_env.clone();"),
 ("guards-fail-stops", "after a guarded arm whose guards all fail the scan stops (`break` unconditionally)",
  "if transitioned { break; } } } } if !transitioned {", "break; } } } if !transitioned {"),
 ("no-match-stops", "Guard arm: a failed pattern `break`s", "if !pattern_matched { continue; }", "if !pattern_matched { break; }"),
 ("guard-fails-stops", "a guard that does not hold ends the guard loop", "if !guard_passes { continue; }", "if !guard_passes { break; }"),
 ("falls-through-taken", "Guard arm: the `if transitioned { break; }` after the guard loop dropped (later arms also run)",
  "if transitioned { break; } } } } if !transitioned {", "} } } if !transitioned {"),
 ("nonbool-false", "a guard that is not a bool counts as false", GUARD_ERR, "_other => false,"),
 ("wildcard-false", "the wildcard guard does not hold", "Pattern::Wildcard => true,", "Pattern::Wildcard => false,"),
 ("flag-not-set", "Transition arm: `transitioned = true;` dropped",
  "transitioned = true; break; } } FsmArm::Guard", "break; } } FsmArm::Guard"),
 ("halt-test-negated", "`if transitioned { return Ok(state.clone()) }`", "if !transitioned { trace_println!", "if transitioned { trace_println!"),
 ("output-ignored", "Guard arm: the output of a taken guard is not returned",
  "let out = apply_transitions(&guard.transitions, state, &mut arm_env, p)?;", "let _out = apply_transitions(&guard.transitions, state, &mut arm_env, p)?; let out: Option<Value> = None;"),
 ("first-guard-validated", "only the first guard's transitions validated (`guards.iter().take(1)`)",
  "for guard in guards { for transition in &guard.transitions {", "for guard in guards.iter().take(1) { for transition in &guard.transitions {"),
 ("first-guard-validated-2", "the same written `if let Some(guard) = guards.first()`",
  "for guard in guards { for transition in &guard.transitions {", "if let Some(guard) = guards.first() { for transition in &guard.transitions {"),
 ("first-transition-validated", "only the first transition of a guard validated",
  "for transition in &guard.transitions {", "for transition in guard.transitions.iter().take(1) {"),
 ("first-declared-checked", "only the first declared state looked up", "for declared in &spec.states {", "for declared in spec.states.iter().take(1) {"),
 ("async-unchecked", "`Transition::Async` targets not looked up",
  "Transition::Next(pattern) | Transition::Async(pattern) => state_name_from_pattern(pattern),", "Transition::Next(pattern) => state_name_from_pattern(pattern),"),
 ("guard-names-dropped", "guarded arms do not contribute their state name",
  "FsmArm::Guard(pattern, _) | FsmArm::Transition(pattern, _) => pattern, FsmArm::Comment(_) => return None,",
  "FsmArm::Transition(pattern, _) => pattern, FsmArm::Guard(_, _) | FsmArm::Comment(_) => return None,"),
 ("empty-not-ok", "the early `Ok` for a machine without named arms dropped", "if state_names.is_empty() { return Ok(()); }", ""),
 ("start-unchecked", "the start state is not looked up",
  "if !state_names.contains(&start_state) {", "if false && !state_names.contains(&start_state) {"),
 ("direct-unchecked", "targets of direct arms not validated", "FsmArm::Transition(_, transitions) => transitions.as_slice(),", "FsmArm::Transition(_, _) => &[],"),
 # harmless
 ("renamed", "every local and parameter of the three functions renamed", rename, None),
 ("reformatted", "CRLF, tabs, statements split over lines, comments inside statements", reformat, None),
 ("plain-iteration", "`for arm in &fsm.arms` / `for guard in guards.iter()` instead of `.iter().enumerate()` (indices only feed the trace)",
  lambda t: t.replace("for (arm_idx, arm) in fsm.arms.iter().enumerate() {", "for arm in &fsm.arms {").replace("for (guard_idx, guard) in guards.iter().enumerate() {", "for guard in guards.iter() {"), None),
 ("same-meaning-other-text", "Transition arm: `if !matched { continue; }` followed by the body instead of `if matched { … }`",
  lambda t: re.sub(r'if matched \{(\s*let previous_state.*?)transitioned = true;\s*break;\s*\}(\s*)\}(\s*)FsmArm::Guard', lambda m: "if !matched { continue; }" + m.group(1) + "transitioned = true;\n break;" + m.group(2) + "}" + m.group(3) + "FsmArm::Guard", t, count=1, flags=re.S), None),
 ("while-loop", "the step loop written `while step < p.max_steps`", "for step in 0..p.max_steps {", "let mut step = 0; while step < p.max_steps { step += 1;"),
 ("unknown-call", "an unknown call in the loop body", "let mut transitioned = false;", "let mut transitioned = false; p.note_step();"),
 ("reversed-arms", "the arms scanned from the last", "in fsm.arms.iter().enumerate() {", "in fsm.arms.iter().rev().enumerate() {"),
]

def theorem_at(path, line):
    name = "?"
    for n, l in enumerate(open(path), 1):
        m = re.match(r'\s*(?:theorem|example)\s*([\w.\']*)', l)
        if m: name = m.group(1) or "example (line %d)" % n
        if n >= line: break
    return name

def clean_copy(tmp):
    p = os.path.join(tmp, EF.SRC)
    os.makedirs(os.path.dirname(p), exist_ok=True)
    text = subprocess.run(["git", "-C", "/repo", "show", "HEAD:" + EF.SRC], stdout=subprocess.PIPE, check=True).stdout.decode()
    open(p, "w", newline='').write(text)
    return p, text

def run(exp):
    eid, what, old, new = exp
    tmp = tempfile.mkdtemp(prefix="teeth_c17_")
    try:
        p, text = clean_copy(tmp)
        if callable(old):
            changed = old(text)
            if changed == text: return "%s: NOT APPLIED" % eid
        else:
            pat = re.compile(r'\s*'.join(re.escape(t) for t in re.findall(r'\w+|[^\w\s]', old)))
            hits = pat.findall(text)
            if len(hits) != 1: return "%s: NOT APPLIED (%d occurrences of the text to change)" % (eid, len(hits))
            changed = pat.sub(lambda m: new, text)
        open(p, "w", newline='').write(changed)
        ok, msg = EF.generate(ROOT, repo=tmp)
        if not ok: return "%s — %s: REFUSED → NOTE, committed skeleton stays (%s)" % (eid, what, msg)
        r = subprocess.run(["lake", "build", "MechVerif.Props.C17"], cwd=os.path.join(ROOT, "lean"), stdout=subprocess.PIPE, stderr=subprocess.STDOUT, text=True)
        if r.returncode == 0: return "%s — %s: extracted skeleton unchanged, all proofs pass" % (eid, what)
        bad = sorted(set(re.findall(r"error: (MechVerif/[\w/]+\.lean):(\d+)", r.stdout)))
        names = sorted(set("%s (%s)" % (theorem_at(os.path.join(ROOT, "lean", b[0]), int(b[1])), os.path.basename(b[0])) for b in bad))
        return "%s — %s: FAILS at %s" % (eid, what, ", ".join(names) or r.stdout[-300:])
    finally:
        shutil.rmtree(tmp, ignore_errors=True)

if __name__ == "__main__":
    want = sys.argv[1:]
    try:
        for e in EXPERIMENTS:
            if want and e[0] not in want: continue
            print(run(e), flush=True)
    finally:
        tmp = tempfile.mkdtemp(prefix="teeth_c17_")
        clean_copy(tmp)
        print("restored:", EF.generate(ROOT, repo=tmp), flush=True)
        shutil.rmtree(tmp, ignore_errors=True)
