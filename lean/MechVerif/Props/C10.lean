/-
C10 — Literate documents: prose is inert and named code blocks are isolated.

Statements are about the model of Model/Doc.lean, for every statement semantics `exec`
(`none` = error), every store, every document.
-/
import MechVerif.Gen.SectionArms
import MechVerif.Gen.FenceTag
import MechVerif.Lemmas.FenceTag
import MechVerif.Model.Doc
namespace MechVerif.Doc

variable {σ τ : Type}

theorem runAll_append (exec : σ → τ → Option σ) : ∀ (a b : List τ) (s : σ),
    runAll exec s (a ++ b) = (match runAll exec s a with | some s' => runAll exec s' b | none => none) := by
  intro a
  induction a with
  | nil => intro b s; rfl
  | cons t a ih =>
    intro b s
    simp only [List.cons_append, runAll]
    cases exec s t with
    | none => rfl
    | some s' => exact ih b s'

theorem runIso_of_runAll (exec : σ → τ → Option σ) : ∀ (l : List τ) (s m : σ),
    runAll exec s l = some m → runIso exec s l = m := by
  intro l
  induction l with
  | nil => intro s m h; simpa [runAll, runIso] using h
  | cons t l ih =>
    intro s m h
    simp only [runAll, runIso] at h ⊢
    cases he : exec s t with
    | none => rw [he] at h; cases h
    | some s' => rw [he] at h; exact ih s' m h

theorem runIso_append (exec : σ → τ → Option σ) : ∀ (a b : List τ) (s : σ),
    runIso exec s (a ++ b) = (match runAll exec s a with | some s' => runIso exec s' b | none => runIso exec s a) := by
  intro a
  induction a with
  | nil => intro b s; rfl
  | cons t a ih =>
    intro b s
    simp only [List.cons_append, runAll, runIso]
    cases exec s t with
    | none => rfl
    | some s' => exact ih b s'

/-! ### the main program: only the document's executable code counts -/

/-- The main interpreter ends with exactly the store that running the document's code lines
    and unnamed fences, in document order, gives — whatever prose, disabled fences and named
    fences stand between them — and the document is interpreted to the end exactly when that
    code runs without error. -/
theorem C10_main_is_code_only (exec : σ → τ → Option σ) (init : σ) : ∀ (doc : List (Elem τ)) (d : DState σ),
    (interp exec init d doc).1.main = runIso exec d.main (mainCode doc) ∧
    (interp exec init d doc).2 = (runAll exec d.main (mainCode doc)).isSome := by
  intro doc
  induction doc with
  | nil => intro d; simp [interp, mainCode, runIso, runAll]
  | cons e rest ih =>
    intro d
    cases e with
    | prose => simp only [interp, stepElem, mainCode]; exact ih d
    | disabled ss => simp only [interp, stepElem, mainCode]; exact ih d
    | named ns ss => simp only [interp, stepElem, mainCode]; exact ih _
    | code s =>
      simp only [interp, stepElem, mainCode, runIso, runAll]
      cases exec d.main s with
      | none => simp
      | some m => simp only [Option.map_some]; exact ih _
    | unnamed ss =>
      simp only [interp, mainCode]
      rw [runIso_append, runAll_append]
      cases h : runAll exec d.main ss with
      | none => simp
      | some m => simp only; exact ih _

/-- Titles, paragraphs, lists, quotes, tables, plain code fences, comments (all `prose`) and
    disabled fences never change anything: removing them from the document gives the same
    main store, the same namespaces and the same outcome. -/
theorem C10_prose_is_inert (exec : σ → τ → Option σ) (init : σ) : ∀ (doc : List (Elem τ)) (d : DState σ),
    interp exec init d doc =
      interp exec init d (doc.filter (fun e => match e with | .prose => false | .disabled _ => false | _ => true)) := by
  intro doc
  induction doc with
  | nil => intro d; rfl
  | cons e rest ih =>
    intro d
    cases e with
    | prose => simp only [List.filter_cons, interp, stepElem]; exact ih d
    | disabled ss => simp only [List.filter_cons, interp, stepElem]; exact ih d
    | named ns ss => simp only [List.filter_cons, interp, stepElem, if_true]; exact ih _
    | code s =>
      simp only [List.filter_cons, interp, stepElem, if_true]
      cases exec d.main s with
      | none => rfl
      | some m => simp only [Option.map_some]; exact ih _
    | unnamed ss =>
      simp only [List.filter_cons, interp, if_true]
      cases runAll exec d.main ss with
      | none => rfl
      | some m => exact ih _

/-! ### named fences: one namespace per name, invisible to everything else -/

theorem getSub_setSub_same (init : σ) (subs : List (String × σ)) (ns : String) (v : σ) :
    getSub init (setSub subs ns v) ns = v := by
  unfold getSub setSub
  by_cases h : subs.any (fun p => p.1 == ns) = true
  · rw [if_pos h]
    induction subs with
    | nil => simp at h
    | cons p rest ih =>
      simp only [List.map_cons, List.find?_cons]
      by_cases hp : (p.1 == ns) = true
      · simp [hp]
      · have hr : rest.any (fun p => p.1 == ns) = true := by
          simp only [List.any_cons, Bool.or_eq_true] at h
          rcases h with h | h
          · exact absurd h hp
          · exact h
        simp only [hp, Bool.false_eq_true, if_false]
        exact ih hr
  · rw [if_neg h]
    have hnone : subs.find? (fun p => p.1 == ns) = none := by
      rw [List.find?_eq_none]
      intro p hp hq
      exact h (List.any_eq_true.2 ⟨p, hp, hq⟩)
    simp [List.find?_append, hnone]

theorem getSub_setSub_other (init : σ) (subs : List (String × σ)) (ns other : String) (v : σ)
    (hne : (other == ns) = false) : getSub init (setSub subs other v) ns = getSub init subs ns := by
  unfold getSub setSub
  have hne' : (ns == other) = false := by
    cases h : (ns == other) with
    | false => rfl
    | true => rw [beq_iff_eq] at h; subst h; simp at hne
  by_cases h : subs.any (fun p => p.1 == other) = true
  · rw [if_pos h]
    congr 1
    clear h
    induction subs with
    | nil => rfl
    | cons p rest ih =>
      by_cases hp : (p.1 == other) = true
      · have hpn : (p.1 == ns) = false := by
          rw [beq_iff_eq] at hp; rw [hp]; exact hne
        simp only [List.map_cons, List.find?_cons, hp, if_true, hne, hpn]
        exact ih
      · have hp' : (p.1 == other) = false := by simpa using hp
        cases hq : (p.1 == ns) with
        | true => simp only [List.map_cons, List.find?_cons, hp', Bool.false_eq_true, if_false, hq]
        | false =>
          simp only [List.map_cons, List.find?_cons, hp', Bool.false_eq_true, if_false, hq]
          exact ih
  · rw [if_neg h]
    simp only [List.find?_append, List.find?_cons, hne, List.find?_nil]
    cases subs.find? (fun p => p.1 == ns) <;> rfl

/-- After a document that is interpreted to the end, the namespace of a name holds what
    running that name's fences one after the other gives (an error ends only the fence it
    occurs in) — nothing from the main program, nothing from fences of other names. -/
theorem C10_namespace_is_its_fences (exec : σ → τ → Option σ) (init : σ) (ns : String) :
    ∀ (doc : List (Elem τ)) (d : DState σ), (interp exec init d doc).2 = true →
      getSub init (interp exec init d doc).1.subs ns =
        (nsChunks ns doc).foldl (runIso exec) (getSub init d.subs ns) := by
  intro doc
  induction doc with
  | nil => intro d _; rfl
  | cons e rest ih =>
    intro d h
    cases e with
    | prose => simp only [interp, stepElem, nsChunks] at h ⊢; exact ih d h
    | disabled ss => simp only [interp, stepElem, nsChunks] at h ⊢; exact ih d h
    | code s =>
      simp only [interp, stepElem, nsChunks] at h ⊢
      cases he : exec d.main s with
      | none => rw [he] at h; simp at h
      | some m => rw [he] at h; simp only [Option.map_some] at h ⊢; exact ih _ h
    | unnamed ss =>
      simp only [interp, nsChunks] at h ⊢
      cases he : runAll exec d.main ss with
      | none => rw [he] at h; simp at h
      | some m => rw [he] at h; exact ih _ h
    | named n ss =>
      simp only [interp, stepElem, nsChunks] at h ⊢
      rw [ih _ h]
      by_cases hn : (n == ns) = true
      · have : n = ns := by simpa using hn
        subst this
        simp only [beq_self_eq_true, if_true, List.foldl_cons, getSub_setSub_same]
      · have hn' : (n == ns) = false := by simpa using hn
        simp only [hn', Bool.false_eq_true, if_false]
        rw [getSub_setSub_other init d.subs ns n _ hn']

/-- An error inside a named fence does not prevent the rest of the document from being
    evaluated: whether the document runs to its end, and what the main program computes,
    do not depend on the named fences at all. -/
theorem C10_named_fences_do_not_affect_main (exec : σ → τ → Option σ) (init : σ) (doc doc' : List (Elem τ))
    (d : DState σ) (h : mainCode doc = mainCode doc') :
    (interp exec init d doc).1.main = (interp exec init d doc').1.main ∧
    (interp exec init d doc).2 = (interp exec init d doc').2 := by
  obtain ⟨a1, a2⟩ := C10_main_is_code_only exec init doc d
  obtain ⟨b1, b2⟩ := C10_main_is_code_only exec init doc' d
  rw [a1, a2, b1, b2, h]
  exact ⟨rfl, rfl⟩

/-- a named fence is invisible to the main program -/
theorem C10_named_invisible_to_main (exec : σ → τ → Option σ) (init : σ) (pre post : List (Elem τ))
    (ns : String) (ss : List τ) (d : DState σ) :
    (interp exec init d (pre ++ .named ns ss :: post)).1.main = (interp exec init d (pre ++ post)).1.main := by
  have : mainCode (pre ++ Elem.named ns ss :: post) = mainCode (pre ++ post) := by
    induction pre with
    | nil => rfl
    | cons e pre ih => cases e <;> simp [mainCode, ih]
  exact (C10_named_fences_do_not_affect_main exec init _ _ d this).1

end MechVerif.Doc

/-! ### the arms of `section_element()` as they are written

`Gen/SectionArms.lean` is regenerated from src/interpreter/src/mechdown.rs on every run (`tools/extract_section.py`); its
theorem `C10_section_arms_as_written_ok` is a `decide` proof: every arm but those of Mech code, fenced Mech code, a floated
element's wrapper and a Mika section runs no statement, and the fenced-code arm decides as recorded. -/
namespace MechVerif.SectionArms
open MechVerif.Doc

variable {σ τ : Type}

/-- **The fenced-code arm as written is the model's step**: a disabled fence does nothing; an unnamed fence runs its
    statements in the main store and its first error aborts; a named fence runs in the store of its name (created on
    first use) and its first error only ends that fence. -/
theorem C10_fence_arm_as_written_is_the_model (exec : σ → τ → Option σ) (init : σ) (d : DState σ) (ss : List τ) (n : String) :
    fenceStep Gen.SectionArms.fence exec init d true none ss = stepElem exec init d (.disabled ss) ∧
    fenceStep Gen.SectionArms.fence exec init d true (some n) ss = stepElem exec init d (.disabled ss) ∧
    fenceStep Gen.SectionArms.fence exec init d false none ss = stepElem exec init d (.unnamed ss) ∧
    fenceStep Gen.SectionArms.fence exec init d false (some n) ss = stepElem exec init d (.named n ss) :=
  ⟨rfl, rfl, rfl, rfl⟩

/-- every element the extracted table classes as inert or inline is one the model treats as prose -/
theorem C10_inert_arms_are_prose (v : String) (c : ArmClass) (h : (v, c) ∈ Gen.SectionArms.arms)
    (hc : c = .inert ∨ c = .inline) : expectedClass v = c ∧ v ≠ "MechCode" ∧ v ≠ "FencedMechCode" := by
  have hok := Gen.SectionArms.C10_section_arms_as_written_ok.1
  simp only [armsOk, Bool.and_eq_true, List.all_eq_true] at hok
  have h1 := hok.1 (v, c) h
  simp only [beq_iff_eq] at h1
  refine ⟨h1.symm, ?_, ?_⟩
  · intro hv; subst hv; simp [expectedClass] at h1; subst h1; rcases hc with hc | hc <;> cases hc
  · intro hv; subst hv; simp [expectedClass] at h1; subst h1; rcases hc with hc | hc <;> cases hc

/-! non-vacuity: a fence arm that isolated errors of the unnamed program, or ran a named fence in the main store, is refused -/
example : fenceOk ⟨true, true, true, true, true, true⟩ = false := by decide
example : fenceOk ⟨true, true, false, false, true, true⟩ = false := by decide
example : armsOk [("MechCode", .code), ("CodeBlock", .code)] = false := by decide

end MechVerif.SectionArms

/-! ### which code blocks are executable, and in which namespace: the parser's decision as written

`Gen/FenceTag.lean` is regenerated from src/syntax/src/mechdown.rs (`code_block()`) on every run
(`tools/extract_fencetag.py`); `C10_fence_tag_decision_as_written` (`decide`) says the extracted decision is `expectedIR`. -/
namespace MechVerif.FenceTag

/-- the three words with a meaning of their own -/
theorem C10_plain_disabled_hidden :
    classOf expectedIR ['m', 'e', 'c', 'h'] = .unnamed ∧
    classOf expectedIR ['m', 'e', 'c', 'h', ':', 'd', 'i', 's', 'a', 'b', 'l', 'e', 'd'] = .disabled ∧
    classOf expectedIR ['m', 'e', 'c', 'h', ':', 'h', 'i', 'd', 'd', 'e', 'n'] = .hidden := by decide

/-- **A fence tagged `mech:<name>` runs in the namespace of exactly that name** — the whole text after the colon, for
    every name that is not empty, does not begin with a colon and is not one of the two reserved words.  Hence two
    fences run in one namespace iff they carry the same name. -/
theorem C10_named_fence_namespace (n : List Char) (h : GoodName n) :
    classOf expectedIR (['m', 'e', 'c', 'h', ':'] ++ n) = .named n := by
  obtain ⟨hne, hhead, hd, hh⟩ := h
  have e1 : trimStartMatches ['m', 'e', 'c', 'h'] ('m' :: 'e' :: 'c' :: 'h' :: ':' :: n) = ':' :: n := by
    unfold trimStartMatches
    simp [trimGo, dropPrefix?]
  have e2 : trimStartMatches ['m', 'e', 'c'] (':' :: n) = ':' :: n := trim_not_starting _ ':' 'm' ['e', 'c'] n rfl (by decide)
  have e3 : trimStartMatches ['🤖'] (':' :: n) = ':' :: n := trim_not_starting _ ':' '🤖' [] n rfl (by decide)
  have e4 : trimStartMatches [':'] (':' :: n) = n := strip_colon n hhead
  have hrest : expectedIR.strip.foldl (fun s p => trimStartMatches p s) (['m', 'e', 'c', 'h', ':'] ++ n) = n := by
    simp only [expectedIR, List.foldl_cons, List.foldl_nil, List.cons_append, List.nil_append, e1, e2, e3, e4]
  unfold classOf
  rw [hrest]
  have hg : (['m', 'e', 'c', 'h', ':'] ++ n) ≠ expectedIR.grammarTag := by simp [expectedIR]
  rw [if_neg hg]
  have hp : expectedIR.mechPrefixes.any (fun p => startsWith p (['m', 'e', 'c', 'h', ':'] ++ n)) = true := by
    simp [expectedIR, startsWith, dropPrefix?]
  rw [if_pos hp]
  have hs : expectedIR.special.find? (fun e => e.1 == n) = none := by
    simp only [expectedIR, List.find?_cons, List.find?_nil]
    have a1 : (([] : List Char) == n) = false := by cases n with | nil => exact absurd rfl hne | cons _ _ => rfl
    have a2 : ((['d', 'i', 's', 'a', 'b', 'l', 'e', 'd'] : List Char) == n) = false := by
      rw [beq_eq_false_iff_ne]; exact fun hc => hd hc.symm
    have a3 : ((['h', 'i', 'd', 'd', 'e', 'n'] : List Char) == n) = false := by
      rw [beq_eq_false_iff_ne]; exact fun hc => hh hc.symm
    simp only [a1, a2, a3]
  show (match List.find? (fun e => e.1 == n) expectedIR.special with
    | some (_, false, _, _) => TagClass.named n
    | some (_, true, true, _) => TagClass.disabled
    | some (_, true, false, true) => TagClass.hidden
    | some (_, true, false, false) => TagClass.unnamed
    | none => if expectedIR.otherwiseNamed = true then TagClass.named n else TagClass.notMech) = TagClass.named n
  rw [hs]
  rfl

theorem C10_same_namespace_iff_same_name (n m : List Char) (hn : GoodName n) (hm : GoodName m) :
    classOf expectedIR (['m', 'e', 'c', 'h', ':'] ++ n) = classOf expectedIR (['m', 'e', 'c', 'h', ':'] ++ m) ↔ n = m := by
  rw [C10_named_fence_namespace n hn, C10_named_fence_namespace m hm]
  constructor
  · intro h; injection h
  · intro h; rw [h]

/-- a block whose tag does not begin with `mech`, `mec` or `🤖` is never executable -/
theorem C10_other_blocks_never_execute (tag : List Char)
    (h : expectedIR.mechPrefixes.any (fun p => startsWith p tag) = false) :
    classOf expectedIR tag = .grammar ∨ classOf expectedIR tag = .notMech := by
  unfold classOf
  by_cases hg : tag = expectedIR.grammarTag
  · left; rw [if_pos hg]
  · right; rw [if_neg hg, h]; rfl

/-! non-vacuity -/
example : GoodName ['m', 'o', 'd', 'e', 'l', ':', 'a'] := by unfold GoodName; decide
example : classOf expectedIR ['m', 'e', 'c', 'h', ':', 'm', 'o', 'd', 'e', 'l', ':', 'a'] = .named ['m', 'o', 'd', 'e', 'l', ':', 'a'] := by decide
example : classOf expectedIR ['p', 'y', 't', 'h', 'o', 'n'] = .notMech := by decide
example : classOf expectedIR [] = .notMech := by decide

end MechVerif.FenceTag
