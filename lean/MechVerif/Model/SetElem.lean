/-
The element values of the sets C14 quantifies over: scalars (f64, integers, rationals,
strings, bools), tuples of scalars and sets of scalars, each with the derived `==` of
`Value` and what its hand-written `Hash` feeds the hasher (src/core/src/value.rs:648-746,
structures/set.rs, structures/tuple.rs).
-/
import MechVerif.Model.Set
import MechVerif.Model.Num
namespace MechVerif.SetM
open MechVerif.Num

inductive Atom where
  | f64 (bits : UInt64)
  | int (k : IKind) (v : Int)
  | rat (n d : Int)              -- reduced, d > 0
  | str (s : List UInt8)
  | bool (b : Bool)
deriving DecidableEq, Repr

def isZero64 (b : UInt64) : Bool := b <<< 1 == 0
def isNaN64 (b : UInt64) : Bool := decide ((b <<< 1) > 0xffe0000000000000)

/-- IEEE `==`: NaN equals nothing, the two zeros are equal -/
def f64eq (a b : UInt64) : Bool := !isNaN64 a && !isNaN64 b && (a == b || (isZero64 a && isZero64 b))

def Atom.eq (x y : Atom) : Bool :=
  match x, y with
  | .f64 a, .f64 b => f64eq a b
  | _, _ => decide (x = y)

/-- `Hash for Value`: the value's own bytes; for floats the bit pattern with the two zeros
    identified -/
def Atom.key : Atom → Atom
  | .f64 a => .f64 (if isZero64 a then 0 else a)
  | x => x

inductive AKind where
  | f64 | int (k : IKind) | rat | str | bool
deriving DecidableEq, Repr

def Atom.kind : Atom → AKind
  | .f64 _ => .f64 | .int k _ => .int k | .rat _ _ => .rat | .str _ => .str | .bool _ => .bool

/-- tuples compare and hash element by element -/
def tupEq : List Atom → List Atom → Bool
  | [], [] => true
  | a :: as, b :: bs => a.eq b && tupEq as bs
  | _, _ => false

def tupKey (t : List Atom) : List Atom := t.map Atom.key

/-- `IndexSet == IndexSet` on sets of scalars -/
def innerEq (A B : List Atom) : Bool := setEq Atom.eq Atom.key A B

/-- `Hash for MechSet`: the number of elements and the sum of the element hashes (`g` is
    the hash of one element as a function of what it feeds the hasher) -/
def innerKey (g : Atom → Nat) (A : List Atom) : Nat × Nat := (A.length, (A.map (fun a => g a.key)).sum)

inductive Elem where
  | atom (a : Atom)
  | tup (t : List Atom)
  | set (s : List Atom)      -- an inner set: insertion-ordered, built by `fromList`
deriving DecidableEq, Repr

inductive EKey where
  | atom (a : Atom) | tup (t : List Atom) | set (n : Nat) (sum : Nat)
deriving DecidableEq, Repr

def Elem.eq : Elem → Elem → Bool
  | .atom a, .atom b => a.eq b
  | .tup s, .tup t => tupEq s t
  | .set A, .set B => innerEq A B
  | _, _ => false

def Elem.key (g : Atom → Nat) : Elem → EKey
  | .atom a => .atom a.key
  | .tup t => .tup (tupKey t)
  | .set A => .set (innerKey g A).1 (innerKey g A).2

inductive EKind where
  | atom (k : AKind) | tup (ks : List AKind) | set (k : Option AKind) (n : Nat)
deriving DecidableEq, Repr

/-- `Value::kind()`; a set's kind carries its element kind and size -/
def Elem.kind : Elem → EKind
  | .atom a => .atom a.kind
  | .tup t => .tup (t.map Atom.kind)
  | .set A => .set (A.head?.map Atom.kind) A.length

/-- inner sets are `IndexSet`s: no two equal elements -/
def Elem.valid : Elem → Prop
  | .set A => NoDup Atom.eq A
  | _ => True

/-- the element values as the interpreter can hold them -/
def VElem : Type := { e : Elem // e.valid }

def VElem.eq (x y : VElem) : Bool := x.val.eq y.val
def VElem.key (g : Atom → Nat) (x : VElem) : EKey := x.val.key g
def VElem.kind (x : VElem) : EKind := x.val.kind

end MechVerif.SetM
