//! C05: binding isolation over statement histories. Case: `session <stmt>;;<stmt>…`
//!  D:<mut 0|1>:<name>:<expr>   A:<name>:<expr>   I:<name>:<i,j>:<v>   P:<name>:<expr>   T:<a,b>:<t>
//!  Q:<s|m>:<name>:<expr> (-=, *=)   F:<name>:<field>:<expr> (record field / table column assignment)
//!  expr: n<int> | m<r>x<c>/<e,…> | b<id> | t<e,…> | v<name> | c<name> | x | r<f=int,…> (record) |
//!        T<rows>/<col=int,…>/… (table)
use crate::common::*;
use crate::interp::*;
use mech_interpreter::*;

const BLOBS: &[&str] = &["{1,2,3}", "\"hello\"", "true", "{4,5}"];

fn expr_src(e: &str) -> String {
  if e == "x" { return "[1 2] + [1 2 3]".to_string(); }
  let (tag, rest) = e.split_at(1);
  match tag {
    "n" => { if rest.starts_with('-') { format!("({})", rest) } else { rest.to_string() } }
    "b" => BLOBS[rest.parse::<usize>().unwrap()].to_string(),
    "t" => format!("({})", rest),
    "v" => rest.to_string(),
    "c" => format!("{} + 0", rest),
    "r" => format!("{{{}}}", rest.split(',').map(|f| { let (k, v) = f.split_once('=').unwrap(); format!("{}: {}", k, v) }).collect::<Vec<_>>().join(", ")),
    "T" => {
      let parts: Vec<&str> = rest.split('/').collect();
      let rows: usize = parts[0].parse().unwrap();
      let cols: Vec<(&str, Vec<&str>)> = parts[1..].iter().map(|c| { let (k, v) = c.split_once('=').unwrap(); (k, v.split(',').collect()) }).collect();
      let mut t = format!("|{}|", cols.iter().map(|c| format!("{}<f64>", c.0)).collect::<Vec<_>>().join(" "));
      for i in 0..rows { t.push_str(&format!(" {} |", cols.iter().map(|c| c.1[i].to_string()).collect::<Vec<_>>().join(" "))); }
      t
    }
    "m" => {
      let (shape, body) = rest.split_once('/').unwrap();
      let (r, c) = shape.split_once('x').unwrap();
      let (r, c): (usize, usize) = (r.parse().unwrap(), c.parse().unwrap());
      let els: Vec<&str> = body.split(',').collect();
      let mut lit = String::from("[");
      for i in 0..r { if i > 0 { lit.push_str("; "); } for j in 0..c { if j > 0 { lit.push(' '); } lit.push_str(els[j * r + i]); } }
      lit.push(']');
      lit
    }
    _ => panic!("bad expr {}", e),
  }
}

pub fn stmt_src(s: &str) -> String {
  let p: Vec<&str> = s.split(':').collect();
  match p[0] {
    "D" if p[3].starts_with('K') => {
      // a define whose annotation states the kind and shape the source already has: `b<[f64]:1,3> := a`, `b<f64> := a`
      let (shape, name) = p[3][1..].split_once('/').unwrap();
      let ann = if shape == "0" { "f64".to_string() } else { let (r, c) = shape.split_once('x').unwrap(); format!("[f64]:{},{}", r, c) };
      format!("{}{}<{}> := {}", if p[1] == "1" { "~" } else { "" }, p[2], ann, name)
    }
    "D" => format!("{}{} := {}", if p[1] == "1" { "~" } else { "" }, p[2], expr_src(p[3])),
    // a function with a statement body over one input: it copies its input (`r`), or first writes to it by
    // op-assignment (`w`), assignment (`s`) or indexed assignment (`i`); and a call of it with a variable
    "G" => {
      let kind = if p[3] == "s" { "f64" } else { "[f64]" };
      let body = match p[2] { "r" => "z := a + 0", "w" => "a += 1; z := a + 0", "s" => "a = 9; z := a + 0", _ => "a[1] = 0; z := a + 0" };
      format!("{}(a<{}>) = z<{}> := {}.", p[1], kind, kind, body)
    }
    "C" => format!("{} := {}({})", p[1], p[2], p[3]),
    "A" => format!("{} = {}", p[1], expr_src(p[2])),
    "I" => { let ix: Vec<&str> = p[2].split(',').collect(); if ix.len() == 1 { format!("{}[{}] = {}", p[1], ix[0], p[3]) } else { format!("{}[[{}]] = {}", p[1], ix.join(" "), p[3]) } }
    "P" => format!("{} += {}", p[1], expr_src(p[2])),
    "T" => format!("({}) := {}", p[1], p[2]),
    "Q" => format!("{} {} {}", p[2], if p[1] == "s" { "-=" } else { "*=" }, expr_src(p[3])),
    "F" => format!("{}.{} = {}", p[1], p[2], expr_src(p[3])),
    _ => panic!("bad stmt {}", s),
  }
}

fn snapshot(intrp: &Interpreter) -> String {
  let st = intrp.symbols();
  let st = st.borrow();
  let d = st.dictionary.borrow();
  let mut v: Vec<String> = st.symbols.iter().filter_map(|(k, val)| {
    let name = d.get(k).cloned().unwrap_or("?".into());
    if name == "ans" { None } else { Some(format!("{}={}", name, canon(&val.borrow()))) } }).collect();
  v.sort();
  v.join(";")
}

pub fn exec(case: &str) -> String {
  let f: Vec<&str> = case.split('\t').collect();
  let mut intrp = Interpreter::new(0);
  let mut out = vec![];
  for s in f[1].split(";;") {
    let src = stmt_src(s);
    let tree = match parse_code(&src) { Ok(t) => t, Err(e) => return format!("harness:{}:{}", e, hexs(&src)) };
    let status = match std::panic::catch_unwind(std::panic::AssertUnwindSafe(|| intrp.interpret(&tree))) {
      Ok(Ok(_)) => "ok", Ok(Err(_)) => "err", Err(_) => return "hostpanic".to_string() };
    // the model computes with integers: a product such as -9 * 0 is 0 there and -0.0 in the code; the sign
    // of a zero is immaterial to this property, so -0.0 is written as 0.0
    out.push(format!("{}#{}", status, snapshot(&intrp).replace("8000000000000000", "0000000000000000")));
  }
  out.join("@")
}

/// a value of the session's favourite kind (so that assignments and op-assignments mostly fit their target)
fn gen_kind_expr(rng: &mut Rng, kind: u64) -> String {
  let ints = |rng: &mut Rng, n: usize, lo: i64, hi: i64| (0..n).map(|_| rng.range(lo, hi).to_string()).collect::<Vec<_>>().join(",");
  match kind {
    0 => format!("n{}", rng.range(-9, 20)),
    1 => format!("m1x3/{}", ints(rng, 3, 0, 9)),
    2 => format!("m3x1/{}", ints(rng, 3, 0, 9)),
    3 => format!("m2x2/{}", ints(rng, 4, 0, 9)),
    4 => format!("ra={},b={}", rng.range(0, 9), rng.range(0, 9)),
    _ => format!("T3/a={}/b={}", ints(rng, 3, 0, 9), ints(rng, 3, 0, 9)),
  }
}

fn gen_value_expr(rng: &mut Rng) -> String {
  match rng.below(11) {
    0 | 1 | 2 => format!("n{}", rng.range(-9, 20)),
    3 | 4 => { let n = 2 + rng.below(3) as usize; format!("m1x{}/{}", n, (0..n).map(|_| rng.range(0, 9).to_string()).collect::<Vec<_>>().join(",")) }
    5 => if rng.chance(1, 2) { format!("m2x2/{}", (0..4).map(|_| rng.range(0, 9).to_string()).collect::<Vec<_>>().join(",")) }
         else { let n = 2 + rng.below(2) as usize; format!("m{}x1/{}", n, (0..n).map(|_| rng.range(0, 9).to_string()).collect::<Vec<_>>().join(",")) },
    8 => format!("ra={},b={}", rng.range(0, 9), rng.range(0, 9)),
    9 => { let rows = 2 + rng.below(2) as usize; format!("T{}/a={}/b={}", rows, (0..rows).map(|_| rng.range(0, 9).to_string()).collect::<Vec<_>>().join(","), (0..rows).map(|_| rng.range(0, 9).to_string()).collect::<Vec<_>>().join(",")) }
    6 => format!("b{}", rng.below(4)),
    7 => format!("t{},{}", rng.range(1, 9), rng.range(1, 9)),
    _ => format!("n{}", rng.range(0, 5)),
  }
}

pub fn generate(seed: u64, thorough: bool, sink: &mut Sink) -> Vec<String> {
  let mut rng = Rng::new(seed);
  let mut cases = vec![];
  let names = ["a", "b", "c", "d"];
  let n = if thorough { 60000 } else { 4000 };
  for it in 0..n {
    // alias-free histories (where the isolation theorems apply) and free-form ones, half and half
    let alias_free = it % 2 == 0;
    let len = 2 + rng.below(if thorough { 7 } else { 5 }) as usize;
    let mut stmts: Vec<String> = vec![];
    // what the generator believes each name holds: (name, mutable, kind, length), kind as in `gen_kind_expr`
    // (0 number, 1 row vector, 2 column vector, 3 2x2 matrix, 4 record, 5 table, 6 other); three statements in
    // four are built to be valid against that belief, the fourth is free
    let mut st: Vec<(&str, bool, u64, usize)> = vec![];
    let session_kind = rng.below(6);
    fn kind_of(e: &str, st: &Vec<(&str, bool, u64, usize)>) -> Option<(u64, usize)> {
      let rest = &e[1..];
      match &e[..1] {
        "n" => Some((0, 1)),
        "m" => { let shape = rest.split('/').next().unwrap(); let (r, c) = shape.split_once('x').unwrap(); let (r, c): (usize, usize) = (r.parse().unwrap(), c.parse().unwrap());
                 Some(if r == 1 { (1, c) } else if c == 1 { (2, r) } else { (3, r * c) }) }
        "r" => Some((4, 0)),
        "T" => Some((5, rest.split('/').next().unwrap().parse().unwrap())),
        "b" => Some((6, 0)),
        "t" => Some((6, 2)),
        "v" | "c" => st.iter().find(|x| x.0 == rest).map(|x| (x.2, x.3)),
        "K" => { let name = rest.split('/').nth(1).unwrap_or(""); st.iter().find(|x| x.0 == name).map(|x| (x.2, x.3)) }
        _ => None,
      }
    }
    let lit_of = |rng: &mut Rng, k: u64, n: usize| -> String {
      let ints = |rng: &mut Rng, n: usize| (0..n).map(|_| rng.range(0, 9).to_string()).collect::<Vec<_>>().join(",");
      match k { 0 => format!("n{}", rng.range(-9, 20)), 1 => format!("m1x{}/{}", n, ints(rng, n)), 2 => format!("m{}x1/{}", n, ints(rng, n)), 3 => format!("m2x2/{}", ints(rng, 4)),
                4 => format!("ra={},b={}", rng.range(0, 9), rng.range(0, 9)), 5 => format!("T{}/a={}/b={}", n, ints(rng, n), ints(rng, n)), _ => format!("b{}", rng.below(4)) } };
    for _ in 0..len {
      let valid = rng.chance(3, 4);
      let fresh: Vec<&str> = names.iter().copied().filter(|n| !st.iter().any(|x| x.0 == *n)).collect();
      let any_name = *rng.pick(&names);
      // a source expression: of kind (k, n) when asked for, else free
      let source = |rng: &mut Rng, want: Option<(u64, usize)>, st: &Vec<(&str, bool, u64, usize)>| -> String {
        match want {
          Some((k, n)) => {
            let same: Vec<&str> = st.iter().filter(|x| x.2 == k && x.3 == n && k <= 3).map(|x| x.0).collect();
            if !same.is_empty() && rng.chance(1, 2) { let o = *rng.pick(&same); if alias_free || rng.chance(1, 2) { format!("c{}", o) } else { format!("v{}", o) } } else { lit_of(rng, k, n) } }
          None => match rng.below(8) {
            0 => "x".to_string(),
            1 | 2 => { let o = if st.is_empty() { any_name } else { rng.pick(st).0 }; if alias_free { format!("c{}", o) } else { format!("v{}", o) } }
            3 | 4 => gen_kind_expr(rng, session_kind),
            _ => gen_value_expr(rng) } } };
      let muts: Vec<(&str, bool, u64, usize)> = st.iter().filter(|x| x.1).cloned().collect();
      let kind = rng.below(16);
      // a call of a function with a statement body (defined just before its first use): the input is passed a
      // variable believed to hold a number or a matrix; `r` copies it into a fresh name, the other bodies try to
      // write to their input and must be refused, leaving everything as it was
      let callable: Vec<(&str, bool, u64, usize)> = st.iter().filter(|x| x.2 <= 3).cloned().collect();
      if !callable.is_empty() && rng.chance(1, 9) {
        let x = *rng.pick(&callable);
        let k = if x.2 == 0 { "s" } else { "m" };
        let mode = *rng.pick(if k == "m" { &["r", "w", "s", "i", "r"][..] } else { &["r", "w", "s", "r"][..] });
        let fname = format!("f{}{}", mode, k);
        if !stmts.iter().any(|p: &String| p.starts_with(&format!("G:{}:", fname))) { stmts.push(format!("G:{}:{}:{}", fname, mode, k)); sink.hit("stmt:G"); }
        let y = if valid && !fresh.is_empty() { *rng.pick(&fresh) } else { any_name };
        if mode == "r" && !st.iter().any(|z| z.0 == y) { st.push((y, false, x.2, x.3)); }
        stmts.push(format!("C:{}:{}:{}:{}:{}", y, fname, x.0, mode, k)); sink.hit(&format!("stmt:C:{}", mode));
        continue;
      }
      let s = if kind <= 3 || st.is_empty() {
        // definition: a fresh name when valid, mutable two times in three
        let nm = if valid && !fresh.is_empty() { *rng.pick(&fresh) } else { any_name };
        let m = if rng.chance(2, 3) { 1 } else { 0 };
        let e = if valid && rng.chance(1, 2) { gen_kind_expr(&mut rng, session_kind) } else { source(&mut rng, None, &st) };
        // a copy of a name believed to hold a number or a matrix is written, half of the time, as a define annotated
        // with exactly that kind and shape (a fresh value as well: the annotation converts, it must not share)
        let e = if e.starts_with('c') && rng.chance(1, 2) {
          match st.iter().find(|x| x.0 == &e[1..]) {
            Some(x) if x.2 == 0 => format!("K0/{}", x.0),
            Some(x) if x.2 == 1 => format!("K1x{}/{}", x.3, x.0),
            Some(x) if x.2 == 2 => format!("K{}x1/{}", x.3, x.0),
            Some(x) if x.2 == 3 => format!("K2x2/{}", x.0),
            _ => e } } else { e };
        if !st.iter().any(|x| x.0 == nm) { if let Some((k, n)) = kind_of(&e, &st) { if !(e.starts_with('c') && k > 3) { st.push((nm, m == 1, k, n)); } } }
        format!("D:{}:{}:{}", m, nm, e)
      } else {
        // a target the statement fits (when valid and one exists), else any name
        let pick_target = |rng: &mut Rng, ok: &dyn Fn(&(&str, bool, u64, usize)) -> bool| -> Option<(&str, bool, u64, usize)> {
          let pool: Vec<(&str, bool, u64, usize)> = muts.iter().filter(|x| ok(x)).cloned().collect();
          if valid && !pool.is_empty() { Some(*rng.pick(&pool)) } else { None } };
        match kind {
          4 | 5 | 6 => match pick_target(&mut rng, &|x| x.2 <= 3) {
            Some(t) => format!("A:{}:{}", t.0, source(&mut rng, Some((t.2, t.3)), &st)),
            None => format!("A:{}:{}", any_name, source(&mut rng, None, &st)) },
          7 => match pick_target(&mut rng, &|x| x.2 >= 1 && x.2 <= 3) {
            Some(t) => format!("I:{}:{}:{}", t.0, 1 + rng.below(t.3 as u64), rng.range(0, 9)),
            None => format!("I:{}:{}:{}", any_name, rng.range(0, 5), rng.range(0, 9)) },
          8 => match pick_target(&mut rng, &|x| x.2 >= 1 && x.2 <= 3) {
            Some(t) => format!("I:{}:{},{}:{}", t.0, 1 + rng.below(t.3 as u64), if rng.chance(1, 5) { t.3 as u64 + 3 } else { 1 + rng.below(t.3 as u64) }, rng.range(0, 9)),
            None => format!("I:{}:{},{}:{}", any_name, rng.range(1, 3), rng.range(1, 7), rng.range(0, 9)) },
          // (`+=` on a table appends rows: not an op-assignment in the sense of this property, not generated)
          9 | 10 | 12 => { let op = if kind == 12 { if rng.chance(1, 2) { "Q:s:" } else { "Q:m:" } } else { "P:" };
            match pick_target(&mut rng, &|x| x.2 <= 3) {
              Some(t) => { let src = if t.2 >= 1 && rng.chance(1, 4) { format!("n{}", rng.range(0, 9)) } else { source(&mut rng, Some((t.2, t.3)), &st) }; format!("{}{}:{}", op, t.0, src) }
              None => { let tn = any_name; if st.iter().any(|x| x.0 == tn && x.2 >= 4) { format!("A:{}:{}", tn, source(&mut rng, None, &st)) } else { format!("{}{}:{}", op, tn, source(&mut rng, None, &st)) } } } }
          13 | 14 | 15 => {
            // field / column assignment: to a name that holds a record or a table, mostly with a fitting source
            match pick_target(&mut rng, &|x| x.2 == 4 || x.2 == 5) {
              Some(t) => {
                let field = if rng.chance(1, 8) { "z" } else if rng.chance(1, 2) { "a" } else { "b" };
                let src = if t.2 == 4 {
                  match rng.below(10) { 0 => format!("c{}", any_name), 1 => format!("v{}", any_name), 2 => "m1x2/1,2".to_string(), 3 => "b1".to_string(), _ => format!("n{}", rng.range(0, 30)) }
                } else {
                  let rows = t.3;
                  let n = match rng.below(8) { 0 => rows + 1, 1 => rows.saturating_sub(1).max(1), _ => rows };
                  match rng.below(10) { 0 => format!("n{}", rng.range(0, 9)), 1 => format!("m1x{}/{}", n, (0..n).map(|_| rng.range(0, 9).to_string()).collect::<Vec<_>>().join(",")),
                    2 => format!("v{}", any_name), _ => format!("m{}x1/{}", n, (0..n).map(|_| rng.range(10, 40).to_string()).collect::<Vec<_>>().join(",")) }
                };
                format!("F:{}:{}:{}", t.0, field, src) }
              None => if rng.chance(1, 3) { format!("F:{}:{}:n{}", any_name, if rng.chance(1, 2) { "a" } else { "b" }, rng.range(0, 9)) } else { format!("A:{}:{}", any_name, source(&mut rng, None, &st)) } } }
          _ => if alias_free { match pick_target(&mut rng, &|x| x.2 == 0) { Some(t) => format!("A:{}:n{}", t.0, rng.range(0, 9)), None => format!("A:{}:n{}", any_name, rng.range(0, 9)) } } else {
            let tuples: Vec<&str> = st.iter().filter(|x| x.2 == 6 && x.3 == 2).map(|x| x.0).collect();
            // an invalid destructure mostly still has a tuple on the right, so that what is wrong is a target:
            // a name that is already defined (immutable or mutable), or the same name twice
            let tn = if !tuples.is_empty() && (valid || rng.chance(3, 4)) { *rng.pick(&tuples) } else { any_name };
            let (x, y) = if valid && fresh.len() >= 2 { (fresh[0], fresh[1]) }
              else if !st.is_empty() && rng.chance(2, 3) { let d = rng.pick(&st).0; if rng.chance(1, 2) { (d, *rng.pick(&names)) } else { (*rng.pick(&names), d) } }
              else { (*rng.pick(&names), *rng.pick(&names)) };
            if !st.iter().any(|z| z.0 == x) { st.push((x, true, 0, 1)); }
            if !st.iter().any(|z| z.0 == y) { st.push((y, true, 0, 1)); }
            format!("T:{},{}:{}", x, y, tn) },
        }
      };
      // `+=` with a table on the right appends rows when the target holds a table too: not an op-assignment in
      // the sense of this property. What the names hold is only believed (a failing statement defines nothing),
      // so the source of a `+=` is checked against the statements themselves: a table literal, or a name that
      // any earlier statement gave a table or a copy of such a name, makes it a plain assignment instead
      let s = if let Some(rest) = s.strip_prefix("P:") {
        let (tn, e) = rest.split_once(':').unwrap();
        let mut tableish: Vec<String> = vec![];
        for prev in &stmts {
          let f: Vec<&str> = prev.splitn(4, ':').collect();
          let (nm, ex) = match f[0] { "D" if f.len() == 4 => (f[2], f[3]), "A" if f.len() >= 3 => (f[1], &prev[prev.find(f[1]).unwrap() + f[1].len() + 1..]), _ => continue };
          if ex.starts_with('T') || ((ex.starts_with('v') || ex.starts_with('c')) && tableish.iter().any(|t| t == &ex[1..])) { tableish.push(nm.to_string()); }
        }
        if e.starts_with('T') || ((e.starts_with('v') || e.starts_with('c')) && tableish.iter().any(|t| t == &e[1..])) { format!("A:{}:{}", tn, e) } else { s.clone() }
      } else { s };
      sink.hit(&format!("stmt:{}", &s[..1]));
      stmts.push(s);
    }
    cases.push(format!("session\t{}", stmts.join(";;")));
    sink.hit(if alias_free { "history:alias-free" } else { "history:free" });
    if it < 4 { sink.sample(cases[cases.len() - 1].clone()); }
  }
  // the documented sharing patterns, with varying values
  for k in 0..(if thorough { 200 } else { 40 }) {
    let v = 10 + k as i64;
    cases.push(format!("session\tD:1:a:n5;;D:0:b:va;;A:a:n{};;D:0:c:cb;;A:a:n{}", v, v + 1));
    cases.push(format!("session\tD:0:a:n5;;D:1:b:va;;A:b:n{};;P:b:n1", v));
    cases.push(format!("session\tD:1:a:m1x3/1,2,3;;D:0:b:va;;I:a:2:{};;A:a:m1x3/7,8,9;;P:a:n1", v));
    cases.push(format!("session\tD:1:a:t1,2;;T:b,c:a;;A:b:n{};;T:d,b:a", v));
    cases.push(format!("session\tD:1:a:m1x3/1,2,3;;I:a:1,7:{};;D:0:b:ca", v));
    cases.push(format!("session\tD:1:a:ra=1,b=2;;D:0:b:va;;F:a:a:n{};;F:a:b:n{}", v, v + 1));
    cases.push(format!("session\tD:1:a:T2/a=1,2/b=3,4;;D:0:c:n7;;F:a:b:m3x1/{},1,2;;F:a:a:m2x1/{},5;;F:c:a:n1", v, v));
    // destructuring over names that exist already: rejected, and nothing changes
    cases.push(format!("session\tD:0:a:n{};;D:0:c:t1,2;;T:a,b:c;;A:a:n7;;D:0:d:ca", v));
    cases.push(format!("session\tD:1:a:n{};;D:0:c:t1,2;;T:b,a:c;;P:a:n1", v));
    cases.push(format!("session\tD:0:c:t{},2;;T:a,b:c;;T:a,d:c;;T:d,d:c", v));
    // a define annotated with the source's own kind and shape is a fresh value
    cases.push(format!("session\tD:1:a:m1x3/1,2,3;;D:0:b:K1x3/a;;I:a:1:{};;A:a:m1x3/7,8,9;;P:a:n1", v));
    cases.push(format!("session\tD:0:a:m2x2/1,2,3,4;;D:1:b:K2x2/a;;I:b:2:{};;P:b:n1;;D:0:c:K2x2/b", v));
    cases.push(format!("session\tD:1:a:m3x1/1,2,3;;D:1:b:K3x1/a;;Q:m:a:n2;;Q:s:b:n{};;I:a:3:0", v));
    cases.push(format!("session\tD:1:a:n{};;D:0:b:K0/a;;A:a:n9;;P:a:n1", v));
    // functions that read or try to write their input
    cases.push(format!("session\tD:0:a:n{};;G:frs:r:s;;C:b:frs:a:r:s;;G:fws:w:s;;C:c:fws:a:w:s;;D:0:d:ca", v));
    cases.push(format!("session\tD:1:a:n{};;G:fss:s:s;;C:b:fss:a:s:s;;A:a:n3;;G:frs:r:s;;C:c:frs:a:r:s;;A:a:n4", v));
    cases.push(format!("session\tD:1:a:m1x3/1,2,{};;G:fim:i:m;;C:b:fim:a:i:m;;G:frm:r:m;;C:c:frm:a:r:m;;I:a:1:0;;D:0:d:cc", v));
    cases.push(format!("session\tD:0:a:m2x2/1,2,3,{};;G:fwm:w:m;;C:b:fwm:a:w:m;;G:fsm:s:m;;C:c:fsm:a:s:m;;D:0:d:ca", v));
    cases.push(format!("session\tD:0:a:n{};;D:1:b:K0/a;;A:b:n9;;Q:m:b:n2", v));
    sink.hit("pattern:sharing");
  }
  cases
}
