#!/usr/bin/env python3
"""Regenerates lean/MechVerif/Gen/IncludeHelpers.lean from the include expander of src/mechfs.rs.

The four line-level helpers `looks_like_mech_include`, `code_fence_delimiter`, `is_code_fence_close`,
`standalone_braced_content` are parsed (tools/rustmini.py: a tokenizer and recursive-descent parser for the subset of
Rust they are written in; comments, line ends and layout vanish there) and translated statement by statement into Lean
*definitions* over the primitives of `Model/IncludeIR.lean`:

  let [mut] x = e;                                      let x := e      (or  bindE e (fun x => …)  when e can panic)
  let Some(p) = e else { return r; };                   match e with | none => .ok r | some p => …
  while v < B && C { v += 1; }                          bindE (whileUp B (fun v => C) v) (fun v => …)
                                                        (only this shape: first conjunct bounds the counter, body is
                                                        the increment; anything else is refused)
  if c { return r; }                                    if c then .ok r else …
  if c { A } else { B }   (as the last expression)      if c then A else B
  return r;   /   r  (last expression)                  .ok r
  s.as_bytes()  s.len()  s.trim()  s.is_empty()         asBytes s  len s  trim s  isEmpty s
  s.starts_with(l)  s.ends_with(l)                      startsWithChar / startsWithStr / endsWithChar / endsWithStr s l
  s.trim_matches(|c| p)                                 trimMatches (fun c => p) s
  v[i]   &s[a..]   &s[a..b]                             idx v i   sliceFrom s a   slice s a b        (may panic)
  a - b                                                 usub a b                                       (may panic)
  a + b, a * b, == != < > <= >=, && || !                the same (comparisons through `decide`); `&&`/`||` whose right
                                                        operand can panic become andE / orE (lazy right operand)
  b'x'   'x'   "lit"   e as char   &e  *e  e.clone()    'x'   'x'   "lit".toList   byteAsChar e   e
  Some(e) None (a, b) true false f(args)                some e  none  (a, b)  true  false  (f args — only the helpers
                                                        themselves; a call can panic)
Every sub-expression that can panic is bound to a fresh name first, in evaluation order.  Nothing is simplified or
re-ordered: `i > 3 || i >= bytes.len()` arrives as `(decide (i > 3) || decide (i ≥ len bytes))`.  Locals and parameters
keep their names (primed when they collide with a Lean keyword or a primitive), so renaming or re-formatting yields an
α-equivalent definition and the proofs of `Lemmas/IncludeHelpers.lean` (each definition = the function of
`Model/Include.lean`, for all lines) go through unchanged; a changed bound, comparison, character or slice makes them
fail.  A construct outside the table makes `generate` return (False, reason).

Second part: the control skeleton of `expand_mechdown_includes_recursive` and `expand_mechdown_include_tokens` (type
`Skel` of Model/IncludeIR.lean).  The body is walked in evaluation order; `if` / `if let` / `match` / let-else / a lazy
`&&`/`||` operand become `.branch`, `for` becomes `.loop`, and only these events are kept (all else is `.skip`):
  e?                                                         .mayFail        (e does not touch the set)
  return Err(…) / final Err(…);  return Ok(…) / final Ok(…)  .exitErr;  .returnOk
  continue;                                                  .continue_
  if SET.contains(&K) { return Err(…); }                     .guardActive
  SET.insert(K.clone());   SET.remove(&K);                   .insert   .remove
  expand_mechdown_include_tokens(…, &K, SET)?                .callTokens
  expand_mechdown_includes_recursive(…, SET)?                .callRecursive
  any other mention of SET (another key, another method, an alias, a call whose result is not `?`-propagated, …)  .foreign
SET is the parameter of type `&mut HashSet<_>` and K the variable that is inserted (both found by binding, so they may
be renamed; K must be bound exactly once and never assigned).  `break`, `while`, `loop`, closures that can fail or touch
the set, a function value that is neither `Ok(…)` nor `Err(…)` are refused.  The generated file ends in
`C20_active_set_discipline_as_written : disciplineOk recursive_skeleton ∧ disciplineOk tokens_skeleton := by decide`;
`discipline_sound` (Lemmas/IncludeHelpers.lean) says what a checked body guarantees."""
import os, re, sys
sys.path.insert(0, os.path.dirname(os.path.abspath(__file__)))
from rustmini import Unrecognised, tokenize, parse_fn

SOURCE = "src/mechfs.rs"
HELPERS = ["looks_like_mech_include", "code_fence_delimiter", "is_code_fence_close", "standalone_braced_content"]
LEAN_KEYWORDS = {"at", "from", "fun", "end", "do", "then", "else", "if", "let", "have", "show", "in", "match", "with", "by", "open",
                 "def", "theorem", "instance", "structure", "class", "where", "deriving", "import", "namespace", "section", "variable",
                 "universe", "export", "private", "protected", "return", "for", "unless", "try", "catch", "finally", "mut", "nomatch",
                 "nofun", "this", "Type", "Prop", "Sort", "forall", "exists", "calc", "macro", "syntax", "notation", "infix", "prefix",
                 "postfix", "attribute", "set_option", "example", "abbrev", "inductive", "mutual", "axiom", "opaque", "extends", "using",
                 "termination_by", "decreasing_by", "suffices", "obtain", "rcases", "omit", "include", "local", "scoped", "elab", "rfl",
                 "some", "none", "true", "false", "decide", "not", "id", "fs",
                 # the primitives of Model/IncludeIR.lean and the model's names the generated file opens
                 "bindE", "asBytes", "byteAsChar", "len", "idx", "usub", "andE", "orE", "whileUp", "sliceFrom", "slice", "trim",
                 "trimMatches", "isEmpty", "startsWithChar", "endsWithChar", "startsWithStr", "endsWithStr", "includeTargetOf",
                 "Text", "Path", "Nat", "Char", "Bool", "Option", "R", "Panic", "Fence", "Err", "FS"}

TYPES = {"& str": "Text", "char": "Char", "usize": "Nat", "bool": "Bool", "Option < & str >": "Option Text",
         "Option < ( char , usize , usize ) >": "Option (Char × Nat × Nat)", "Option < ( char , usize ) >": "Option (Char × Nat)"}

def lean_name(n):
    n = n.lstrip('_') or 'x'
    return n + "'" if (n in LEAN_KEYWORDS or n in HELPERS or re.match(r'^t\d+$', n)) else n

def char_lit(c):
    o = ord(c)
    if c == '\n': return "'\\n'"
    if c == '\t': return "'\\t'"
    if c == '\r': return "'\\r'"
    if c == '\\': return "'\\\\'"
    if c == "'": return "'\\''"
    if 32 <= o < 127: return "'%s'" % c
    return "(Char.ofNat %d)" % o

def str_lit(s):
    if all(32 <= ord(c) < 127 and c not in '"\\' for c in s): return '"%s".toList' % s
    return "[" + ", ".join(char_lit(c) for c in s) + "]"

class Fn:
    """translation of one helper: everything lives in `R` (may panic)"""
    def __init__(self, fn, known):
        self.fn, self.known, self.uid = fn, known, 0
    def fresh(self):
        self.uid += 1; return "t%d" % self.uid
    def fail(self, what):
        raise Unrecognised("%s: %s" % (self.fn["name"], what))

    # ---- expressions: (binds, text, type); binds = [(name, text of type R _)] to be bound first, in order
    def expr(self, e, env):
        k = e[0]
        if k == 'int': return [], str(e[1]), 'Nat'
        if k in ('char', 'byte'): return [], char_lit(e[1]), 'Char'
        if k == 'str': return [], str_lit(e[1]), 'Text'
        if k == 'bool': return [], 'true' if e[1] else 'false', 'Bool'
        if k == 'path':
            if len(e[1]) == 1 and e[1][0] in env: return [], lean_name(e[1][0]), env[e[1][0]]
            if e[1] == ['None']: return [], 'none', ('Option', None)
            self.fail("unknown name " + '::'.join(e[1]))
        if k == 'unary':
            if e[1] in ('&', '*'): return self.expr(e[2], env)
            if e[1] == '!':
                b, t, ty = self.expr(e[2], env)
                if ty != 'Bool': self.fail("! on a non-boolean")
                return b, "(!%s)" % t, 'Bool'
            self.fail("unary " + e[1])
        if k == 'cast':
            b, t, ty = self.expr(e[1], env)
            if e[2] == 'char' and ty == 'Char': return b, "(byteAsChar %s)" % t, 'Char'
            self.fail("cast to " + e[2])
        if k == 'tuple':
            bs, ts, tys = [], [], []
            for x in e[1]:
                b, t, ty = self.expr(x, env); bs += b; ts.append(t); tys.append(ty)
            return bs, "(" + ", ".join(ts) + ")", ('Tuple', tys)
        if k == 'bin':
            op = e[1]
            bl, tl, tyl = self.expr(e[2], env)
            br, tr, tyr = self.expr(e[3], env)
            if op in ('&&', '||'):
                if tyl != 'Bool' or tyr != 'Bool': self.fail("operands of " + op)
                if not br: return bl, "(%s %s %s)" % (tl, op, tr), 'Bool'
                t = self.fresh()
                return bl + [(t, "%s %s (fun _ => %s)" % ('andE' if op == '&&' else 'orE', tl, self.wrap(br, ".ok " + tr)))], t, 'Bool'
            if tyl != tyr or tyl not in ('Nat', 'Char', 'Bool'): self.fail("operands of %s: %s, %s" % (op, tyl, tyr))
            if op in ('==', '!='): return bl + br, "(%s %s %s)" % (tl, op, tr), 'Bool'
            if tyl != 'Nat': self.fail("operands of " + op)
            if op in ('<', '>', '<=', '>='):
                return bl + br, "(decide (%s %s %s))" % (tl, {'<': '<', '>': '>', '<=': '≤', '>=': '≥'}[op], tr), 'Bool'
            if op in ('+', '*'): return bl + br, "(%s %s %s)" % (tl, op, tr), 'Nat'
            if op == '-':
                t = self.fresh(); return bl + br + [(t, "usub %s %s" % (tl, tr))], t, 'Nat'
            self.fail("operator " + op)
        if k == 'index':
            b, t, ty = self.expr(e[1], env)
            if ty != 'Text': self.fail("indexing a non-string")
            if e[2][0] == 'range':
                lo, hi = e[2][1], e[2][2]
                if lo is None: lo = ('int', 0)
                bl, tl, tyl = self.expr(lo, env)
                if tyl != 'Nat': self.fail("slice bound")
                n = self.fresh()
                if hi is None: return b + bl + [(n, "sliceFrom %s %s" % (t, tl))], n, 'Text'
                bh, th, tyh = self.expr(hi, env)
                if tyh != 'Nat': self.fail("slice bound")
                return b + bl + bh + [(n, "slice %s %s %s" % (t, tl, th))], n, 'Text'
            bi, ti, tyi = self.expr(e[2], env)
            if tyi != 'Nat': self.fail("index")
            n = self.fresh()
            return b + bi + [(n, "idx %s %s" % (t, ti))], n, 'Char'
        if k == 'mcall':
            b, t, ty = self.expr(e[1], env)
            m, a = e[2], e[3]
            if ty != 'Text': self.fail(".%s() on a non-string" % m)
            if m in ('as_bytes', 'len', 'trim', 'is_empty', 'clone', 'to_string', 'as_str'):
                if a: self.fail(".%s with arguments" % m)
                if m in ('clone', 'to_string', 'as_str'): return b, t, ty
                return b, "(%s %s)" % ({'as_bytes': 'asBytes', 'len': 'len', 'trim': 'trim', 'is_empty': 'isEmpty'}[m], t), \
                       {'as_bytes': 'Text', 'len': 'Nat', 'trim': 'Text', 'is_empty': 'Bool'}[m]
            if m in ('starts_with', 'ends_with'):
                if len(a) != 1 or a[0][0] not in ('char', 'str'): self.fail(".%s of something that is not a literal" % m)
                f = ('startsWith' if m == 'starts_with' else 'endsWith') + ('Char' if a[0][0] == 'char' else 'Str')
                return b, "(%s %s %s)" % (f, t, char_lit(a[0][1]) if a[0][0] == 'char' else str_lit(a[0][1])), 'Bool'
            if m == 'trim_matches':
                if len(a) != 1 or a[0][0] != 'closure' or len(a[0][1]) != 1 or a[0][1][0][0] != 'bind': self.fail("trim_matches of something that is not a one-parameter closure")
                v = a[0][1][0][1]
                env2 = dict(env); env2[v] = 'Char'
                bc, tc, tyc = self.expr(a[0][2], env2)
                if bc or tyc != 'Bool': self.fail("trim_matches: the predicate")
                return b, "(trimMatches (fun %s => %s) %s)" % (lean_name(v), tc, t), 'Text'
            self.fail("method ." + m)
        if k == 'call':
            f = e[1]
            if f[0] == 'path' and f[1] == ['Some'] and len(e[2]) == 1:
                b, t, ty = self.expr(e[2][0], env); return b, "(some %s)" % t, ('Option', ty)
            if f[0] == 'path' and len(f[1]) == 1 and f[1][0] in self.known and f[1][0] not in env:
                sig = self.known[f[1][0]]
                if len(sig["params"]) != len(e[2]): self.fail("arity of " + f[1][0])
                bs, ts = [], []
                for x, (_, pty) in zip(e[2], sig["params"]):
                    b, t, ty = self.expr(x, env)
                    if ty != pty: self.fail("argument of %s: %s for %s" % (f[1][0], ty, pty))
                    bs += b; ts.append(t)
                n = self.fresh()
                return bs + [(n, "%s %s" % (f[1][0], " ".join(ts)))], n, sig["ret"]
            self.fail("call of " + ('::'.join(f[1]) if f[0] == 'path' else "an expression"))
        self.fail("expression " + k)

    def wrap(self, binds, body):
        """bindE b1 (fun t1 => … body)"""
        for n, t in reversed(binds): body = "bindE (%s) (fun %s => %s)" % (t, n, body)
        return body

    def ret_text(self, e, env, want):
        b, t, ty = self.expr(e, env)
        if not self.fits(ty, want): self.fail("returns %s where %s is declared" % (ty, want))
        return b, t

    def fits(self, ty, want):
        if ty == want: return True
        if isinstance(ty, tuple) and isinstance(want, tuple) and ty[0] == want[0] == 'Option': return ty[1] is None or self.fits(ty[1], want[1])
        if isinstance(ty, tuple) and isinstance(want, tuple) and ty[0] == want[0] == 'Tuple':
            return len(ty[1]) == len(want[1]) and all(self.fits(a, b) for a, b in zip(ty[1], want[1]))
        return False

    # ---- statements: returns lines; every `bindE … (fun x =>` opened is closed at the end of the returned text
    def bind_lines(self, binds, pad):
        return ["%sbindE (%s) (fun %s =>" % (pad, t, n) for n, t in binds]

    def pattern(self, p, ty, env):
        """binds the names of an irrefutable pattern; returns Lean pattern text"""
        if p[0] == 'wild': return "_"
        if p[0] == 'bind':
            env[p[1]] = ty; return lean_name(p[1])
        if p[0] == 'ptuple':
            if not (isinstance(ty, tuple) and ty[0] == 'Tuple' and len(ty[1]) == len(p[1])): self.fail("tuple pattern against " + str(ty))
            return "(" + ", ".join(self.pattern(q, t, env) for q, t in zip(p[1], ty[1])) + ")"
        self.fail("pattern " + p[0])

    def block(self, blk, env, ind, want):
        stmts, final = blk
        return self.seq(list(stmts), final, dict(env), ind, want)

    def returns(self, blk):
        """the block is exactly `{ return e; }` or `{ e }`?  → e"""
        stmts, final = blk
        if len(stmts) == 1 and final is None and stmts[0][0] == 'return' and stmts[0][1] is not None: return stmts[0][1]
        return None

    def seq(self, stmts, final, env, ind, want):
        pad = "  " * ind
        if not stmts:
            if final is None: self.fail("a path through the body that returns nothing")
            if final[0] == 'if':
                bc, tc, tyc = self.expr(final[1], env)
                if tyc != 'Bool' or final[3] is None: self.fail("if expression")
                a = self.block(final[2], env, ind + 1, want); b = self.block(final[3], env, ind + 1, want)
                lines = self.bind_lines(bc, pad) + ["%sif %s then (" % (pad, tc)] + a + ["%s) else (" % pad] + b + ["%s)" % pad]
                lines[-1] += ")" * len(bc); return lines
            b, t = self.ret_text(final, env, want)
            lines = self.bind_lines(b, pad) + ["%s.ok %s" % (pad, t)]
            lines[-1] += ")" * len(b); return lines
        s, rest = stmts[0], stmts[1:]
        if s[0] == 'return':
            if rest or final is not None: self.fail("code after return")
            if s[1] is None: self.fail("return without a value")
            return self.seq([], s[1], env, ind, want)
        if s[0] == 'let':
            _, pat, ty, e, els = s
            if e is None: self.fail("let without a value")
            b, t, tye = self.expr(e, env)
            if els is not None:
                r = self.returns(els)
                if r is None: self.fail("let-else whose else block is not a single return")
                if not (pat[0] == 'pctor' and pat[1] == ['Some'] and len(pat[2]) == 1 and isinstance(tye, tuple) and tye[0] == 'Option' and tye[1] is not None):
                    self.fail("let-else with a pattern other than Some(…) on an Option")
                br, tr = self.ret_text(r, env, want)
                if br: self.fail("let-else: the returned value can panic")
                env2 = dict(env); lp = self.pattern(pat[2][0], tye[1], env2)
                lines = self.bind_lines(b, pad) + ["%smatch %s with" % (pad, t), "%s| none => .ok %s" % (pad, tr), "%s| some %s =>" % (pad, lp)]
                tail = self.seq(rest, final, env2, ind, want)
                tail[-1] += ")" * len(b); return lines + tail
            env2 = dict(env); lp = self.pattern(pat, tye, env2)
            if pat[0] == 'bind' and b and b[-1][0] == t:
                # the value is itself the last panicking step: bind it under the variable's own name
                b = b[:-1] + [(lp, b[-1][1])]
                lines = self.bind_lines(b, pad)
            else:
                lines = self.bind_lines(b, pad) + ["%slet %s := %s" % (pad, lp, t)]
            tail = self.seq(rest, final, env2, ind, want)
            tail[-1] += ")" * len(b); return lines + tail
        if s[0] == 'while':
            conj = []
            def flat(c):
                if c[0] == 'bin' and c[1] == '&&': flat(c[2]); flat(c[3])
                else: conj.append(c)
            flat(s[1])
            body, bfinal = s[2]
            if bfinal is not None or len(body) != 1 or body[0][0] != 'assign' or body[0][2] != '+=' or body[0][3] != ('int', 1) or body[0][1][0] != 'path' or len(body[0][1][1]) != 1:
                self.fail("a while loop whose body is not `v += 1;`")
            v = body[0][1][1][0]
            if env.get(v) != 'Nat': self.fail("the loop counter %s is not a number variable" % v)
            c0 = conj[0]
            if not (c0[0] == 'bin' and c0[1] == '<' and c0[2] == ('path', [v])): self.fail("the first conjunct of the while condition does not bound the counter")
            def mentions(x, name):
                if isinstance(x, (tuple, list)):
                    if len(x) == 2 and x[0] == 'path' and x[1] == [name]: return True
                    return any(mentions(y, name) for y in x)
                return False
            if mentions(c0[3], v): self.fail("the bound of the while loop depends on the counter")
            bb, tb, tyb = self.expr(c0[3], env)
            if bb or tyb != 'Nat': self.fail("the bound of the while loop")
            if len(conj) == 1: cond = ".ok true"
            else:
                c = conj[1]
                for x in conj[2:]: c = ('bin', '&&', c, x)
                bc, tc, tyc = self.expr(c, env)
                if tyc != 'Bool': self.fail("while condition")
                cond = self.wrap(bc, ".ok " + tc)
            lines = ["%sbindE (whileUp %s (fun %s => %s) %s) (fun %s =>" % (pad, tb, lean_name(v), cond, lean_name(v), lean_name(v))]
            tail = self.seq(rest, final, env, ind, want)
            tail[-1] += ")"; return lines + tail
        if s[0] == 'expr' and s[1][0] == 'if':
            _, c, then, els = s[1]
            bc, tc, tyc = self.expr(c, env)
            if tyc != 'Bool': self.fail("if condition")
            r = self.returns(then)
            if r is None or els is not None: self.fail("an `if` statement that is not `if c { return r; }`")
            br, tr = self.ret_text(r, env, want)
            if br: self.fail("if-return: the returned value can panic")
            lines = self.bind_lines(bc, pad) + ["%sif %s then .ok %s else" % (pad, tc, tr)]
            tail = self.seq(rest, final, env, ind, want)
            tail[-1] += ")" * len(bc); return lines + tail
        self.fail("statement " + s[0])

def lean_type(ty):
    if isinstance(ty, str): return ty
    if ty[0] == 'Option': return "Option " + (lean_type(ty[1]) if isinstance(ty[1], str) else "(" + lean_type(ty[1]) + ")")
    if ty[0] == 'Tuple': return " × ".join(lean_type(t) for t in ty[1])
    raise Unrecognised("type " + str(ty))

def rust_type(name, t):
    t = t.strip()
    if t == "& str": return 'Text'
    if t in ("char",): return 'Char'
    if t in ("usize",): return 'Nat'
    if t == "bool": return 'Bool'
    m = re.match(r'^Option < (.*) >$', t)
    if m: return ('Option', rust_type(name, m.group(1)))
    m = re.match(r'^\( (.*) \)$', t)
    if m: return ('Tuple', [rust_type(name, x) for x in m.group(1).split(' , ')])
    raise Unrecognised("%s: type %s" % (name, t))

def translate_helpers(toks):
    fns = {n: parse_fn(toks, n) for n in HELPERS}
    sigs = {}
    for n, f in fns.items():
        if f["ret"] is None: raise Unrecognised(n + " returns nothing")
        sigs[n] = {"params": [(p, rust_type(n, t)) for p, t in f["params"]], "ret": rust_type(n, f["ret"])}
    out = []
    # callees first
    order, seen = [], set()
    def calls(x, acc):
        if isinstance(x, (tuple, list)):
            if len(x) == 3 and x[0] == 'call' and x[1][0] == 'path' and len(x[1][1]) == 1 and x[1][1][0] in fns: acc.add(x[1][1][0])
            for y in x: calls(y, acc)
    def visit(n, stack):
        if n in seen: return
        if n in stack: raise Unrecognised("the helpers call each other recursively")
        acc = set(); calls(fns[n]["body"], acc)
        for m in sorted(acc): visit(m, stack + [n])
        seen.add(n); order.append(n)
    for n in HELPERS: visit(n, [])
    for n in order:
        f, sig = fns[n], sigs[n]
        names = [p for p, _ in sig["params"]]
        if len(set(names)) != len(names): raise Unrecognised(n + ": duplicate parameter")
        env = dict(sig["params"])
        tr = Fn(f, {m: sigs[m] for m in seen})
        body = tr.block(f["body"], env, 1, sig["ret"])
        rust_sig = "fn %s(%s) -> %s" % (n, ", ".join("%s: %s" % (p, t.replace(' ', '').replace('&', '&')) for p, t in f["params"]), f["ret"].replace(' ', ''))
        head = "def %s %s : R (%s) :=" % (n, " ".join("(%s : %s)" % (lean_name(p), lean_type(t)) for p, t in sig["params"]), lean_type(sig["ret"]))
        out.append((n, ["/-- `%s` -/" % rust_sig, head] + body))
    return out


# ---------------------------------------------------------------------------------------------------------------------
# the control skeleton of the two expand_* functions (what happens to `active_set`, where the function can be left)

TOKENS_FN, RECURSIVE_FN = "expand_mechdown_include_tokens", "expand_mechdown_includes_recursive"

def _mentions(x, name):
    if isinstance(x, (tuple, list)):
        if len(x) == 2 and x[0] == 'path' and x[1] == [name]: return True
        if len(x) == 3 and x[0] == 'macro': return any(t == ('id', name) for t in x[2])
        return any(_mentions(y, name) for y in x)
    return False

def _binders(x, acc):
    """every name bound by a pattern anywhere in the tree"""
    if isinstance(x, tuple) and len(x) == 3 and x[0] == 'bind' and isinstance(x[1], str) and isinstance(x[2], bool): acc.append(x[1])
    elif isinstance(x, (tuple, list)):
        for y in x: _binders(y, acc)

class Skeleton:
    def __init__(self, fn):
        self.fn = fn
        sets = [n for n, t in fn["params"] if re.match(r'^& mut HashSet < \w+ >$', t)]
        if len(sets) != 1: raise Unrecognised("%s: which parameter is the active set?" % fn["name"])
        self.set = sets[0]
        bound = []; _binders(fn["body"], bound)
        if self.set in bound: raise Unrecognised("%s: the active-set parameter is shadowed" % fn["name"])
        # the key: the variable that is inserted
        keys = []
        self._find_inserts(fn["body"], keys)
        self.key = None
        if keys:
            if len(set(keys)) != 1: raise Unrecognised("%s: several different keys are inserted" % fn["name"])
            self.key = keys[0]
            n = bound.count(self.key) + sum(1 for p, _ in fn["params"] if p == self.key)
            if n != 1: raise Unrecognised("%s: the inserted variable %s is bound %d times" % (fn["name"], self.key, n))
            if self._assigned(fn["body"], self.key): raise Unrecognised("%s: the inserted variable is assigned" % fn["name"])
    def fail(self, what):
        raise Unrecognised("%s (skeleton): %s" % (self.fn["name"], what))
    def _find_inserts(self, x, acc):
        if isinstance(x, tuple) and len(x) == 4 and x[0] == 'mcall' and x[1] == ('path', [self.set]) and x[2] == 'insert' and len(x[3]) == 1:
            k = self._key_of(x[3][0])
            if k: acc.append(k)
        if isinstance(x, (tuple, list)):
            for y in x: self._find_inserts(y, acc)
    def _assigned(self, x, name):
        if isinstance(x, tuple) and len(x) == 4 and x[0] == 'assign' and _mentions(x[1], name): return True
        if isinstance(x, (tuple, list)): return any(self._assigned(y, name) for y in x)
        return False
    def _key_of(self, e):
        """`k`, `&k`, `k.clone()`, `&k.clone()` → k"""
        while True:
            if e[0] == 'unary' and e[1] == '&': e = e[2]
            elif e[0] == 'mcall' and e[2] in ('clone', 'to_path_buf', 'to_owned') and not e[3]: e = e[1]
            else: break
        if e[0] == 'path' and len(e[1]) == 1: return e[1][0]
        return None

    # ---- every function returns a list of Skel nodes (texts)
    def expr(self, e):
        k = e[0]
        if k in ('int', 'char', 'byte', 'str', 'bool'): return []
        if k == 'path': return [".ev .foreign"] if e[1] == [self.set] else []
        if k == 'macro':
            if any(t == ('op', '?') for t in e[2]) or any(t[0] == 'id' and t[1] in ('return', 'continue', 'break') for t in e[2]): self.fail("control flow inside a macro call")
            return [".ev .foreign"] if any(t == ('id', self.set) for t in e[2]) else []
        if k == 'try':
            c = e[1]
            if c[0] == 'call' and c[1][0] == 'path' and c[1][1] in ([TOKENS_FN], [RECURSIVE_FN]):
                args = c[2]
                if not args or args[-1] != ('path', [self.set]):
                    return sum((self.expr(a) for a in args), []) + [".ev .foreign"]
                pre = sum((self.expr(a) for a in args[:-1]), [])
                if c[1][1] == [TOKENS_FN]:
                    if len(args) != 3 or self.key is None or self._key_of(args[1]) != self.key: return pre + [".ev .foreign"]
                    return pre + [".ev .callTokens"]
                if len(args) != 2: return pre + [".ev .foreign"]
                return pre + [".ev .callRecursive"]
            return self.expr(c) + [".ev .mayFail"]
        if k == 'call':
            f = e[1]
            pre = sum((self.expr(a) for a in e[2]), [])
            if f[0] == 'path' and f[1] in ([TOKENS_FN], [RECURSIVE_FN]): return pre + [".ev .foreign"]      # a call whose error is not propagated
            return self.expr(f) + pre
        if k == 'mcall':
            if e[1] == ('path', [self.set]):
                pre = sum((self.expr(a) for a in e[3]), [])
                if self.key is not None and len(e[3]) == 1 and self._key_of(e[3][0]) == self.key:
                    if e[2] == 'insert': return [".ev .insert"]
                    if e[2] == 'remove': return [".ev .remove"]
                return pre + [".ev .foreign"]
            return self.expr(e[1]) + sum((self.expr(a) for a in e[3]), [])
        if k == 'unary': return self.expr(e[2])
        if k == 'cast': return self.expr(e[1])
        if k == 'field': return self.expr(e[1])
        if k == 'bin':
            l, r = self.expr(e[2]), self.expr(e[3])
            if e[1] in ('&&', '||') and r: return l + [self.branch(r, [])]
            return l + r
        if k == 'index': return self.expr(e[1]) + self.expr(e[2])
        if k == 'range': return (self.expr(e[1]) if e[1] else []) + (self.expr(e[2]) if e[2] else [])
        if k == 'tuple': return sum((self.expr(a) for a in e[1]), [])
        if k == 'struct': return sum((self.expr(v) for _, v in e[2]), [])
        if k == 'closure':
            if self.expr(e[2]): self.fail("a closure that touches the active set or can fail")
            return []
        if k == 'block': return self.block(e[1])
        if k == 'if':
            c = e[1]
            if c[0] == 'mcall' and c[1] == ('path', [self.set]) and c[2] == 'contains':
                then = self.block(e[2])
                if self.key is not None and len(c[3]) == 1 and self._key_of(c[3][0]) == self.key and then == [".ev .exitErr"] and e[3] is None:
                    return [".ev .guardActive"]
                return [".ev .foreign"]
            return self.expr(c) + [self.branch(self.block(e[2]), self.block(e[3]) if e[3] else [])]
        if k == 'iflet':
            return self.expr(e[2]) + [self.branch(self.block(e[3]), self.block(e[4]) if e[4] else [])]
        if k == 'match':
            arms = [self.expr(b) for _, b in e[2]]
            if not arms: self.fail("empty match")
            node = arms[-1]
            for a in reversed(arms[:-1]): node = [self.branch(a, node)]
            return self.expr(e[1]) + node
        self.fail("expression " + k)

    def seq(self, nodes):
        if not nodes: return ".skip"
        if len(nodes) == 1: return nodes[0]
        return "(.seq %s %s)" % (self.atom(nodes[0]), self.atom(self.seq(nodes[1:])))
    def atom(self, t):
        return t if t.startswith("(") or t == ".skip" else "(" + t + ")"
    def branch(self, a, b):
        return ".branch %s %s" % (self.atom(self.seq(a)), self.atom(self.seq(b)))

    def exit_of(self, e):
        """`Ok(..)` / `Err(..)` as the value the function returns"""
        if e[0] == 'call' and e[1] == ('path', ['Ok']) and len(e[2]) == 1: return self.expr(e[2][0]) + [".ev .returnOk"]
        if e[0] == 'call' and e[1] == ('path', ['Err']) and len(e[2]) == 1: return self.expr(e[2][0]) + [".ev .exitErr"]
        self.fail("the function returns something that is neither Ok(…) nor Err(…)")

    def block(self, blk, top=False):
        stmts, final = blk
        out = []
        for s in stmts:
            k = s[0]
            if k == 'let':
                if s[3] is not None: out += self.expr(s[3])
                if s[4] is not None: out.append(self.branch(self.block(s[4]), []))
            elif k == 'expr': out += self.expr(s[1])
            elif k == 'assign':
                if _mentions(s[1], self.set): out.append(".ev .foreign")
                out += self.expr(s[3])
            elif k == 'for': out += self.expr(s[2]) + [".loop " + self.atom(self.seq(self.block(s[3])))]
            elif k == 'return':
                if s[1] is None: self.fail("return without a value")
                out += self.exit_of(s[1])
            elif k == 'continue': out.append(".ev .continue_")
            else: self.fail("statement " + k)
        if final is not None: out += self.exit_of(final) if top else self.expr(final)
        return out

    def text(self):
        return self.seq(self.block(self.fn["body"], top=True))

def pretty_skel(t, width=110):
    """breaks a long `.seq a (.seq b …)` chain over lines"""
    lines, cur, depth = [], "", 0
    i = 0
    while i < len(t):
        if t.startswith("(.seq ", i) and len(cur) > 40:
            lines.append(cur.rstrip()); cur = "  " * 2
        cur += t[i]; i += 1
    lines.append(cur)
    return lines

def extract_skeletons(toks):
    out = []
    for name, lean in ((RECURSIVE_FN, "recursive_skeleton"), (TOKENS_FN, "tokens_skeleton")):
        fn = parse_fn(toks, name)
        sk = Skeleton(fn)
        out.append((name, lean, sk.key, sk.set, sk.text()))
    return out

def read_source(repo):
    return open(os.path.join(repo, SOURCE), newline='', encoding='utf-8').read()

def extract(repo="/repo"):
    toks = tokenize(read_source(repo))
    return translate_helpers(toks), extract_skeletons(toks)

def generate(root, repo="/repo"):
    try: helpers, skels = extract(repo)
    except (Unrecognised, OSError, UnicodeDecodeError, IndexError, KeyError, ValueError) as e:
        return False, "C20 include-helper extraction failed: %s" % e
    L = ["/- GENERATED by tools/extract_include.py from src/mechfs.rs (the line-level helpers of the include expander) —",
         "   do not edit. -/",
         "import MechVerif.Model.IncludeIR", "namespace MechVerif.Gen.IncludeHelpers",
         "open MechVerif.Include MechVerif.IncludeIR", "set_option linter.unusedVariables false", ""]
    for n, lines in helpers: L += lines + [""]
    for name, lean, key, setv, text in skels:
        L += ["/-- the control skeleton of `%s`: what happens to `%s`%s and where the function can be left -/" % (
                  name, setv, " (key: `%s`)" % key if key else ""),
              "def %s : Skel :=" % lean] + ["  " + l for l in pretty_skel(text)] + [""]
    L += ["/-- both bodies obey the `active_set` discipline (`chk`: the key is inserted only after the `contains` guard, removed",
          "    before every `Ok` return, the set is handed to `expand_mechdown_include_tokens` only while the key is in it, every",
          "    call is propagated by `?`, nothing else touches the set) -/",
          "theorem C20_active_set_discipline_as_written :",
          "    %s := by decide" % " ∧ ".join("disciplineOk %s = true" % lean for _, lean, _, _, _ in skels), "",
          "end MechVerif.Gen.IncludeHelpers", ""]
    text = "\n".join(L)
    out = os.path.join(root, 'lean', 'MechVerif', 'Gen', 'IncludeHelpers.lean')
    old = open(out).read() if os.path.exists(out) else None
    if old != text: open(out, 'w').write(text)
    return True, "C20 include helpers extracted: %d definitions (%s), %d control skeletons" % (len(helpers), ", ".join(n for n, _ in helpers), len(skels))

if __name__ == '__main__':
    root = os.path.dirname(os.path.dirname(os.path.abspath(__file__)))
    repo, outroot, show = "/repo", root, False
    for a in sys.argv[1:]:
        if a.startswith("repo="): repo = a[5:]
        if a.startswith("root="): outroot = a[5:]
        if a == "--show": show = True
    if show:
        h, k = extract(repo)
        for n, lines in h: print("\n".join(lines)); print()
        for name, lean, key, setv, text in k: print(name, "key =", key, "set =", setv); print("\n".join(pretty_skel(text))); print()
    else: print(generate(outroot, repo))
