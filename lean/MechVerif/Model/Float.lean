/-
Exact views of IEEE-754 binary64 / binary32 bit patterns: decoding to m·2^e over the
integers, truncation toward zero, and correctly rounded (nearest, ties to even)
conversion of integers.  Pure integer arithmetic — no hardware float operation.
-/
namespace MechVerif.FloatX

/-- exact value m · 2^e -/
structure Dy where
  m : Int
  e : Int
deriving Repr, DecidableEq

inductive Cls where
  | finite (v : Dy)
  | posInf | negInf | nan
deriving Repr, DecidableEq

def decode64 (b : UInt64) : Cls :=
  let n := b.toNat
  let neg := n / 2 ^ 63 == 1
  let ex : Nat := (n / 2 ^ 52) % 2048
  let mant : Nat := n % 2 ^ 52
  let sign : Int := if neg then -1 else 1
  if ex == 2047 then (if mant == 0 then (if neg then .negInf else .posInf) else .nan)
  else if ex == 0 then .finite ⟨sign * (mant : Int), -1074⟩
  else .finite ⟨sign * ((mant + 2 ^ 52 : Nat) : Int), (ex : Int) - 1075⟩

def decode32 (b : UInt32) : Cls :=
  let n := b.toNat
  let neg := n / 2 ^ 31 == 1
  let ex : Nat := (n / 2 ^ 23) % 256
  let mant : Nat := n % 2 ^ 23
  let sign : Int := if neg then -1 else 1
  if ex == 255 then (if mant == 0 then (if neg then .negInf else .posInf) else .nan)
  else if ex == 0 then .finite ⟨sign * (mant : Int), -149⟩
  else .finite ⟨sign * ((mant + 2 ^ 23 : Nat) : Int), (ex : Int) - 150⟩

/-- truncation toward zero of m·2^e -/
def Dy.trunc (v : Dy) : Int :=
  if v.e ≥ 0 then v.m * (2 ^ v.e.toNat : Int)
  else Int.tdiv v.m (2 ^ (-v.e).toNat : Int)

/-- is m·2^e an integer -/
def Dy.isInt (v : Dy) : Bool := v.e ≥ 0 || v.m % (2 ^ (-v.e).toNat : Int) == 0

/-- `f as iN` / `f as uN` (Rust): truncate toward zero, saturate, NaN ↦ 0 -/
def floatToInt (lo hi : Int) (c : Cls) : Int :=
  match c with
  | .nan => 0
  | .posInf => hi
  | .negInf => lo
  | .finite v => let t := v.trunc; if t < lo then lo else if t > hi then hi else t

/-- number of binary digits -/
def bitLen (n : Nat) : Nat := if n == 0 then 0 else n.log2 + 1

/-- round the natural `n` to at most `p` significant bits (nearest, ties to even):
    returns (mantissa, exponent) with n ≈ mantissa · 2^exponent -/
def roundNat (p n : Nat) : Nat × Nat :=
  let L := bitLen n
  if L ≤ p then (n, 0) else
  let s := L - p
  let q := n / 2 ^ s
  let r := n % 2 ^ s
  let half := 2 ^ (s - 1)
  let q' := if r > half || (r == half && q % 2 == 1) then q + 1 else q
  if q' == 2 ^ p then (2 ^ (p - 1), s + 1) else (q', s)

/-- `i as f64` for |i| below the overflow threshold -/
def intToF64 (v : Int) : UInt64 :=
  if v == 0 then 0 else
  let (m, e) := roundNat 53 v.natAbs
  -- normalise m to 53 bits
  let L := bitLen m
  let m53 := m * 2 ^ (53 - L)
  let ex := e + L - 1 + 1023          -- biased exponent of the leading bit
  let bits := ex * 2 ^ 52 + (m53 - 2 ^ 52)
  UInt64.ofNat (bits + (if v < 0 then 2 ^ 63 else 0))

/-- `i as f32` -/
def intToF32 (v : Int) : UInt32 :=
  if v == 0 then 0 else
  let (m, e) := roundNat 24 v.natAbs
  let L := bitLen m
  let m24 := m * 2 ^ (24 - L)
  let ex := e + L - 1 + 127
  if ex ≥ 255 then UInt32.ofNat (255 * 2 ^ 23 + (if v < 0 then 2 ^ 31 else 0)) else
  let bits := ex * 2 ^ 23 + (m24 - 2 ^ 23)
  UInt32.ofNat (bits + (if v < 0 then 2 ^ 31 else 0))

/-- `f32 as f64` is exact: re-encode the decoded value -/
def f32ToF64 (b : UInt32) : UInt64 :=
  match decode32 b with
  | .nan => 0x7ff8000000000000
  | .posInf => 0x7ff0000000000000
  | .negInf => 0xfff0000000000000
  | .finite v =>
    if v.m == 0 then (if b.toNat / 2 ^ 31 == 1 then 0x8000000000000000 else 0) else
    let n := v.m.natAbs
    let L := bitLen n
    let m53 := n * 2 ^ (53 - L)
    let ex : Int := v.e + (L : Int) - 1 + 1023
    UInt64.ofNat (ex.toNat * 2 ^ 52 + (m53 - 2 ^ 52) + (if v.m < 0 then 2 ^ 63 else 0))

end MechVerif.FloatX
