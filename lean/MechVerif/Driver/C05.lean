import MechVerif.Driver.Value
import MechVerif.Spec.Store
import MechVerif.Model.Float
namespace MechVerif.Driver
open MechVerif.Store MechVerif.FloatX

/-- canonical texts of the opaque literals the session generator uses (same table in harness/src/c05.rs) -/
def blobCanon : List String := [
  "set:f64:n3:{f64:3ff0000000000000|f64:4000000000000000|f64:4008000000000000}",
  "string:68656c6c6f",
  "bool:true",
  "set:f64:n2:{f64:4010000000000000|f64:4014000000000000}"]

def numText (v : Int) : String := hexFixed (intToF64 v).toNat 16

partial def vText (s : Store) : V → String
  | .num v => "f64:" ++ numText v
  | .mat r c els => matText "f64" r c (els.map numText)
  | .blob t => t
  | .tuple cells => "tup:(" ++ ";".intercalate (cells.map (fun c => match s.read c with | some v => vText s v | none => "?")) ++ ")"
  | .record fs => "record:[" ++ ";".intercalate (fs.map (fun p => p.1 ++ "<f64>=f64:" ++ numText p.2)) ++ "]"
  | .table rows cols => "table:" ++ toString rows ++ "x" ++ toString cols.length ++ ":[" ++
      ";".intercalate (cols.map (fun p => p.1 ++ "<f64>=" ++ ",".intercalate (p.2.map (fun x => "f64:" ++ numText x)))) ++ "]"

partial def rvText : RV → String
  | .num v => "f64:" ++ numText v
  | .mat r c els => matText "f64" r c (els.map numText)
  | .blob t => t
  | .tuple els => "tup:(" ++ ";".intercalate (els.map rvText) ++ ")"
  | .record fs => "record:[" ++ ";".intercalate (fs.map (fun p => p.1 ++ "<f64>=f64:" ++ numText p.2)) ++ "]"
  | .table rows cols => "table:" ++ toString rows ++ "x" ++ toString cols.length ++ ":[" ++
      ";".intercalate (cols.map (fun p => p.1 ++ "<f64>=" ++ ",".intercalate (p.2.map (fun x => "f64:" ++ numText x)))) ++ "]"

def sortStrings (l : List String) : List String := (l.toArray.qsort (· < ·)).toList

def snapModel (s : Store) : String :=
  ";".intercalate (sortStrings (s.syms.map (fun e => e.1 ++ "=" ++ (match s.read e.2.1 with | some v => vText s v | none => "?"))))

def snapSpec (s : RStore) : String :=
  ";".intercalate (sortStrings (s.vars.map (fun e => e.1 ++ "=" ++ rvText e.2.1)))

def parseInts (t : String) : Option (List Int) := if t.isEmpty then some [] else (t.splitOn ",").mapM parseInt
def parseNats (t : String) : Option (List Nat) := if t.isEmpty then some [] else (t.splitOn ",").mapM (·.toNat?)

def parseExpr (t : String) : Option Expr :=
  if t == "x" then some .bad else
  let tag := t.take 1 |>.toString
  let rest := t.drop 1 |>.toString
  match tag with
  | "n" => (parseInt rest).map (fun v => .lit (.num v))
  | "b" => rest.toNat?.map (fun i => .lit (.blob (blobCanon.getD i "?")))
  | "t" => (parseInts rest).map .tupleLit
  | "v" => some (.var rest)
  | "c" => some (.copy rest)
  | "r" => ((rest.splitOn ",").mapM (fun (f : String) => match f.splitOn "=" with | [k, v] => (parseInt v).map (fun x => (k, x)) | _ => none)).map (fun fs => .lit (.record fs))
  | "T" =>
    (match rest.splitOn "/" with
     | rows :: cols =>
       (match rows.toNat?, cols.mapM (fun (c : String) => match c.splitOn "=" with | [k, v] => (parseInts v).map (fun xs => (k, xs)) | _ => none) with
        | some r, some cs => some (.lit (.table r cs))
        | _, _ => none)
     | [] => none)
  | "m" =>
    match rest.splitOn "/" with
    | [shape, body] =>
      match shape.splitOn "x" with
      | [r, c] => (match r.toNat?, c.toNat?, parseInts body with
          | some r, some c, some els => some (.lit (.mat r c els)) | _, _, _ => none)
      | _ => none
    | _ => none
  | _ => none

/-- `K<r>x<c>/<name>` / `K0/<name>`: a define annotated with the kind and shape the case expects `name` to hold -/
def parseAnnotated (e : String) : Option (String × Nat × Nat) :=
  if !e.startsWith "K" then none else
  match (e.drop 1).toString.splitOn "/" with
  | [shape, name] =>
    if shape == "0" then some (name, 0, 0) else
    (match shape.splitOn "x" with
     | [r, c] => (match r.toNat?, c.toNat? with | some r, some c => some (name, r, c) | _, _ => none)
     | _ => none)
  | _ => none

def parseStmt (t : String) : Option Stmt :=
  match t.splitOn ":" with
  -- a function definition defines no variable; a call of a copying function defines its target as a copy of the
  -- argument, a call of a function that writes to its input is refused (the input is immutable) and changes nothing
  | ["G", _, _, _] => some (.assign "" .bad)
  | ["C", y, _, x, mode, _] => some (.define false y (if mode == "r" then .copy x else .bad))
  | ["D", m, n, e] =>
    (match parseAnnotated e with
     | some (src, _, _) => some (.define (m == "1") n (.copy src))
     | none => (parseExpr e).map (fun e => .define (m == "1") n e))
  | ["A", n, e] => (parseExpr e).map (fun e => .assign n e)
  | ["I", n, ix, v] => (match parseNats ix, parseInt v with | some ix, some v => some (.setIdx n ix v) | _, _ => none)
  | ["P", n, e] => (parseExpr e).map (fun e => .addAssign .add n e)
  | ["Q", o, n, e] => (parseExpr e).map (fun e => .addAssign (if o == "s" then .sub else .mul) n e)
  | ["F", n, f, e] => (parseExpr e).map (fun e => .setField n f e)
  | ["T", ns, tn] => some (.destructure (ns.splitOn ",") tn)
  | _ => none

def runC05 (fields : List String) (obs : String) : String × String × String :=
  match fields with
  | [_, body] =>
    match (body.splitOn ";;").mapM parseStmt with
    | none => ("bad-case", "bad-case", "-")
    | some stmts0 =>
      -- an annotated define is only predicted while the source holds what its annotation says (the generator
      -- believes it does; after a failed statement it may not): the session is judged up to the first one
      -- whose source holds something else
      let expects : List (Option (String × Nat × Nat)) := (body.splitOn ";;").map (fun t =>
        match t.splitOn ":" with
        | ["D", _, _, e] => parseAnnotated e
        | ["C", _, _, x, "r", k] => some (x, if k == "s" then 0 else 1000, 1000)
        | _ => none)
      let holds (ms : Store) (x : Option (String × Nat × Nat)) : Bool := match x with
        | none => true
        | some (src, r, c) => (match ms.lookup src with
          | some (cell, _) => (match ms.read cell with
            | some (.num _) => r == 0
            | some (.mat r' c' _) => r == 1000 || (r == r' && c == c')
            | _ => false)
          | none => true)
      let usable : Nat := (List.range stmts0.length).foldl (fun (acc : Nat × Store × Bool) i =>
        if acc.2.2 then acc else
        match stmts0[i]? with
        | none => acc
        | some st => if holds acc.2.1 (expects.getD i none) then (acc.1 + 1, (exec acc.2.1 st).1, false) else (acc.1, acc.2.1, true)) (0, Store.empty, false) |>.1
      let stmts := stmts0.take usable
      -- the steps after the cut are not predicted: they are echoed, so that the judged part alone decides
      let obsTail := (obs.splitOn "@").drop usable
      let obs := "@".intercalate ((obs.splitOn "@").take usable)
      let obsSteps := obs.splitOn "@"
      -- run model and spec step by step
      let rec go (ss : List Stmt) (ms : Store) (rs : RStore) (os : List String) (accM accS : List String)
          (alias destr : Bool) (region : String) (bad : Bool) : List String × List String × String × Bool :=
        match ss with
        | [] => (accM.reverse, accS.reverse, region, bad)
        | st :: rest =>
          let isFnDef := st == .assign "" .bad
          let r := if isFnDef then (ms, .ok ()) else exec ms st
          let q := if isFnDef then (rs, true) else rexec rs st
          let mt := (match r.2 with | .ok _ => "ok#" | .error _ => "err#") ++ snapModel r.1
          let stx := (if q.2 then "ok#" else "err#") ++ snapSpec q.1
          let o := os.headD ""
          let alias' := alias || (match st with | .define _ _ (.var _) => true | _ => false)
          let destr' := destr || (match st with | .destructure _ _ => true | _ => false)
          let stepBad := o != stx
          let region' := if bad || !stepBad then region
            else if destr' then "C05-D2" else if alias' then "C05-D1"
            else (match st with
              | .setIdx _ ix _ => if ix.length > 1 then "C05-D3" else "-"
              | .addAssign _ _ _ => "C05-D4"
              | _ => "-")
          go rest r.1 q.1 (os.drop 1) (mt :: accM) (stx :: accS) alias' destr' region' (bad || stepBad)
      let (ms, ss, region, bad) := go stmts Store.empty ⟨[]⟩ obsSteps [] [] false false "-" false
      let model := "@".intercalate (ms ++ obsTail)
      let spec := "@".intercalate ss
      (model, if !bad && obs == spec then "ok" else "bad:expected " ++ "@".intercalate (ss ++ obsTail), region)
  | _ => ("bad-case", "bad-case", "-")

end MechVerif.Driver
