/-
C08 — Formatting a program does not change what it means.

The theorems cover formulas: the formatter's `term`/`factor` emitters print a tree as its
in-order sequence of operands and operators (Model: `fmt`), and the parser
(Model/Prec.lean `parseFormula`, proved in C02 to return the unique well-grouped tree of its
input) reads that sequence back.  For the rest of the grammar the round trip is checked on
the implementation directly (search, not proof).

String literals (Model/StrLit.lean): the scanner of `utf8_string` over grapheme classes and the
emitter `Formatter::string`; the content of a literal survives formatting and re-parsing.
-/
import MechVerif.Props.C02
import MechVerif.Lemmas.StrLit
namespace MechVerif.Prec

variable {α : Type}

/-- Formatting a parsed formula and parsing the text again gives the same tree — same
    structure of every sub-expression, same operators, same operands — with nothing left over. -/
theorem C08_formula_roundtrip (N : Nat) (a : α) (rest : Rest α) (h : OpsIn N rest) :
    let t := (parseFormula N a rest).1
    parseFormula N (fmt t).1 (fmt t).2 = (t, []) := by
  intro t
  have hin := C02_parse_inorder N a rest h
  have hall := C02_parse_consumes_all N a rest h
  simp only [fmt]
  have h1 : t.first = a := hin.1
  have h2 : t.tail = rest := hall.2
  rw [h1, h2]
  exact Prod.ext rfl hall.1

/-- Formatting the formatted text again gives the same text. -/
theorem C08_formula_idempotent (N : Nat) (a : α) (rest : Rest α) (h : OpsIn N rest) :
    let t := (parseFormula N a rest).1
    fmt (parseFormula N (fmt t).1 (fmt t).2).1 = fmt t := by
  intro t
  have := C08_formula_roundtrip N a rest h
  simp only at this
  rw [this]

/-- The text of a formula is its operands and operators in source order: formatting does not
    reorder, drop or add anything. -/
theorem C08_formula_text_is_source (N : Nat) (a : α) (rest : Rest α) (h : OpsIn N rest) :
    fmt (parseFormula N a rest).1 = (a, rest) := by
  have hin := C02_parse_inorder N a rest h
  have hall := C02_parse_consumes_all N a rest h
  simp only [fmt]
  exact Prod.ext hin.1 hall.2

end MechVerif.Prec

namespace MechVerif.StrLit

/-- A string literal round-trips: whatever the content (quotes, backslashes, letters that name an
    escape, line breaks, emoji — any graphemes `text` accepts), the characters the formatter
    writes for it are read back by the parser as the same content, and the input after the
    closing quote is untouched.  The second part ties the grapheme-level emitter to the
    character-level code of `Formatter::string`. -/
theorem C08_string_roundtrip (gs : List G) (h : ∀ g ∈ gs, okContent g ∧ segmented g) (rest : List G) :
    scan (escape gs ++ quoteG :: rest) = some (content gs, rest) ∧
    content (escape gs) = escapeChars (content gs) :=
  ⟨scan_escape gs (fun g hg => (h g hg).1) rest, content_escape gs h⟩

/-- Formatting again changes nothing: the text is a function of the content, and the content read
    back from the text is the content it was written from. -/
theorem C08_string_idempotent (gs : List G) (h : ∀ g ∈ gs, okContent g ∧ segmented g) (rest : List G) :
    ∀ cs r, scan (escape gs ++ quoteG :: rest) = some (cs, r) → escapeChars cs = escapeChars (content gs) := by
  intro cs r hs
  rw [(C08_string_roundtrip gs h rest).1] at hs
  cases hs; rfl

/-- Why the emitter must escape: written as it is, the content `a"b` is read back as `a`
    (the behaviour of the pinned commit before the `fix:` of the string emitter). -/
theorem C08_string_unescaped_is_cut :
    scan ([⟨.escapable, ['a']⟩, quoteG, ⟨.escapable, ['b']⟩] ++ [quoteG]) = some (['a'], [⟨.escapable, ['b']⟩, quoteG]) := by
  simp [scan, quoteG]

/-- a backslash before the closing quote would swallow it: `a\` written unescaped does not
    even end -/
theorem C08_string_unescaped_backslash_runs_on :
    scan ([⟨.escapable, ['a']⟩, backslashG] ++ [quoteG]) = none := by
  simp [scan, quoteG, backslashG]

example : okContent quoteG ∧ segmented quoteG := by
  unfold okContent segmented quoteG
  simp
example : okContent ⟨.escapable, ['n']⟩ ∧ segmented ⟨.escapable, ['n']⟩ := by
  unfold okContent segmented
  simp

end MechVerif.StrLit
