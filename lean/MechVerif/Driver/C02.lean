import MechVerif.Driver.Util
import MechVerif.Spec.Prec
import MechVerif.Model.Formula
namespace MechVerif.Driver
open MechVerif.Prec

/-- operator table: (name, symbol, grammar level) -/
def opTable : List (String × String × Nat) := [
  ("or", "||", 1), ("and", "&&", 1), ("xor", "⊕", 1),
  ("eq", "==", 2), ("ne", "!=", 2), ("lt", "<", 2), ("le", "<=", 2), ("gt", ">", 2), ("ge", ">=", 2),
  ("add", "+", 3), ("sub", "-", 3), ("mul", "*", 4), ("div", "/", 4), ("mod", "%", 4), ("pow", "^", 5),
  ("join", "⋈", 6), ("ljoin", "⟕", 6), ("rjoin", "⟖", 6), ("fjoin", "⟗", 6), ("semi", "⋉", 6), ("anti", "▷", 6),
  ("union", "∪", 7), ("inter", "∩", 7), ("diff", "∖", 7), ("symdiff", "Δ", 7), ("subset", "⊆", 7), ("superset", "⊇", 7),
  ("psubset", "⊊", 7), ("psuperset", "⊋", 7), ("elem", "∈", 7), ("notelem", "∉", 7),
  ("matmul", "**", 4), ("dot", "·", 4), ("cross", "⨯", 4), ("solve", "\\", 4),
  ("seq", "=:=", 2), ("sne", "=!=", 2)]

def opOf (name : String) : Option Op :=
  match opTable.findIdx? (fun e => e.1 == name) with
  | some i => some ⟨i, (opTable.getD i ("", "", 0)).2.2⟩
  | none => none

/-- the grammar of the real parser: seven levels, `-` after an operand is `sub` -/
def gram : Formula.Gram := ⟨7, ⟨10, 3⟩⟩

open Formula in
/-- tokens of a case line: `neg` and `sub` are the same character `-` (the model decides by position which
    one it is), `not` is `!`, `tr` the transpose mark; anything else is an operand, numbered by position -/
def tokenise (ws : List String) : List Tok × List String :=
  let step (acc : List Tok × List String) (w : String) : List Tok × List String :=
    if w == "neg" || w == "sub" then (acc.1 ++ [Tok.dash], acc.2)
    else if w == "not" then (acc.1 ++ [Tok.bang], acc.2)
    else if w == "tr" then (acc.1 ++ [Tok.quote], acc.2)
    else if w == "(" then (acc.1 ++ [Tok.lp], acc.2)
    else if w == ")" then (acc.1 ++ [Tok.rp], acc.2)
    else match opOf w with
      | some o => (acc.1 ++ [Tok.op o], acc.2)
      | none => (acc.1 ++ [Tok.atom acc.2.length], acc.2 ++ [w])
  ws.foldl step ([], [])

open Formula in
mutual
partial def sexprA (lits : List String) : Fac → String
  | .atom n => lits.getD n "?"
  | .paren t => "(paren " ++ sexprT lits t ++ ")"
  | .neg a => "(neg " ++ sexprA lits a ++ ")"
  | .not a => "(not " ++ sexprA lits a ++ ")"
  | .tr a => "(tr " ++ sexprA lits a ++ ")"
partial def sexprT (lits : List String) : Tree Fac → String
  | .leaf a => sexprA lits a
  | .node l o r => "(" ++ (opTable.getD o.name ("?", "?", 0)).1 ++ " " ++ sexprT lits l ++ " " ++ sexprT lits r ++ ")"
end

open Formula in
mutual
partial def ptextA (lits : List String) : Fac → String
  | .atom n => lits.getD n "?"
  | .paren t => "(" ++ ptextT lits t ++ ")"
  | .neg a => "(-" ++ ptextA lits a ++ ")"
  | .not a => "(!" ++ ptextA lits a ++ ")"
  | .tr a => "(" ++ ptextA lits a ++ "')"
partial def ptextT (lits : List String) : Tree Fac → String
  | .leaf a => ptextA lits a
  | .node l o r => "(" ++ ptextT lits l ++ " " ++ (opTable.getD o.name ("?", "?", 0)).2.1 ++ " " ++ ptextT lits r ++ ")"
end

def runC02 (fields : List String) (obs : String) : String × String × String :=
  match fields with
  | [_, body] =>
    let (toks, lits) := tokenise (body.splitOn " ")
    -- the proved token-level parser (Model/Formula.lean); twice the length of the text plus four covers `costT t + 2`
    match Formula.pForm gram (2 * toks.length + 4) toks with
    | some (t, []) =>
      let model := "tree:" ++ sexprT lits t ++ "#p:" ++ ptextT lits t ++ "#same:true"
      (model, if obs == model then "ok" else "bad:expected " ++ model, "-")
    | _ => ("bad-case", "bad-case", "-")
  | _ => ("bad-case", "bad-case", "-")

end MechVerif.Driver
