import MechVerif.Spec.Concat
import MechVerif.Lemmas.Broadcast
namespace MechVerif.Concat
open MechVerif.Num MechVerif.Mat

variable {α : Type}

def Mat.wf' (m : Mat α) : Prop := m.data.length = m.rows * m.cols

theorem hcat2_wf (a b r : Mat α) (ha : Mat.wf' a) (hb : Mat.wf' b) (h : hcat2 a b = .ok r) : Mat.wf' r := by
  unfold hcat2 at h
  split at h
  · rename_i he
    simp only [Except.ok.injEq] at h; subst h
    simp only [Mat.wf', List.length_append] at *
    rw [ha, hb, ← he, Nat.mul_add]
  · cases h

/-- side by side: left block for the first `a.cols` columns, right block afterwards -/
theorem hcat2_get (a b r : Mat α) (ha : Mat.wf' a) (h : hcat2 a b = .ok r) (i j : Nat)
    (hi : i < r.rows) (hj : j < r.cols) :
    r.rows = a.rows ∧ r.rows = b.rows ∧ r.cols = a.cols + b.cols ∧
    r.get? i j = if j < a.cols then a.get? i j else b.get? i (j - a.cols) := by
  unfold hcat2 at h
  split at h
  · rename_i he
    simp only [Except.ok.injEq] at h; subst h
    refine ⟨rfl, he, rfl, ?_⟩
    simp only at hi hj
    simp only [Mat.get?, hi, hj, and_self, if_true]
    by_cases hlt : j < a.cols
    · simp only [hlt, hi, and_self, if_true]
      have : j * a.rows + i < a.data.length := by rw [ha]; exact lin_lt i j a.rows a.cols hi hlt
      rw [List.getElem?_append_left this]
    · simp only [hlt, if_false]
      have hjb : j - a.cols < b.cols := by omega
      have hib : i < b.rows := by omega
      simp only [hib, hjb, and_self, if_true]
      have hge : a.data.length ≤ j * a.rows + i := by
        rw [ha]
        have : a.cols * a.rows ≤ j * a.rows := Nat.mul_le_mul_right _ (by omega)
        rw [Nat.mul_comm a.rows a.cols]; omega
      rw [List.getElem?_append_right hge, ha]
      congr 1
      have : j * a.rows = (j - a.cols) * a.rows + a.cols * a.rows := by
        rw [← Nat.add_mul]; congr 1; omega
      rw [← he, this, Nat.mul_comm a.rows a.cols]; omega
  · cases h

theorem colOf_length (m : Mat α) (hm : Mat.wf' m) (j : Nat) (hj : j < m.cols) : (colOf m j).length = m.rows := by
  unfold colOf
  rw [List.length_take, List.length_drop, hm]
  have : (j + 1) * m.rows ≤ m.cols * m.rows := Nat.mul_le_mul_right _ (by omega)
  rw [Nat.add_mul, Nat.one_mul] at this
  rw [Nat.mul_comm m.rows m.cols]
  omega

theorem colOf_get (m : Mat α) (j i : Nat) (hi : i < m.rows) : (colOf m j)[i]? = m.data[j * m.rows + i]? := by
  unfold colOf
  rw [List.getElem?_take_of_lt hi, List.getElem?_drop]

/-- chunks of one common length: element `j*L + i` of the concatenation is element `i` of chunk `j` -/
theorem flatMap_uniform (f : Nat → List α) (L : Nat) : ∀ (c : Nat), (∀ j, j < c → (f j).length = L) →
    ((List.range c).flatMap f).length = c * L ∧
    ∀ j i, j < c → i < L → ((List.range c).flatMap f)[j * L + i]? = (f j)[i]? := by
  intro c
  induction c with
  | zero => intro _; exact ⟨by simp, fun j i hj _ => absurd hj (Nat.not_lt_zero j)⟩
  | succ c ih =>
    intro hlen
    obtain ⟨hl, hget⟩ := ih (fun j hj => hlen j (by omega))
    have hlc := hlen c (by omega)
    rw [List.range_succ, List.flatMap_append]
    simp only [List.flatMap_cons, List.flatMap_nil, List.append_nil]
    refine ⟨by rw [List.length_append, hl, hlc, Nat.add_mul, Nat.one_mul], ?_⟩
    intro j i hj hi
    by_cases hjc : j < c
    · have : j * L + i < ((List.range c).flatMap f).length := by rw [hl, Nat.mul_comm c L]; exact lin_lt i j L c hi hjc
      rw [List.getElem?_append_left this]
      exact hget j i hjc hi
    · have hje : j = c := by omega
      subst hje
      have hge : ((List.range j).flatMap f).length ≤ j * L + i := by rw [hl]; omega
      rw [List.getElem?_append_right hge, hl]
      congr 1; omega

theorem vcat2_wf (a b r : Mat α) (ha : Mat.wf' a) (hb : Mat.wf' b) (h : vcat2 a b = .ok r) : Mat.wf' r := by
  unfold vcat2 at h
  split at h
  · rename_i he
    simp only [Except.ok.injEq] at h; subst h
    have := (flatMap_uniform (fun j => colOf a j ++ colOf b j) (a.rows + b.rows) a.cols (by
      intro j hj
      rw [List.length_append, colOf_length a ha j hj, colOf_length b hb j (by omega)])).1
    simp only [Mat.wf']
    rw [this, Nat.mul_comm]
  · cases h

/-- on top of each other: upper block for the first `a.rows` rows, lower block below -/
theorem vcat2_get (a b r : Mat α) (ha : Mat.wf' a) (hb : Mat.wf' b) (h : vcat2 a b = .ok r) (i j : Nat)
    (hi : i < r.rows) (hj : j < r.cols) :
    r.cols = a.cols ∧ r.cols = b.cols ∧ r.rows = a.rows + b.rows ∧
    r.get? i j = if i < a.rows then a.get? i j else b.get? (i - a.rows) j := by
  unfold vcat2 at h
  split at h
  · rename_i he
    simp only [Except.ok.injEq] at h; subst h
    refine ⟨rfl, he, rfl, ?_⟩
    simp only at hi hj
    have hu := (flatMap_uniform (fun j => colOf a j ++ colOf b j) (a.rows + b.rows) a.cols (by
      intro j hj
      rw [List.length_append, colOf_length a ha j hj, colOf_length b hb j (by omega)])).2 j i hj hi
    simp only [Mat.get?, hi, hj, and_self, if_true]
    rw [hu]
    by_cases hlt : i < a.rows
    · simp only [hlt, hj, and_self, if_true]
      have : i < (colOf a j).length := by rw [colOf_length a ha j hj]; exact hlt
      rw [List.getElem?_append_left this, colOf_get a j i hlt]
    · simp only [hlt, if_false]
      have hib : i - a.rows < b.rows := by omega
      have hjb : j < b.cols := by omega
      simp only [hib, hjb, and_self, if_true]
      have hge : (colOf a j).length ≤ i := by rw [colOf_length a ha j hj]; omega
      rw [List.getElem?_append_right hge, colOf_length a ha j hj, colOf_get b j (i - a.rows) hib]
  · cases h

end MechVerif.Concat

namespace MechVerif.Concat
open MechVerif.Num MechVerif.Mat
variable {α : Type}

theorem hcatAll_spec : ∀ (bs : List (Mat α)) (acc r : Mat α), Mat.wf' acc → (∀ b ∈ bs, Mat.wf' b) →
    hcatAll acc bs = .ok r →
    Mat.wf' r ∧ r.rows = acc.rows ∧ r.cols = sumCols (acc :: bs) ∧ (∀ b ∈ bs, b.rows = acc.rows) ∧
    ∀ i j, i < r.rows → j < r.cols → r.get? i j = hGet (acc :: bs) i j := by
  intro bs
  induction bs with
  | nil =>
    intro acc r hacc _ h
    simp only [hcatAll, Except.ok.injEq] at h; subst h
    refine ⟨hacc, rfl, by simp [sumCols], by simp, ?_⟩
    intro i j _ hj
    simp [hGet, hj]
  | cons b bs ih =>
    intro acc r hacc hbs h
    simp only [hcatAll] at h
    cases h1 : hcat2 acc b with
    | error e => simp [h1] at h
    | ok r1 =>
      simp only [h1] at h
      have hb : Mat.wf' b := hbs b List.mem_cons_self
      have hr1 : Mat.wf' r1 := hcat2_wf acc b r1 hacc hb h1
      obtain ⟨hwf, hrows, hcols, hall, hget⟩ := ih r1 r hr1 (fun x hx => hbs x (List.mem_cons_of_mem _ hx)) h
      have hshape : r1.rows = acc.rows ∧ r1.rows = b.rows ∧ r1.cols = acc.cols + b.cols := by
        unfold hcat2 at h1
        split at h1
        · rename_i he; simp only [Except.ok.injEq] at h1; subst h1; exact ⟨rfl, he, rfl⟩
        · cases h1
      refine ⟨hwf, by rw [hrows, hshape.1], ?_, ?_, ?_⟩
      · rw [hcols]; simp only [sumCols, List.map_cons, List.sum_cons]; rw [hshape.2.2]; omega
      · intro x hx
        cases List.mem_cons.mp hx with
        | inl e => subst e; rw [← hshape.2.1, hshape.1]
        | inr hm => rw [hall x hm, hshape.1]
      · intro i j hi hj
        rw [hget i j hi hj]
        simp only [hGet]
        by_cases hj1 : j < r1.cols
        · simp only [hj1, if_true]
          have hi1 : i < r1.rows := by rw [← hrows]; exact hi
          obtain ⟨_, _, _, hg⟩ := hcat2_get acc b r1 hacc h1 i j hi1 hj1
          rw [hg]
          by_cases hja : j < acc.cols
          · simp [hja]
          · have : j - acc.cols < b.cols := by omega
            simp [hja, this]
        · have hja : ¬ j < acc.cols := by omega
          have hjb : ¬ j - acc.cols < b.cols := by omega
          simp only [hj1, hja, hjb, if_false]
          congr 1; omega

theorem vcatAll_spec : ∀ (bs : List (Mat α)) (acc r : Mat α), Mat.wf' acc → (∀ b ∈ bs, Mat.wf' b) →
    vcatAll acc bs = .ok r →
    Mat.wf' r ∧ r.cols = acc.cols ∧ r.rows = sumRows (acc :: bs) ∧ (∀ b ∈ bs, b.cols = acc.cols) ∧
    ∀ i j, i < r.rows → j < r.cols → r.get? i j = vGet (acc :: bs) i j := by
  intro bs
  induction bs with
  | nil =>
    intro acc r hacc _ h
    simp only [vcatAll, Except.ok.injEq] at h; subst h
    refine ⟨hacc, rfl, by simp [sumRows], by simp, ?_⟩
    intro i j hi _
    simp [vGet, hi]
  | cons b bs ih =>
    intro acc r hacc hbs h
    simp only [vcatAll] at h
    cases h1 : vcat2 acc b with
    | error e => simp [h1] at h
    | ok r1 =>
      simp only [h1] at h
      have hb : Mat.wf' b := hbs b List.mem_cons_self
      have hr1 : Mat.wf' r1 := vcat2_wf acc b r1 hacc hb h1
      obtain ⟨hwf, hcols, hrows, hall, hget⟩ := ih r1 r hr1 (fun x hx => hbs x (List.mem_cons_of_mem _ hx)) h
      have hshape : r1.cols = acc.cols ∧ r1.cols = b.cols ∧ r1.rows = acc.rows + b.rows := by
        unfold vcat2 at h1
        split at h1
        · rename_i he; simp only [Except.ok.injEq] at h1; subst h1; exact ⟨rfl, he, rfl⟩
        · cases h1
      refine ⟨hwf, by rw [hcols, hshape.1], ?_, ?_, ?_⟩
      · rw [hrows]; simp only [sumRows, List.map_cons, List.sum_cons]; rw [hshape.2.2]; omega
      · intro x hx
        cases List.mem_cons.mp hx with
        | inl e => subst e; rw [← hshape.2.1, hshape.1]
        | inr hm => rw [hall x hm, hshape.1]
      · intro i j hi hj
        rw [hget i j hi hj]
        simp only [vGet]
        by_cases hi1 : i < r1.rows
        · simp only [hi1, if_true]
          have hj1 : j < r1.cols := by rw [← hcols]; exact hj
          obtain ⟨_, _, _, hg⟩ := vcat2_get acc b r1 hacc hb h1 i j hi1 hj1
          rw [hg]
          by_cases hia : i < acc.rows
          · simp [hia]
          · have : i - acc.rows < b.rows := by omega
            simp [hia, this]
        · have hia : ¬ i < acc.rows := by omega
          have hib : ¬ i - acc.rows < b.rows := by omega
          simp only [hi1, hia, hib, if_false]
          congr 1; omega

theorem hcatAll_rejects : ∀ (bs : List (Mat α)) (acc : Mat α), (∃ b ∈ bs, b.rows ≠ acc.rows) →
    ∃ e, hcatAll acc bs = .error e := by
  intro bs
  induction bs with
  | nil => intro acc ⟨b, hb, _⟩; cases hb
  | cons b bs ih =>
    intro acc ⟨x, hx, hne⟩
    simp only [hcatAll]
    cases h1 : hcat2 acc b with
    | error e => exact ⟨e, rfl⟩
    | ok r1 =>
      have hr : r1.rows = acc.rows ∧ acc.rows = b.rows := by
        unfold hcat2 at h1
        split at h1
        · rename_i he; simp only [Except.ok.injEq] at h1; subst h1; exact ⟨rfl, he⟩
        · cases h1
      cases List.mem_cons.mp hx with
      | inl e => subst e; exact absurd hr.2.symm hne
      | inr hm => exact ih r1 ⟨x, hm, by rw [hr.1]; exact hne⟩

theorem vcatAll_rejects : ∀ (bs : List (Mat α)) (acc : Mat α), (∃ b ∈ bs, b.cols ≠ acc.cols) →
    ∃ e, vcatAll acc bs = .error e := by
  intro bs
  induction bs with
  | nil => intro acc ⟨b, hb, _⟩; cases hb
  | cons b bs ih =>
    intro acc ⟨x, hx, hne⟩
    simp only [vcatAll]
    cases h1 : vcat2 acc b with
    | error e => exact ⟨e, rfl⟩
    | ok r1 =>
      have hr : r1.cols = acc.cols ∧ acc.cols = b.cols := by
        unfold vcat2 at h1
        split at h1
        · rename_i he; simp only [Except.ok.injEq] at h1; subst h1; exact ⟨rfl, he⟩
        · cases h1
      cases List.mem_cons.mp hx with
      | inl e => subst e; exact absurd hr.2.symm hne
      | inr hm => exact ih r1 ⟨x, hm, by rw [hr.1]; exact hne⟩

end MechVerif.Concat
