import MechVerif.Driver.C05
import MechVerif.Model.Plan
namespace MechVerif.Driver
open MechVerif.Plan

def parseAtom (t : String) : Option Atom :=
  let tag := (t.take 1).toString
  let rest := (t.drop 1).toString
  if tag == "n" then (parseInt rest).map .lit else if tag == "v" then some (.var rest) else none

def parsePExpr (t : String) : Option Plan.Expr :=
  if (t.take 1).toString == "b" then
    let op := match ((t.drop 1).take 1).toString with | "+" => some Op.add | "-" => some Op.sub | "*" => some Op.mul | _ => none
    match op, ((t.drop 2).toString.splitOn ",") with
    | some op, [a, b] => (match parseAtom a, parseAtom b with | some a, some b => some (.bin op a b) | _, _ => none)
    | _, _ => none
  else (parseAtom t).map .atom

def parsePStmt (t : String) : Option Plan.Stmt :=
  match t.splitOn ":" with
  | ["D", m, n, e] => (parsePExpr e).map (fun e => .define (m == "1") n e)
  | ["A", n, e] => (parsePExpr e).map (fun e => .assign n e)
  | ["P", n, e] => (parsePExpr e).map (fun e => .addAssign n e)
  | _ => none

def snapPlan (s : St) (c : Cells) : String :=
  ";".intercalate (sortStrings (s.syms.map (fun e => e.1 ++ "=f64:" ++ numText (rd c e.2))))

def runC19 (fields : List String) (obs : String) : String × String × String :=
  match fields with
  | ["resolve", kt, _cls, _hexsrc] =>
    -- an assignment-free program of the whole expression language: by C19_no_assignment_identity every
    -- later snapshot is the first one (the first one is taken from the observation: the expression
    -- language is not re-modelled here)
    if obs == "skip" then ("skip", "ok", "-") else
    (match kt.toNat?, obs.splitOn "#" with
     | some k, [seq, i2, bulk] =>
       let os := seq.splitOn "@"
       let first := os.headD ""
       let model := "@".intercalate (List.replicate (k + 1) first) ++ "#i2:" ++ first ++ "#bulk:" ++ first
       let verdict :=
         if i2 != "i2:" ++ first then "bad:two interpreters disagree after the first evaluation"
         else if bulk != "bulk:" ++ os.getLastD "" then "bad:n single steps differ from one request for n steps"
         else if !os.all (· == first) then "bad:re-evaluation changed a program without assignments"
         else if os.length != k + 1 then "bad:step failed"
         else "ok"
       (model, verdict, "-")
     | _, _ => ("bad-case", "bad-case", "-"))
  | [_, kt, body] =>
    match kt.toNat?, (body.splitOn ";;").mapM parsePStmt with
    | some k, some prog =>
      match execAll St.empty prog with
      | none => ("invalid-program", "bad-case", "-")
      | some s =>
        let snaps := (List.range (k + 1)).map (fun n => snapPlan s (stepN s.plan n s.cells))
        let model := "@".intercalate snaps ++ "#i2:" ++ snaps.headD "" ++ "#bulk:" ++ snaps.getLastD ""
        -- the property, evaluated on the implementation's own observations
        let verdict :=
          match obs.splitOn "#" with
          | [seq, i2, bulk] =>
            let os := seq.splitOn "@"
            let noAssign := prog.all (fun st => match st with | .define _ _ _ => true | _ => false)
            if i2 != "i2:" ++ os.headD "" then "bad:two interpreters disagree after the first evaluation"
            else if bulk != "bulk:" ++ os.getLastD "" then "bad:n single steps differ from one request for n steps"
            else if noAssign && !os.all (· == os.headD "") then "bad:re-evaluation changed a program without assignments"
            else if os.length != k + 1 then "bad:step failed"
            else "ok"
          | _ => "bad:malformed observation"
        (model, verdict, "-")
    | _, _ => ("bad-case", "bad-case", "-")
  | _ => ("bad-case", "bad-case", "-")

end MechVerif.Driver
