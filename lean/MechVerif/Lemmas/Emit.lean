import MechVerif.Lemmas.Loader
namespace MechVerif.Loader
open MechVerif.Bytecode
open MechVerif.Crc (Byte)

/-! ### reading at an absolute position, stated through what the file holds from that position on -/

theorem drop_le_of (bs : List Byte) (pos : Nat) (s tail : List Byte) (h : bs.drop pos = s ++ tail) (hs : 0 < s.length) :
    pos + s.length ≤ bs.length := by
  have := congrArg List.length h
  simp only [List.length_drop, List.length_append] at this
  omega

theorem rdAt_of_drop (bs : List Byte) (pos k v : Nat) (tail : List Byte) (h : bs.drop pos = leBytes k v ++ tail)
    (hk : 0 < k) (hv : v < 256 ^ k) : rdAt bs pos k = some v := by
  have hl := leBytes_length k v
  have hle := drop_le_of bs pos _ tail h (by omega)
  unfold rdAt
  rw [hl] at hle
  rw [if_pos hle, h, List.take_left' hl, unle_leBytes k v hv]

theorem sliceAt_of_drop (bs : List Byte) (pos : Nat) (s tail : List Byte) (h : bs.drop pos = s ++ tail)
    (hp : pos ≤ bs.length) : sliceAt bs pos s.length = some s := by
  have := congrArg List.length h
  simp only [List.length_drop, List.length_append] at this
  unfold sliceAt
  rw [if_pos (by omega), h, List.take_left' rfl]

theorem drop_step (bs : List Byte) (pos : Nat) (a rest : List Byte) (h : bs.drop pos = a ++ rest) (n : Nat) (hn : n = a.length) :
    bs.drop (pos + n) = rest := by
  subst hn
  rw [← List.drop_drop, h, List.drop_left]

/-! ### lengths of what the writers emit -/

theorem flatMap_leBytes_length (k : Nat) (xs : List Nat) : (xs.flatMap (leBytes k)).length = k * xs.length := by
  induction xs with
  | nil => rfl
  | cons x xs ih => simp only [List.flatMap_cons, List.length_append, leBytes_length, List.length_cons, ih]; rw [Nat.mul_succ]; omega

theorem writeFeatures_length (fs : List Nat) : (writeFeatures fs).length = 4 + 8 * fs.length := by
  unfold writeFeatures; simp only [List.length_append, leBytes_length, flatMap_leBytes_length]

theorem writeTypes_length_ge (ts : List (Nat × List Byte)) : 4 ≤ (writeTypes ts).length := by
  unfold writeTypes; simp only [List.length_append, leBytes_length]; omega

theorem writeConst_length (c : CEntry) : (writeConst c).length = 24 := by
  unfold writeConst; simp only [List.length_append, leBytes_length]

theorem writeConsts_length (cs : List CEntry) : (writeConsts cs).length = 24 * cs.length := by
  induction cs with
  | nil => rfl
  | cons c cs ih =>
    simp only [writeConsts, List.flatMap_cons, List.length_append, writeConst_length, List.length_cons] at ih ⊢
    omega

theorem writeDictEntry_length (e : Nat × List Byte) : (writeDictEntry e).length = 12 + e.2.length := by
  unfold writeDictEntry; simp only [List.length_append, leBytes_length]; omega

theorem writeDict_length_ge (es : List (Nat × List Byte)) : 12 * es.length ≤ (writeDict es).length := by
  induction es with
  | nil => simp [writeDict]
  | cons e es ih =>
    simp only [writeDict, List.flatMap_cons, List.length_append, writeDictEntry_length, List.length_cons] at ih ⊢
    omega

/-! ### each section reader reads back what its writer wrote -/

theorem readU64s_write (bs : List Byte) (fs : List Nat) (hw : ∀ f ∈ fs, f < 256 ^ 8) : ∀ (pos : Nat) (tail : List Byte),
    bs.drop pos = fs.flatMap (leBytes 8) ++ tail → readU64s bs fs.length pos = .ok fs := by
  induction fs with
  | nil => intro pos tail _; rfl
  | cons f fs ih =>
    intro pos tail h
    simp only [List.flatMap_cons, List.append_assoc] at h
    have r1 := rdAt_of_drop bs pos 8 f _ h (by decide) (hw f List.mem_cons_self)
    have h2 := drop_step bs pos _ _ h 8 (leBytes_length 8 f).symm
    have ih' := ih (fun x hx => hw x (List.mem_cons_of_mem _ hx)) (pos + 8) tail h2
    simp only [List.length_cons, readU64s, r1, ih']

def typeWf (total : Nat) (t : Nat × List Byte) : Prop := 1 ≤ t.1 ∧ t.1 ≤ 48 ∧ t.2.length < 256 ^ 4 ∧ t.2.length ≤ total

theorem readTypes_write (bs : List Byte) (ts : List (Nat × List Byte)) (hw : ∀ t ∈ ts, typeWf bs.length t) :
    ∀ (pos : Nat) (tail : List Byte), bs.drop pos = ts.flatMap writeType ++ tail → readTypes bs ts.length pos = .ok ts := by
  induction ts with
  | nil => intro pos tail _; rfl
  | cons t ts ih =>
    intro pos tail h
    obtain ⟨tag, payload⟩ := t
    obtain ⟨ht1, ht2, hl, hle⟩ := hw _ List.mem_cons_self
    simp only at ht1 ht2 hl hle
    simp only [List.flatMap_cons, writeType, List.append_assoc] at h
    have htag : tag < 256 ^ 2 := by omega
    have r1 := rdAt_of_drop bs pos 2 tag _ h (by decide) htag
    have h2 := drop_step bs pos _ _ h 2 (leBytes_length 2 tag).symm
    have r2 := rdAt_of_drop bs (pos + 2) 2 0 _ h2 (by decide) (by decide)
    have h3 := drop_step bs (pos + 2) _ _ h2 2 (leBytes_length 2 0).symm
    have r3 := rdAt_of_drop bs (pos + 2 + 2) 4 1 _ h3 (by decide) (by decide)
    have h4 := drop_step bs (pos + 2 + 2) _ _ h3 4 (leBytes_length 4 1).symm
    have r4 := rdAt_of_drop bs (pos + 2 + 2 + 4) 4 payload.length _ h4 (by decide) hl
    have h5 := drop_step bs (pos + 2 + 2 + 4) _ _ h4 4 (leBytes_length 4 payload.length).symm
    have e3 : pos + 2 + 2 = pos + 4 := by omega
    have e4 : pos + 2 + 2 + 4 = pos + 8 := by omega
    have e5 : pos + 2 + 2 + 4 + 4 = pos + 12 := by omega
    rw [e3] at r3; rw [e4] at r4; rw [e5] at h5
    have hpos : pos + 12 ≤ bs.length := by
      have := drop_le_of bs (pos + 8) _ _ h4 (by rw [leBytes_length]; decide)
      rw [leBytes_length] at this; omega
    have r5 := sliceAt_of_drop bs (pos + 12) payload _ h5 hpos
    have h6 := drop_step bs (pos + 12) _ _ h5 payload.length rfl
    have ih' := ih (fun x hx => hw x (List.mem_cons_of_mem _ hx)) (pos + 12 + payload.length) tail h6
    have hsec : sectionIn 0 payload.length bs.length = true := by
      rw [sectionIn_iff]; constructor
      · omega
      · have : (256 : Nat) ^ 4 < 2 ^ 64 := by decide
        omega
    have hnot : ¬ (tag < 1 ∨ tag > 48) := by omega
    simp only [List.length_cons, readTypes, r1, r2, r3, r4, hsec, r5, ih', if_neg hnot, Bool.not_true, Bool.false_eq_true, if_false]

def constWf (c : CEntry) : Prop :=
  c.typeId < 256 ^ 4 ∧ c.enc < 256 ^ 1 ∧ c.align < 256 ^ 1 ∧ c.flags < 256 ^ 1 ∧ c.reserved < 256 ^ 1 ∧ c.offset < 256 ^ 8 ∧ c.length < 256 ^ 8

theorem readConsts_write (tbl : List Byte) (cs : List CEntry) (hw : ∀ c ∈ cs, constWf c) : ∀ (pos : Nat) (tail : List Byte),
    tbl.drop pos = writeConsts cs ++ tail → readConsts tbl cs.length pos = .ok cs := by
  induction cs with
  | nil => intro pos tail _; rfl
  | cons c cs ih =>
    intro pos tail h
    obtain ⟨t, e, a, f, r, o, l⟩ := c
    obtain ⟨w1, w2, w3, w4, w5, w6, w7⟩ := hw _ List.mem_cons_self
    simp only at w1 w2 w3 w4 w5 w6 w7
    simp only [writeConsts, List.flatMap_cons, writeConst, List.append_assoc] at h
    have r1 := rdAt_of_drop tbl pos 4 t _ h (by decide) w1
    have h2 := drop_step tbl pos _ _ h 4 (leBytes_length 4 t).symm
    have r2 := rdAt_of_drop tbl (pos + 4) 1 e _ h2 (by decide) w2
    have h3 := drop_step tbl (pos + 4) _ _ h2 1 (leBytes_length 1 e).symm
    have r3 := rdAt_of_drop tbl (pos + 4 + 1) 1 a _ h3 (by decide) w3
    have h4 := drop_step tbl (pos + 4 + 1) _ _ h3 1 (leBytes_length 1 a).symm
    have r4 := rdAt_of_drop tbl (pos + 4 + 1 + 1) 1 f _ h4 (by decide) w4
    have h5 := drop_step tbl (pos + 4 + 1 + 1) _ _ h4 1 (leBytes_length 1 f).symm
    have r5 := rdAt_of_drop tbl (pos + 4 + 1 + 1 + 1) 1 r _ h5 (by decide) w5
    have h6 := drop_step tbl (pos + 4 + 1 + 1 + 1) _ _ h5 1 (leBytes_length 1 r).symm
    have r6 := rdAt_of_drop tbl (pos + 4 + 1 + 1 + 1 + 1) 8 o _ h6 (by decide) w6
    have h7 := drop_step tbl (pos + 4 + 1 + 1 + 1 + 1) _ _ h6 8 (leBytes_length 8 o).symm
    have r7 := rdAt_of_drop tbl (pos + 4 + 1 + 1 + 1 + 1 + 8) 8 l _ h7 (by decide) w7
    have h8 := drop_step tbl (pos + 4 + 1 + 1 + 1 + 1 + 8) _ _ h7 8 (leBytes_length 8 l).symm
    have e3 : pos + 4 + 1 = pos + 5 := by omega
    have e4 : pos + 4 + 1 + 1 = pos + 6 := by omega
    have e5 : pos + 4 + 1 + 1 + 1 = pos + 7 := by omega
    have e6 : pos + 4 + 1 + 1 + 1 + 1 = pos + 8 := by omega
    have e7 : pos + 4 + 1 + 1 + 1 + 1 + 8 = pos + 16 := by omega
    have e8 : pos + 4 + 1 + 1 + 1 + 1 + 8 + 8 = pos + 24 := by omega
    rw [e3] at r3; rw [e4] at r4; rw [e5] at r5; rw [e6] at r6; rw [e7] at r7; rw [e8] at h8
    have ih' := ih (fun x hx => hw x (List.mem_cons_of_mem _ hx)) (pos + 24) tail h8
    simp only [List.length_cons, readConsts, r1, r2, r3, r4, r5, r6, r7, ih']

def dictWf (valid : List Byte → Bool) (e : Nat × List Byte) : Prop := e.1 < 256 ^ 8 ∧ e.2.length < 256 ^ 4 ∧ valid e.2 = true

theorem readDict_write (d : List Byte) (valid : List Byte → Bool) (es : List (Nat × List Byte)) (hw : ∀ e ∈ es, dictWf valid e) :
    ∀ (fuel pos : Nat), es.length ≤ fuel → pos ≤ d.length → d.drop pos = writeDict es → readDict d valid fuel pos = .ok es := by
  induction es with
  | nil =>
    intro fuel pos _ hp h
    have hge : pos ≥ d.length := by
      have := congrArg List.length h
      simp only [List.length_drop, writeDict, List.flatMap_nil, List.length_nil] at this
      omega
    cases fuel with
    | zero => rfl
    | succ fuel => simp only [readDict, if_pos hge]
  | cons e es ih =>
    intro fuel pos hf hp h
    obtain ⟨id, name⟩ := e
    obtain ⟨w1, w2, w3⟩ := hw _ List.mem_cons_self
    simp only at w1 w2 w3
    cases fuel with
    | zero => simp only [List.length_cons] at hf; omega
    | succ fuel =>
      simp only [writeDict, List.flatMap_cons, writeDictEntry, List.append_assoc] at h
      have r1 := rdAt_of_drop d pos 8 id _ h (by decide) w1
      have h2 := drop_step d pos _ _ h 8 (leBytes_length 8 id).symm
      have r2 := rdAt_of_drop d (pos + 8) 4 name.length _ h2 (by decide) w2
      have h3 := drop_step d (pos + 8) _ _ h2 4 (leBytes_length 4 name.length).symm
      have e3 : pos + 8 + 4 = pos + 12 := by omega
      rw [e3] at h3
      have hpos : pos + 12 ≤ d.length := by
        have := drop_le_of d (pos + 8) _ _ h2 (by rw [leBytes_length]; decide)
        rw [leBytes_length] at this; omega
      have hlt : ¬ pos ≥ d.length := by omega
      have r3 := sliceAt_of_drop d (pos + 12) name _ h3 hpos
      have h4 := drop_step d (pos + 12) _ _ h3 name.length rfl
      have hend : pos + 12 + name.length ≤ d.length := by
        have := congrArg List.length h3
        simp only [List.length_drop, List.length_append] at this
        omega
      have ih' := ih (fun x hx => hw x (List.mem_cons_of_mem _ hx)) fuel (pos + 12 + name.length)
        (by simp only [List.length_cons] at hf; omega) hend h4
      have hsec : sectionIn 0 name.length d.length = true := by
        rw [sectionIn_iff]; constructor
        · omega
        · have : (256 : Nat) ^ 4 < 2 ^ 64 := by decide
          omega
      simp only [readDict, if_neg hlt, r1, r2, hsec, r3, w3, ih', Bool.not_true, Bool.false_eq_true, if_false]

/-! ### the trailer -/

theorem le32_trailer (c : BitVec 32) :
    Crc.le32 (c.extractLsb' 0 8) (c.extractLsb' 8 8) (c.extractLsb' 16 8) (c.extractLsb' 24 8) = c := by
  unfold Crc.le32
  apply BitVec.eq_of_getLsbD_eq
  intro i hi
  simp only [BitVec.getLsbD_append, BitVec.getLsbD_extractLsb']
  by_cases h1 : i < 8
  · simp [h1]
  · by_cases h2 : i < 16
    · have : i - 8 < 8 := by omega
      simp [h1, this]; congr 1; omega
    · have h5 : ¬ i - 8 < 8 := by omega
      by_cases h3 : i < 24
      · have : i - 8 - 8 < 8 := by omega
        have e : 16 + (i - 8 - 8) = i := by omega
        simp only [h1, h5, this, e]
        simp
      · have : i - 8 - 8 - 8 < 8 := by omega
        have e : 24 + (i - 8 - 8 - 8) = i := by omega
        have h4 : ¬ i - 8 - 8 < 8 := by omega
        simp only [h1, h5, h4, this, e]
        simp

/-- a file that ends in the checksum of everything before it passes the trailer check -/
theorem verify_trailer (p : List Byte) : Crc.verify (p ++ trailer (Crc.crc32 p)) = .ok () := by
  unfold Crc.verify trailer
  have h1 : ¬ (p ++ [(Crc.crc32 p).extractLsb' 0 8, (Crc.crc32 p).extractLsb' 8 8, (Crc.crc32 p).extractLsb' 16 8,
      (Crc.crc32 p).extractLsb' 24 8]).length < 4 := by simp
  have h2 : (p ++ [(Crc.crc32 p).extractLsb' 0 8, (Crc.crc32 p).extractLsb' 8 8, (Crc.crc32 p).extractLsb' 16 8,
      (Crc.crc32 p).extractLsb' 24 8]).length - 4 = p.length := by simp
  simp only [h1, if_false, h2, List.drop_left, List.take_left, le32_trailer, beq_self_eq_true, if_true]

theorem drop_pre (pre x : List Byte) (n : Nat) (h : n = pre.length) : (pre ++ x).drop n = x := by
  subst h; exact List.drop_left

/-- an entry of a section is no longer than the section -/
theorem writeTypes_mem_le (ts : List (Nat × List Byte)) (t : Nat × List Byte) (h : t ∈ ts) :
    t.2.length ≤ (writeTypes ts).length := by
  induction ts with
  | nil => cases h
  | cons u us ih =>
    unfold writeTypes at ih ⊢
    simp only [List.flatMap_cons, List.length_append, leBytes_length, List.length_cons] at ih ⊢
    rcases List.mem_cons.mp h with h | h
    · subst h; unfold writeType; simp only [List.length_append, leBytes_length]; omega
    · have := ih h; omega

/-- what `compile` may put into a file: every field fits its width, names are valid UTF-8, type tags
    are tags, the instruction stream does not end in `Ret` (finding C07-D4), the file is shorter
    than 2^64 bytes -/
structure LoadedWf (valid : List Byte → Bool) (L : Loaded) : Prop where
  header : L.header.wf
  features : ∀ f ∈ L.features, f < 256 ^ 8
  types : ∀ t ∈ L.types, 1 ≤ t.1 ∧ t.1 ≤ 48 ∧ t.2.length < 256 ^ 4
  consts : ∀ c ∈ L.consts, constWf c
  symbols : ∀ s ∈ L.symbols, symWf s
  instrs : ∀ i ∈ L.instrs, i.wf
  noRet : noTrailingRet L.instrs = true
  dict : ∀ e ∈ L.dict, dictWf valid e
  size : (toBytes L).length < 2 ^ 64

/-! ### the whole file -/

theorem optSection_of_drop (bs : List Byte) (off : Nat) (s tail : List Byte) (h : bs.drop off = s ++ tail)
    (hoff : off ≠ 0) (hle : off ≤ bs.length) (h64 : bs.length < 2 ^ 64) : optSection bs off s.length = .ok s := by
  unfold optSection
  by_cases hs : s.length > 0
  · have hin : sectionIn off s.length bs.length = true := by
      rw [sectionIn_iff]
      have := drop_le_of bs off s tail h hs
      omega
    rw [if_pos ⟨hoff, hs⟩, hin, sliceAt_of_drop bs off s tail h hle]
    rfl
  · have : s = [] := List.eq_nil_of_length_eq_zero (by omega)
    subst this
    rw [if_neg (by simp)]

theorem layout_arith (fe ty ct bl sy ins di flen o1 o2 o3 o4 o5 o6 o7 : Nat)
    (h1 : o1 = 129) (h2 : o2 = 129 + fe) (h3 : o3 = 129 + fe + ty) (h4 : o4 = 129 + fe + ty + ct) (h5 : o5 = 129 + fe + ty + ct + bl)
    (h6 : o6 = 129 + fe + ty + ct + bl + sy) (h7 : o7 = 129 + fe + ty + ct + bl + sy + ins)
    (hl : flen = 129 + fe + ty + ct + bl + sy + ins + di + 4) (hfe : 4 ≤ fe) (hty : 4 ≤ ty) (h64 : flen < 2 ^ 64) :
    (o1 ≠ 0 ∧ o1 + 4 ≤ flen - 4 ∧ o1 + 4 < 2 ^ 64) ∧ (o2 ≠ 0 ∧ o2 + 4 ≤ flen - 4 ∧ o2 + 4 < 2 ^ 64) ∧
    (o3 ≠ 0 ∧ o3 ≤ flen) ∧ (o4 ≠ 0 ∧ o4 ≤ flen) ∧ (o5 ≠ 0 ∧ o5 ≤ flen) ∧ (o6 ≠ 0 ∧ o6 ≤ flen) ∧ (o7 ≠ 0 ∧ o7 ≤ flen) := by
  omega

theorem load_toBytes (valid : List Byte → Bool) (L : Loaded) (hl : Layout L) (hw : LoadedWf valid L) :
    load valid (toBytes L) = .ok L := by
  obtain ⟨hdr, features, types, consts, blob, symbols, instrs, dict⟩ := L
  have hH := writeHeader_length hdr hw.header.1
  have hFe := writeFeatures_length features
  have hTy := writeTypes_length_ge types
  have hCt := writeConsts_length consts
  have hSy := writeSymbols_length symbols
  have hDi := writeDict_length_ge dict
  have h64 := hw.size
  -- the file as nested sections
  have hF : toBytes ⟨hdr, features, types, consts, blob, symbols, instrs, dict⟩ =
      writeHeader hdr ++ (writeFeatures features ++ (writeTypes types ++ (writeConsts consts ++ (blob ++
        (writeSymbols symbols ++ (encodeInstrs instrs ++ (writeDict dict ++ trailer (Crc.crc32 (body ⟨hdr, features, types, consts, blob, symbols, instrs, dict⟩))))))))) := by
    simp only [toBytes, body, List.append_assoc]
  generalize hT : trailer (Crc.crc32 (body ⟨hdr, features, types, consts, blob, symbols, instrs, dict⟩)) = Tr at hF
  have hTr : Tr.length = 4 := by rw [← hT]; rfl
  have hv : Crc.verify (toBytes ⟨hdr, features, types, consts, blob, symbols, instrs, dict⟩) = .ok () := verify_trailer _
  generalize toBytes ⟨hdr, features, types, consts, blob, symbols, instrs, dict⟩ = F at *
  have hlen : F.length = 129 + (writeFeatures features).length + (writeTypes types).length + (writeConsts consts).length + blob.length +
      (writeSymbols symbols).length + (encodeInstrs instrs).length + (writeDict dict).length + 4 := by
    rw [hF]; simp only [List.length_append, hH, hTr, HEADER_SIZE]; omega
  have hhead : readHeader F = some hdr := by rw [hF]; exact readHeader_writeHeader hdr hw.header _
  obtain ⟨l1, l2, l3, l4, l5, l6, l7, l8, l9, l10, l11, l12, l13, l14, l15, l16, l17⟩ := hl
  simp only at l1 l2 l3 l4 l5 l6 l7 l8 l9 l10 l11 l12 l13 l14 l15 l16 l17
  simp only [HEADER_SIZE] at l4 l6 l8 l10 l12 l14 l16 hH
  -- where each section starts
  have dFe : F.drop hdr.featureOff = writeFeatures features ++ (writeTypes types ++ (writeConsts consts ++ (blob ++
        (writeSymbols symbols ++ (encodeInstrs instrs ++ (writeDict dict ++ Tr)))))) := by
    rw [l4, hF]; exact drop_pre _ _ _ hH.symm
  have dTy : F.drop hdr.typesOff = writeTypes types ++ (writeConsts consts ++ (blob ++
        (writeSymbols symbols ++ (encodeInstrs instrs ++ (writeDict dict ++ Tr))))) := by
    rw [l6, hF, ← List.append_assoc]; apply drop_pre; simp only [List.length_append, hH]
  have dCt : F.drop hdr.constTblOff = writeConsts consts ++ (blob ++
        (writeSymbols symbols ++ (encodeInstrs instrs ++ (writeDict dict ++ Tr)))) := by
    rw [l8, hF, ← List.append_assoc, ← List.append_assoc]; apply drop_pre; simp only [List.length_append, hH]
  have dBl : F.drop hdr.constBlobOff = blob ++ (writeSymbols symbols ++ (encodeInstrs instrs ++ (writeDict dict ++ Tr))) := by
    rw [l10, hF, ← List.append_assoc, ← List.append_assoc, ← List.append_assoc]; apply drop_pre; simp only [List.length_append, hH]
  have dSy : F.drop hdr.symbolsOff = writeSymbols symbols ++ (encodeInstrs instrs ++ (writeDict dict ++ Tr)) := by
    rw [l12, hF, ← List.append_assoc, ← List.append_assoc, ← List.append_assoc, ← List.append_assoc]; apply drop_pre
    simp only [List.length_append, hH]
  have dIn : F.drop hdr.instrOff = encodeInstrs instrs ++ (writeDict dict ++ Tr) := by
    rw [l14, hF, ← List.append_assoc, ← List.append_assoc, ← List.append_assoc, ← List.append_assoc, ← List.append_assoc]; apply drop_pre
    simp only [List.length_append, hH]
  have dDi : F.drop hdr.dictOff = writeDict dict ++ Tr := by
    rw [l16, hF, ← List.append_assoc, ← List.append_assoc, ← List.append_assoc, ← List.append_assoc, ← List.append_assoc, ← List.append_assoc]
    apply drop_pre
    simp only [List.length_append, hH]
  obtain ⟨w0, w1, w2, w3, w4, w5, w6, w7, w8, w9, w10, w11, w12, w13, w14, w15, w16, w17, w18, w19, w20, w21⟩ := hw.header
  obtain ⟨n1, n2, n3, n4, n5, n6, n7⟩ := layout_arith _ _ _ _ _ _ _ _ _ _ _ _ _ _ _ l4 l6 l8 l10 l12 l14 l16 hlen (by omega) hTy h64
  have hmagic : ¬ hdr.magic ≠ MECH := by rw [l1]; simp
  have p64 : (256 : Nat) ^ 8 = 2 ^ 64 := by decide
  -- features
  have hinF : decide (hdr.featureOff ≠ 0 ∧ hdr.featureOff + 4 ≤ F.length - 4 ∧ hdr.featureOff + 4 < 2 ^ 64) = true := by
    rw [decide_eq_true_iff]; exact n1
  have rFc : rdAt F hdr.featureOff 4 = some features.length := by
    unfold writeFeatures at dFe
    rw [List.append_assoc] at dFe
    exact rdAt_of_drop F _ 4 _ _ dFe (by decide) (by rw [← l3]; exact w6)
  have rF : readU64s F features.length (hdr.featureOff + 4) = .ok features := by
    unfold writeFeatures at dFe
    rw [List.append_assoc] at dFe
    exact readU64s_write F features hw.features _ _ (drop_step F _ _ _ dFe 4 (leBytes_length 4 _).symm)
  -- types
  have hinT : decide (hdr.typesOff ≠ 0 ∧ hdr.typesOff + 4 ≤ F.length - 4 ∧ hdr.typesOff + 4 < 2 ^ 64) = true := by
    rw [decide_eq_true_iff]; exact n2
  have rTc : rdAt F hdr.typesOff 4 = some types.length := by
    unfold writeTypes at dTy
    rw [List.append_assoc] at dTy
    exact rdAt_of_drop F _ 4 _ _ dTy (by decide) (by rw [← l5]; exact w8)
  have rT : readTypes F types.length (hdr.typesOff + 4) = .ok types := by
    have hwt : ∀ t ∈ types, typeWf F.length t := by
      intro t ht
      obtain ⟨a, b, c⟩ := hw.types t ht
      have := writeTypes_mem_le types t ht
      exact ⟨a, b, c, by omega⟩
    unfold writeTypes at dTy
    rw [List.append_assoc] at dTy
    exact readTypes_write F types hwt _ _ (drop_step F _ _ _ dTy 4 (leBytes_length 4 _).symm)
  -- constant table
  have oCt : optSection F hdr.constTblOff hdr.constTblLen = .ok (writeConsts consts) := by
    rw [l9]; exact optSection_of_drop F hdr.constTblOff (writeConsts consts) _ dCt n3.1 n3.2 h64
  have rCt : (if hdr.constTblOff ≠ 0 ∧ hdr.constTblLen > 0 then readConsts (writeConsts consts) hdr.constCount 0 else .ok []) = Except.ok (ε := LErr) consts := by
    by_cases hz : hdr.constTblLen > 0
    · rw [if_pos ⟨n3.1, hz⟩, l7]
      exact readConsts_write _ consts hw.consts 0 [] (by simp)
    · have : consts = [] := List.eq_nil_of_length_eq_zero (by omega)
      rw [if_neg (by omega), this]
  have oBl : optSection F hdr.constBlobOff hdr.constBlobLen = .ok blob := by
    rw [l11]; exact optSection_of_drop F hdr.constBlobOff blob _ dBl n4.1 n4.2 h64
  have oSy : optSection F hdr.symbolsOff hdr.symbolsLen = .ok (writeSymbols symbols) := by
    rw [l13]; exact optSection_of_drop F hdr.symbolsOff (writeSymbols symbols) _ dSy n5.1 n5.2 h64
  have rSy : (if hdr.symbolsOff ≠ 0 ∧ hdr.symbolsLen > 0 then readSymbols (writeSymbols symbols) (hdr.symbolsLen / 13) 0 else .ok []) = Except.ok (ε := LErr) symbols := by
    by_cases hz : hdr.symbolsLen > 0
    · rw [if_pos ⟨n5.1, hz⟩, l13, hSy, Nat.mul_div_cancel_left _ (by decide : 0 < 13)]
      have := readSymbols_write symbols hw.symbols [] []
      simpa using this
    · have : symbols = [] := List.eq_nil_of_length_eq_zero (by omega)
      rw [if_neg (by omega), this]
  have oIn : optSection F hdr.instrOff hdr.instrLen = .ok (encodeInstrs instrs) := by
    rw [l15]; exact optSection_of_drop F hdr.instrOff (encodeInstrs instrs) _ dIn n6.1 n6.2 h64
  have oDi : optSection F hdr.dictOff hdr.dictLen = .ok (writeDict dict) := by
    rw [l17]; exact optSection_of_drop F hdr.dictOff (writeDict dict) _ dDi n7.1 n7.2 h64
  have rDi : readDict (writeDict dict) valid (writeDict dict).length 0 = .ok dict :=
    readDict_write (writeDict dict) valid dict hw.dict (writeDict dict).length 0 (by omega) (Nat.zero_le _) (List.drop_zero ..)
  have rIn : decodeInstrs (encodeInstrs instrs).length (encodeInstrs instrs) = .ok instrs :=
    decode_encode instrs hw.instrs hw.noRet _ (Nat.le_refl _)
  unfold load
  simp only [hv, hhead, if_neg hmagic, hinF, rFc, rF, hinT, rTc, rT, oCt, rCt, oBl, oSy, rSy, oIn, oDi, rDi, rIn, if_true]

end MechVerif.Loader
