import MechVerif.Model.Set
namespace MechVerif.SetM

variable {α : Type} {κ : Type} [DecidableEq κ]

/-- what `Hash` and `PartialEq` must satisfy together: `==` is symmetric and transitive
    (a partial equivalence: NaN is not equal to itself) and equal values hash alike -/
structure Lawful (eq : α → α → Bool) (key : α → κ) : Prop where
  symm : ∀ x y, eq x y = true → eq y x = true
  trans : ∀ x y z, eq x y = true → eq y z = true → eq x z = true
  cons : ∀ x y, eq x y = true → key x = key y

variable {eq : α → α → Bool} {key : α → κ}

theorem lookupH_iff (h : Lawful eq key) (S : List α) (x : α) :
    lookupH eq key S x = true ↔ memE eq S x := by
  unfold memE
  simp only [lookupH, List.any_eq_true, Bool.and_eq_true, decide_eq_true_eq]
  constructor
  · rintro ⟨w, hw, _, he⟩; exact ⟨w, hw, he⟩
  · rintro ⟨w, hw, he⟩; exact ⟨w, hw, h.cons _ _ he, he⟩

theorem lookup_iff (h : Lawful eq key) (S : List α) (x : α) :
    lookup eq key S x = true ↔ memE eq S x := by
  match S with
  | [] => simp [lookup, lookupH, memE]
  | [y] => simp [lookup, memE]
  | y :: z :: t => simp only [lookup]; exact lookupH_iff h _ x

theorem lookupH_false_iff (h : Lawful eq key) (S : List α) (x : α) :
    lookupH eq key S x = false ↔ ¬ memE eq S x := by
  rw [← lookupH_iff h]; simp

theorem lookup_false_iff (h : Lawful eq key) (S : List α) (x : α) :
    lookup eq key S x = false ↔ ¬ memE eq S x := by
  rw [← lookup_iff h]; simp

theorem memE_congr (h : Lawful eq key) {S : List α} {x z : α} (hxz : eq z x = true) :
    memE eq S x → memE eq S z := by
  rintro ⟨y, hy, he⟩; exact ⟨y, hy, h.trans _ _ _ hxz he⟩

theorem memE_insert (h : Lawful eq key) (S : List α) (x z : α) :
    memE eq (insert eq key S x) z ↔ memE eq S z ∨ eq z x = true := by
  unfold insert
  cases hl : lookupH eq key S x with
  | true =>
    simp only [if_true]
    constructor
    · exact Or.inl
    · rintro (hm | he)
      · exact hm
      · exact memE_congr h he ((lookupH_iff h S x).1 hl)
  | false =>
    simp only [Bool.false_eq_true, if_false, memE, List.mem_append, List.mem_singleton]
    constructor
    · rintro ⟨y, hy | hy, he⟩
      · exact Or.inl ⟨y, hy, he⟩
      · subst hy; exact Or.inr he
    · rintro (⟨y, hy, he⟩ | he)
      · exact ⟨y, Or.inl hy, he⟩
      · exact ⟨x, Or.inr rfl, he⟩

theorem nodup_insert (h : Lawful eq key) (S : List α) (x : α) (hS : NoDup eq S) :
    NoDup eq (insert eq key S x) := by
  unfold insert
  cases hl : lookupH eq key S x with
  | true => simpa using hS
  | false =>
    simp only [Bool.false_eq_true, if_false]
    unfold NoDup
    rw [List.pairwise_append]
    refine ⟨hS, List.pairwise_singleton _ _, ?_⟩
    intro a ha b hb
    simp only [List.mem_singleton] at hb
    subst hb
    have hn := (lookupH_false_iff h S b).1 hl
    cases hab : eq a b with
    | false => rfl
    | true => exact absurd ⟨a, ha, h.symm _ _ hab⟩ hn

theorem foldl_insert_spec (h : Lawful eq key) (l : List α) :
    ∀ acc : List α, NoDup eq acc →
      NoDup eq (l.foldl (insert eq key) acc) ∧
      ∀ z, memE eq (l.foldl (insert eq key) acc) z ↔ memE eq acc z ∨ memE eq l z := by
  induction l with
  | nil => intro acc hacc; exact ⟨hacc, fun z => by simp [memE]⟩
  | cons x l ih =>
    intro acc hacc
    simp only [List.foldl_cons]
    obtain ⟨h1, h2⟩ := ih (insert eq key acc x) (nodup_insert h acc x hacc)
    refine ⟨h1, fun z => ?_⟩
    rw [h2 z, memE_insert h]
    simp only [memE, List.mem_cons]
    constructor
    · rintro ((hm | he) | ⟨y, hy, he⟩)
      · exact Or.inl hm
      · exact Or.inr ⟨x, Or.inl rfl, he⟩
      · exact Or.inr ⟨y, Or.inr hy, he⟩
    · rintro (hm | ⟨y, hy | hy, he⟩)
      · exact Or.inl (Or.inl hm)
      · subst hy; exact Or.inl (Or.inr he)
      · exact Or.inr ⟨y, hy, he⟩

theorem nodup_fromList (h : Lawful eq key) (l : List α) : NoDup eq (fromList eq key l) :=
  (foldl_insert_spec h l [] List.Pairwise.nil).1

theorem memE_fromList (h : Lawful eq key) (l : List α) (z : α) :
    memE eq (fromList eq key l) z ↔ memE eq l z := by
  have := (foldl_insert_spec h l [] List.Pairwise.nil).2 z
  unfold fromList
  rw [this]
  simp [memE]

theorem memE_append (A B : List α) (z : α) : memE eq (A ++ B) z ↔ memE eq A z ∨ memE eq B z := by
  simp only [memE, List.mem_append]
  constructor
  · rintro ⟨y, hy | hy, he⟩
    · exact Or.inl ⟨y, hy, he⟩
    · exact Or.inr ⟨y, hy, he⟩
  · rintro (⟨y, hy, he⟩ | ⟨y, hy, he⟩)
    · exact ⟨y, Or.inl hy, he⟩
    · exact ⟨y, Or.inr hy, he⟩

/-- filtering by a lookup in another set: the predicate respects `==` -/
theorem memE_filter_lookup (h : Lawful eq key) (A B : List α) (z : α) (pos : Bool) :
    memE eq (A.filter (fun a => if pos then lookup eq key B a else !lookup eq key B a)) z ↔
      memE eq A z ∧ (if pos then memE eq B z else ¬ memE eq B z) := by
  simp only [memE, List.mem_filter]
  constructor
  · rintro ⟨y, ⟨hy, hp⟩, he⟩
    refine ⟨⟨y, hy, he⟩, ?_⟩
    cases pos with
    | true =>
      simp only [if_true] at hp ⊢
      exact memE_congr h he ((lookup_iff h B y).1 hp)
    | false =>
      simp only [Bool.false_eq_true, if_false, Bool.not_eq_true'] at hp ⊢
      intro hz
      exact (lookup_false_iff h B y).1 hp (memE_congr h (h.symm _ _ he) hz)
  · rintro ⟨⟨y, hy, he⟩, hp⟩
    refine ⟨y, ⟨hy, ?_⟩, he⟩
    cases pos with
    | true =>
      simp only [if_true] at hp ⊢
      exact (lookup_iff h B y).2 (memE_congr h (h.symm _ _ he) hp)
    | false =>
      simp only [Bool.false_eq_true, if_false, Bool.not_eq_true'] at hp ⊢
      exact (lookup_false_iff h B y).2 (fun hy' => hp (memE_congr h he hy'))

theorem filter_pos (A B : List α) :
    A.filter (fun a => lookup eq key B a) = A.filter (fun a => if true then lookup eq key B a else !lookup eq key B a) := by
  simp
theorem filter_neg (A B : List α) :
    A.filter (fun a => !lookup eq key B a) = A.filter (fun a => if false then lookup eq key B a else !lookup eq key B a) := by
  simp

/-- pigeonhole up to `==`: a duplicate-free list all of whose elements occur in `B` is no
    longer than `B` -/
theorem length_le_of_subset (h : Lawful eq key) :
    ∀ (A B : List α), NoDup eq A → (∀ x ∈ A, memE eq B x) → A.length ≤ B.length := by
  intro A
  induction A with
  | nil => intro B _ _; simp
  | cons a A ih =>
    intro B hA hsub
    obtain ⟨b, hb, hab⟩ := hsub a (List.mem_cons_self ..)
    have hA' : NoDup eq A := (List.pairwise_cons.1 hA).2
    have hfresh : ∀ x ∈ A, eq a x = false := (List.pairwise_cons.1 hA).1
    have hlen : (B.eraseP (fun y => eq a y)).length = B.length - 1 :=
      List.length_eraseP_of_mem hb hab
    have hsub' : ∀ x ∈ A, memE eq (B.eraseP (fun y => eq a y)) x := by
      intro x hx
      obtain ⟨y, hy, hxy⟩ := hsub x (List.mem_cons_of_mem _ hx)
      have hay : ¬ eq a y = true := by
        intro hay
        have : eq a x = true := h.trans _ _ _ hay (h.symm _ _ hxy)
        rw [hfresh x hx] at this; cases this
      exact ⟨y, (List.mem_eraseP_of_neg hay).2 hy, hxy⟩
    have := ih _ hA' hsub'
    have hpos : 0 < B.length := List.length_pos_of_mem hb
    simp only [List.length_cons]
    omega

/-- a duplicate-free list whose elements all occur in `B` but never match the stored
    element `b` of `B` is strictly shorter than `B` -/
theorem length_lt_of_ssubset (h : Lawful eq key) (A B : List α) (hA : NoDup eq A)
    (hsub : ∀ x ∈ A, memE eq B x) (b : α) (hb : b ∈ B) (hnot : ∀ x ∈ A, eq x b = false) :
    A.length < B.length := by
  obtain ⟨s, t, hB⟩ := List.append_of_mem hb
  have hsub' : ∀ x ∈ A, memE eq (s ++ t) x := by
    intro x hx
    obtain ⟨y, hy, hxy⟩ := hsub x hx
    rw [hB] at hy
    simp only [List.mem_append, List.mem_cons] at hy
    rcases hy with hy | hy | hy
    · exact ⟨y, List.mem_append.2 (Or.inl hy), hxy⟩
    · subst hy; rw [hnot x hx] at hxy; cases hxy
    · exact ⟨y, List.mem_append.2 (Or.inr hy), hxy⟩
  have h1 := length_le_of_subset h A _ hA hsub'
  have : B.length = (s ++ t).length + 1 := by rw [hB]; simp; omega
  omega

/-- two duplicate-free lists of one length, the first contained in the second, carry the
    same total of any quantity that respects `==` (e.g. the sum of the element hashes) -/
theorem sum_eq_of_subset (h : Lawful eq key) (f : α → Nat) (hf : ∀ x y, eq x y = true → f x = f y) :
    ∀ (A B : List α), NoDup eq A → A.length = B.length → (∀ x ∈ A, memE eq B x) →
      (A.map f).sum = (B.map f).sum := by
  intro A
  induction A with
  | nil => intro B _ hl _; have : B = [] := List.eq_nil_of_length_eq_zero hl.symm; subst this; rfl
  | cons a A ih =>
    intro B hA hl hsub
    obtain ⟨b, hb, hab⟩ := hsub a (List.mem_cons_self ..)
    have hA' : NoDup eq A := (List.pairwise_cons.1 hA).2
    have hfresh : ∀ x ∈ A, eq a x = false := (List.pairwise_cons.1 hA).1
    obtain ⟨s, t, hB⟩ := List.append_of_mem hb
    have hsub' : ∀ x ∈ A, memE eq (s ++ t) x := by
      intro x hx
      obtain ⟨y, hy, hxy⟩ := hsub x (List.mem_cons_of_mem _ hx)
      rw [hB] at hy
      simp only [List.mem_append, List.mem_cons] at hy
      rcases hy with hy | hy | hy
      · exact ⟨y, List.mem_append.2 (Or.inl hy), hxy⟩
      · subst hy
        have : eq a x = true := h.trans _ _ _ hab (h.symm _ _ hxy)
        rw [hfresh x hx] at this; cases this
      · exact ⟨y, List.mem_append.2 (Or.inr hy), hxy⟩
    have hl' : A.length = (s ++ t).length := by
      rw [hB] at hl; simp only [List.length_cons, List.length_append] at hl ⊢; omega
    have := ih (s ++ t) hA' hl' hsub'
    rw [hB]
    simp only [List.map_cons, List.sum_cons, List.map_append, List.sum_append] at this ⊢
    rw [hf a b hab]
    omega

end MechVerif.SetM
