//! C18: table joins and row selection.
//! Case: `join <mode> <sym|word> <L> <R>` or `sel <rec|vec|range|mask> <T> <arg>`.
//! Table: `name:kind,name:kind|cell cell;cell cell` (rows `;`-joined, cells canonical scalars).
//! Observation: canonical table / record text | `err`.
use crate::common::*;
use crate::interp::*;

fn cell_src(c: &str) -> String {
  let (k, v) = c.split_once(':').unwrap();
  match k {
    "f64" => { let x = f64::from_bits(u64::from_str_radix(v, 16).unwrap()); if x.fract() == 0.0 { format!("{:.1}", x) } else { format!("{}", x) } }
    "string" => format!("\"{}\"", String::from_utf8(crate::c07::unhex(v)).unwrap()),
    _ => v.to_string(),
  }
}

/// definition of table `name`; a table without rows is obtained as `T ▷ T`
fn table_def(name: &str, t: &str) -> String {
  let (hdr, body) = t.split_once('|').unwrap();
  let cols: Vec<(&str, &str)> = hdr.split(',').map(|c| c.split_once(':').unwrap()).collect();
  let header = format!("|{}|", cols.iter().map(|(n, k)| format!("{}<{}>", n, k)).collect::<Vec<_>>().join(" "));
  if body.is_empty() {
    let dummy: Vec<String> = cols.iter().map(|(_, k)| match *k { "string" => "\"z\"".to_string(), "bool" => "true".to_string(), "f64" => "9.5".to_string(), _ => "9".to_string() }).collect();
    format!("{n}seed := {h} {r} |\n{n} := {n}seed ▷ {n}seed\n", n = name, h = header, r = dummy.join(" "))
  } else {
    let rows: Vec<String> = body.split(';').map(|r| r.split(' ').map(cell_src).collect::<Vec<_>>().join(" ")).collect();
    format!("{} := {} {} |\n", name, header, rows.join(" | "))
  }
}

pub const MODES: [(&str, &str, &str); 6] = [("inner", "⋈", "table/join"), ("left", "⟕", "table/left-outer-join"), ("right", "⟖", "table/right-outer-join"),
  ("full", "⟗", "table/full-outer-join"), ("semi", "⋉", "table/left-semi-join"), ("anti", "▷", "table/left-anti-join")];

/// a table operand: the variable (`v`), a mutable variable (`m`) or the literal written in place (`l`; a table
/// without rows has no literal and stays a variable)
fn table_opnd(defs: &mut String, name: &str, t: &str, form: char) -> String {
  let d = table_def(name, t);
  let empty = t.split_once('|').unwrap().1.is_empty();
  if form == 'l' && !empty { return d.trim_end().split_once(" := ").unwrap().1.to_string(); }
  if form == 'm' && !empty { defs.push('~'); }
  defs.push_str(&d);
  name.to_string()
}

/// trailing field `form=<letters>`: one letter per table operand, then one for the index of a selection
pub fn source(case: &str) -> String {
  let f: Vec<&str> = case.split('\t').collect();
  let forms: Vec<char> = f.last().and_then(|t| t.strip_prefix("form=")).unwrap_or("").chars().collect();
  let form = |i: usize| forms.get(i).copied().unwrap_or('v');
  let mut defs = String::new();
  match f[0] {
    "join" => {
      let m = MODES.iter().find(|m| m.0 == f[1]).unwrap();
      let a = table_opnd(&mut defs, "ta", f[3], form(0)); let b = table_opnd(&mut defs, "tb", f[4], form(1));
      let expr = if f[2] == "sym" { format!("{} {} {}", a, m.1, b) } else { format!("{}({}, {})", m.2, a, b) };
      format!("{}{}", defs, expr)
    }
    _ => {
      if f[1] == "chain" {
        // `T[[i j …]][[m m …]]`: the second selection is applied to the table the first one returns, not to a variable
        let (a, b) = f[3].split_once('|').unwrap();
        let t = table_opnd(&mut defs, "ta", f[2], if form(0) == 'l' { 'v' } else { form(0) });
        let second = format!("[{}]", b.replace(',', " "));
        let second = match form(1) { 'v' | 'm' if forms.len() > 1 => { defs.push_str(&format!("{}ix := {}\n", if form(1) == 'm' { "~" } else { "" }, second)); "ix".to_string() } _ => second };
        return format!("{}{}[[{}]][{}]", defs, t, a.replace(',', " "), second);
      }
      let ix = match f[1] {
        "rec" => f[3].to_string(),
        "vec" => format!("[{}]", f[3].replace(',', " ")),
        "range" => { let (a, b) = f[3].split_once(',').unwrap(); format!("{}..={}", a, b) }
        _ => format!("[{}]", f[3].replace(',', " ")),
      };
      let t = table_opnd(&mut defs, "ta", f[2], if form(0) == 'l' { 'v' } else { form(0) });
      let ix = match form(1) { 'v' | 'm' if forms.len() > 1 => { defs.push_str(&format!("{}ix := {}\n", if form(1) == 'm' { "~" } else { "" }, ix)); "ix".to_string() } _ => ix };
      format!("{}{}[{}]", defs, t, ix)
    }
  }
}

pub fn exec(case: &str) -> String {
  let src = source(case);
  match eval(&src) {
    Ok(v) => canon(&v),
    Err(e) => if e == "hostpanic" || e == "notcode" || e == "parseerr" || e == "parsepanic" { format!("harness:{}:{}", e, hexs(&src)) } else { "err".to_string() },
  }
}

const KINDS5: [&str; 5] = ["u8", "u64", "f64", "string", "bool"];

fn cell(rng: &mut Rng, kind: &str, key: bool) -> String {
  match kind {
    "u8" | "u64" => format!("{}:{}", kind, if key { 1 + rng.below(3) } else { rng.below(6) }),
    "f64" => format!("f64:{:016x}", (*rng.pick(&[0.0f64, 1.0, 2.0, 2.5])).to_bits()),
    "string" => format!("string:{}", hexs(*rng.pick(&["x", "y", "zz"]))),
    _ => format!("bool:{}", rng.chance(1, 2)),
  }
}

fn gen_table(rng: &mut Rng, cols: &[(String, String, bool)], max_rows: usize) -> String {
  let nrows = rng.below(max_rows as u64 + 1) as usize;
  let hdr = cols.iter().map(|(n, k, _)| format!("{}:{}", n, k)).collect::<Vec<_>>().join(",");
  let rows: Vec<String> = (0..nrows).map(|_| cols.iter().map(|(_, k, key)| cell(rng, k, *key)).collect::<Vec<_>>().join(" ")).collect();
  format!("{}|{}", hdr, rows.join(";"))
}

fn shuffle<T>(rng: &mut Rng, v: &mut Vec<T>) { for i in (1..v.len()).rev() { let j = rng.below(i as u64 + 1) as usize; v.swap(i, j); } }

pub fn generate(seed: u64, thorough: bool, sink: &mut Sink) -> Vec<String> {
  let mut rng = Rng::new(seed);
  let mut cases = vec![];
  let n = if thorough { 40000 } else { 2400 };
  let max_rows = 5;
  for it in 0..n {
    let mode = MODES[it % 6].0;
    let form = if (it / 6) % 2 == 0 { "sym" } else { "word" };
    let shared = rng.below(3) as usize;                         // 0..2 shared columns
    let shared_names = ["k", "j"];
    let mut lc: Vec<(String, String, bool)> = vec![]; let mut rc: Vec<(String, String, bool)> = vec![];
    for s in 0..shared {
      let kind = *rng.pick(&KINDS5);
      // now and then the two sides disagree on the kind of a shared column
      let rkind = if rng.chance(1, 12) { *rng.pick(&KINDS5) } else { kind };
      lc.push((shared_names[s].to_string(), kind.to_string(), true)); rc.push((shared_names[s].to_string(), rkind.to_string(), true));
    }
    let lextra = if shared == 0 { 1 + rng.below(2) } else { rng.below((4 - shared) as u64).min(2) } as usize;
    let rextra = if shared == 0 { 1 + rng.below(2) } else { rng.below((4 - shared) as u64).min(2) } as usize;
    for (i, nm) in ["a", "c"].iter().enumerate() { if i < lextra && lc.len() < 3 { lc.push((nm.to_string(), rng.pick(&KINDS5).to_string(), false)); } }
    for (i, nm) in ["b", "d"].iter().enumerate() { if i < rextra && rc.len() < 3 { rc.push((nm.to_string(), rng.pick(&KINDS5).to_string(), false)); } }
    shuffle(&mut rng, &mut lc); shuffle(&mut rng, &mut rc);
    let l = gen_table(&mut rng, &lc, max_rows); let r = gen_table(&mut rng, &rc, max_rows);
    sink.hit(&format!("mode:{}", mode)); sink.hit(&format!("shared:{}", shared)); sink.hit(&format!("form:{}", form));
    if l.ends_with('|') || r.ends_with('|') { sink.hit("empty-side"); }
    let case = format!("join\t{}\t{}\t{}\t{}", mode, form, l, r);
    if cases.len() < 3 { sink.sample(source(&case)); }
    cases.push(case);
  }
  // row selection
  for _ in 0..n / 4 {
    let ncols = 1 + rng.below(3) as usize;
    let cols: Vec<(String, String, bool)> = (0..ncols).map(|i| (["k", "a", "c"][i].to_string(), rng.pick(&KINDS5).to_string(), false)).collect();
    let mut t = gen_table(&mut rng, &cols, max_rows);
    while t.ends_with('|') { t = gen_table(&mut rng, &cols, max_rows); }
    let nrows = t.split_once('|').unwrap().1.split(';').count();
    match rng.below(4) {
      0 => { let i = if rng.chance(1, 6) { nrows + 1 + rng.below(2) as usize } else { 1 + rng.below(nrows as u64) as usize }; cases.push(format!("sel\trec\t{}\t{}", t, i)); sink.hit("select:record"); }
      1 => { let k = 1 + rng.below(5) as usize; let bad = rng.chance(1, 8);
             let ix: Vec<String> = (0..k).map(|j| if bad && j == 0 { (nrows + 1).to_string() } else { (1 + rng.below(nrows as u64)).to_string() }).collect();
             cases.push(format!("sel\tvec\t{}\t{}", t, ix.join(","))); sink.hit("select:index-vector"); }
      2 => { let a = 1 + rng.below(nrows as u64) as usize; let b = a + rng.below((nrows - a + 1) as u64) as usize; cases.push(format!("sel\trange\t{}\t{},{}", t, a, b)); sink.hit("select:range"); }
      _ => { let len = if rng.chance(1, 6) { if rng.chance(1, 2) { nrows + 1 } else { nrows.max(2) - 1 } } else { nrows };
             let m: Vec<String> = (0..len).map(|_| rng.chance(1, 2).to_string()).collect();
             cases.push(format!("sel\tmask\t{}\t{}", t, m.join(","))); sink.hit("select:mask"); }
    }
  }
  // chained selection: an index vector (at least two rows, any order, repeats) and then a logical mask or another index
  // vector on the table that selection returns; the mask has one flag per selected row, or one too few / too many
  for _ in 0..n / 6 {
    let ncols = 1 + rng.below(3) as usize;
    let cols: Vec<(String, String, bool)> = (0..ncols).map(|i| (["k", "a", "c"][i].to_string(), rng.pick(&KINDS5).to_string(), false)).collect();
    let mut t = gen_table(&mut rng, &cols, max_rows);
    while t.ends_with('|') { t = gen_table(&mut rng, &cols, max_rows); }
    let nrows = t.split_once('|').unwrap().1.split(';').count();
    let k = 2 + rng.below(3) as usize;
    let first: Vec<String> = (0..k).map(|_| (1 + rng.below(nrows as u64)).to_string()).collect();
    let second: Vec<String> = if rng.chance(2, 3) {
      let len = match rng.below(6) { 0 => k + 1, 1 => k - 1, _ => k }.max(2);
      (0..len).map(|_| rng.chance(1, 2).to_string()).collect()
    } else { let k2 = 2 + rng.below(2) as usize; (0..k2).map(|_| { let over = if rng.chance(1, 8) { 1 } else { 0 }; (1 + rng.below(k as u64 + over)).to_string() }).collect() };
    cases.push(format!("sel\tchain\t{}\t{}|{}", t, first.join(","), second.join(","))); sink.hit("select:chained");
  }
  // how the tables and the index are written
  let mut frng = Rng::new(seed ^ 0xc18f);
  for c in cases.iter_mut() {
    if frng.chance(1, 2) { sink.hit("operands:variables"); continue; }
    let forms: String = (0..2).map(|_| *frng.pick(&['l', 'v', 'm'])).collect();
    sink.hit(&format!("operands:{}", forms));
    c.push_str(&format!("\tform={}", forms));
  }
  cases
}
