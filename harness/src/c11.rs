//! C11: matrix literals with block entries. Case: `concat <row>;;<row>…`, row = `<kind>~<operand>,,…`
use crate::common::*;
use crate::interp::*;
use crate::c01::{operand_def, gen_operand, KINDS};

pub fn source(case: &str) -> String {
  let f: Vec<&str> = case.split('\t').collect();
  let mut defs = String::new();
  let mut lit = String::from("[");
  let mut n = 0;
  // how each block is written: `v` a variable, `l` a nested literal (kinds whose literals need no annotation),
  // `e` the value of an expression (the variable combined with a neutral element of its kind)
  let forms: Vec<char> = f.get(2).map(|x| x.chars().collect()).unwrap_or_default();
  let mut neutral_defined: Vec<String> = vec![];
  for (ri, row) in f[1].split(";;").enumerate() {
    if ri > 0 { lit.push_str("; "); }
    for (bi, blk) in row.split(",,").enumerate() {
      let (kind, o) = blk.split_once('~').unwrap();
      let name = format!("b{}", n);
      let form = forms.get(n).copied().unwrap_or('v'); n += 1;
      let def = operand_def(&name, kind, o, false);
      if bi > 0 { lit.push(' '); }
      let plain = kind == "f64" || kind == "bool" || kind == "string" || kind == "r64" || kind == "c64";
      match form {
        'l' if plain && !o.starts_with('S') => { lit.push_str(def.trim_end().split_once(" := ").unwrap().1); }
        'e' if kind != "string" => {
          defs.push_str(&def);
          let zn = format!("z{}", kind);
          if !neutral_defined.contains(&zn) {
            let zero = match kind { "bool" => "true".to_string(), "r64" => "0/1".to_string(), "c64" => "0+0i".to_string(), "f64" | "f32" => "0.0".to_string(), _ => "0".to_string() };
            let ann = if plain { String::new() } else { format!("<{}>", kind) };
            defs.push_str(&format!("{}{} := {}\n", zn, ann, zero)); neutral_defined.push(zn.clone());
          }
          lit.push_str(&if kind == "bool" { format!("({} && {})", name, zn) } else { format!("({} + {})", name, zn) });
        }
        _ => { defs.push_str(&def); lit.push_str(&name); }
      }
    }
  }
  lit.push(']');
  format!("{}{}", defs, lit)
}

pub fn exec(case: &str) -> String {
  let src = source(case);
  match eval(&src) {
    Ok(v) => canon(&v),
    Err(e) => if e == "hostpanic" || e == "notcode" || e == "parseerr" || e == "parsepanic" { format!("harness:{}:{}", e, hexs(&src)) } else { "err".to_string() },
  }
}

/// split `total` into `parts` positive parts
fn split(total: usize, parts: usize, rng: &mut Rng) -> Vec<usize> {
  let mut cuts: Vec<usize> = vec![];
  let mut left = total; 
  for p in 0..parts {
    let remaining_parts = parts - p;
    let max = left - (remaining_parts - 1);
    let take = if remaining_parts == 1 { left } else { 1 + rng.below(max as u64) as usize };
    cuts.push(take); left -= take;
  }
  cuts
}

pub fn generate(seed: u64, thorough: bool, sink: &mut Sink) -> Vec<String> {
  let mut rng = Rng::new(seed);
  let mut cases = vec![];
  let n = if thorough { 30000 } else { 2500 };
  for it in 0..n {
    let kind = KINDS[it % 16];
    // result shape up to 4x4 (thorough: sometimes larger), 1..4 block rows, 1..4 blocks per row
    let big = thorough && rng.chance(1, 10);
    let r_total = if big { 5 + rng.below(8) as usize } else { 1 + rng.below(4) as usize };
    let c_total = if big { 5 + rng.below(8) as usize } else { 1 + rng.below(4) as usize };
    // one case in five is long: five to seven block rows (of one or two blocks) or five to seven blocks in a row
    // (of one or two block rows): the variable-arity kernels
    // one case in eight is wide and several rows high also in the quick tier (three to five rows of five to eight columns)
    let wide = !big && rng.chance(1, 8);
    let (r_total, c_total) = if wide { (3 + rng.below(3) as usize, 5 + rng.below(4) as usize) } else { (r_total, c_total) };
    let long = !big && !wide && rng.chance(1, 5);
    let long_col = long && rng.chance(1, 2);
    let (r_total, c_total) = if !long { (r_total, c_total) } else if long_col { (5 + rng.below(5) as usize, 1 + rng.below(2) as usize) } else { (1 + rng.below(2) as usize, 5 + rng.below(5) as usize) };
    let nrows = if wide { r_total } else if long && long_col { 5 + rng.below((r_total - 4).min(3) as u64) as usize } else { 1 + rng.below(r_total.min(4) as u64) as usize };
    let heights = split(r_total, nrows, &mut rng);
    let mut shapes: Vec<Vec<(usize, usize)>> = vec![];
    for h in &heights {
      let nb = if long && !long_col { 5 + rng.below((c_total - 4).min(3) as u64) as usize } else { 1 + rng.below(c_total.min(4) as u64) as usize };
      let widths = split(c_total, nb, &mut rng);
      shapes.push(widths.iter().map(|w| (*h, *w)).collect());
    }
    // sabotage: none / one block's height / one block's width / one block's kind
    // … / one row narrower than the others (a block dropped or made narrower; any row, the later ones more often)
    let sab = match rng.below(12) { 0 => "height", 1 => "width", 2 => "kind", 3 | 4 => "narrow", _ => "none" };
    let (sr, sb) = { let r = rng.below(shapes.len() as u64) as usize; (r, rng.below(shapes[r].len() as u64) as usize) };
    if sab == "height" { shapes[sr][sb].0 += 1; }
    if sab == "width" { shapes[sr][sb].1 += 1; }
    if sab == "narrow" && shapes.len() >= 2 {
      let r = if rng.chance(2, 3) { shapes.len() - 1 - rng.below((shapes.len() as u64).min(2)) as usize } else { rng.below(shapes.len() as u64) as usize };
      if shapes[r].len() >= 2 && rng.chance(1, 2) { shapes[r].pop(); }
      else { let b = shapes[r].len() - 1; if shapes[r][b].1 >= 2 { shapes[r][b].1 -= 1; } else if shapes[r].len() >= 2 { shapes[r].pop(); } }
    }
    let mut rows_txt = vec![];
    for (ri, row) in shapes.iter().enumerate() {
      let mut blocks = vec![];
      for (bi, (h, w)) in row.iter().enumerate() {
        let k = if sab == "kind" && ri == sr && bi == sb { if kind == "f64" { "u8" } else { "f64" } } else { kind };
        let scalar = *h == 1 && *w == 1 && rng.chance(2, 3);
        blocks.push(format!("{}~{}", k, gen_operand(k, *h, *w, scalar, &mut rng, 0)));
        sink.hit(&format!("block:{}", if scalar { "scalar" } else if *h == 1 && *w == 1 { "1x1" } else if *h == 1 { "row" } else if *w == 1 { "col" } else { "mat" }));
      }
      rows_txt.push(blocks.join(",,"));
    }
    // two cases in three write some blocks as nested literals or expression values instead of variables
    let nblocks: usize = rows_txt.iter().map(|r| r.split(",,").count()).sum();
    let forms: String = if rng.chance(1, 3) { "v".repeat(nblocks) } else { (0..nblocks).map(|_| *rng.pick(&['v', 'l', 'e', 'l', 'e'])).collect() };
    cases.push(format!("concat\t{}\t{}", rows_txt.join(";;"), forms));
    sink.hit(&format!("tiling:{}rows:{}", nrows, sab));
    if long { sink.hit(if long_col { "long:block-rows>=5" } else { "long:blocks-in-a-row>=5" }); }
    if it < 3 { sink.sample(cases[cases.len() - 1].clone()); }
  }
  cases
}
