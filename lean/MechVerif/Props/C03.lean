/-
C03 — Indexing reads exactly the addressed elements (1-based, column-major).
Model: `Model/Index.lean` (selector normalisation, support table, access kernels as
loops over nalgebra indexing), spec: `Spec/Index.lean` (`at1`, `atLin1`, `select*`).
-/
import MechVerif.Lemmas.Index
import MechVerif.Gen.AccessKernels
namespace MechVerif.Index
open MechVerif.Num MechVerif.Mat

variable {α : Type}

/-- `x[i, j]` with two scalar indices is the addressed element, and an error exactly
    when (i, j) addresses no element. -/
theorem C03_scalar_scalar (m : Mat α) (i j : Nat) (z : α) :
    access2 m (.scalar i) (.scalar j) = .ok (.scalar z) ↔ at1 m i j = some z := by
  simp only [access2]
  constructor
  · intro h
    obtain ⟨r, hr, h⟩ := bindE_ok.mp h
    obtain ⟨c, hc, h⟩ := bindE_ok.mp h
    obtain ⟨z', hz, he⟩ := mapE_ok.mp h
    cases he
    obtain ⟨h1, h2⟩ := pred1_ok.mp hr
    obtain ⟨h3, h4⟩ := pred1_ok.mp hc
    obtain ⟨h5, h6, h7⟩ := (getRC_ok m r c z).mp hz
    unfold at1
    rw [if_pos (by omega), ← h2, ← h4]; exact h7
  · intro h
    unfold at1 at h
    by_cases hc : 1 ≤ i ∧ i ≤ m.rows ∧ 1 ≤ j ∧ j ≤ m.cols
    · rw [if_pos hc] at h
      have e1 : pred1 i = .ok (i - 1) := pred1_ok.mpr ⟨hc.1, rfl⟩
      have e2 : pred1 j = .ok (j - 1) := pred1_ok.mpr ⟨hc.2.2.1, rfl⟩
      have e3 : getRC m (i - 1) (j - 1) = .ok z := (getRC_ok m _ _ z).mpr ⟨by omega, by omega, h⟩
      rw [e1]; simp only [bindE]; rw [e2]; simp only [bindE]; rw [e3]; rfl
    · rw [if_neg hc] at h; cases h

/-- Slices: whenever `x[s1, s2]` (not both scalar) returns a value it is the
    |R|×|C| matrix whose (a, b) element is x(R_a, C_b), where R and C are the indices the
    selectors address (index vectors with repeats, ranges, `:`, masks). -/
theorem C03_slice_reads_addressed (m : Mat α) (s1 s2 : Sel) (r : Operand α)
    (hns : ¬ (s1.isScalar = true ∧ s2.isScalar = true))
    (h : access2 m s1 s2 = .ok r) :
    ∃ R C d, selIxs s1 m.rows = .ok R ∧ selIxs s2 m.cols = .ok C ∧
      r = .mat ⟨R.length, C.length, d⟩ ∧ d.length = R.length * C.length ∧
      ∀ a b, a < R.length → b < C.length →
        ∃ i j z, R[a]? = some i ∧ C[b]? = some j ∧ at1 m i j = some z ∧
          (Mat.get? ⟨R.length, C.length, d⟩ a b) = some z := by
  have key : bindE (selIxs s1 m.rows) (fun R => bindE (selIxs s2 m.cols) (fun C =>
      mapE (gather2 m R C) (fun d => Operand.mat ⟨R.length, C.length, d⟩))) = .ok r := by
    cases s1 <;> cases s2 <;> first | exact h | (exfalso; exact hns ⟨rfl, rfl⟩)
  obtain ⟨R, hR, key⟩ := bindE_ok.mp key
  obtain ⟨C, hC, key⟩ := bindE_ok.mp key
  obtain ⟨d, hd, hr⟩ := mapE_ok.mp key
  obtain ⟨hl, hcell⟩ := gather2_sound m R C d hd
  refine ⟨R, C, d, hR, hC, hr, hl, ?_⟩
  intro a b ha hb
  obtain ⟨i, j, z, hi, hj, hat, hdz⟩ := hcell a b ha hb
  refine ⟨i, j, z, hi, hj, hat, ?_⟩
  simp only [Mat.get?]
  rw [if_pos ⟨ha, hb⟩]; exact hdz

/-- In-range selectors are always served (given a well-formed matrix). -/
theorem C03_slice_total (m : Mat α) (hm : m.data.length = m.rows * m.cols) (s1 s2 : Sel) (R C : List Nat)
    (hns : ¬ (s1.isScalar = true ∧ s2.isScalar = true))
    (hR : selIxs s1 m.rows = .ok R) (hC : selIxs s2 m.cols = .ok C)
    (hRr : inRange R m.rows) (hCr : inRange C m.cols) :
    ∃ d, access2 m s1 s2 = .ok (.mat ⟨R.length, C.length, d⟩) := by
  obtain ⟨d, hd⟩ := gather2_complete m hm R C hRr hCr
  refine ⟨d, ?_⟩
  have key : access2 m s1 s2 = bindE (selIxs s1 m.rows) (fun R => bindE (selIxs s2 m.cols) (fun C =>
      mapE (gather2 m R C) (fun d => Operand.mat ⟨R.length, C.length, d⟩))) := by
    cases s1 <;> cases s2 <;> first | rfl | (exfalso; exact hns ⟨rfl, rfl⟩)
  rw [key, hR]; simp only [bindE]; rw [hC]; simp only [bindE]; rw [hd]; rfl

/-- An index that addresses no element (0, or beyond the last row / column) is an
    error, never some other element. -/
theorem C03_slice_rejects_out_of_range (m : Mat α) (s1 s2 : Sel) (R C : List Nat)
    (hns : ¬ (s1.isScalar = true ∧ s2.isScalar = true))
    (hR : selIxs s1 m.rows = .ok R) (hC : selIxs s2 m.cols = .ok C)
    (hRne : R ≠ []) (hCne : C ≠ [])
    (hbad : ¬ (inRange R m.rows ∧ inRange C m.cols)) :
    ∃ e, access2 m s1 s2 = .error e := by
  obtain ⟨e, he⟩ := gather2_rejects m R C hRne hCne hbad
  refine ⟨e, ?_⟩
  have key : access2 m s1 s2 = bindE (selIxs s1 m.rows) (fun R => bindE (selIxs s2 m.cols) (fun C =>
      mapE (gather2 m R C) (fun d => Operand.mat ⟨R.length, C.length, d⟩))) := by
    cases s1 <;> cases s2 <;> first | rfl | (exfalso; exact hns ⟨rfl, rfl⟩)
  rw [key, hR]; simp only [bindE]; rw [hC]; simp only [bindE]; rw [he]; rfl

/-- A mask whose length differs from the indexed dimension is an error. -/
theorem C03_mask_length (b : List Bool) (n : Nat) :
    (∃ ix, selIxs (.mask b) n = .ok ix) ↔ b.length = n := by
  simp only [selIxs]
  by_cases h : b.length = n <;> simp [h]

theorem maskIxAux_mem (b : List Bool) : ∀ (k i : Nat),
    i ∈ maskIxAux b k ↔ (k < i ∧ b[i - k - 1]? = some true) := by
  induction b with
  | nil => intro k i; simp [maskIxAux]
  | cons x xs ih =>
    intro k i
    simp only [maskIxAux]
    by_cases hx : x = true
    · subst hx
      simp only [if_true, List.mem_cons, ih]
      constructor
      · rintro (h | ⟨h1, h2⟩)
        · subst h; exact ⟨by omega, by simp⟩
        · refine ⟨by omega, ?_⟩
          have : i - k - 1 = (i - (k + 1) - 1) + 1 := by omega
          rw [this]; simpa using h2
      · intro ⟨h1, h2⟩
        by_cases he : i = k + 1
        · exact Or.inl he
        · right
          refine ⟨by omega, ?_⟩
          have : i - k - 1 = (i - (k + 1) - 1) + 1 := by omega
          rw [this] at h2; simpa using h2
    · have hx' : x = false := by cases x <;> simp_all
      subst hx'
      simp only [Bool.false_eq_true, if_false, ih]
      constructor
      · intro ⟨h1, h2⟩
        refine ⟨by omega, ?_⟩
        have : i - k - 1 = (i - (k + 1) - 1) + 1 := by omega
        rw [this]; simpa using h2
      · intro ⟨h1, h2⟩
        have hne : i ≠ k + 1 := by
          intro he; subst he; simp at h2
        refine ⟨by omega, ?_⟩
        have : i - k - 1 = (i - (k + 1) - 1) + 1 := by omega
        rw [this] at h2; simpa using h2

/-- A logical mask selects exactly the (1-based) positions holding `true`. -/
theorem C03_mask_selects_true_positions (b : List Bool) (i : Nat) :
    i ∈ maskIx b ↔ (1 ≤ i ∧ b[i - 1]? = some true) := by
  unfold maskIx
  rw [maskIxAux_mem b 0 i]
  simp only [Nat.sub_zero]
  constructor <;> (intro ⟨h1, h2⟩; exact ⟨by omega, h2⟩)

/-- `x[i]`: the i-th element in column-major order, an error when i addresses nothing. -/
theorem C03_linear_scalar (m : Mat α) (i : Nat) (z : α) :
    access1 m (.scalar i) = .ok (.scalar z) ↔ atLin1 m i = some z := by
  simp only [access1]
  constructor
  · intro h
    obtain ⟨k, hk, h⟩ := bindE_ok.mp h
    obtain ⟨z', hz, he⟩ := mapE_ok.mp h
    cases he
    obtain ⟨h1, h2⟩ := pred1_ok.mp hk
    obtain ⟨h3, h4⟩ := (getLin_ok m k z).mp hz
    unfold atLin1
    rw [if_pos (by omega), ← h2]; exact h4
  · intro h
    unfold atLin1 at h
    by_cases hc : 1 ≤ i ∧ i ≤ m.rows * m.cols
    · rw [if_pos hc] at h
      have e1 : pred1 i = .ok (i - 1) := pred1_ok.mpr ⟨hc.1, rfl⟩
      have e2 : getLin m (i - 1) = .ok z := (getLin_ok m _ z).mpr ⟨by omega, h⟩
      rw [e1]; simp only [bindE]; rw [e2]; rfl
    · rw [if_neg hc] at h; cases h

/-- `x[I]`, `x[:]`, `x[mask]`: a column of the addressed elements in column-major order. -/
theorem C03_linear_slice (m : Mat α) (s : Sel) (hs : s.isScalar = false) (r : Operand α)
    (h : access1 m s = .ok r) :
    ∃ ix d, selIxs s (m.rows * m.cols) = .ok ix ∧ r = .mat ⟨ix.length, 1, d⟩ ∧ d.length = ix.length ∧
      ∀ k, k < ix.length → ∃ i z, ix[k]? = some i ∧ atLin1 m i = some z ∧ d[k]? = some z := by
  have key : bindE (selIxs s (m.rows * m.cols)) (fun ix =>
      mapE (gather1 m ix) (fun d => Operand.mat ⟨ix.length, 1, d⟩)) = .ok r := by
    cases s <;> first | exact h | (exfalso; simp [Sel.isScalar] at hs)
  obtain ⟨ix, hix, key⟩ := bindE_ok.mp key
  obtain ⟨d, hd, hr⟩ := mapE_ok.mp key
  obtain ⟨hl, hk⟩ := gather1_sound m ix d hd
  exact ⟨ix, d, hix, hr, hl, hk⟩

/-- `x[:]` addresses every element once, in column-major order. -/
theorem C03_all_is_every_element (n : Nat) : selIxs .all n = .ok ((List.range n).map (· + 1)) := rfl

/-- Combinations without an access arm are errors (finding C03-D4), never a value. -/
theorem C03_unsupported_is_error (m : Mat α) (s1 : Sel) (s2 : Option Sel)
    (h : supported m.form s1 s2 = false) : access m s1 s2 = .error .kind := by
  simp [access, h]

/-! ### full statement vs the pinned commit -/

/-- D4 witness: `x[:]` on a row vector is an error although every element exists. -/
theorem C03_counterexample_D4 :
    access (⟨1, 3, [1, 2, 3]⟩ : Mat Nat) .all none = .error .kind ∧
    select1 (⟨1, 3, [1, 2, 3]⟩ : Mat Nat) .all = some (.mat ⟨3, 1, [1, 2, 3]⟩) := by decide

/-! ### non-vacuity -/
example : access (⟨2, 3, [11, 21, 12, 22, 13, 23]⟩ : Mat Nat) (.vec [2, 1]) (some (.mask [true, false, true]))
    = .ok (.mat ⟨2, 2, [21, 11, 23, 13]⟩) := by decide
example : access (⟨2, 3, [11, 21, 12, 22, 13, 23]⟩ : Mat Nat) (.scalar 3) (some (.scalar 1)) = .error .index := by decide
example : access (⟨2, 3, [11, 21, 12, 22, 13, 23]⟩ : Mat Nat) (.mask [true, false, true]) (some .all) = .error .dim := by decide
example : inRange [2, 1] 2 := by decide

end MechVerif.Index

/-! ### the access kernels as they are written in the source

`Gen/AccessKernels.lean` is regenerated from src/interpreter/src/stdlib/access/matrix.rs on every run
(`tools/extract_access.py`); its own theorem `C03_access_kernels_as_written_ok` is a `decide` proof over the
extracted table.  The theorems here carry that table over to the model the theorems above are about. -/
namespace MechVerif.AccessIR
open MechVerif.Num MechVerif.Mat MechVerif.Index

variable {α : Type}

/-- the eighteen kernel macros the access arms are generated from are all extracted -/
theorem C03_every_access_kernel_extracted :
    ["access_1d", "access_2d", "access_1d_slice", "access_1d_slice_bool", "access_1d_slice_bool_v",
     "access_2d_row_slice_bool", "access_2d_col_slice_bool", "access_2d_slice", "access_2d_slice_bool",
     "access_2d_slice_bool2", "access_2d_slice_bool_bool", "access_2d_slice_all", "access_2d_slice_all_bool",
     "access_2d_row_slice", "access_2d_col_slice", "access_col", "access_row", "access_1d_all"].all
      (fun n => Gen.AccessKernels.kernels.any (fun e => e.1 == n)) = true := by decide

theorem written_ok (name : String) (ir : AIR) (h : (name, ir) ∈ Gen.AccessKernels.kernels) : airOk ir = true := by
  have hall := Gen.AccessKernels.C03_access_kernels_as_written_ok
  rw [List.all_eq_true] at hall
  exact hall (name, ir) h

/-- **The linear kernels as written read the addressed elements.**  Every extracted kernel that hands one
    coordinate to `source.index(…)` reads — for every matrix, every index argument, every size — exactly the
    elements `gather1` reads for the selector its argument holds, in that order; in particular an index of 0 or
    past the last element, and a mask of another length than the matrix, make it fail. -/
theorem C03_written_linear_kernels_read_addressed (name : String) (ir : AIR)
    (h : (name, ir) ∈ Gen.AccessKernels.kernels) (hrow : ir.row = none) (m : Mat α) (args : List Arg)
    (s : Sel) (hs : selOf args ir.col = some s) :
    run ir m args = bindE (selIxs s (m.rows * m.cols)) (gather1 m) :=
  run_linear ir (written_ok name ir h) hrow m args s hs

/-- **The two-index kernels as written read the addressed sub-matrix, column by column.**  Every extracted
    kernel that hands a (row, column) pair to `source.index(…)` reads exactly what `gather2` reads for the two
    selectors its arguments hold: element (a, b) of the result is x[R_a, C_b], the result is filled in
    column-major order, and a row or column index that addresses nothing, or a mask whose length is not the
    extent of its dimension, makes it fail.  (`C03_slice_reads_addressed` and `C03_slice_rejects_out_of_range`
    above are stated for `gather2`.) -/
theorem C03_written_two_index_kernels_read_addressed (name : String) (ir : AIR)
    (h : (name, ir) ∈ Gen.AccessKernels.kernels) (rowAx : Axis) (hrow : ir.row = some rowAx) (m : Mat α)
    (args : List Arg) (s1 s2 : Sel) (hs1 : selOf args rowAx = some s1) (hs2 : selOf args ir.col = some s2) :
    run ir m args = bindE (selIxs s1 m.rows) (fun R => bindE (selIxs s2 m.cols) (fun C => gather2 m R C)) :=
  run_two ir (written_ok name ir h) rowAx hrow m args s1 s2 hs1 hs2

/-! non-vacuity: `x[[3 1], :]` of a 3×2 matrix through the extracted `access_2d_slice_all`; a kernel with the two
    loops exchanged, or without the `- 1`, is refused -/
example : run ⟨some (.vec 0 true (.argLen 0)), .all (.dim .cols), true, true⟩
    (⟨3, 2, [1, 2, 3, 4, 5, 6]⟩ : Mat Nat) [.ixs [3, 1]] = .ok [3, 1, 6, 4] := by decide
example : ("access_2d_slice_all", (⟨some (.vec 0 true (.argLen 0)), .all (.dim .cols), true, true⟩ : AIR))
    ∈ Gen.AccessKernels.kernels := by decide
example : airOk ⟨some (.vec 0 true (.argLen 0)), .all (.dim .cols), false, true⟩ = false := by decide
example : airOk ⟨some (.vec 0 false (.argLen 0)), .all (.dim .cols), true, true⟩ = false := by decide
example : airOk ⟨some (.mask 0 (.argLen 0) none), .all (.dim .cols), true, true⟩ = false := by decide

end MechVerif.AccessIR
