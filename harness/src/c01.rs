//! C01: elementwise operators. Case: `binop <op> <kind> <lhs> <rhs> <mode>` / `unop <op> <kind> <operand> <mode>`
//! operand = `S|<elem>` or `M|<rows>|<cols>|<e1 e2 ...>` (column-major).
use crate::common::*;
use crate::interp::*;

pub const KINDS: &[&str] = &["u8", "u16", "u32", "u64", "u128", "i8", "i16", "i32", "i64", "i128", "f32", "f64", "r64", "c64", "bool", "string"];
pub const OPS: &[(&str, &str)] = &[("add", "+"), ("sub", "-"), ("mul", "*"), ("div", "/"), ("mod", "%"), ("pow", "^"),
  ("eq", "=="), ("ne", "!="), ("lt", "<"), ("le", "<="), ("gt", ">"), ("ge", ">="), ("and", "&&"), ("or", "||"), ("xor", "⊕")];

/// does the scalar operator exist for the kind (read off the impl_*_fxn kind lists, confirmed by probing)
pub fn accepted(op: &str, kind: &str) -> bool {
  let int = kind.starts_with('u') || kind.starts_with('i');
  let float = kind == "f32" || kind == "f64";
  match op {
    "add" => kind != "bool",
    "sub" | "mul" | "div" => int || float || kind == "r64" || kind == "c64",
    "mod" => int || float,
    "pow" => kind == "u8" || kind == "u16" || kind == "u32" || float,
    "eq" | "ne" => true,
    "lt" | "le" | "gt" | "ge" => int || float || kind == "r64",
    "and" | "or" | "xor" => kind == "bool",
    _ => false,
  }
}

/// source text of one element given its canonical encoding
pub fn elem_src(kind: &str, e: &str) -> String {
  match kind {
    "f64" => { let x = f64::from_bits(u64::from_str_radix(e, 16).unwrap()); ffmt(x) }
    "f32" => { let x = f32::from_bits(u32::from_str_radix(e, 16).unwrap()); ffmt(x as f64) }
    "c64" => {
      let (re, im) = e.split_once(',').unwrap();
      let re = f64::from_bits(u64::from_str_radix(re, 16).unwrap());
      let im = f64::from_bits(u64::from_str_radix(im, 16).unwrap());
      if im < 0.0 { format!("{}-{}i", re, -im) } else { format!("{}+{}i", re, im) }
    }
    "string" => format!("\"{}\"", String::from_utf8(crate::c07::unhex(e)).unwrap()),
    _ => e.to_string(),
  }
}
fn ffmt(x: f64) -> String { let s = format!("{}", x); if s.contains('.') || s.contains('e') { s } else { format!("{}.0", s) } }

/// an f64 bit pattern that has no literal spelling: NaN, an infinity, the negative zero
fn special_f64(e: &str) -> Option<(&'static str, &'static str)> {
  let x = f64::from_bits(u64::from_str_radix(e, 16).ok()?);
  if x.is_nan() { Some(("0.0", "0.0")) } else if x == f64::INFINITY { Some(("1.0", "0.0")) } else if x == f64::NEG_INFINITY { Some(("-1.0", "0.0")) }
  else if x == 0.0 && x.is_sign_negative() { Some(("0.0", "-1.0")) } else { None }
}

pub fn operand_def(name: &str, kind: &str, o: &str, tilde: bool) -> String {
  let p: Vec<&str> = o.split('|').collect();
  let t = if tilde { "~" } else { "" };
  // an f64 operand with NaN, infinities or a negative zero is defined as the element-wise quotient of two literals
  // (v / 1 for an ordinary element, 0/0, 1/0, -1/0, 0/-1 for the special ones)
  if kind == "f64" {
    let els: Vec<&str> = if p[0] == "S" { vec![p[1]] } else if p[3].is_empty() { vec![] } else { p[3].split(' ').collect() };
    if els.iter().any(|e| special_f64(e).is_some()) {
      let nd: Vec<(String, String)> = els.iter().map(|e| match special_f64(e) { Some((n, d)) => (n.to_string(), d.to_string()), None => (elem_src(kind, e), "1.0".to_string()) }).collect();
      if p[0] == "S" { return format!("{}{} := {} / {}\n", t, name, nd[0].0, nd[0].1); }
      let rows: usize = p[1].parse().unwrap(); let cols: usize = p[2].parse().unwrap();
      let lit = |pick: &dyn Fn(&(String, String)) -> String| -> String {
        let mut l = String::from("[");
        for i in 0..rows { if i > 0 { l.push_str("; "); } for j in 0..cols { if j > 0 { l.push(' '); } l.push_str(&pick(&nd[j * rows + i])); } }
        l.push(']'); l };
      return format!("{}{} := {} / {}\n", t, name, lit(&|x| x.0.clone()), lit(&|x| x.1.clone()));
    }
  }
  let annot_needed = !(kind == "f64" || kind == "r64" || kind == "c64" || kind == "bool" || kind == "string");
  if p[0] == "S" {
    let ann = if annot_needed { format!("<{}>", kind) } else { String::new() };
    format!("{}{}{} := {}\n", t, name, ann, elem_src(kind, p[1]))
  } else {
    let rows: usize = p[1].parse().unwrap(); let cols: usize = p[2].parse().unwrap();
    let els: Vec<&str> = if p[3].is_empty() { vec![] } else { p[3].split(' ').collect() };
    let ann = if annot_needed { format!("<[{}]>", kind) } else { String::new() };
    let mut lit = String::from("[");
    for i in 0..rows {
      if i > 0 { lit.push_str("; "); }
      for j in 0..cols { if j > 0 { lit.push(' '); } lit.push_str(&elem_src(kind, els[j * rows + i])); }
    }
    lit.push(']');
    format!("{}{}{} := {}\n", t, name, ann, lit)
  }
}

/// an operand written in place (a typed literal or a matrix literal of typed literals); `None` when the
/// spelling would not denote the operand: an empty matrix has no kind of its own, and the least value of a
/// signed kind is the negation of a literal that does not fit the kind (a matter of literals, C13)
pub fn operand_inline(kind: &str, o: &str) -> Option<String> {
  let p: Vec<&str> = o.split('|').collect();
  let annot_needed = !(kind == "f64" || kind == "r64" || kind == "c64" || kind == "bool" || kind == "string");
  let least = match kind { "i8" => "-128", "i16" => "-32768", "i32" => "-2147483648", _ => "" };
  let el = |e: &str| -> Option<String> {
    if e == least { return None; }
    if kind == "f64" && special_f64(e).is_some() { return None; }
    Some(if annot_needed { format!("{}<{}>", elem_src(kind, e), kind) } else { elem_src(kind, e) }) };
  if p[0] == "S" {
    let t = el(p[1])?;
    // a negative scalar is parenthesised so that the sign belongs to the operand whatever the operator
    Some(if t.starts_with('-') || kind == "c64" || kind == "r64" { format!("({})", t) } else { t })
  } else {
    let rows: usize = p[1].parse().unwrap(); let cols: usize = p[2].parse().unwrap();
    if p[3].is_empty() { return None; }
    let els: Vec<&str> = p[3].split(' ').collect();
    let mut lit = String::from("[");
    for i in 0..rows {
      if i > 0 { lit.push_str("; "); }
      for j in 0..cols { if j > 0 { lit.push(' '); } lit.push_str(&el(els[j * rows + i])?); }
    }
    lit.push(']');
    Some(lit)
  }
}

/// operand forms: `var` / `mut` (both operands variables, immutable or mutable) or one letter per operand:
/// `l` written in place, `v` a variable, `m` a mutable variable
pub fn source(case: &str) -> String {
  let f: Vec<&str> = case.split('\t').collect();
  let form = |mode: &str, i: usize| -> char { match mode { "var" => 'v', "mut" => 'm', m => m.chars().nth(i).unwrap_or('v') } };
  let mut defs = String::new();
  let mut opnd = |name: &str, kind: &str, o: &str, c: char| -> String {
    if c == 'l' { if let Some(t) = operand_inline(kind, o) { return t; } }
    defs.push_str(&operand_def(name, kind, o, c == 'm'));
    name.to_string() };
  if f[0] == "binop" {
    let sym = OPS.iter().find(|(n, _)| *n == f[1]).unwrap().1;
    let a = opnd("a", f[2], f[3], form(f[5], 0)); let b = opnd("b", f[2], f[4], form(f[5], 1));
    format!("{}{} {} {}", defs, a, sym, b)
  } else {
    let sym = if f[1] == "neg" { "-" } else { "!" };
    let a = opnd("a", f[2], f[3], form(f[4], 0));
    format!("{}{}{}", defs, sym, a)
  }
}

pub fn exec(case: &str) -> String {
  let src = source(case);
  match eval(&src) {
    Ok(v) => canon(&v),
    Err(e) => if e == "hostpanic" || e == "notcode" || e == "parseerr" || e == "parsepanic" { format!("harness:{}:{}", e, hexs(&src)) } else { "err".to_string() },
  }
}

pub fn gen_elem(kind: &str, rng: &mut Rng, which: usize) -> String {
  // `which` = 0 for lhs, 1 for rhs: pools differ so operand order is observable
  match kind {
    "bool" => if rng.chance(1, 2) { "true".into() } else { "false".into() },
    "string" => hexs(*rng.pick(&["a", "bc", "", "z9", "Hello"])),
    "f64" => { let v = [7.0, 2.0, -3.0, 0.5, 10.0, 0.0, 1.0, -4.25, 100.0, 3.0][(rng.below(5) as usize) * 2 % 10 + which % 2 * 0 + (rng.below(2) as usize)]; format!("{:016x}", (v as f64).to_bits()) }
    "f32" => { let v = [7.0f32, 2.0, -3.0, 0.5, 10.0, 0.0, 1.0, -4.25, 100.0, 3.0][rng.below(10) as usize]; format!("{:08x}", v.to_bits()) }
    "r64" => { let n = rng.range(0, 9); let d = *rng.pick(&[1i64, 2, 3, 4, 5]); let g = gcd(n.max(1), d); if n == 0 { "0/1".into() } else { format!("{}/{}", n / g, d / g) } }
    "c64" => { let re = rng.range(0, 6) as f64; /* a leading minus negates the whole literal: keep re >= 0 */ let im = rng.range(-3, 5) as f64; format!("{:016x},{:016x}", re.to_bits(), im.to_bits()) }
    _ => {
      let (lo, hi): (i128, i128) = match kind { "u8" => (0, 255), "u16" => (0, 65535), "u32" => (0, 4294967295), "u64" | "u128" => (0, 1 << 53),
        "i8" => (-128, 127), "i16" => (-32768, 32767), "i32" => (-2147483648, 2147483647), _ => (-(1 << 53), 1 << 53) };
      let v: i128 = match rng.below(10) { 0 => lo, 1 => hi, 2 => hi - 1, 3 => 0, 4 => 1, 5 if lo < 0 => -1, 6 if lo < 0 => lo + 1, _ => rng.range(if lo < 0 { -12 } else { 0 }, 14) as i128 + which as i128 };
      v.clamp(lo, hi).to_string()
    }
  }
}
fn gcd(a: i64, b: i64) -> i64 { if b == 0 { a.abs() } else { gcd(b, a % b) } }

pub fn gen_operand(kind: &str, rows: usize, cols: usize, scalar: bool, rng: &mut Rng, which: usize) -> String {
  if scalar { format!("S|{}", gen_elem(kind, rng, which)) }
  else { format!("M|{}|{}|{}", rows, cols, (0..rows * cols).map(|_| gen_elem(kind, rng, which)).collect::<Vec<_>>().join(" ")) }
}

/// shape classes: scalar, 1x1, 1xN, Nx1, NxN, MxN
pub const CLASSES: &[&str] = &["S", "1x1", "1xN", "Nx1", "NxN", "MxN"];
pub fn class_shape(c: &str, n: usize, m: usize) -> (usize, usize, bool) {
  match c { "S" => (1, 1, true), "1x1" => (1, 1, false), "1xN" => (1, n, false), "Nx1" => (n, 1, false), "NxN" => (n, n, false), _ => (m, n, false) }
}

pub fn generate(seed: u64, thorough: bool, sink: &mut Sink) -> Vec<String> {
  let mut rng = Rng::new(seed);
  let mut cases = vec![];
  let reps = if thorough { 6 } else { 1 };
  for (op, _) in OPS {
    for kind in KINDS {
      let acc = accepted(op, kind);
      for lc in CLASSES { for rc in CLASSES {
        for rep in 0..reps {
          if !acc && !rng.chance(1, 12) { continue; }
          // ordering of complex numbers is not specified (the code orders by norm): not generated
          if *kind == "c64" && ["lt", "le", "gt", "ge"].contains(op) { continue; }
          // quick tier: every class pair for the non-commutative/ordering operators, a 1/3 slice for the others
          if !thorough && !["sub", "div", "mod", "pow", "lt", "ge"].contains(op) && !rng.chance(1, 3) { continue; }
          let n = *rng.pick(&[2usize, 3, 4, 5]);
          let m = loop { let m = *rng.pick(&[2usize, 3, 4, 6]); if m != n { break m; } };
          let (lr, lcn, ls) = class_shape(lc, n, m);
          // the rhs uses the same n,m most of the time (compatible), sometimes a different size (incompatible)
          let (n2, m2) = if rng.chance(1, 5) { (n + 1, m + 1) } else { (n, m) };
          let (rr, rcn, rs) = class_shape(rc, n2, m2);
          let lhs = gen_operand(kind, lr, lcn, ls, &mut rng, 0);
          let rhs = gen_operand(kind, rr, rcn, rs, &mut rng, 1);
          let mode = match rng.below(8) { 0 | 1 => "mut", 2 => "lv", 3 => "vl", 4 => "ll", 5 => *rng.pick(&["lm", "ml", "vm", "mv"]), _ => "var" };
          sink.hit(&format!("operands:{}", mode));
          cases.push(format!("binop\t{}\t{}\t{}\t{}\t{}", op, kind, lhs, rhs, mode));
          sink.hit(&format!("{}:{}:{}·{}{}", op, if acc { "acc" } else { "rej" }, lc, rc, if (n2, m2) != (n, m) { ":sizemismatch" } else { "" }));
          sink.hit(&format!("kind:{}", kind));
          if rep == 0 && cases.len() % 997 == 0 { sink.sample(cases[cases.len() - 1].clone()); }
        }
      }}
    }
  }
  for op in ["neg", "not"] {
    for kind in KINDS { for c in CLASSES {
      let (r, cn, s) = class_shape(c, 3, 2);
      let o = gen_operand(kind, r, cn, s, &mut rng, 0);
      cases.push(format!("unop\t{}\t{}\t{}\t{}", op, kind, o, match rng.below(4) { 0 => "mut", 1 => "l", _ => "var" }));
      sink.hit(&format!("unop:{}:{}", op, c));
    }}
  }
  sink.sample(cases[0].clone());
  // f64 operands with NaN, infinities and the negative zero (defined as quotients: they have no literal spelling):
  // every operator accepted on f64, on the operand form pairs where a kernel of its own runs
  {
    let specials = ["7ff8000000000000", "7ff0000000000000", "fff0000000000000", "8000000000000000"];
    let forms: [((usize, usize, bool), (usize, usize, bool)); 7] = [((1, 1, true), (2, 3, false)), ((2, 3, false), (1, 1, true)), ((2, 3, false), (2, 3, false)), ((1, 3, false), (1, 3, false)),
      ((1, 3, false), (2, 3, false)), ((2, 1, false), (2, 3, false)), ((1, 1, true), (1, 1, true))];
    for (op, _) in OPS {
      if !accepted(op, "f64") || *op == "pow" || *op == "mod" { continue; }
      for (lf, rf) in forms.iter() {
        for rep in 0..(if thorough { 6 } else { 3 }) {
          let mut mk = |f: &(usize, usize, bool), which: usize, rng: &mut Rng| -> String {
            let o = gen_operand("f64", f.0, f.1, f.2, rng, which);
            // replace one or two elements by special values
            let mut parts: Vec<String> = o.split('|').map(|x| x.to_string()).collect();
            let idx = parts.len() - 1;
            let mut els: Vec<String> = parts[idx].split(' ').map(|x| x.to_string()).collect();
            let k = 1 + rng.below(2) as usize;
            // the first replaced element is a NaN (the value on which `!(a < b)` and `a >= b` differ), the second any special
            for n in 0..k { let i = rng.below(els.len() as u64) as usize; els[i] = if n == 0 { specials[0].to_string() } else { (*rng.pick(&specials)).to_string() }; }
            parts[idx] = els.join(" "); parts.join("|") };
          let (a, b) = if rep % 3 == 0 { (mk(lf, 0, &mut rng), gen_operand("f64", rf.0, rf.1, rf.2, &mut rng, 1)) }
                       else if rep % 3 == 1 { (gen_operand("f64", lf.0, lf.1, lf.2, &mut rng, 0), mk(rf, 1, &mut rng)) } else { (mk(lf, 0, &mut rng), mk(rf, 1, &mut rng)) };
          cases.push(format!("binop\t{}\tf64\t{}\t{}\tvar", op, a, b)); sink.hit("float-specials");
        }
      }
    }
  }
  // rationals a binary64 cannot tell apart (they differ by less than half an ulp, or have terms beyond 2^53):
  // the six comparisons are exact on them.  Comparisons only — arithmetic on such terms leaves i64.
  {
    let close: [&[&str]; 4] = [&["1/3", "6004799503160661/18014398509481984", "6004799503160663/18014398509481984"],
      &["9007199254740993/1", "9007199254740992/1", "9007199254740991/1"],
      &["1/10", "3602879701896397/36028797018963968", "3602879701896399/36028797018963968"],
      &["4611686018427387903/4611686018427387904", "4611686018427387902/4611686018427387904", "4611686018427387901/4611686018427387904"]];
    let forms: [((usize, usize, bool), (usize, usize, bool)); 5] = [((1, 1, true), (1, 1, true)), ((1, 1, true), (2, 2, false)), ((2, 2, false), (1, 1, true)), ((2, 2, false), (2, 2, false)), ((1, 3, false), (1, 3, false))];
    for op in ["lt", "le", "gt", "ge", "eq", "ne"] {
      for (lf, rf) in forms.iter() {
        for _ in 0..(if thorough { 6 } else { 2 }) {
          let fam = *rng.pick(&close);
          let mut mk = |f: &(usize, usize, bool), rng: &mut Rng| -> String {
            let els: Vec<String> = (0..f.0 * f.1).map(|_| (*rng.pick(fam)).to_string()).collect();
            if f.2 { format!("S|{}", els[0]) } else { format!("M|{}|{}|{}", f.0, f.1, els.join(" ")) } };
          let (a, b) = (mk(lf, &mut rng), mk(rf, &mut rng));
          cases.push(format!("binop\t{}\tr64\t{}\t{}\t{}", op, a, b, *rng.pick(&["var", "ll", "mut"]))); sink.hit("rational-close");
        }
      }
    }
  }
  cases
}
