#!/usr/bin/env python3
"""Regenerates lean/MechVerif/Gen/CompileMacros.lean from src/core/src/stdlib.rs (`compile_register_brrw!`,
`compile_nullop!` … `compile_varop!`) and src/core/src/program/compiler/context.rs (`alloc_register_for_ptr`,
`compile_const`, the `emit_*` methods).  A shape the reader does not recognise makes `generate` return (False, reason)."""
import os, re, sys
sys.path.insert(0, os.path.dirname(os.path.abspath(__file__)))
from extract_kernels import Unrecognised, macro_bodies

def norm(s): return re.sub(r'\s+', ' ', re.sub(r'//[^\n]*', '', s)).strip()

def fn_body(text, name):
    m = re.search(r'pub\s+fn\s+%s\s*\(' % re.escape(name), text)
    if not m: raise Unrecognised("fn %s not found" % name)
    i = text.index('{', m.end()); d = 1; j = i + 1
    while d:
        d += (text[j] == '{') - (text[j] == '}'); j += 1
    return norm(text[i + 1:j - 1])

def read_macro(name, cls, body):
    b = norm(body)
    params = re.search(r'\(\s*\$name:tt\s*,\s*((?:\$\w+:expr\s*,\s*)+)\$ctx:ident', b)
    if not params: raise Unrecognised(name + ": parameters")
    names = re.findall(r'\$(\w+):expr', params.group(1))
    allocs = []; pos_of = {}
    for m in re.finditer(r'registers\[\s*([^\]]+?)\s*\]\s*=\s*compile_register_brrw!\(\s*\$(\w+)(\[\s*i\s*\])?\s*,\s*\$ctx\s*\)', b):
        idx, op, each = m.group(1), m.group(2), m.group(3)
        if op not in names: raise Unrecognised("%s: operand $%s" % (name, op))
        if each:
            if idx.replace(' ', '') != 'i+1' or not re.search(r'for i in 0\.\.arg_count', b) or not re.search(r'let arg_count = \$%s\.len\(\)' % op, b): raise Unrecognised(name + ": loop over the arguments")
            allocs.append(".allArgs")
        else:
            if not idx.isdigit() or int(idx) != len(allocs): raise Unrecognised("%s: registers[%s] out of order" % (name, idx))
            k = names.index(op)
            allocs.append(".out" if k == 0 else "(.arg %d)" % k)
    if names[0] != 'out' and not names[0].startswith('out'): raise Unrecognised(name + ": first operand is not the output")
    e = re.search(r'\$ctx\.emit_(\w+)\(\s*hash_str\(&\$name\)\s*,\s*(.*?)\s*\)\s*;', b)
    if not e: raise Unrecognised(name + ": emit")
    args = [a.strip() for a in e.group(2).rstrip(',').split(',') if a.strip()]
    want = {'null': 'nullop', 'un': 'unop', 'bin': 'binop', 'tern': 'ternop', 'quad': 'quadop', 'var': 'varop'}[cls]
    if e.group(1) != want: raise Unrecognised("%s emits %s" % (name, e.group(1)))
    regs = []; rest = False
    for a in args:
        g = re.fullmatch(r'registers\[(\d+)\]', a)
        if g: regs.append(int(g.group(1))); continue
        if re.fullmatch(r'\(&registers\[1\.\.\]\)\.to_vec\(\)', a.replace(' ', '')): rest = True; continue
        raise Unrecognised("%s: emit argument %s" % (name, a))
    r = re.search(r'return Ok\(registers\[(\d+)\]\)', b)
    if not r or int(r.group(1)) != regs[0]: raise Unrecognised(name + ": returned register")
    return "⟨.%s, [%s], %d, [%s], %s⟩" % (cls, ", ".join(allocs), regs[0], ", ".join(str(x) for x in regs[1:]), "true" if rest else "false")

def extract(repo="/repo"):
    std = open(os.path.join(repo, "src/core/src/stdlib.rs"), newline='').read().replace('\r\n', '\n')
    ctx = open(os.path.join(repo, "src/core/src/program/compiler/context.rs"), newline='').read().replace('\r\n', '\n')
    bodies = macro_bodies(std)
    macros = []
    for name, cls in [("compile_nullop", "null"), ("compile_unop", "un"), ("compile_binop", "bin"), ("compile_ternop", "tern"), ("compile_quadop", "quad"), ("compile_varop", "var")]:
        if name not in bodies: raise Unrecognised(name + "! not found")
        macros.append(read_macro(name, cls, bodies[name]))
    if "compile_register_brrw" not in bodies: raise Unrecognised("compile_register_brrw! not found")
    rb = norm(bodies["compile_register_brrw"])
    steps = []
    for pat, tag in [(r'let (\w+) = \$reg\.addr\(\);', 'addr'), (r'let (\w+) = \$ctx\.alloc_register_for_ptr\((\w+)\);', 'alloc'),
                     (r'let (\w+) = \w+\.compile_const\(\$ctx\)\.unwrap\(\);', 'const'), (r'\$ctx\.emit_const_load\((\w+), (\w+)\);', 'load')]:
        m = re.search(pat, rb)
        if not m: raise Unrecognised("compile_register_brrw!: step " + tag)
        steps.append((m.start(), tag, m.groups()))
    steps.sort()
    order = [t for _, t, _ in steps]
    g = dict((t, gr) for _, t, gr in steps)
    load_both = g['load'] == (g['alloc'][0], g['const'][0]) and g['alloc'][1] == g['addr'][0] and re.search(r'\b%s\b ?\} ?\}? ?;?$' % g['alloc'][0], rb) is not None
    al = fn_body(ctx, "alloc_register_for_ptr")
    reuses = re.search(r'if let Some\(&(\w+)\) = self\.reg_map\.get\(&ptr\) \{ return \1; \}', al) is not None
    fresh = re.search(r'let (\w+) = self\.next_reg; self\.next_reg \+= 1; self\.reg_map\.insert\(ptr, \1\); \1$', al) is not None
    cc = fn_body(ctx, "compile_const")
    cid = re.search(r'let const_id = self\.const_entries\.len\(\) as u32; self\.const_entries\.push\(entry\); Ok\(const_id\)$', cc) is not None
    emits = all(re.search(r'self\.instrs\.push\(EncodedInstr::', fn_body(ctx, "emit_" + n)) for n in ["const_load", "nullop", "unop", "binop", "ternop", "quadop", "varop"])
    b = lambda x: "true" if x else "false"
    reg = "⟨[%s], %s, %s, %s, %s, %s⟩" % (", ".join('"%s"' % o for o in order), b(load_both), b(reuses), b(fresh), b(cid), b(emits))
    return macros, reg

def generate(root, repo="/repo"):
    try: macros, reg = extract(repo)
    except (Unrecognised, OSError, ValueError, IndexError) as e: return False, "C06 compile-macro extraction failed: %s" % e
    L = ["/- GENERATED by tools/extract_compile.py from src/core/src/stdlib.rs and src/core/src/program/compiler/context.rs — do not edit. -/",
         "import MechVerif.Model.CompileIR", "namespace MechVerif.Gen.CompileMacros", "open MechVerif.Compile MechVerif.CompileIR", "",
         "/-- `compile_nullop!` … `compile_varop!` as written -/", "def macros : List MacroIR :=", "  [" + ",\n   ".join(macros) + "]", "",
         "/-- `compile_register_brrw!`, `alloc_register_for_ptr`, `compile_const`, `emit_*` as written -/", "def register : RegisterIR := " + reg, "",
         "theorem C06_compile_macros_as_written_ok : macrosOk macros = true ∧ registerOk register = true := by decide", "",
         "end MechVerif.Gen.CompileMacros", ""]
    text = "\n".join(L)
    out = os.path.join(root, 'lean', 'MechVerif', 'Gen', 'CompileMacros.lean')
    old = open(out).read() if os.path.exists(out) else None
    if old != text: open(out, 'w').write(text)
    return True, "C06 compile macros extracted: 6 macros, register protocol " + reg

if __name__ == '__main__':
    root = os.path.dirname(os.path.dirname(os.path.abspath(__file__)))
    if len(sys.argv) > 1 and sys.argv[1] == '--show': print(extract(sys.argv[2] if len(sys.argv) > 2 else "/repo"))
    else: print(generate(root))
