/-
The primitives the definitions of `Gen/IncludeHelpers.lean` are written in.  That file is regenerated from
`src/mechfs.rs` on every `./check C20` by `tools/extract_include.py`, which translates the line-level helpers of the
include expander statement by statement; here is what each Rust construct it emits is taken to mean.

A `&str` is read as its list of chars (`Text`).  `as_bytes()`, `len()`, `bytes[i]`, `&s[a..]`, `&s[a..b]` are read with
char positions; they agree with the byte positions of the real code because every position the helpers form is `0`, the
length, or reached by stepping over characters that were compared equal to an ASCII character (space, backtick, tilde,
`{`, `}`) — this identification is the trusted part of the reading (a non-ASCII character never equals one of those,
neither as a char nor as any of its bytes).  Everything that can panic in Rust (indexing, slicing, `usize` subtraction)
fails with `Panic` here, so a body that can panic where the model returns a value is *not* equal to the model.
-/
import MechVerif.Model.Include
namespace MechVerif.IncludeIR
open MechVerif.Include

inductive Panic where
  | index      -- `v[i]` with `i ≥ v.len()`
  | overflow   -- `a - b` with `a < b` on `usize`
  | slice      -- `&s[a..b]` with `a > b` or `b > s.len()`
deriving DecidableEq, Repr

/-- a computation that may panic -/
abbrev R (α : Type) := Except Panic α

def bindE {α β : Type} (x : R α) (f : α → R β) : R β :=
  match x with
  | .ok a => f a
  | .error e => .error e

@[simp] theorem bindE_ok {α β : Type} (a : α) (f : α → R β) : bindE (.ok a) f = f a := rfl
@[simp] theorem bindE_error {α β : Type} (e : Panic) (f : α → R β) : bindE (.error e) f = .error e := rfl

/-- `s.as_bytes()` (see the header: positions are char positions) -/
abbrev asBytes (s : Text) : Text := s
/-- `b as char` -/
abbrev byteAsChar (c : Char) : Char := c
/-- `s.len()`, `bytes.len()` -/
abbrev len (s : Text) : Nat := s.length
/-- `bytes[i]` -/
def idx (b : Text) (i : Nat) : R Char :=
  match b[i]? with
  | some c => .ok c
  | none => .error .index
/-- `a - b` on `usize` -/
def usub (a b : Nat) : R Nat := if b ≤ a then .ok (a - b) else .error .overflow
/-- `a && b` where evaluating `b` may panic -/
def andE (a : Bool) (b : Unit → R Bool) : R Bool := if a then b () else .ok false
/-- `a || b` where evaluating `b` may panic -/
def orE (a : Bool) (b : Unit → R Bool) : R Bool := if a then .ok true else b ()

/-- `while i < bound && cond(i) { i += 1; }` — the translator accepts a `while` only in this shape (the first conjunct
    of the condition bounds the counter, the body is the increment), which is what makes the loop terminate -/
def whileUp (bound : Nat) (cond : Nat → R Bool) (i : Nat) : R Nat :=
  if i < bound then
    match cond i with
    | .ok true => whileUp bound cond (i + 1)
    | .ok false => .ok i
    | .error e => .error e
  else .ok i
termination_by bound - i

/-- `&s[a..]` -/
def sliceFrom (s : Text) (a : Nat) : R Text := if a ≤ s.length then .ok (s.drop a) else .error .slice
/-- `&s[a..b]` -/
def slice (s : Text) (a b : Nat) : R Text :=
  if a ≤ b ∧ b ≤ s.length then .ok ((s.take b).drop a) else .error .slice

/-- `s.trim()`: both ends, `char::is_whitespace` -/
def trim (s : Text) : Text := trimWs s
/-- `s.trim_matches(p)`: both ends -/
def trimMatches (p : Char → Bool) (s : Text) : Text := ((s.dropWhile p).reverse.dropWhile p).reverse
def isEmpty (s : Text) : Bool := s.isEmpty
/-- `s.starts_with(c)` / `s.ends_with(c)` for a char, `s.starts_with(lit)` / `s.ends_with(lit)` for a string literal -/
def startsWithChar (s : Text) (c : Char) : Bool := s.head? == some c
def endsWithChar (s : Text) (c : Char) : Bool := s.getLast? == some c
def startsWithStr (s lit : Text) : Bool := s.take lit.length == lit
def endsWithStr (s lit : Text) : Bool := endsWith s lit

/-- how `expand_mechdown_include_tokens` uses the two brace helpers on a line without its newline (read by hand until
    the skeleton is generated too): `if let Some(inner) = standalone_braced_content(l) { if looks_like_mech_include(inner)
    { let include_raw = inner.trim(); … } }` -/
def includeTargetOf (sbc : Text → R (Option Text)) (lli : Text → R Bool) (body : Text) : R (Option Text) :=
  bindE (sbc body) (fun r =>
  match r with
  | none => .ok none
  | some inner => bindE (lli inner) (fun b => if b then .ok (some (trim inner)) else .ok none))

end MechVerif.IncludeIR
