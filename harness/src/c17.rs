//! C17: state machines.
//! Case: `fsm <maxsteps> <inputs name:kind,…> <outkind|-> <declared A:k,B:k> <start> <arms> <args S,S|->`
//!   start := Name k E*            arms := arm;;arm…
//!   arm   := Name k SP* (d T | g n G*)     G := (* | c E) T      T := next Name k E* | out E
//! (S, SP, E as in C16.)  Observation: `<result>|<visited states Name:v,v;…>`, result canonical or `err`.
use crate::common::*;
use crate::interp::*;

struct Toks<'a> { t: Vec<&'a str>, i: usize }
impl<'a> Toks<'a> {
  fn new(s: &'a str) -> Self { Toks { t: s.split(' ').filter(|x| !x.is_empty()).collect(), i: 0 } }
  fn next(&mut self) -> &'a str { let x = self.t[self.i]; self.i += 1; x }
}
fn s_src(tok: &str) -> String {
  let p: Vec<&str> = tok.splitn(3, ':').collect();
  match p[0] { "n" => if p[1] == "u64" { format!("{}u64", p[2]) } else { p[2].to_string() }, "b" => p[1].to_string(), _ => format!("\"{}\"", String::from_utf8(crate::c07::unhex(p[1])).unwrap()) }
}
fn sp_src(tok: &str) -> String { if tok == "_" { "*".into() } else if let Some(n) = tok.strip_prefix('$') { n.to_string() } else { s_src(tok) } }
fn op_src(o: &str) -> &'static str {
  match o { "add" => "+", "sub" => "-", "mul" => "*", "mod" => "%", "gt" => ">", "lt" => "<", "ge" => ">=", "le" => "<=", "eq" => "==", "ne" => "!=", "and" => "&&", _ => "||" }
}
fn e_src(t: &mut Toks) -> String {
  match t.next() {
    "lit" => s_src(t.next()),
    "var" => t.next().to_string(),
    _ => { let o = t.next(); let a = e_src(t); let b = e_src(t); format!("{} {} {}", a, op_src(o), b) }
  }
}
/// a state argument: `arr k E*`, `whole x`, or a scalar expression
fn ae_src(t: &mut Toks) -> String {
  match t.t[t.i] {
    "arr" => { t.next(); let k: usize = t.next().parse().unwrap(); let es: Vec<String> = (0..k).map(|_| e_src(t)).collect(); format!("[{}]", es.join(" ")) }
    "whole" => { t.next(); t.next().to_string() }
    _ => e_src(t),
  }
}
/// a payload pattern: `A<pre>|<0/1>|<suf>` or a scalar pattern
fn p_src(tok: &str) -> String {
  if let Some(r) = tok.strip_prefix('A') {
    let p: Vec<&str> = r.split('|').collect();
    let items = |t: &str| -> Vec<String> { if t.is_empty() { vec![] } else { t.split(',').map(sp_src).collect() } };
    let mut parts = items(p[0]); if p[1] == "1" { parts.push("…".to_string()); } parts.extend(items(p[2]));
    format!("[{}]", parts.join(" "))
  } else { sp_src(tok) }
}
fn arg_src(tok: &str) -> String {
  let p: Vec<&str> = tok.split(':').collect();
  if p[0] == "a" { format!("[{}]", p[2].split(';').map(|v| if p[1] == "u64" { format!("{}u64", v) } else { v.to_string() }).collect::<Vec<_>>().join(" ")) } else { s_src(tok) }
}
fn target_src(t: &mut Toks) -> String {
  match t.next() {
    w @ ("next" | "anext") => { let name = t.next(); let k: usize = t.next().parse().unwrap(); let args: Vec<String> = (0..k).map(|_| ae_src(t)).collect(); format!("{} :{}({})", if w == "next" { "->" } else { "~>" }, name, args.join(", ")) }
    _ => format!("=> {}", e_src(t)),
  }
}

pub fn source(case: &str) -> String {
  let f: Vec<&str> = case.split('\t').collect();
  let inputs: Vec<String> = f[2].split(',').map(|d| { let (n, k) = d.split_once(':').unwrap(); format!("{}<{}>", n, k) }).collect();
  let sig = format!("#Mach({})", inputs.join(", "));
  let mut src = format!("{} => <{}>\n", sig, f[3]);
  let decl: Vec<&str> = f[4].split(',').collect();
  for (i, d) in decl.iter().enumerate() {
    let dp: Vec<&str> = d.split(':').collect(); let n = dp[0]; let k: usize = dp[1].parse().unwrap();
    let mask: Vec<char> = dp.get(2).map(|m| m.chars().collect()).unwrap_or_default();
    let vars: Vec<String> = (0..k).map(|j| if mask.get(j) == Some(&'a') { format!("p{}<[u64]>", j) } else { format!("p{}<u64>", j) }).collect();
    src.push_str(&format!("  {} :{}({}){}\n", if i + 1 == decl.len() { "└" } else { "├" }, n, vars.join(", "), if i + 1 == decl.len() { "." } else { "" }));
  }
  let mut st = Toks::new(f[5]);
  let sname = st.next(); let k: usize = st.next().parse().unwrap();
  let sargs: Vec<String> = (0..k).map(|_| ae_src(&mut st)).collect();
  src.push_str(&format!("{} -> :{}({})\n", sig, sname, sargs.join(", ")));
  let arms: Vec<&str> = f[6].split(";;").collect();
  for (ai, a) in arms.iter().enumerate() {
    let last_arm = ai + 1 == arms.len();
    let mut t = Toks::new(a);
    let name = t.next(); let k: usize = t.next().parse().unwrap();
    let pats: Vec<String> = (0..k).map(|_| p_src(t.next())).collect();
    let head = format!("  :{}({})", name, pats.join(", "));
    match t.next() {
      "d" => { src.push_str(&format!("{} {}{}\n", head, target_src(&mut t), if last_arm { "." } else { "" })); }
      _ => {
        let n: usize = t.next().parse().unwrap();
        src.push_str(&format!("{}\n", head));
        for gi in 0..n {
          let cond = match t.next() { "*" => "*".to_string(), _ => e_src(&mut t) };
          let tg = target_src(&mut t);
          src.push_str(&format!("    {} {} {}{}\n", if gi + 1 == n { "└" } else { "├" }, cond, tg, if last_arm && gi + 1 == n { "." } else { "" }));
        }
      }
    }
  }
  let mut args: Vec<String> = if f[7] == "-" { vec![] } else { f[7].split(',').map(arg_src).collect() };
  // the arguments: written in place, or named first (immutable or mutable variables)
  let form = f.last().and_then(|t| t.strip_prefix("form=")).unwrap_or("lit");
  if form == "var" || form == "mut" {
    for (i, a) in args.iter_mut().enumerate() { src.push_str(&format!("{}q{} := {}\n", if form == "mut" { "~" } else { "" }, i, a)); *a = format!("q{}", i); }
  }
  src.push_str(&format!("#Mach({})", args.join(", ")));
  src
}

/// `0 state=@26f0 :Run(@2580) u64(@2460:2) u64(@2600:0)` -> `Run:2,0`
fn state_text(msg: &str) -> String {
  let s = msg.split_once("state=").map(|x| x.1).unwrap_or(msg);
  let toks: Vec<&str> = s.split(' ').collect();
  let mut name = String::new(); let mut vals = vec![];
  for t in toks {
    if let Some(r) = t.strip_prefix(':') { name = r.split('(').next().unwrap_or("").to_string(); }
    // an array field prints as `[u64]:1,2(MatrixU64(RowDVector(@0x…: VecSto…)`: kind and shape only
    else if t.starts_with('[') { if let Some((k, r)) = t[1..].split_once("]:") { let shape = r.split('(').next().unwrap_or(""); vals.push(format!("a:{}:{}", k, shape.replace(',', "x"))); } }
    else if let Some((_, r)) = t.split_once("(@") { if let Some((_, v)) = r.trim_end_matches(')').split_once(':') { vals.push(v.to_string()); } }
  }
  format!("{}:{}", name, vals.join(","))
}

/// Is the trace of visited states readable in the form this harness knows?  Checked once per run on a
/// machine whose run is known (Count(2) -> Count(1) -> Count(0) -> Done(7)).  The trace is debugging output:
/// if its channel, label or wording has changed, the visited states are reported as unavailable (`?`)
/// and only the results are compared, instead of mistaking a reworded message for a wrong run.
fn trace_readable() -> bool {
  static READABLE: std::sync::OnceLock<bool> = std::sync::OnceLock::new();
  *READABLE.get_or_init(|| {
    let src = "#Mach(a<u64>) => <u64>\n  ├ :Count(p0<u64>)\n  └ :Done(p0<u64>).\n#Mach(a<u64>) -> :Count(a)\n  :Count(x)\n    ├ x > 0u64 -> :Count(x - 1u64)\n    └ * -> :Done(7u64)\n  :Done(x) => x.\n#Mach(2u64)";
    let (r, steps) = eval_fsm(src, 50);
    let seen: Vec<String> = steps.iter().map(|m| state_text(m)).collect();
    matches!(r, Ok(_)) && seen.join(";") == "Count:2;Count:1;Count:0;Done:7"
  })
}

pub fn exec(case: &str) -> String {
  let f: Vec<&str> = case.split('\t').collect();
  let src = source(case);
  let (r, steps) = eval_fsm(&src, f[1].parse().unwrap());
  if !trace_readable() {
    let res = match r { Ok(v) => canon(&v), Err(e) => if e == "hostpanic" || e == "notcode" || e == "parseerr" || e == "parsepanic" { return format!("harness:{}:{}", e, hexs(&src)); } else { "err".to_string() } };
    return format!("{}|?", res);
  }
  let res = match r {
    Ok(v) => canon(&v),
    Err(e) => if e == "hostpanic" || e == "notcode" || e == "parseerr" || e == "parsepanic" { return format!("harness:{}:{}", e, hexs(&src)); } else { "err".to_string() },
  };
  format!("{}|{}", res, steps.iter().map(|m| state_text(m)).collect::<Vec<_>>().join(";"))
}

fn nu(x: i64) -> String { format!("n:u64:{}", x) }

pub fn generate(seed: u64, thorough: bool, sink: &mut Sink) -> Vec<String> {
  let mut rng = Rng::new(seed);
  let mut cases = vec![];
  let n = if thorough { 25000 } else { 2500 };
  let names = ["Alpha", "Beta", "Gamma", "Delta"];
  let mut crng = Rng::new(seed ^ 0xc17c);
  for it in 0..n {
    if it % 4 == 3 { cases.push(gen_array_machine(&mut rng, sink)); continue; }
    let ninputs = 1 + rng.below(2) as usize;
    let inputs: Vec<&str> = ["a", "b"][..ninputs].to_vec();
    // the names the patterns bind: in one machine in four one of them is also the name of an input
    // (a pattern variable shadows the input inside its arm, and the binding stays once the arm was taken)
    let mut pvars = ["x", "y", "z"];
    let collide = crng.chance(1, 4);
    if collide { let j = crng.below(3) as usize; pvars[j] = inputs[crng.below(ninputs as u64) as usize]; sink.hit("pattern-variable-named-like-an-input"); }
    let nstates = 1 + rng.below(4) as usize;
    let arity: Vec<usize> = (0..nstates).map(|_| 1 + rng.below(3) as usize).collect();
    // expression over the variables in scope
    let atom = |rng: &mut Rng, scope: &[String]| -> String { if rng.chance(1, 3) || scope.is_empty() { format!("lit {}", nu(rng.range(0, 3))) } else { format!("var {}", rng.pick(scope)) } };
    let expr = |rng: &mut Rng, scope: &[String], dec: bool| -> String {
      match rng.below(5) {
        0 | 1 if dec && !scope.is_empty() => format!("bin sub var {} lit {}", scope[0], nu(1)),
        2 => format!("bin add {} {}", atom(rng, scope), atom(rng, scope)),
        3 if rng.chance(1, 3) => format!("bin mul {} lit {}", atom(rng, scope), nu(2)),
        _ => atom(rng, scope),
      } };
    let mut arms: Vec<String> = vec![];
    let ill = rng.below(14);   // 0: undeclared target, 1: declared state without arm, 2: wrong arg kind, 3: wrong arg count, 4: output of another kind, 5: non-bool guard
    for si in 0..nstates {
      let narms = if rng.chance(1, 5) { 2 } else { 1 };
      for ai in 0..narms {
        let k = arity[si];
        let mut scope: Vec<String> = vec![];
        let pats: Vec<String> = (0..k).map(|j| { if narms == 2 && ai == 0 && j == 0 { nu(rng.range(0, 2)) } else if rng.chance(1, 12) { "_".to_string() } else { scope.push(pvars[j].to_string()); format!("${}", pvars[j]) } }).collect();
        for i in &inputs { if rng.chance(2, 3) { scope.push(i.to_string()); } }
        let target = |rng: &mut Rng, scope: &[String]| -> String {
          if rng.chance(1, 3) { format!("next Done 1 {}", expr(rng, scope, false)) }
          else if rng.chance(1, 12) { format!("out {}", expr(rng, scope, false)) }
          else { let ti = rng.below(nstates as u64) as usize; let tname = if ill == 0 && rng.chance(1, 3) { "Zeta" } else { names[ti] };
                 let args: Vec<String> = (0..arity[ti]).map(|j| expr(rng, scope, j == 0)).collect(); format!("next {} {} {}", tname, arity[ti], args.join(" ")) } };
        // counter-style arm: count the first payload field down, then finish
        let counter = rng.chance(1, 2) && pats[0] == "$x";   // (a renamed first variable takes the general form)
        let body = if counter {
          let ti = rng.below(nstates as u64) as usize;
          let mut args: Vec<String> = vec![format!("bin sub var x lit {}", nu(1))];
          for _ in 1..arity[ti] { args.push(expr(&mut rng, &scope, false)); }
          let fin = if rng.chance(1, 4) { format!("out {}", expr(&mut rng, &scope, false)) } else { format!("next Done 1 {}", expr(&mut rng, &scope, false)) };
          let o = if rng.chance(1, 2) { "gt" } else { "ne" };
          format!("g 2 c bin {} var x lit {} next {} {} {} {} {}", o, nu(0), names[ti], arity[ti], args.join(" "), if rng.chance(1, 2) { "*".to_string() } else { format!("c bin eq var x lit {}", nu(0)) }, fin)
        } else if rng.chance(1, 3) { format!("d {}", target(&mut rng, &scope)) } else {
          let ng = 1 + rng.below(3) as usize;
          let gs: Vec<String> = (0..ng).map(|gi| {
            let cond = if gi + 1 == ng && rng.chance(1, 2) { "*".to_string() }
              else if ill == 5 && rng.chance(1, 3) { format!("c {}", atom(&mut rng, &scope)) }
              else { let o = *rng.pick(&["gt", "lt", "ge", "le", "eq", "ne"]); format!("c bin {} {} {}", o, atom(&mut rng, &scope), atom(&mut rng, &scope)) };
            format!("{} {}", cond, target(&mut rng, &scope)) }).collect();
          format!("g {} {}", ng, gs.join(" ")) };
        arms.push(format!("{} {} {} {}", names[si], k, pats.join(" "), body));
      }
    }
    // one machine in four writes some of its transitions `~>` (asynchronous): validated and taken like `->`
    if crng.chance(1, 4) { for a in arms.iter_mut() { let parts: Vec<String> = a.split(' ').map(|w| if w == "next" && crng.chance(1, 2) { "anext".to_string() } else { w.to_string() }).collect(); *a = parts.join(" "); } sink.hit("asynchronous-transitions"); }
    arms.push(if ill == 4 { format!("Done 1 $x d out lit s:{}", hexs("t")) } else if collide && crng.chance(1, 2) { format!("Done 1 ${} d out var {}", inputs[0], inputs[0]) } else { "Done 1 $x d out var x".to_string() });
    // the order in which the arms are written: one machine in three has them shuffled (the terminal arm may come first)
    if crng.chance(1, 3) { for i in (1..arms.len()).rev() { let j = crng.below(i as u64 + 1) as usize; arms.swap(i, j); } sink.hit("arms-shuffled"); }
    let mut declared: Vec<String> = (0..nstates).map(|i| format!("{}:{}", names[i], arity[i])).collect();
    declared.push("Done:1".into());
    if ill == 1 { declared.insert(rng.below(declared.len() as u64 + 1) as usize, "Idle:1".into()); }
    let scope_in: Vec<String> = inputs.iter().map(|s| s.to_string()).collect();
    let start_state = rng.below(nstates as u64) as usize;
    let start = format!("{} {} {}", names[start_state], arity[start_state], (0..arity[start_state]).map(|_| atom(&mut rng, &scope_in)).collect::<Vec<_>>().join(" "));
    let mut args: Vec<String> = (0..ninputs).map(|_| nu(rng.range(0, 6))).collect();
    if ill == 2 { let i = rng.below(args.len() as u64) as usize; args[i] = format!("n:f64:{}", rng.range(0, 4)); }
    if ill == 3 { if rng.chance(1, 2) { args.push(nu(1)); } else { args.pop(); } }
    let maxsteps = *rng.pick(&[5usize, 12, 40, 200]);
    sink.hit(match ill { 0 => "ill:undeclared-target", 1 => "ill:declared-without-arm", 2 => "ill:arg-kind", 3 => "ill:arg-count", 4 => "ill:output-kind", 5 => "ill:non-bool-guard", _ => "well-formed" });
    sink.hit(&format!("states:{}", nstates));
    let case = format!("fsm\t{}\t{}\tu64\t{}\t{}\t{}\t{}", maxsteps, inputs.iter().map(|i| format!("{}:u64", i)).collect::<Vec<_>>().join(","), declared.join(","), start, arms.join(";;"), if args.is_empty() { "-".to_string() } else { args.join(",") });
    if cases.len() < 2 { sink.sample(source(&case)); }
    cases.push(case);
  }
  // how the arguments of the call are written
  let mut frng = Rng::new(seed ^ 0xc17f);
  for c in cases.iter_mut() {
    match frng.below(4) { 0 => { c.push_str("\tform=var"); sink.hit("arguments:variables"); } 1 => { c.push_str("\tform=mut"); sink.hit("arguments:mutable"); } _ => { sink.hit("arguments:in-place"); } }
  }
  cases
}

/// a machine whose states carry an array: `Walk(arr, n)` revisited while a counter runs down, with array
/// patterns `[x … y]`, `[x …]`, `[… y]`, `[a b]`, `[a … b c]`, literals inside, a whole-value variable or
/// a wildcard; the next array is built from the variables the pattern bound (so what an earlier visit
/// bound would be seen if it were not cleared), and `Done` returns an expression over them
fn gen_array_machine(rng: &mut Rng, sink: &mut Sink) -> String {
  let len = 2 + rng.below(3) as usize;                       // length of the input array
  let vals: Vec<i64> = (0..len).map(|_| rng.range(0, 5)).collect();
  let narms = 1 + rng.below(3) as usize;
  let mut arms: Vec<String> = vec![];
  let names = ["x", "y", "z", "w"];
  let ill = rng.below(12);                                    // 0: array argument of the wrong kind, 1: scalar where the array is declared
  for ai in 0..narms {
    // pattern over an array of length `len` (the arrays the arms build keep the length, mostly)
    let shape = rng.below(8);
    let mut bound: Vec<&str> = vec![];
    let mut item = |rng: &mut Rng, bound: &mut Vec<&str>, j: usize| -> String {
      // (a wildcard inside an array pattern does not parse at this commit)
      if rng.chance(1, 7) { nu(rng.range(0, 3)) } else { let nm = names[j % 4]; if !bound.contains(&nm) { bound.push(nm); } format!("${}", nm) } };
    let (pat, whole): (String, bool) = match shape {
      0 => { let a = item(rng, &mut bound, 0); let b = item(rng, &mut bound, 1); (format!("A{}|1|{}", a, b), false) }
      1 => { let a = item(rng, &mut bound, 0); (format!("A{}|1|", a), false) }
      2 => { let b = item(rng, &mut bound, 1); (format!("A|1|{}", b), false) }
      3 => { let its: Vec<String> = (0..len).map(|j| item(rng, &mut bound, j)).collect(); (format!("A{}|0|", its.join(",")), false) }
      4 => { let a = item(rng, &mut bound, 0); let b = item(rng, &mut bound, 1); let c = item(rng, &mut bound, 2); (format!("A{}|1|{},{}", a, b, c), false) }
      5 => { let a = item(rng, &mut bound, 0); let b = item(rng, &mut bound, 1); (format!("A{},{}|1|", a, b), false) }
      6 => ("$v".to_string(), true),
      _ => { let a = item(rng, &mut bound, 1); let b = item(rng, &mut bound, 0); (format!("A{}|1|{}", a, b), false) }   // the same names in the other order
    };
    let cnt = if ai + 1 == narms || rng.chance(2, 3) { "$n".to_string() } else { nu(rng.range(0, 2)) };
    let sc_atom = |rng: &mut Rng, bound: &Vec<&str>| -> String { if bound.is_empty() || rng.chance(1, 4) { format!("lit {}", nu(rng.range(0, 3))) } else { format!("var {}", rng.pick(bound)) } };
    // the next array
    let next_arr = if whole { "whole v".to_string() } else if rng.chance(1, 6) { "whole xs".to_string() } else {
      let k = if rng.chance(3, 4) { len } else { 1 + rng.below(4) as usize };
      let es: Vec<String> = (0..k).map(|_| sc_atom(rng, &bound)).collect(); format!("arr {} {}", k, es.join(" ")) };
    let fin = if bound.is_empty() { format!("lit {}", nu(7)) } else if rng.chance(1, 2) { format!("var {}", rng.pick(&bound)) } else { format!("bin add {} {}", sc_atom(rng, &bound), sc_atom(rng, &bound)) };
    let body = if cnt == "$n" {
      format!("g 2 c bin gt var n lit {} next Walk 2 {} bin sub var n lit {} * next Done 1 {}", nu(0), next_arr, nu(1), fin)
    } else { format!("d next Done 1 {}", fin) };
    arms.push(format!("Walk 2 {} {} {}", pat, cnt, body));
    sink.hit(&format!("array-pattern:{}", shape));
  }
  arms.push("Done 1 $out d out var out".to_string());
  let start = format!("Walk 2 whole xs lit {}", nu(rng.range(0, 4)));
  let arg = match ill { 0 => format!("a:f64:{}", vals.iter().map(|v| v.to_string()).collect::<Vec<_>>().join(";")), 1 => nu(3), _ => format!("a:u64:{}", vals.iter().map(|v| v.to_string()).collect::<Vec<_>>().join(";")) };
  sink.hit(match ill { 0 => "ill:array-kind", 1 => "ill:scalar-for-array", _ => "array-machine" });
  let maxsteps = *rng.pick(&[5usize, 12, 40]);
  let case = format!("fsm\t{}\txs:[u64]\tu64\tWalk:2:as,Done:1\t{}\t{}\t{}", maxsteps, start, arms.join(";;"), arg);
  case
}
