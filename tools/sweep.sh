#!/bin/bash
# runs every check's quick tier over a range of seeds on the current tree; prints one line per run that alarms
# usage: tools/sweep.sh <first-seed> <last-seed> [props…]
cd "$(dirname "$0")/.."
a=$1; b=$2; shift 2
props=${@:-C01 C02 C03 C04 C05 C06 C07 C08 C09 C10 C11 C12 C13 C14 C15 C16 C17 C18 C19 C20}
for s in $(seq $a $b); do for p in $props; do
  out=$(VERIF_SEED=$s ./check $p 2>&1); rc=$?
  if [ $rc -ne 0 ] || echo "$out" | grep -q VIOLATION; then echo "ALARM $p seed=$s rc=$rc: $(echo "$out" | grep VIOLATION | head -1)"; cp replays/$p-*-$s.json .work/ 2>/dev/null; fi
done; echo "seed $s done"; done
