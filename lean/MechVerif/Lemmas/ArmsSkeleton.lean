/-
The accepted skeletons of Model/ArmsIR.lean, run over the model's leaves, are the functions of Model/Arms.lean:
`runArms … expectedArms` is `stepArms`, `runUser … expectedUser` is `callImpl`, `runMatchExpr … expectedMatch` is `matchExpr`.
-/
import MechVerif.Model.ArmsIR
set_option linter.unusedSimpArgs false
namespace MechVerif.ArmsIR
open MechVerif.Arms

/-! ### user functions -/

/-- every arm body that is literally a self call has as many arguments as the function has inputs (what the model's
    `tailShape` asks for at once; the code tests it after the arguments are evaluated) -/
def Saturated (f : FDef) (arms : List (P × E)) : Prop :=
  ∀ pb ∈ arms, ∀ es, selfCallArgs pb.2 = some es → es.length = f.arity

theorem tailShape_of_selfCall (f : FDef) (body : E) (es : List E) (h : selfCallArgs body = some es)
    (hl : es.length = f.arity) : tailShape f body = some es := by
  cases body <;> simp [selfCallArgs] at h
  · subst h; simp at hl; simp [tailShape, hl]
  · subst h; simp at hl; simp [tailShape, hl]

theorem tailShape_none_of_selfCall (f : FDef) (body : E) (h : selfCallArgs body = none) : tailShape f body = none := by
  cases body <;> simp [selfCallArgs] at h <;> simp [tailShape]

theorem evalArgs_length (self : List S → Except Err S) (env : Env) : ∀ (es : List E) (xs : List S),
    evalArgs self env es = .ok xs → xs.length = es.length := by
  intro es
  induction es with
  | nil => intro xs h; simp [evalArgs] at h; subst h; rfl
  | cons e es ih =>
    intro xs h
    simp only [evalArgs] at h
    split at h
    · cases h
    · split at h
      · cases h
      · rename_i ys hy
        injection h with h; subst h
        simp [ih _ hy]

/-- what the loop body does with one arm -/
def armBody : FStmt :=
  .seq .newEnv
  (.seq (.matchArgs .orig)
  (.ite (.var .matched)
    (.seq (.ifSelfCall (.seq .evalTailArgs (.ifTailArity .returnTail)))
    (.seq .evalBody
    (.seq .coerce
    .returnValue)))
    .skip))

def finishArms : FOut → FOut
  | .next _ => .ret (.error .noArm)
  | o => o

theorem arms_loop (f : FDef) (self : List S → Except Err S) (left : P → List S → Env → Env)
    (callee : List S → Env → Option (Except Err Step)) (fuel : Nat) (args : List S) :
    ∀ (arms : List (P × E)), Saturated f arms → ∀ (s : FStore), s.orig = args → s.scope = inputsEnv f args →
    finishArms (iter FOut.next? FOut.brk? FOut.next
        (fun arm s => execF (modelFOps f self left) callee fuel armBody { s with arm := some arm }) arms s)
      = .ret (match stepArms self f args arms with | .ok st => .ok (.step st) | .error e => .error e) := by
  intro arms
  induction arms with
  | nil => intro _ s _ _; simp [iter, finishArms, stepArms]
  | cons pb rest ih =>
    intro hsat s ho hs
    obtain ⟨p, body⟩ := pb
    have hrest : Saturated f rest := fun x hx => hsat x (List.mem_cons_of_mem _ hx)
    simp only [iter, stepArms]
    cases hm : Arms.matchArgs p args [] with
    | none =>
      simp [armBody, execF, modelFOps, FStore.args, ho, hm, evalBF, FOut.next?]
      exact ih hrest _ rfl hs
    | some env =>
      cases hsc : selfCallArgs body with
      | none =>
        have hts := tailShape_none_of_selfCall f body hsc
        simp only [hts]
        cases hb : evalScalar self (env ++ inputsEnv f args) body with
        | error e => simp [armBody, execF, modelFOps, FStore.args, ho, hs, hm, evalBF, hsc, hb, FOut.next?, FOut.brk?, finishArms]
        | ok v => simp [armBody, execF, modelFOps, FStore.args, ho, hs, hm, evalBF, hsc, hb, FOut.next?, FOut.brk?, finishArms]
      | some es =>
        have hlen := hsat (p, body) (List.mem_cons_self) es hsc
        have hts := tailShape_of_selfCall f body es hsc hlen
        simp only [hts]
        cases ha : evalArgs self (env ++ inputsEnv f args) es with
        | error e => simp [armBody, execF, modelFOps, FStore.args, ho, hs, hm, evalBF, hsc, ha, FOut.next?, FOut.brk?, finishArms]
        | ok xs =>
          have hx := evalArgs_length self _ es xs ha
          simp [armBody, execF, modelFOps, FStore.args, ho, hs, hm, evalBF, hsc, ha, hx, hlen, FOut.next?, FOut.brk?, finishArms]

theorem seq_failNoArm (ops : FOps) (callee : List S → Env → Option (Except Err Step)) (fuel : Nat) (a : FStmt) (s : FStore) :
    execF ops callee fuel (.seq a .failNoArm) s = finishArms (execF ops callee fuel a s) := by
  simp only [execF]; cases execF ops callee fuel a s <;> rfl

theorem forArms_eq (ops : FOps) (callee : List S → Env → Option (Except Err Step)) (fuel : Nat) (body : FStmt) (s : FStore) :
    execF ops callee fuel (.forArms .forward body) s
      = iter FOut.next? FOut.brk? FOut.next (fun arm s => execF ops callee fuel body { s with arm := some arm }) ops.arms s := by
  simp only [execF, ordered]

/-- `execute_function_match_arms` as written (the accepted skeleton) over the model's leaves is `stepArms` -/
theorem runArms_expected (f : FDef) (self : List S → Except Err S) (left : P → List S → Env → Env) (args : List S)
    (hsat : Saturated f f.arms) :
    runArms (modelFOps f self left) expectedArms args (inputsEnv f args) = some (stepArms self f args f.arms) := by
  have h := arms_loop f self left (fun _ _ => none) 0 args f.arms hsat
    { orig := args, scope := inputsEnv f args } rfl rfl
  have hexp : expectedArms = .seq .enumCheck (.seq (.forArms .forward armBody) .failNoArm) := rfl
  have hseq : ∀ a b s, execF (modelFOps f self left) (fun _ _ => none) 0 (.seq a b) s =
      (match execF (modelFOps f self left) (fun _ _ => none) 0 a s with
       | .next s' => execF (modelFOps f self left) (fun _ _ => none) 0 b s' | o => o) := by
    intro a b s; simp only [execF]; cases execF (modelFOps f self left) (fun _ _ => none) 0 a s <;> rfl
  have henum : ∀ s, execF (modelFOps f self left) (fun _ _ => none) 0 .enumCheck s = .next s := by
    intro s; simp [execF, modelFOps]
  have hops : (modelFOps f self left).arms = f.arms := rfl
  rw [runArms, hexp, hseq, henum]
  simp only []
  rw [seq_failNoArm, forArms_eq, hops, h]
  cases stepArms self f args f.arms <;> rfl

theorem execF_seq (ops : FOps) (callee : List S → Env → Option (Except Err Step)) (fuel : Nat) (a b : FStmt) (s : FStore) :
    execF ops callee fuel (.seq a b) s
      = (match execF ops callee fuel a s with | .next s' => execF ops callee fuel b s' | o => o) := by
  simp only [execF]; cases execF ops callee fuel a s <;> rfl

/-- one turn of the tail-call loop -/
def turnBody : FStmt :=
  .seq .enterScope
  (.seq (.bindInputs .cur)
  (.seq (.callArms .cur)
  (.seq .dropScope
  (.matchStep .breakValue (.setCur .next)))))

def afterLoop : FOut → FOut
  | .next s => (match s.output with
     | none => .stuck
     | some (.ok v) => .ret (.ok (.val v))
     | some (.error e) => .ret (.error e))
  | o => o

theorem seq_returnOutput (ops : FOps) (callee : List S → Env → Option (Except Err Step)) (fuel : Nat) (a : FStmt) (s : FStore) :
    execF ops callee fuel (.seq a .returnOutput) s = afterLoop (execF ops callee fuel a s) := by
  simp only [execF]; cases execF ops callee fuel a s <;> rfl

theorem tail_loop (f : FDef) (self : List S → Except Err S) (left : P → List S → Env → Env) (fuel : Nat)
    (hsat : Saturated f f.arms) :
    ∀ (n : Nat) (s : FStore),
    afterLoop (loopN (execF (modelFOps f self left) (runArms (modelFOps f self left) expectedArms) fuel turnBody) n s)
      = .ret (match loopArms self f n s.cur with | .ok v => .ok (.val v) | .error e => .error e) := by
  intro n
  induction n with
  | zero => intro s; simp [loopN, afterLoop, loopArms]
  | succ n ih =>
    intro s
    simp only [loopN, loopArms]
    have hcall := runArms_expected f self left s.cur hsat
    cases hst : stepArms self f s.cur f.arms with
    | error e =>
      rw [hst] at hcall
      simp [turnBody, execF, modelFOps, FStore.args, hcall, afterLoop] at *
    | ok st =>
      rw [hst] at hcall
      cases st with
      | ret v =>
        simp [turnBody, execF, modelFOps, FStore.args, afterLoop] at *
        simp [hcall]
      | tail xs =>
        simp [turnBody, execF, modelFOps, FStore.args, afterLoop] at *
        simp [hcall]
        exact ih _

/-- `execute_user_function` as written (the accepted skeleton, calling the accepted skeleton of
    `execute_function_match_arms`) over the model's leaves is `callImpl`: arity check, then the tail-call loop -/
theorem runUser_expected (f : FDef) (it d : Nat) (left : P → List S → Env → Env) (args : List S)
    (hsat : Saturated f f.arms) (harms : f.arms ≠ []) :
    runUser (modelFOps f (callImpl f it d) left) expectedArms expectedUser it args = some (callImpl f it (d + 1) args) := by
  have hexp : expectedUser = .seq .arityCheck (.seq (.tryBroadcast .orig)
      (.seq (.ifArms (.seq (.setCur .orig) (.loop turnBody)) .plainBody) .returnOutput)) := rfl
  have hops : (modelFOps f (callImpl f it d) left).arms = f.arms := rfl
  have hempty : f.arms.isEmpty = false := by cases h : f.arms <;> simp_all
  have hloop := tail_loop f (callImpl f it d) left it hsat it { orig := args, cur := args }
  rw [runUser, hexp]
  simp only [callImpl]
  generalize hO : modelFOps f (callImpl f it d) left = ops at *
  have harity : ops.arity = f.arity := by subst hO; rfl
  have hbc : ∀ a, ops.broadcast a = .ok none := by subst hO; intro a; rfl
  generalize hC : runArms ops expectedArms = callee at *
  by_cases hlen : args.length = f.arity
  · have h1 : execF ops callee it .arityCheck { orig := args } = .next { orig := args } := by
      simp [execF, harity, hlen]
    have h2 : execF ops callee it (.tryBroadcast .orig) { orig := args } = .next { orig := args } := by
      simp [execF, hbc]
    have h3 : execF ops callee it (.ifArms (.seq (.setCur .orig) (.loop turnBody)) .plainBody) { orig := args }
        = loopN (execF ops callee it turnBody) it { orig := args, cur := args } := by
      simp [execF, hops, hempty, FStore.args]
    rw [execF_seq, h1]; simp only []
    rw [execF_seq, h2]; simp only []
    rw [seq_returnOutput, h3, hloop]
    simp only [hlen, ne_eq, not_true_eq_false, if_false]
    cases loopArms (callImpl f it d) f it args <;> rfl
  · simp [execF, harity, hlen]

end MechVerif.ArmsIR

namespace MechVerif.ArmsIR
open MechVerif.Arms

/-! ### match expressions -/

/-- what the loop body does with one arm -/
def marmBody : MStmt :=
  .seq (.cloneEnv .base)
  (.seq (.matchPat true .arm)
  (.seq (.guard true .arm)
  (.ite (.and (.var .matched) (.var .passed))
    (.seq .emptyCoalesce
    (.seq (.evalBody .arm)
    (.seq (.validateKinds .base)
    .returnOutput)))
    .skip)))

/-- the arm loop as the code runs it: the index comes from `enumerate` -/
def loopSpec (base : Env) (src : V) (all : List (Arm × Nat)) : List (Arm × Nat) → Except Err V
  | [] => .error .noArm
  | (arm, ix) :: rest =>
    (match armApplies base arm src with
     | .error e => .error e
     | .ok none => loopSpec base src all rest
     | .ok (some env) =>
       match evalE noSelf env arm.body with
       | .error e => .error e
       | .ok v =>
         match validateKinds base src ix (kindOf v) all with
         | .error e => .error e
         | .ok _ => .ok v)

def finishM : MOut → MOut
  | .next _ => .ret (.error .noArm)
  | o => o

theorem matchP_wild (og : Bool) (v : V) (env : Env) : matchP og (.sp .wild) v env = some env := by
  cases v <;> simp [matchP]

theorem marms_loop (variants : List String) (arms : List Arm) (src : V) (left : P → V → Env → Env) :
    ∀ (l : List (Arm × Nat)) (s : MStore), s.base = [] →
    finishM (iter MOut.next? MOut.brk? MOut.next
        (fun arm s => execM (modelMOps variants arms src left) marmBody { s with arm := some arm }) l s)
      = .ret (loopSpec [] src arms.zipIdx l) := by
  intro l
  induction l with
  | nil => intro s _; simp [iter, finishM, loopSpec]
  | cons ai rest ih =>
    intro s hb
    obtain ⟨arm, ix⟩ := ai
    simp only [iter, loopSpec, armApplies]
    generalize (fun (arm : Arm × Nat) (s : MStore) =>
      execM (modelMOps variants arms src left) marmBody { s with arm := some arm }) = step at ih ⊢
    by_cases hw : arm.pat = .sp .wild
    · rw [hw, matchP_wild]
      cases hg : arm.guard with
      | none =>
        simp only [guardTrue]
        cases hv : evalE noSelf [] arm.body with
        | error e => simp [marmBody, execM, modelMOps, MStore.env, MStore.setEnv, evalBM, hb, hw, hg, hv, MOut.next?, MOut.brk?, finishM]
        | ok v =>
          cases hk : validateKinds [] src ix (kindOf v) arms.zipIdx <;>
            simp [marmBody, execM, modelMOps, MStore.env, MStore.setEnv, evalBM, hb, hw, hg, hv, hk, MOut.next?, MOut.brk?, finishM]
      | some g =>
        cases hgt : guardTrue [] (some g) with
        | error e => simp [marmBody, execM, modelMOps, MStore.env, MStore.setEnv, evalBM, hb, hw, hg, hgt, MOut.next?, MOut.brk?, finishM]
        | ok b =>
          cases b with
          | false =>
            simp [marmBody, execM, modelMOps, MStore.env, MStore.setEnv, evalBM, hb, hw, hg, hgt, MOut.next?, MOut.brk?]
            exact ih _ rfl
          | true =>
            cases hv : evalE noSelf [] arm.body with
            | error e => simp [marmBody, execM, modelMOps, MStore.env, MStore.setEnv, evalBM, hb, hw, hg, hgt, hv, MOut.next?, MOut.brk?, finishM]
            | ok v =>
              cases hk : validateKinds [] src ix (kindOf v) arms.zipIdx <;>
                simp [marmBody, execM, modelMOps, MStore.env, MStore.setEnv, evalBM, hb, hw, hg, hgt, hv, hk, MOut.next?, MOut.brk?, finishM]
    · cases hm : matchP true arm.pat src [] with
      | none =>
        simp [marmBody, execM, modelMOps, MStore.env, MStore.setEnv, evalBM, hb, hw, hm, MOut.next?, MOut.brk?]
        exact ih _ rfl
      | some env =>
        cases hg : arm.guard with
        | none =>
          simp only [guardTrue]
          cases hv : evalE noSelf env arm.body with
          | error e => simp [marmBody, execM, modelMOps, MStore.env, MStore.setEnv, evalBM, hb, hw, hm, hg, hv, MOut.next?, MOut.brk?, finishM]
          | ok v =>
            cases hk : validateKinds [] src ix (kindOf v) arms.zipIdx <;>
              simp [marmBody, execM, modelMOps, MStore.env, MStore.setEnv, evalBM, hb, hw, hm, hg, hv, hk, MOut.next?, MOut.brk?, finishM]
        | some g =>
          cases hgt : guardTrue env (some g) with
          | error e => simp [marmBody, execM, modelMOps, MStore.env, MStore.setEnv, evalBM, hb, hw, hm, hg, hgt, MOut.next?, MOut.brk?, finishM]
          | ok b =>
            cases b with
            | false =>
              simp [marmBody, execM, modelMOps, MStore.env, MStore.setEnv, evalBM, hb, hw, hm, hg, hgt, MOut.next?, MOut.brk?]
              exact ih _ rfl
            | true =>
              cases hv : evalE noSelf env arm.body with
              | error e => simp [marmBody, execM, modelMOps, MStore.env, MStore.setEnv, evalBM, hb, hw, hm, hg, hgt, hv, MOut.next?, MOut.brk?, finishM]
              | ok v =>
                cases hk : validateKinds [] src ix (kindOf v) arms.zipIdx <;>
                  simp [marmBody, execM, modelMOps, MStore.env, MStore.setEnv, evalBM, hb, hw, hm, hg, hgt, hv, hk, MOut.next?, MOut.brk?, finishM]

theorem firstArm_applies (base : Env) (src : V) : ∀ (l : List Arm) (arm : Arm) (env : Env),
    firstArm base src l = .ok (some (arm, env)) → armApplies base arm src = .ok (some env) := by
  intro l
  induction l with
  | nil => intro arm env h; simp [firstArm] at h
  | cons a rest ih =>
    intro arm env h
    simp only [firstArm] at h
    cases ha : armApplies base a src with
    | error e => simp [ha] at h
    | ok o =>
      cases o with
      | none => simp only [ha] at h; exact ih arm env h
      | some e =>
        simp only [ha] at h
        injection h with h; injection h with h; injection h with h1 h2
        subst h1; subst h2; exact ha

/-- the index `runMatch` recovers by looking the chosen arm up -/
def ixOf (l : List (Arm × Nat)) (arm : Arm) : Nat :=
  ((l.find? (fun p => p.1.pat = arm.pat ∧ p.1.guard = arm.guard ∧ p.1.body = arm.body)).map (·.2)).getD 0

theorem loopSpec_firstArm (base : Env) (src : V) (all : List (Arm × Nat)) : ∀ (l : List (Arm × Nat)),
    loopSpec base src all l =
      (match firstArm base src (l.map (·.1)) with
       | .error e => .error e
       | .ok none => .error .noArm
       | .ok (some (arm, env)) =>
         match evalE noSelf env arm.body with
         | .error e => .error e
         | .ok v =>
           match validateKinds base src (ixOf l arm) (kindOf v) all with
           | .error e => .error e
           | .ok _ => .ok v) := by
  intro l
  induction l with
  | nil => simp [loopSpec, firstArm]
  | cons ai rest ih =>
    obtain ⟨a, i⟩ := ai
    simp only [loopSpec, List.map_cons, firstArm]
    cases ha : armApplies base a src with
    | error e => rfl
    | ok o =>
      cases o with
      | some env => simp [ixOf]
      | none =>
        simp only []
        rw [ih]
        cases hf : firstArm base src (rest.map (·.1)) with
        | error e => rfl
        | ok r =>
          cases r with
          | none => rfl
          | some ae =>
            obtain ⟨arm, env⟩ := ae
            have happ := firstArm_applies base src _ arm env hf
            have hne : ¬ (a.pat = arm.pat ∧ a.guard = arm.guard ∧ a.body = arm.body) := by
              intro ⟨h1, h2, h3⟩
              have : a = arm := by cases a; cases arm; simp_all
              subst this; rw [ha] at happ; cases happ
            have hix : ixOf ((a, i) :: rest) arm = ixOf rest arm := by
              simp [ixOf, List.find?_cons, hne]
            simp only [hix]

theorem loopSpec_runMatch (arms : List Arm) (src : V) : loopSpec [] src arms.zipIdx arms.zipIdx = runMatch arms src := by
  rw [loopSpec_firstArm]
  have hm : arms.zipIdx.map (·.1) = arms := by simp
  rw [hm, runMatch]
  cases firstArm [] src arms with
  | error e => rfl
  | ok r =>
    cases r with
    | none => rfl
    | some ae =>
      obtain ⟨arm, env⟩ := ae
      simp only [ixOf]
      cases evalE noSelf env arm.body with
      | error e => rfl
      | ok v =>
        simp only []
        generalize validateKinds _ _ _ _ _ = r
        cases r <;> rfl

theorem filter_not_isEmpty (l : List String) (p : String → Bool) : (l.filter (fun t => !p t)).isEmpty = l.all p := by
  induction l with
  | nil => rfl
  | cons x xs ih => cases hp : p x <;> simp_all [List.filter_cons]

theorem execM_seq (ops : MOps) (a b : MStmt) (s : MStore) :
    execM ops (.seq a b) s = (match execM ops a s with | .next s' => execM ops b s' | o => o) := by
  simp only [execM]; cases execM ops a s <;> rfl

theorem seqM_failNoArm (ops : MOps) (a : MStmt) (s : MStore) :
    execM ops (.seq a .failNoArm) s = finishM (execM ops a s) := by
  simp only [execM]; cases execM ops a s <;> rfl

/-- `match_expression` as written (the accepted skeleton) over the model's leaves is `matchExpr` -/
theorem runMatchExpr_expected (variants : List String) (arms : List Arm) (src : V) (left : P → V → Env → Env) :
    runMatchExpr (modelMOps variants arms src left) expectedMatch = some (matchExpr variants arms src) := by
  have hexp : expectedMatch = .seq .evalSource (.seq .detach (.seq .baseFromCaller (.seq .bindSourceVar
      (.seq (.ifNoWildcard (.ifInferMissing (.ifMissingEmpty (.validateAll .base) .failVariants) .failNonExhaustive))
      (.seq .emptySpecial (.seq (.forArms .forward marmBody) .failNoArm)))))) := rfl
  have hloop : ∀ s : MStore, s.base = [] →
      execM (modelMOps variants arms src left) (.seq .emptySpecial (.seq (.forArms .forward marmBody) .failNoArm)) s
        = .ret (runMatch arms src) := by
    intro s hb
    have h := marms_loop variants arms src left arms.zipIdx s hb
    rw [loopSpec_runMatch] at h
    rw [execM_seq]
    have he : execM (modelMOps variants arms src left) .emptySpecial s = .next s := by simp [execM, modelMOps]
    rw [he]; simp only []
    rw [seqM_failNoArm]
    have hf : execM (modelMOps variants arms src left) (.forArms .forward marmBody) s
        = iter MOut.next? MOut.brk? MOut.next
            (fun arm s => execM (modelMOps variants arms src left) marmBody { s with arm := some arm }) arms.zipIdx s := by
      simp only [execM, ordered]; rfl
    rw [hf, h]
  have hcaller : (modelMOps variants arms src left).callerEnv = [] := rfl
  have hbind : ∀ e, (modelMOps variants arms src left).bindSource e = e := fun _ => rfl
  have harms : (modelMOps variants arms src left).arms = arms := rfl
  have hval : ∀ e, (modelMOps variants arms src left).validateAll e = validateAll none arms := fun _ => rfl
  rw [runMatchExpr, hexp]
  generalize MStmt.seq .emptySpecial (.seq (.forArms .forward marmBody) .failNoArm) = tail at hloop ⊢
  simp only [execM_seq]
  simp only [execM, hcaller, hbind, harms, hval, matchExpr]
  by_cases hwc : hasWildcard arms = true
  · simp [hwc, hloop]
  · simp only [hwc, if_false, Bool.false_eq_true]
    cases src with
    | enm tag pl =>
      have hinf : (modelMOps variants arms (.enm tag pl) left).inferMissing =
        if (armTags arms).isEmpty then none else some (variants.filter (fun t => !(armTags arms).contains t)) := rfl
      simp only [hinf]
      cases htags : (armTags arms).isEmpty with
      | true => simp
      | false =>
        simp only [if_false, Bool.false_eq_true, filter_not_isEmpty, Bool.not_false, Bool.true_and]
        generalize (variants.all fun t => (armTags arms).contains t) = b
        cases b with
        | false => simp
        | true => cases hv : validateAll none arms <;> simp [hloop, MStore.env]
    | sc x =>
      have hinf : (modelMOps variants arms (.sc x) left).inferMissing = none := rfl
      simp [hinf]
    | tup l =>
      have hinf : (modelMOps variants arms (.tup l) left).inferMissing = none := rfl
      simp [hinf]
    | arr l =>
      have hinf : (modelMOps variants arms (.arr l) left).inferMissing = none := rfl
      simp [hinf]

end MechVerif.ArmsIR
