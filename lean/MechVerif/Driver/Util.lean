/- Line-protocol helpers shared by all sub-protocols of the driver. -/
namespace MechVerif.Driver

def hexDigit (c : Char) : Option Nat :=
  if '0' ≤ c && c ≤ '9' then some (c.toNat - '0'.toNat)
  else if 'a' ≤ c && c ≤ 'f' then some (c.toNat - 'a'.toNat + 10)
  else if 'A' ≤ c && c ≤ 'F' then some (c.toNat - 'A'.toNat + 10)
  else none

def unhexBytes (s : String) : Option ByteArray :=
  if s == "-" then some ByteArray.empty else
  let rec go : List Char → ByteArray → Option ByteArray
    | [], acc => some acc
    | [_], _ => none
    | a :: b :: rest, acc =>
      match hexDigit a, hexDigit b with
      | some x, some y => go rest (acc.push (UInt8.ofNat (x * 16 + y)))
      | _, _ => none
  go s.toList ByteArray.empty

def unhexText (s : String) : Option (List Char) :=
  match unhexBytes s with
  | none => none
  | some b => (String.fromUTF8? b).map (·.toList)

def hexNibble (n : Nat) : Char :=
  if n < 10 then Char.ofNat ('0'.toNat + n) else Char.ofNat ('a'.toNat + n - 10)

def hexOfBytes (b : ByteArray) : String :=
  if b.size == 0 then "-" else
  String.ofList (b.toList.flatMap (fun x => [hexNibble (x.toNat / 16), hexNibble (x.toNat % 16)]))

def hexOfText (t : List Char) : String := hexOfBytes (String.ofList t).toUTF8

/-- split a protocol line into (case fields, implementation observation) -/
def splitCase (line : String) : List String × String :=
  let fs := line.splitOn "\t"
  match fs.idxOf? "@@" with
  | some i => (fs.take i, "\t".intercalate (fs.drop (i + 1)))
  | none => (fs, "")

end MechVerif.Driver
