//! C16: function arms and match expressions.
//! Token encodings (space separated, prefix, counted lists):
//!   S  := n:f64:<int> | n:u64:<int> | b:true|false | s:<hex>
//!   V  := sc S | tup k S* | arr k S* | enm tag (S|-)
//!   SP := _ | $name | S
//!   P  := sp SP | tup k SP* | arr npre SP* spread(0|1) nsuf SP* | enm tag (SP|-)
//!   E  := lit S | var name | bin op E E | call1 E | call2 E E
//! Cases:
//!   match <variants|-> <V> <arm;;arm…>          arm := P (- | g E) E
//!   fn <arity> <kind> <arm;;arm…> <how> <args>   arm := P E ; how := call | bcast:<r>x<c> ; args := S,S,…
//!   fne <V enm> <arm;;arm…>                      a function of one parameter of the enum red(f64) | green(f64) | blue
//! Observation: canonical value | `err`.
use crate::common::*;
use crate::interp::*;

struct Toks<'a> { t: Vec<&'a str>, i: usize }
impl<'a> Toks<'a> {
  fn new(s: &'a str) -> Self { Toks { t: s.split(' ').filter(|x| !x.is_empty()).collect(), i: 0 } }
  fn next(&mut self) -> &'a str { let x = self.t[self.i]; self.i += 1; x }
  fn peek(&self) -> &'a str { self.t[self.i] }
}

fn s_src(tok: &str) -> String {
  let p: Vec<&str> = tok.splitn(3, ':').collect();
  match p[0] {
    "n" => if p[1] == "u64" { format!("{}u64", p[2]) } else { p[2].to_string() },
    "b" => p[1].to_string(),
    _ => format!("\"{}\"", String::from_utf8(crate::c07::unhex(p[1])).unwrap()),
  }
}
fn sp_src(tok: &str) -> String { if tok == "_" { "*".into() } else if let Some(n) = tok.strip_prefix('$') { n.to_string() } else { s_src(tok) } }

fn v_src(t: &mut Toks) -> String {
  match t.next() {
    "sc" => s_src(t.next()),
    "tup" => { let k: usize = t.next().parse().unwrap(); format!("({})", (0..k).map(|_| s_src(t.next())).collect::<Vec<_>>().join(", ")) }
    "arr" => { let k: usize = t.next().parse().unwrap(); format!("[{}]", (0..k).map(|_| s_src(t.next())).collect::<Vec<_>>().join(" ")) }
    _ => { let tag = t.next(); let p = t.next(); if p == "-" { format!(":{}", tag) } else { format!(":{}({})", tag, s_src(p)) } }
  }
}
fn p_src(t: &mut Toks) -> String {
  match t.next() {
    "sp" => sp_src(t.next()),
    "tup" => { let k: usize = t.next().parse().unwrap(); format!("({})", (0..k).map(|_| sp_src(t.next())).collect::<Vec<_>>().join(", ")) }
    "arr" => { let np: usize = t.next().parse().unwrap(); let pre: Vec<String> = (0..np).map(|_| sp_src(t.next())).collect();
               let spread = t.next() == "1"; let ns: usize = t.next().parse().unwrap(); let suf: Vec<String> = (0..ns).map(|_| sp_src(t.next())).collect();
               let mut parts = pre; if spread { parts.push("...".into()); } parts.extend(suf); format!("[{}]", parts.join(" ")) }
    _ => { let tag = t.next(); let p = t.next(); if p == "-" { format!(":{}", tag) } else { format!(":{}({})", tag, sp_src(p)) } }
  }
}
fn op_src(o: &str) -> &'static str {
  match o { "add" => "+", "sub" => "-", "mul" => "*", "mod" => "%", "gt" => ">", "lt" => "<", "ge" => ">=", "le" => "<=", "eq" => "==", "ne" => "!=", "and" => "&&", _ => "||" }
}
fn e_src(t: &mut Toks, fname: &str) -> String {
  match t.next() {
    "lit" => s_src(t.next()),
    "var" => t.next().to_string(),
    "bin" => { let o = t.next(); let a = e_src(t, fname); let b = e_src(t, fname); format!("{} {} {}", a, op_src(o), b) }
    "call1" => { let a = e_src(t, fname); format!("{}({})", fname, a) }
    _ => { let a = e_src(t, fname); let b = e_src(t, fname); format!("{}({}, {})", fname, a, b) }
  }
}

pub fn source(case: &str) -> String {
  let f: Vec<&str> = case.split('\t').collect();
  if f[0] == "match" {
    let mut src = String::new();
    let mut vt = Toks::new(f[2]);
    let is_enum = vt.peek() == "enm";
    let v = v_src(&mut vt);
    let form = f.last().and_then(|t| t.strip_prefix("form=")).unwrap_or("var");
    // the matched value: the variable `src`, a mutable variable, or (no enum annotation to carry) written in place
    if form == "lit" && !is_enum {
      let mut arms = vec![];
      for a in f[3].split(";;") {
        let mut t = Toks::new(a);
        let p = p_src(&mut t);
        let g = if t.next() == "g" { format!(", {}", e_src(&mut t, "")) } else { String::new() };
        let b = e_src(&mut t, "");
        arms.push(format!("| {}{} => {}", p, g, b));
      }
      return format!("res := {}? {}.\nres", v, arms.join(" "));
    }
    let tilde = if form == "mut" { "~" } else { "" };
    if is_enum { src.push_str(&format!("<color> := :red<f64> | :green<f64> | :blue\n{}src<color> := ", tilde)); } else { src.push_str(&format!("{}src := ", tilde)); }
    src.push_str(&v); src.push('\n');
    let mut arms = vec![];
    for a in f[3].split(";;") {
      let mut t = Toks::new(a);
      let p = p_src(&mut t);
      let g = if t.next() == "g" { format!(", {}", e_src(&mut t, "")) } else { String::new() };
      let b = e_src(&mut t, "");
      arms.push(format!("| {}{} => {}", p, g, b));
    }
    format!("{}res := src? {}.\nres", src, arms.join(" "))
  } else if f[0] == "fne" {
    // a function of one parameter of an enum kind: `fz(a<color>) => <f64>` with variant patterns and `*`, called with a value of the enum
    let arms: Vec<String> = f[2].split(";;").map(|a| { let mut t = Toks::new(a); let p = p_src(&mut t); let b = e_src(&mut t, "fz"); format!("{} => {}", p, b) }).collect();
    let mut src = String::from("<color> := :red<f64> | :green<f64> | :blue\nfz(a<color>) => <f64>\n");
    for (i, a) in arms.iter().enumerate() { src.push_str(&format!("  {} {}{}\n", if i + 1 == arms.len() { "└" } else { "├" }, a, if i + 1 == arms.len() { "." } else { "" })); }
    let mut vt = Toks::new(f[1]);
    let v = v_src(&mut vt);
    format!("{}src<color> := {}\nfz(src)", src, v)
  } else if f[0] == "fnt" {
    // a function of one tuple parameter: `fz(a<(u64,bool)>) => <u64>` with tuple patterns, called with a tuple
    let kinds = f[1];
    let arms: Vec<String> = f[3].split(";;").map(|a| { let mut t = Toks::new(a); let p = p_src(&mut t); let b = e_src(&mut t, "fz"); format!("{} => {}", p, b) }).collect();
    let mut src = format!("fz(a<({})>) => <u64>\n", kinds);
    for (i, a) in arms.iter().enumerate() { src.push_str(&format!("  {} {}{}\n", if i + 1 == arms.len() { "└" } else { "├" }, a, if i + 1 == arms.len() { "." } else { "" })); }
    let mut vt = Toks::new(f[2]);
    let v = v_src(&mut vt);
    let form = f.last().and_then(|t| t.strip_prefix("form=")).unwrap_or("lit");
    if form == "var" || form == "mut" { format!("{}{}p0 := {}\nfz(p0)", src, if form == "mut" { "~" } else { "" }, v) } else { format!("{}fz({})", src, v) }
  } else {
    let arity: usize = f[1].parse().unwrap(); let kind = f[2];
    let params = ["a", "b"][..arity].iter().map(|n| format!("{}<{}>", n, kind)).collect::<Vec<_>>().join(", ");
    let arms: Vec<String> = f[3].split(";;").map(|a| { let mut t = Toks::new(a); let p = p_src(&mut t); let b = e_src(&mut t, "fz"); format!("{} => {}", p, b) }).collect();
    let mut src = format!("fz({}) => <{}>\n", params, kind);
    for (i, a) in arms.iter().enumerate() { src.push_str(&format!("  {} {}{}\n", if i + 1 == arms.len() { "└" } else { "├" }, a, if i + 1 == arms.len() { "." } else { "" })); }
    let mut args: Vec<String> = if f[5].is_empty() { vec![] } else { f[5].split(',').map(s_src).collect() };
    // the arguments: written in place, or named first (immutable or mutable variables)
    let form = f.last().and_then(|t| t.strip_prefix("form=")).unwrap_or("lit");
    if (form == "var" || form == "mut") && !f[4].starts_with("bcast:") {
      for (i, a) in args.iter_mut().enumerate() { src.push_str(&format!("{}p{} := {}\n", if form == "mut" { "~" } else { "" }, i, a)); *a = format!("p{}", i); }
    }
    if let Some(shape) = f[4].strip_prefix("bcast:") {
      let (r, c) = shape.split_once('x').unwrap(); let r: usize = r.parse().unwrap(); let c: usize = c.parse().unwrap();
      let mut lit = String::from("[");
      for i in 0..r { if i > 0 { lit.push_str("; "); } for j in 0..c { if j > 0 { lit.push(' '); } lit.push_str(&args[j * r + i]); } }
      lit.push(']');
      format!("{}fz({})", src, lit)
    } else { format!("{}fz({})", src, args.join(", ")) }
  }
}

pub fn exec(case: &str) -> String {
  let src = source(case);
  match eval(&src) {
    Ok(v) => canon(&v),
    Err(e) => if e == "hostpanic" || e == "notcode" || e == "parseerr" || e == "parsepanic" { format!("harness:{}:{}", e, hexs(&src)) } else { "err".to_string() },
  }
}

fn nf(x: i64) -> String { format!("n:f64:{}", x) }
fn nu(x: i64) -> String { format!("n:u64:{}", x) }
fn num(kind: &str, x: i64) -> String { if kind == "u64" { nu(x) } else { nf(x) } }

/// a guard over the bound variables `vars` (numbers of `kind`)
fn gen_guard(rng: &mut Rng, vars: &[String], kind: &str) -> String {
  let cmpops = ["gt", "lt", "ge", "le", "eq", "ne"];
  let mut cmp = |rng: &mut Rng| -> String {
    let a = rng.pick(vars).clone(); let o = *rng.pick(&cmpops);
    if vars.len() > 1 && rng.chance(1, 3) { let b = rng.pick(vars).clone(); format!("bin {} var {} var {}", o, a, b) } else { format!("bin {} var {} lit {}", o, a, num(kind, rng.range(0, 4))) } };
  match rng.below(4) { 0 => format!("bin and {} {}", cmp(rng), cmp(rng)), 1 => format!("bin or {} {}", cmp(rng), cmp(rng)), _ => cmp(rng) }
}
fn gen_body(rng: &mut Rng, vars: &[String], kind: &str) -> String {
  if vars.is_empty() || rng.chance(1, 3) { return format!("lit {}", num(kind, rng.range(0, 9) * 10)); }
  let v = rng.pick(vars).clone();
  match rng.below(3) { 0 => format!("var {}", v), 1 => format!("bin add var {} lit {}", v, num(kind, rng.range(1, 5))), _ => format!("bin mul var {} lit {}", v, num(kind, rng.range(2, 3))) }
}

fn sp_gen(rng: &mut Rng, kind: &str, names: &mut Vec<String>, pool: &[&str]) -> String { sp_gen_w(rng, kind, names, pool, true) }
fn sp_gen_w(rng: &mut Rng, kind: &str, names: &mut Vec<String>, pool: &[&str], wild: bool) -> String {
  match rng.below(4) {
    0 if wild => "_".into(),
    1 => num(kind, rng.range(0, 3)),
    _ => { let n = rng.pick(pool).to_string(); if !names.contains(&n) { names.push(n.clone()); } format!("${}", n) }
  }
}

pub fn generate(seed: u64, thorough: bool, sink: &mut Sink) -> Vec<String> {
  let mut rng = Rng::new(seed);
  let mut cases = vec![];
  let n = if thorough { 30000 } else { 2000 };
  // ---- match expressions
  for it in 0..n {
    let src_type = ["f64", "u64", "bool", "string", "tuple2", "tuple3", "array", "enum"][it % 8];
    let kind = if src_type == "u64" { "u64" } else { "f64" };
    let src: String = match src_type {
      "f64" | "u64" => format!("sc {}", num(kind, rng.range(0, 4))),
      "bool" => format!("sc b:{}", rng.chance(1, 2)),
      "string" => format!("sc s:{}", hexs(*rng.pick(&["a", "b", "ab"]))),
      "tuple2" => format!("tup 2 {} {}", nf(rng.range(0, 3)), nf(rng.range(0, 3))),
      "tuple3" => format!("tup 3 {} {} {}", nf(rng.range(0, 3)), nf(rng.range(0, 3)), nf(rng.range(0, 3))),
      "array" => { let k = rng.below(5); let els: Vec<String> = (0..k).map(|_| nf(rng.range(0, 3))).collect(); format!("arr {} {}", k, els.join(" ")).trim_end().to_string() }
      _ => match rng.below(3) { 0 => format!("enm red {}", nf(rng.range(0, 3))), 1 => format!("enm green {}", nf(rng.range(0, 3))), _ => "enm blue -".to_string() },
    };
    let narms = 1 + rng.below(5) as usize;
    let mut arms: Vec<String> = vec![];
    let wildcard_at = if rng.chance(4, 5) { Some(rng.below(narms as u64 + 1) as usize) } else { None };
    for ai in 0..narms {
      if Some(ai) == wildcard_at { arms.push(format!("sp _ - lit {}", nf(rng.range(0, 9) * 10 + 5))); }
      let mut names: Vec<String> = vec![];
      // mostly patterns of the source's shape, now and then of another shape
      let shape = if rng.chance(1, 8) { *rng.pick(&["f64", "tuple2", "array", "enum", "bool", "string"]) } else { src_type };
      let pat: String = match shape {
        "f64" | "u64" => match rng.below(3) { 0 => format!("sp {}", num(kind, rng.range(0, 4))), 1 => { names.push("v".into()); "sp $v".into() } _ => format!("sp {}", num(if rng.chance(1, 6) { "u64" } else { kind }, rng.range(0, 4))) },
        "bool" => match rng.below(3) { 0 => "sp b:true".into(), 1 => "sp b:false".into(), _ => { names.push("v".into()); "sp $v".into() } },
        "string" => match rng.below(3) { 0 => format!("sp s:{}", hexs("a")), 1 => format!("sp s:{}", hexs("b")), _ => { names.push("v".into()); "sp $v".into() } },
        "tuple2" => format!("tup 2 {} {}", sp_gen(&mut rng, "f64", &mut names, &["p", "q"]), sp_gen(&mut rng, "f64", &mut names, &["p", "q"])),
        "tuple3" => format!("tup 3 {} {} {}", sp_gen(&mut rng, "f64", &mut names, &["p", "q", "r"]), sp_gen(&mut rng, "f64", &mut names, &["p", "q", "r"]), sp_gen(&mut rng, "f64", &mut names, &["p", "q", "r"])),
        "array" => { let np = rng.below(3) as usize; let ns = rng.below(2) as usize; let spread = rng.chance(1, 2);
                     // `*` inside an array pattern does not parse: no wildcards there
                     let pre: Vec<String> = (0..np).map(|_| sp_gen_w(&mut rng, "f64", &mut names, &["p", "q", "r"], false)).collect();
                     let suf: Vec<String> = (0..ns).map(|_| sp_gen_w(&mut rng, "f64", &mut names, &["p", "q", "r"], false)).collect();
                     format!("arr {} {} {} {} {}", np, pre.join(" "), if spread { 1 } else { 0 }, ns, suf.join(" ")).split(' ').filter(|x| !x.is_empty()).collect::<Vec<_>>().join(" ") }
        _ => match rng.below(3) { 0 => format!("enm red {}", sp_gen(&mut rng, "f64", &mut names, &["p"])), 1 => format!("enm green {}", sp_gen(&mut rng, "f64", &mut names, &["p"])), _ => "enm blue -".to_string() },
      };
      // a variable bound to a whole tuple / array / enum / bool / string value is only returned, never computed with
      let whole = matches!(shape, "f64" | "u64") && shape != src_type;
      let numeric_vars: Vec<String> = if matches!(shape, "bool" | "string") || whole { vec![] } else { names.clone() };
      let vkind = if shape == "u64" || (shape == src_type && src_type == "u64") { kind } else { "f64" };
      let guard = if !numeric_vars.is_empty() && rng.chance(2, 5) { format!("g {}", gen_guard(&mut rng, &numeric_vars, vkind)) } else { "-".to_string() };
      // bodies are numbers of one kind; now and then a string (arm-kind validation)
      // (rarely) a body that fails: a whole bool/string value in arithmetic
      let body = if matches!(shape, "bool" | "string") && shape == src_type && names.contains(&"v".to_string()) && rng.chance(1, 6) { format!("bin add var v lit {}", nf(1)) }
                 else if rng.chance(1, 25) { format!("lit s:{}", hexs("k")) } else if whole && !names.is_empty() && rng.chance(1, 2) { "var v".to_string() } else if vkind == "f64" { gen_body(&mut rng, &numeric_vars, "f64") } else { format!("lit {}", nf(rng.range(0, 9))) };
      arms.push(format!("{} {} {}", pat, guard, body));
    }
    if wildcard_at == Some(narms) { arms.push(format!("sp _ - lit {}", nf(rng.range(0, 9) * 10 + 5))); }
    let variants = if src_type == "enum" { "red,green,blue" } else { "-" };
    sink.hit(&format!("match:{}", src_type)); if wildcard_at.is_none() { sink.hit("match:no-wildcard"); }
    let case = format!("match\t{}\t{}\t{}", variants, src, arms.join(";;"));
    if cases.len() < 2 { sink.sample(source(&case)); }
    cases.push(case);
  }
  // ---- functions: non-recursive arm families in every order
  for it in 0..n / 2 {
    let kind = if it % 2 == 0 { "u64" } else { "f64" };
    let arity = 1 + (it / 2) % 2;
    let mut arms: Vec<String> = vec![];
    let narms = 1 + rng.below(4) as usize;
    for _ in 0..narms {
      let mut names: Vec<String> = vec![];
      let pat = if arity == 1 { match rng.below(4) { 0 => "sp _".to_string(), 1 => { names.push("v".into()); "sp $v".to_string() } _ => format!("sp {}", num(kind, rng.range(0, 3))) } }
                else { format!("tup 2 {} {}", sp_gen(&mut rng, kind, &mut names, &["p", "q"]), sp_gen(&mut rng, kind, &mut names, &["p", "q"])) };
      // the declared inputs a, b are in scope in every body, whatever the pattern binds
      if rng.chance(1, 3) { names.push("a".into()); if arity == 2 { names.push("b".into()); } }
      arms.push(format!("{} {}", pat, gen_body(&mut rng, &names, kind)));
    }
    let how = match rng.below(10) { 0 => "arity", 1 | 2 if arity == 1 => "bcast", _ => "call" };
    let (howf, args): (String, Vec<String>) = match how {
      "arity" => ("call".into(), (0..(if arity == 1 { 2 } else { if rng.chance(1, 2) { 1 } else { 3 } })).map(|_| num(kind, rng.range(0, 3))).collect()),
      "bcast" => { let r = 1 + rng.below(2) as usize; let c = 1 + rng.below(3) as usize; (format!("bcast:{}x{}", r, c), (0..r * c).map(|_| num(kind, rng.range(0, 3))).collect()) }
      _ => ("call".into(), (0..arity).map(|_| num(kind, rng.range(0, 3))).collect()),
    };
    sink.hit(&format!("fn:{}", how));
    cases.push(format!("fn\t{}\t{}\t{}\t{}\t{}", arity, kind, arms.join(";;"), howf, args.join(",")));
  }
  // ---- functions of one tuple parameter: tuple patterns whose elements are literals of the element's kind (numbers,
  // booleans, strings), variables or wildcards, in every order; the argument in place or through a variable
  for it in 0..n / 4 {
    let width = 2 + (it % 2);
    let ekinds: Vec<&str> = (0..width).map(|j| if j == 0 { "u64" } else { *rng.pick(&["bool", "bool", "string", "u64"]) }).collect();
    let elem = |rng: &mut Rng, k: &str| -> String { match k { "bool" => format!("b:{}", rng.chance(1, 2)), "string" => format!("s:{}", hexs(*rng.pick(&["a", "b"]))), _ => nu(rng.range(0, 3)) } };
    let arg = format!("tup {} {}", width, ekinds.iter().map(|k| elem(&mut rng, k)).collect::<Vec<_>>().join(" "));
    let narms = 1 + rng.below(4) as usize;
    let mut arms: Vec<String> = vec![];
    for ai in 0..narms {
      let mut nums: Vec<String> = vec![];
      let pool = ["p", "q", "r"];
      let pat: String = if ai + 1 == narms && rng.chance(1, 3) { "sp _".to_string() } else {
        let els: Vec<String> = ekinds.iter().enumerate().map(|(j, k)| match rng.below(4) {
          0 => "_".to_string(),
          1 | 2 => elem(&mut rng, k),
          _ => { if *k == "u64" { nums.push(pool[j].to_string()); } format!("${}", pool[j]) } }).collect();
        format!("tup {} {}", width, els.join(" ")) };
      arms.push(format!("{} {}", pat, gen_body(&mut rng, &nums, "u64")));
    }
    sink.hit("fn:tuple-parameter");
    cases.push(format!("fnt\t{}\t{}\t{}", ekinds.join(","), arg, arms.join(";;")));
  }
  // ---- recursive definitions over their domain (canonical and reversed arm order)
  let one = nu(1); let zero = nu(0);
  let fact = vec![format!("sp {} lit {}", zero, one), format!("sp $v bin mul var v call1 bin sub var v lit {}", one)];
  let fib = vec![format!("sp {} lit {}", zero, zero), format!("sp {} lit {}", one, one), format!("sp $v bin add call1 bin sub var v lit {} call1 bin sub var v lit {}", one, nu(2))];
  let power = vec![format!("tup 2 _ {} lit {}", zero, one), format!("tup 2 $p $q bin mul var p call2 var p bin sub var q lit {}", one)];
  let gcd = vec![format!("tup 2 $p {} var p", zero), "tup 2 $p $q call2 var q bin mod var p var q".to_string()];
  let countdown = vec![format!("tup 2 {} $q var q", zero), format!("tup 2 $p $q call2 bin sub var p lit {} bin add var q lit {}", one, nu(2))];
  // tail-recursive definitions whose bodies read a declared input the pattern does not bind: in every
  // iteration of the tail-call loop the inputs stand for the arguments of that iteration
  let countdown_in = vec![format!("tup 2 {} _ var b", zero), format!("tup 2 $p _ call2 bin sub var p lit {} bin add var b lit {}", one, nu(2))];
  let gcd_in = vec![format!("tup 2 _ {} var a", zero), "tup 2 $p $q call2 var q bin mod var p var q".to_string()];
  let factacc_in = vec![format!("tup 2 {} _ var b", zero), format!("tup 2 $p _ call2 bin sub var p lit {} bin mul var b var p", one)];
  let sumdown_in = vec![format!("sp {} lit {}", zero, zero), format!("sp _ bin add var a call1 bin sub var a lit {}", one)];
  let sumto = vec![format!("sp {} lit {}", zero, zero), format!("sp $v bin add var v call1 bin sub var v lit {}", one)];
  let reps = if thorough { 12 } else { 2 };
  for _ in 0..reps {
    for x in 0..=22 { cases.push(format!("fn\t1\tu64\t{}\tcall\t{}", fact.join(";;"), nu(x))); sink.hit("rec:factorial"); }
    for x in 0..=16 { cases.push(format!("fn\t1\tu64\t{}\tcall\t{}", fib.join(";;"), nu(x))); sink.hit("rec:fibonacci"); }
    for _ in 0..20 { let b = rng.range(0, 12); let e = rng.range(0, 25); cases.push(format!("fn\t2\tu64\t{}\tcall\t{},{}", power.join(";;"), nu(b), nu(e))); sink.hit("rec:power"); }
    for _ in 0..20 { let a = rng.range(0, 1000); let b = rng.range(0, 1000); cases.push(format!("fn\t2\tu64\t{}\tcall\t{},{}", gcd.join(";;"), nu(a), nu(b))); sink.hit("rec:gcd"); }
    for d in [0i64, 1, 2, 10, 1000, 20000, 100000] { let d = if d > 10 { d + rng.range(0, 50) } else { d }; cases.push(format!("fn\t2\tu64\t{}\tcall\t{},{}", countdown.join(";;"), nu(d), nu(0))); sink.hit("rec:countdown-tail"); }
    for d in [0i64, 1, 5, 60, 150] { cases.push(format!("fn\t1\tu64\t{}\tcall\t{}", sumto.join(";;"), nu(d))); sink.hit("rec:sum-nontail"); }
    for d in [0i64, 1, 2, 7, 300] { cases.push(format!("fn\t2\tu64\t{}\tcall\t{},{}", countdown_in.join(";;"), nu(d), nu(rng.range(0, 5)))); sink.hit("rec:inputs-in-body"); }
    for _ in 0..8 { let a = rng.range(1, 500); let b = rng.range(1, 500); cases.push(format!("fn\t2\tu64\t{}\tcall\t{},{}", gcd_in.join(";;"), nu(a), nu(b))); sink.hit("rec:inputs-in-body"); }
    for x in [0i64, 1, 2, 5, 12] { cases.push(format!("fn\t2\tu64\t{}\tcall\t{},{}", factacc_in.join(";;"), nu(x), nu(1))); sink.hit("rec:inputs-in-body"); }
    for x in [0i64, 1, 4, 30] { cases.push(format!("fn\t1\tu64\t{}\tcall\t{}", sumdown_in.join(";;"), nu(x))); sink.hit("rec:inputs-in-body"); }
    // reversed arm order: the general arm first
    for x in [0i64, 3] { let mut r = fact.clone(); r.reverse(); cases.push(format!("fn\t1\tu64\t{}\tcall\t{}", r.join(";;"), nu(x))); sink.hit("rec:reversed"); }
    for x in [0i64, 4] { let mut r = countdown.clone(); r.reverse(); cases.push(format!("fn\t2\tu64\t{}\tcall\t{},{}", r.join(";;"), nu(x), nu(0))); sink.hit("rec:reversed"); }
    // broadcast of a recursive function
    cases.push(format!("fn\t1\tu64\t{}\tbcast:2x3\t{}", fact.join(";;"), (0..6).map(|_| nu(rng.range(0, 12))).collect::<Vec<_>>().join(","))); sink.hit("rec:broadcast");
  }
  // how the matched value and the arguments are written
  let mut frng = Rng::new(seed ^ 0xc16f);
  for c in cases.iter_mut() {
    let is_match = c.starts_with("match");
    match frng.below(4) {
      0 => { c.push_str(if is_match { "\tform=lit" } else { "\tform=var" }); sink.hit(if is_match { "matched-value:in-place" } else { "arguments:variables" }); }
      1 => { c.push_str("\tform=mut"); sink.hit(if is_match { "matched-value:mutable" } else { "arguments:mutable" }); }
      _ => { sink.hit(if is_match { "matched-value:variable" } else { "arguments:in-place" }); }
    }
  }
  // functions of one enum parameter: variant arms in any order, the wildcard arm anywhere (or absent), variants left
  // uncovered — accepted when there is a wildcard arm or every variant has an arm.  Its own generator state
  {
    let mut r3 = Rng::new(seed ^ 0xE9E);
    for _ in 0..(if thorough { 1500 } else { 150 }) {
      let n = 1 + r3.below(4) as usize;
      let mut arms: Vec<String> = vec![];
      for _ in 0..n {
        let body_lit = format!("lit {}", nf(r3.range(0, 9)));
        arms.push(match r3.below(5) {
          0 => format!("sp _ {}", body_lit),
          1 | 2 => { let tag = *r3.pick(&["red", "green"]);
            match r3.below(3) { 0 => format!("enm {} $q var q", tag), 1 => format!("enm {} {} {}", tag, nf(r3.range(0, 3)), body_lit), _ => format!("enm {} _ {}", tag, body_lit) } }
          3 => format!("enm blue - {}", body_lit),
          _ => { let tag = *r3.pick(&["red", "green"]); format!("enm {} $q {}", tag, body_lit) } });
      }
      let v = match r3.below(3) { 0 => format!("enm red {}", nf(r3.range(0, 3))), 1 => format!("enm green {}", nf(r3.range(0, 3))), _ => "enm blue -".to_string() };
      sink.hit("fn:enum-parameter");
      cases.push(format!("fne\t{}\t{}", v, arms.join(";;")));
    }
  }
  cases
}
