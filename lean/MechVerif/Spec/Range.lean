/- Reference semantics for C15: the arithmetic progression a, a+s, a+2s, … -/
import MechVerif.Model.Range
namespace MechVerif.Range

/-- the first `n` terms of the progression -/
def prog (a s : Int) (n : Nat) : List Int := (List.range n).map (fun (i : Nat) => a + (i : Int) * s)

/-- what the property demands of an integer range with positive step:
    exactly the terms before `b` (exclusive) / up to `b` (inclusive) -/
def IsRange (incl : Bool) (a s b : Int) (xs : List Int) : Prop :=
  ∃ n : Nat, xs = prog a s n ∧
    ∀ i : Nat, i < n ↔ (if incl then a + (i : Int) * s ≤ b else a + (i : Int) * s < b)

end MechVerif.Range
