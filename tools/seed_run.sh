#!/bin/bash
# usage: tools/seed_run.sh <seeded-dir> [checks...]   applies seeded/<dir>/patch.diff to /repo, runs the checks (default: all), undoes it
set -u
d="$1"; shift
cd /verif
if [ -n "$(git -C /repo status --porcelain)" ]; then echo "/repo is not clean"; exit 2; fi
git -C /repo apply "/verif/seeded/$d/patch.diff" || { echo "patch does not apply"; exit 2; }
checks="$@"; [ -z "$checks" ] && checks="C01 C02 C03 C04 C05 C06 C07 C08 C09 C10 C11 C12 C13 C14 C15 C16 C17 C18 C19 C20"
res=""
for c in $checks; do
  out=$(./check $c --tier quick --seed 1 2>&1 | grep -v KNOWN-FINDING | tail -3)
  if echo "$out" | grep -q "^VIOLATION"; then res="$res $c:CAUGHT"; cp -f replays/$c-violation-1.json "seeded/$d/replay-$c.json" 2>/dev/null; else res="$res $c:pass"; fi
done
git -C /repo checkout -- .
# a check that "catches" the change must be quiet on the unchanged tree for the same cases: replay what it reported
for c in $checks; do
  if [ -f "seeded/$d/replay-$c.json" ] && echo "$res" | grep -q " $c:CAUGHT"; then
    if ./check $c --replay "seeded/$d/replay-$c.json" 2>&1 | grep -q "^VIOLATION"; then res=$(echo "$res" | sed "s/ $c:CAUGHT/ $c:RED-ON-THE-UNCHANGED-TREE/"); fi
  fi
done
# what the run wrote from the patched tree must not stay: the generated level table and the evidence files
git -C /verif checkout -- evidence lean/MechVerif/Gen 2>/dev/null
rm -f replays/*-violation-1.json
echo "RESULT $d:$res"
