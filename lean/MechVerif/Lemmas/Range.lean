import MechVerif.Spec.Range
namespace MechVerif.Range
open MechVerif.Num

theorem prog_succ (a s : Int) (n : Nat) : prog a s (n + 1) = a :: prog (a + s) s n := by
  simp only [prog, List.range_succ_eq_map, List.map_cons, List.map_map]
  congr 1
  · simp
  · apply List.map_congr_left
    intro i _
    simp only [Function.comp]
    have : ((i + 1 : Nat) : Int) = (i : Int) + 1 := by omega
    rw [this, Int.add_mul]; omega

theorem prog_length (a s : Int) (n : Nat) : (prog a s n).length = n := by simp [prog]

theorem fillInt_spec (k : IKind) (s : Int) : ∀ (n : Nat) (a : Int) (xs : List Int),
    fillInt k s n a = .ok xs → xs = prog a s n := by
  intro n
  induction n with
  | zero => intro a xs h; simp [fillInt] at h; subst h; rfl
  | succ n ih =>
    intro a xs h
    simp only [fillInt] at h
    split at h
    · split at h
      · rename_i ys hy
        simp only [Except.ok.injEq] at h; subst h
        rw [prog_succ, ih _ _ hy]
      · simp at h
    · simp at h

/-- with a non-negative step the loop succeeds exactly when the value *after* the
    last element is still representable -/
theorem fillInt_ok (k : IKind) (s : Int) (hs : 0 ≤ s) : ∀ (n : Nat) (a : Int),
    k.inR a = true → k.inR (a + (n : Int) * s) = true →
    fillInt k s n a = .ok (prog a s n) := by
  intro n
  induction n with
  | zero => intro a _ _; rfl
  | succ n ih =>
    intro a ha hlast
    have hmid : k.inR (a + s) = true := by
      simp only [IKind.inR, Bool.and_eq_true, decide_eq_true_eq] at *
      have h1 : ((n + 1 : Nat) : Int) * s = (n : Int) * s + s := by
        have : ((n + 1 : Nat) : Int) = (n : Int) + 1 := by omega
        rw [this, Int.add_mul]; omega
      have h2 : 0 ≤ (n : Int) * s := Int.mul_nonneg (by omega) hs
      omega
    have hlast' : k.inR (a + s + (n : Int) * s) = true := by
      have h1 : ((n + 1 : Nat) : Int) * s = (n : Int) * s + s := by
        have : ((n + 1 : Nat) : Int) = (n : Int) + 1 := by omega
        rw [this, Int.add_mul]; omega
      rw [h1] at hlast
      have : a + s + (n : Int) * s = a + ((n : Int) * s + s) := by omega
      rw [this]; exact hlast
    simp only [fillInt, hmid, if_true, ih (a + s) hmid hlast', prog_succ]

theorem fillInt_overflow_last (k : IKind) (s : Int) (a : Int) (n : Nat)
    (h : k.inR (a + ((n + 1 : Nat) : Int) * s) = false) (hs : 0 ≤ s) (ha : k.inR a = true) :
    ∃ e, fillInt k s (n + 1) a = .error e := by
  cases hf : fillInt k s (n + 1) a with
  | error e => exact ⟨e, rfl⟩
  | ok xs =>
    exfalso
    -- an ok result would need every intermediate value, including the last, in range
    have key : ∀ (m : Nat) (c : Int) (ys : List Int), fillInt k s m c = .ok ys →
        m ≠ 0 → k.inR (c + (m : Int) * s) = true := by
      intro m
      induction m with
      | zero => intro c ys _ hm; exact absurd rfl hm
      | succ m ih =>
        intro c ys hy _
        simp only [fillInt] at hy
        split at hy
        · rename_i hin
          split at hy
          · rename_i zs hz
            cases m with
            | zero => simpa using hin
            | succ m' =>
              have := ih (c + s) zs hz (by omega)
              have e1 : c + s + ((m' + 1 : Nat) : Int) * s = c + ((m' + 1 + 1 : Nat) : Int) * s := by
                have : ((m' + 1 + 1 : Nat) : Int) = ((m' + 1 : Nat) : Int) + 1 := by omega
                rw [this, Int.add_mul]; omega
              rw [e1] at this; exact this
          · simp at hy
        · simp at hy
    have := key (n + 1) a xs hf (by omega)
    rw [this] at h; cases h

theorem qFloor_lt (d s : Int) (hs : 0 < s) (hd : 0 ≤ d) (i : Nat) :
    i < qFloor d s + 1 ↔ (i : Int) * s ≤ d := by
  unfold qFloor
  have hq : 0 ≤ d / s := Int.ediv_nonneg hd (by omega)
  have h1 : (i : Int) ≤ d / s ↔ (i : Int) * s ≤ d := Int.le_ediv_iff_mul_le hs
  rw [← h1]
  omega

theorem qCeil_lt (d s : Int) (hs : 0 < s) (hd : 0 ≤ d) (i : Nat) :
    i < qCeil d s ↔ (i : Int) * s < d := by
  unfold qCeil
  have hq : 0 ≤ (d + s - 1) / s := Int.ediv_nonneg (by omega) (by omega)
  have h1 : ((i : Int) + 1) ≤ (d + s - 1) / s ↔ ((i : Int) + 1) * s ≤ d + s - 1 :=
    Int.le_ediv_iff_mul_le hs
  have h2 : ((i : Int) + 1) * s = (i : Int) * s + s := by rw [Int.add_mul]; omega
  rw [h2] at h1
  constructor
  · intro h
    have : (i : Int) + 1 ≤ (d + s - 1) / s := by omega
    have := h1.mp this
    omega
  · intro h
    have : (i : Int) * s + s ≤ d + s - 1 := by omega
    have := h1.mpr this
    omega

end MechVerif.Range
