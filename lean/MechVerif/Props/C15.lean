/-
C15 — Ranges are the arithmetic progressions they denote.
Model: `Model/Range.lean` (mirrors machines/range/src/*.rs), spec: `Spec/Range.lean`.
Integer kinds carry the exact theorems; float kinds run the same control flow over a
parameter structure of float operations (see DESIGN.md §3) and get the structural theorem.
-/
import MechVerif.Gen.RangeArms
import MechVerif.Lemmas.Range
namespace MechVerif.Range
open MechVerif.Num

def isOkWith (r : Except Err (List Int)) (xs : List Int) : Prop := r = .ok xs
def isErr {α : Type} (r : Except Err α) : Prop := ∃ e, r = .error e

/-- `a..b` on an integer kind: exactly the terms a, a+1, … before b — whenever the
    span `b - a` is representable in the kind (always, for unsigned kinds). -/
theorem C15_range_excl_spec (k : IKind) (a b : Int)
    (ha : k.inR a = true) (hb : k.inR b = true) (hab : a < b) (hspan : k.inR (b - a) = true) :
    ∃ xs, rangeExclInt k a b = .ok xs ∧ IsRange false a 1 b xs := by
  refine ⟨prog a 1 (b - a).toNat, ?_, (b - a).toNat, rfl, ?_⟩
  · unfold rangeExclInt
    have h1 : ¬ (b - a < 0) := by omega
    have h2 : ¬ ((b - a == 0) = true) := by simp; omega
    simp only [hspan, Bool.not_true, Bool.false_eq_true, if_false, h1, h2]
    apply fillInt_ok k 1 (by omega) _ a ha
    have : a + ((b - a).toNat : Int) * 1 = b := by omega
    rw [this]; exact hb
  · intro i; simp only [Bool.false_eq_true, if_false]; omega

/-- for unsigned kinds the span hypothesis is automatic -/
theorem C15_range_excl_unsigned (k : IKind) (hk : k.signed = false) (a b : Int)
    (ha : k.inR a = true) (hb : k.inR b = true) (hab : a < b) :
    ∃ xs, rangeExclInt k a b = .ok xs ∧ IsRange false a 1 b xs := by
  apply C15_range_excl_spec k a b ha hb hab
  simp only [IKind.inR, IKind.lo, IKind.hi, hk, Bool.false_eq_true, if_false, Bool.and_eq_true,
    decide_eq_true_eq] at *
  omega

/-- `a..=b`: exactly a, a+1, …, b — whenever the element after `b` is still
    representable (`b < max`); see the counterexample for `b = max`. -/
theorem C15_range_incl_spec_partial (k : IKind) (a b : Int)
    (ha : k.inR a = true) (hb1 : k.inR (b + 1) = true) (hab : a ≤ b)
    (hspan : k.inR (b - a) = true) (hspan1 : k.inR (b - a + 1) = true) :
    ∃ xs, rangeInclInt k a b = .ok xs ∧ IsRange true a 1 b xs := by
  refine ⟨prog a 1 (b - a + 1).toNat, ?_, (b - a + 1).toNat, rfl, ?_⟩
  · unfold rangeInclInt
    have h1 : ¬ (b - a + 1 < 0) := by omega
    have h2 : ¬ ((b - a + 1 == 0) = true) := by simp; omega
    simp only [hspan, hspan1, Bool.not_true, Bool.false_eq_true, if_false, h1, h2]
    apply fillInt_ok k 1 (by omega) _ a ha
    have : a + ((b - a + 1).toNat : Int) * 1 = b + 1 := by omega
    rw [this]; exact hb1
  · intro i; simp only [if_true]; omega

theorem incSize_floor (s d : Int) (hs : 0 < s) (hd : 0 ≤ d) :
    incSize true qFloor d s = .ok (qFloor d s + 1) := by
  unfold incSize
  have h0 : ¬ s = 0 := by omega
  rw [if_neg h0]
  by_cases hpos : 0 < d
  · rw [if_pos (Or.inl ⟨hpos, hs⟩)]; rfl
  · have hz : d = 0 := by omega
    have hn : ¬ ((0 < d ∧ 0 < s) ∨ (d < 0 ∧ s < 0)) := by omega
    rw [if_neg hn]
    subst hz
    simp [qFloor]

theorem incSize_ceil (s d : Int) (hs : 0 < s) (hd : 0 < d) :
    incSize false qCeil d s = .ok (qCeil d s) := by
  unfold incSize
  have h0 : ¬ s = 0 := by omega
  rw [if_neg h0, if_pos (Or.inl ⟨hd, hs⟩)]; rfl

/-- increment forms with a positive step: exactly the terms a, a+s, … before / up to
    `b`, provided the value one step past the last element is representable. -/
theorem C15_range_inc_spec_partial (k : IKind) (incl : Bool) (a s b : Int)
    (ha : k.inR a = true) (hs : 0 < s) (hab : if incl then a ≤ b else a < b)
    (hspan : k.inR (b - a) = true)
    (hpast : k.inR (a + ((if incl then qFloor (b - a) s + 1 else qCeil (b - a) s : Nat) : Int) * s) = true) :
    ∃ xs, rangeIncInt k incl (if incl then qFloor else qCeil) a s b = .ok xs ∧ IsRange incl a s b xs := by
  cases incl with
  | true =>
    simp only [if_true] at hab hpast
    refine ⟨prog a s (qFloor (b - a) s + 1), ?_, qFloor (b - a) s + 1, rfl, ?_⟩
    · unfold rangeIncInt
      have h1 : ¬ (b - a < 0) := by omega
      have hsp : ¬ (k.inR (b - a) = false) := by rw [hspan]; simp
      rw [if_neg hsp, if_neg h1]
      simp only [if_true, incSize_floor s (b - a) hs (by omega)]
      exact fillInt_ok k s (by omega) _ a ha hpast
    · intro i
      simp only [if_true]
      rw [qFloor_lt (b - a) s hs (by omega) i]
      omega
  | false =>
    simp only [Bool.false_eq_true, if_false] at hab hpast
    refine ⟨prog a s (qCeil (b - a) s), ?_, qCeil (b - a) s, rfl, ?_⟩
    · unfold rangeIncInt
      have h1 : ¬ (b - a < 0) := by omega
      have hsp : ¬ (k.inR (b - a) = false) := by rw [hspan]; simp
      have hn : qCeil (b - a) s ≠ 0 := by
        intro h0'
        have := (qCeil_lt (b - a) s hs (by omega) 0).mpr (by simp; omega)
        omega
      rw [if_neg hsp, if_neg h1]
      simp only [Bool.false_eq_true, if_false, incSize_ceil s (b - a) hs (by omega)]
      cases hq : qCeil (b - a) s with
      | zero => exact absurd hq hn
      | succ m =>
        rw [hq] at hpast
        exact fillInt_ok k s (by omega) _ a ha hpast
    · intro i
      simp only [Bool.false_eq_true, if_false]
      rw [qCeil_lt (b - a) s hs (by omega) i]
      omega

/-- the vector a range evaluates to is always an initial segment of the progression -/
theorem C15_range_is_progression (k : IKind) (incl : Bool) (q : Int → Int → Nat) (a s b : Int)
    (xs : List Int) (h : rangeIncInt k incl q a s b = .ok xs) :
    ∃ n, xs = prog a s n ∧ xs.length = n := by
  unfold rangeIncInt at h
  split at h; · simp at h
  split at h; · simp at h
  split at h
  · simp at h
  · simp at h
  · rename_i n _ _
    exact ⟨n, fillInt_spec k s n a xs h, by rw [fillInt_spec k s n a xs h, prog_length]⟩

/-- a zero step is rejected -/
theorem C15_rejects_zero_step (k : IKind) (incl : Bool) (q : Int → Int → Nat) (a b : Int) :
    isErr (rangeIncInt k incl q a 0 b) := by
  unfold rangeIncInt incSize isErr
  split; · exact ⟨_, rfl⟩
  split; · exact ⟨_, rfl⟩
  simp

/-- bounds in the wrong order are rejected (all four forms) -/
theorem C15_rejects_wrong_order (k : IKind) (incl : Bool) (q : Int → Int → Nat) (a s b : Int)
    (h : b < a) :
    isErr (rangeExclInt k a b) ∧ isErr (rangeIncInt k incl q a s b) ∧
    (b + 1 < a → isErr (rangeInclInt k a b)) := by
  refine ⟨?_, ?_, ?_⟩
  · unfold rangeExclInt isErr
    split; · exact ⟨_, rfl⟩
    have : b - a < 0 := by omega
    simp [this]
  · unfold rangeIncInt isErr
    split; · exact ⟨_, rfl⟩
    have : b - a < 0 := by omega
    simp [this]
  · intro h2
    unfold rangeInclInt isErr
    split; · exact ⟨_, rfl⟩
    split; · exact ⟨_, rfl⟩
    have : b - a + 1 < 0 := by omega
    simp [this]

def iter {α : Type} (f : α → α) : Nat → α → α
  | 0, x => x
  | n + 1, x => iter f n (f x)

/-- float kinds: length and elements of what the fill loop produces (repeated
    addition of the step), for any float operations -/
theorem C15_float_fill {F : Type} (o : FOps F) (s : F) : ∀ (n : Nat) (a : F),
    (fillF o s n a).length = n ∧
    ∀ i, i < n → (fillF o s n a)[i]? = some (iter (fun x => o.add x s) i a) := by
  intro n
  induction n with
  | zero => intro a; exact ⟨rfl, fun i hi => absurd hi (Nat.not_lt_zero i)⟩
  | succ n ih =>
    intro a
    refine ⟨by simp [fillF, (ih (o.add a s)).1], ?_⟩
    intro i hi
    cases i with
    | zero => simp [fillF, iter]
    | succ j =>
      simp only [fillF, List.getElem?_cons_succ, iter]
      exact (ih (o.add a s)).2 j (by omega)

/-! ### full statements that fail at the pinned commit, with kernel-checked witnesses -/

def isOverflow (r : Except Err (List Int)) : Bool :=
  match r with | .error .overflow => true | _ => false

/-- D1: an inclusive range ending at the kind's maximum is an error (the fill loop
    steps once past the last element) although [250 … 255] exists in u8. -/
theorem C15_counterexample_D1 : isOverflow (rangeInclInt .u8 250 255) = true := by decide

/-- D1 for the increment forms: `250u8..2u8..=254u8` (last + step overflows). -/
theorem C15_counterexample_D1_inc : isOverflow (rangeIncInt .u8 true qFloor 250 2 254) = true := by decide

/-- D3: a signed range whose span is not representable in the kind is an error:
    `-128i8..127i8` (255 elements of i8). -/
theorem C15_counterexample_D3 : isOverflow (rangeExclInt .i8 (-128) 127) = true := by decide

/-! ### non-vacuity -/
example : rangeExclInt .u8 250 255 = .ok [250, 251, 252, 253, 254] := by decide
example : rangeInclInt .i8 (-3) 3 = .ok [-3, -2, -1, 0, 1, 2, 3] := by decide
example : rangeIncInt .i16 false qCeil (-3) 4 9 = .ok [-3, 1, 5] := by decide
example : rangeIncInt .i16 true qFloor (-3) 4 9 = .ok [-3, 1, 5, 9] := by decide
example : IKind.inR .i16 (-3 + ((qFloor (9 - (-3)) 4 + 1 : Nat) : Int) * 4) = true := by decide

end MechVerif.Range

/-! ### the operand forms, as the fallback arms are written in the source

`Gen/RangeArms.lean` is regenerated from machines/range/src on every run (`tools/extract_range_arms.py`); its theorem
`C15_fallback_arms_ok` is a `decide` proof over the extracted arms.  The theorem here says what the extracted arms do. -/
namespace MechVerif.RangeArms

def armsOf (name : String) : List Arm :=
  ((Gen.RangeArms.forms.find? (fun f => f.1 == name)).map (fun f => f.2.2)).getD []

/-- **Whatever mix of plain values and references to variables the operands of a range are written with, the range's
    constructor receives the operands' values in the order written** — for the two-operand forms `a..b`, `a..=b` … -/
theorem C15_two_operand_forms_reach_the_constructor {α : Type} (name : String)
    (hn : name = "exclusive" ∨ name = "inclusive") (a b : Opnd α) (href : a.isRef = true ∨ b.isRef = true) :
    dispatch (armsOf name) [a, b] = some [a.value, b.value] := by
  rcases hn with rfl | rfl <;> cases a <;> cases b <;> simp [Opnd.isRef] at href <;> rfl

/-- … and for the stepped forms `a..s..b`, `a..s..=b` (start, step, end). -/
theorem C15_stepped_forms_reach_the_constructor {α : Type} (name : String)
    (hn : name = "exclusive_increment" ∨ name = "inclusive_increment") (a s b : Opnd α)
    (href : a.isRef = true ∨ s.isRef = true ∨ b.isRef = true) :
    dispatch (armsOf name) [a, s, b] = some [a.value, s.value, b.value] := by
  rcases hn with rfl | rfl <;> cases a <;> cases s <;> cases b <;> simp [Opnd.isRef] at href <;> rfl

/-! non-vacuity: an arm that exchanges step and end is refused; a shadowed arm is refused -/
example : armOk 3 ⟨[false, true, true], [(1, false), (3, true), (2, true)]⟩ = false := by decide
example : formOk ("x", 2, [⟨[true, false], [(1, true), (2, false)]⟩, ⟨[true, true], [(1, true), (2, true)]⟩,
    ⟨[false, true], [(1, false), (2, true)]⟩]) = false := by decide
example : dispatch (armsOf "inclusive_increment") [Opnd.val 0, Opnd.ref 2, Opnd.ref 10] = some [0, 2, 10] := by decide

end MechVerif.RangeArms
