"""A small tokenizer and recursive-descent parser for the subset of Rust the include expander of src/mechfs.rs is written
in (used by tools/extract_include.py).  Anything outside the subset raises `Unrecognised` — the parser never guesses.

AST (tuples):
  expressions  ('int', n) ('char', c) ('byte', c) ('str', s) ('bool', b) ('path', [seg, …]) ('unary', op, e)
               ('bin', op, l, r) ('cast', e, type) ('call', f, [args]) ('mcall', recv, name, [args]) ('field', e, name)
               ('index', e, i) ('range', lo|None, hi|None) ('tuple', [es]) ('closure', [pats], body) ('try', e)
               ('macro', name, [tokens]) ('struct', [seg, …], [(field, e)]) ('match', e, [(pat, e)])
               ('if', cond, block, else|None) ('iflet', pat, e, block, else|None) ('block', block)
  statements   ('let', pat, type|None, e|None, else_block|None) ('expr', e) ('while', cond, block) ('for', pat, e, block)
               ('return', e|None) ('continue',) ('break',) ('assign', lhs, op, e)
  block        (stmts, final expression | None)
  patterns     ('wild',) ('bind', name, mutable) ('ptuple', [pats]) ('pctor', [seg, …], [pats]) ('plit', e)
  types        the tokens joined by one space
"""
import re

class Unrecognised(Exception):
    pass

_ESC = {'n': '\n', 'r': '\r', 't': '\t', '\\': '\\', "'": "'", '"': '"', '0': '\0'}
_OPS = ["<<=", ">>=", "...", "..=", "::", "->", "=>", "==", "!=", "<=", ">=", "&&", "||", "+=", "-=", "*=", "/=", "%=", "..",
        "<<", ">>"]

def tokenize(text):
    """returns a list of tokens (kind, value): kinds id, int, char, byte, str, life, op"""
    text = text.replace('\r\n', '\n').replace('\r', '\n')
    out, i, n = [], 0, len(text)
    def esc(j):
        # text[j] == '\\'
        c = text[j + 1]
        if c in _ESC: return _ESC[c], j + 2
        if c == 'x': return chr(int(text[j + 2:j + 4], 16)), j + 4
        if c == 'u':
            m = re.compile(r'\{([0-9a-fA-F_]+)\}').match(text, j + 2)
            if not m: raise Unrecognised("escape at %d" % j)
            return chr(int(m.group(1).replace('_', ''), 16)), m.end()
        raise Unrecognised("escape \\%s" % c)
    while i < n:
        c = text[i]
        if c in ' \t\n': i += 1; continue
        if text.startswith('//', i):
            j = text.find('\n', i); i = n if j < 0 else j; continue
        if text.startswith('/*', i):
            d, j = 1, i + 2
            while j < n and d:
                if text.startswith('/*', j): d += 1; j += 2
                elif text.startswith('*/', j): d -= 1; j += 2
                else: j += 1
            i = j; continue
        if c == '"' or (c == 'b' and text.startswith('b"', i)):
            if c == 'b': raise Unrecognised("byte string literal")
            j, s = i + 1, []
            while j < n and text[j] != '"':
                if text[j] == '\\':
                    if text[j + 1] == '\n':
                        j += 2
                        while j < n and text[j] in ' \t\n': j += 1
                        continue
                    ch, j = esc(j); s.append(ch)
                else: s.append(text[j]); j += 1
            if j >= n: raise Unrecognised("unterminated string")
            out.append(('str', ''.join(s))); i = j + 1; continue
        if c == "'" or (c == 'b' and text.startswith("b'", i)):
            k = i + 1 if c == "'" else i + 2
            kind = 'char' if c == "'" else 'byte'
            if k < n and text[k] == '\\':
                ch, j = esc(k)
                if j < n and text[j] == "'":
                    out.append((kind, ch)); i = j + 1; continue
                raise Unrecognised("char literal at %d" % i)
            if k + 1 < n and text[k + 1] == "'" and text[k] != "'":
                out.append((kind, text[k])); i = k + 2; continue
            if kind == 'char':
                m = re.compile(r"[A-Za-z_]\w*").match(text, k)
                if m: out.append(('life', m.group(0))); i = m.end(); continue
            raise Unrecognised("quote at %d" % i)
        m = re.compile(r'[A-Za-z_]\w*').match(text, i)
        if m: out.append(('id', m.group(0))); i = m.end(); continue
        m = re.compile(r'(\d[\d_]*)(usize|u8|u16|u32|u64|i32|i64|isize)?').match(text, i)
        if m:
            if m.end() < n and text[m.end()] == '.' and text[m.end():m.end() + 2] != '..' and not re.match(r'[A-Za-z_]', text[m.end() + 1:m.end() + 2]):
                raise Unrecognised("float literal")
            out.append(('int', int(m.group(1).replace('_', '')))); i = m.end(); continue
        for op in _OPS:
            if text.startswith(op, i):
                out.append(('op', op)); i += len(op); break
        else:
            if c in "+-*/%^!&|=<>@.,;:#$?~()[]{}":
                out.append(('op', c)); i += 1
            else: raise Unrecognised("character %r" % c)
    return out

_BIN = [["||"], ["&&"], ["==", "!=", "<", ">", "<=", ">="], ["|"], ["^"], ["&"], ["<<", ">>"], ["+", "-"], ["*", "/", "%"]]

class Parser:
    def __init__(self, toks):
        self.t, self.p = toks, 0
    def peek(self, k=0):
        return self.t[self.p + k] if self.p + k < len(self.t) else ('eof', None)
    def at(self, v, k=0):
        t = self.peek(k); return t[0] in ('op', 'id') and t[1] == v
    def take(self, v=None):
        t = self.peek()
        if t[0] == 'eof' or (v is not None and not (t[0] in ('op', 'id') and t[1] == v)):
            raise Unrecognised("expected %r, found %r" % (v, t[1]))
        self.p += 1; return t
    def ident(self):
        t = self.take()
        if t[0] != 'id': raise Unrecognised("expected a name, found %r" % (t[1],))
        return t[1]
    # ---- types: kept as text
    def type_until(self, stops):
        d, out = 0, []
        while True:
            t = self.peek()
            if t[0] == 'eof': raise Unrecognised("type runs to the end")
            if d == 0 and t[0] == 'op' and t[1] in stops: break
            if d == 0 and t[0] == 'op' and t[1] in (')', ']') : break
            if t[0] == 'op' and t[1] in ('<', '(', '['): d += 1
            if t[0] == 'op' and t[1] in ('>', ')', ']'): d -= 1
            if t[0] == 'op' and t[1] == '>>': d -= 2
            out.append("'" + t[1] if t[0] == 'life' else str(t[1])); self.p += 1
        return ' '.join(out)
    # ---- patterns
    def pattern(self):
        t = self.peek()
        if t[0] == 'op' and t[1] == '(':
            self.take('('); ps = []
            while not self.at(')'):
                ps.append(self.pattern())
                if self.at(','): self.take(',')
                else: break
            self.take(')'); return ('ptuple', ps)
        if t[0] == 'op' and t[1] == '&':
            self.take('&'); return self.pattern()
        if t[0] in ('int', 'char', 'byte', 'str'):
            self.p += 1; return ('plit', (t[0], t[1]))
        if t[0] != 'id': raise Unrecognised("pattern at %r" % (t[1],))
        if t[1] == '_': self.p += 1; return ('wild',)
        mutable = False
        while self.at('mut') or self.at('ref'):
            mutable = mutable or self.at('mut'); self.p += 1
        segs = [self.ident()]
        while self.at('::'):
            self.take('::'); segs.append(self.ident())
        if self.at('('):
            self.take('('); ps = []
            while not self.at(')'):
                ps.append(self.pattern())
                if self.at(','): self.take(',')
                else: break
            self.take(')'); return ('pctor', segs, ps)
        if self.at('{'): raise Unrecognised("struct pattern")
        if len(segs) > 1 or segs[0] in ('None', 'true', 'false'):
            if segs[0] in ('true', 'false'): return ('plit', ('bool', segs[0] == 'true'))
            return ('pctor', segs, [])
        return ('bind', segs[0], mutable)
    # ---- expressions
    def expr(self, nostruct=False):
        return self.range_(nostruct)
    def range_(self, nostruct):
        if self.at('..'):
            self.take('..')
            hi = None if self.range_end() else self.binary(0, nostruct)
            return ('range', None, hi)
        l = self.binary(0, nostruct)
        if self.at('..'):
            self.take('..')
            hi = None if self.range_end() else self.binary(0, nostruct)
            return ('range', l, hi)
        if self.at('..='): raise Unrecognised("inclusive range")
        return l
    def range_end(self):
        t = self.peek(); return t[0] == 'eof' or (t[0] == 'op' and t[1] in (']', ')', ';', ',', '{', '}'))
    def binary(self, lvl, nostruct):
        if lvl == len(_BIN): return self.cast(nostruct)
        l = self.binary(lvl + 1, nostruct)
        while self.peek()[0] == 'op' and self.peek()[1] in _BIN[lvl]:
            if self.peek()[1] == '|' and lvl == 3 and False: break
            op = self.take()[1]
            r = self.binary(lvl + 1, nostruct)
            l = ('bin', op, l, r)
            if lvl == 2 and self.peek()[0] == 'op' and self.peek()[1] in _BIN[2]: raise Unrecognised("chained comparison")
        return l
    def cast(self, nostruct):
        e = self.unary(nostruct)
        while self.at('as'):
            self.take('as'); e = ('cast', e, self.ident())
        return e
    def unary(self, nostruct):
        t = self.peek()
        if t[0] == 'op' and t[1] in ('!', '-', '*'):
            self.p += 1; return ('unary', t[1], self.unary(nostruct))
        if t[0] == 'op' and t[1] in ('&', '&&'):
            self.p += 1
            if self.at('mut'): self.take('mut')
            return ('unary', '&', self.unary(nostruct))
        return self.postfix(nostruct)
    def args(self):
        self.take('('); a = []
        while not self.at(')'):
            a.append(self.expr())
            if self.at(','): self.take(',')
            else: break
        self.take(')'); return a
    def postfix(self, nostruct):
        e = self.primary(nostruct)
        while True:
            if self.at('?'): self.take('?'); e = ('try', e)
            elif self.at('('): e = ('call', e, self.args())
            elif self.at('['):
                self.take('['); i = self.expr(); self.take(']'); e = ('index', e, i)
            elif self.at('.'):
                self.take('.')
                t = self.take()
                if t[0] == 'int': e = ('field', e, str(t[1]))
                elif t[0] == 'id':
                    if self.at('::'): raise Unrecognised("turbofish")
                    if self.at('('): e = ('mcall', e, t[1], self.args())
                    else: e = ('field', e, t[1])
                else: raise Unrecognised("after '.': %r" % (t[1],))
            else: return e
    def block(self):
        self.take('{'); stmts, final = [], None
        while not self.at('}'):
            s, is_final = self.stmt()
            if is_final: final = s; break
            stmts.append(s)
        self.take('}'); return (stmts, final)
    def if_(self):
        self.take('if')
        if self.at('let'):
            self.take('let'); pat = self.pattern(); self.take('='); e = self.expr(nostruct=True)
            then = self.block(); els = self.else_()
            return ('iflet', pat, e, then, els)
        c = self.expr(nostruct=True); then = self.block(); els = self.else_()
        return ('if', c, then, els)
    def else_(self):
        if not self.at('else'): return None
        self.take('else')
        if self.at('if'): return ([], self.if_())
        return self.block()
    def match_(self):
        self.take('match'); e = self.expr(nostruct=True); self.take('{'); arms = []
        while not self.at('}'):
            pat = self.pattern()
            if self.at('|') or self.at('if'): raise Unrecognised("or-pattern / guard")
            self.take('=>')
            if self.at('{'):
                body = ('block', self.block())
                if self.at(','): self.take(',')
            else:
                body = self.expr()
                if self.at(','): self.take(',')
                elif not self.at('}'): raise Unrecognised("match arm without a comma")
            arms.append((pat, body))
        self.take('}'); return ('match', e, arms)
    def primary(self, nostruct):
        t = self.peek()
        if t[0] in ('int', 'char', 'byte', 'str'): self.p += 1; return (t[0], t[1])
        if t[0] == 'op':
            if t[1] == '(':
                self.take('(')
                if self.at(')'): self.take(')'); return ('tuple', [])
                e = self.expr()
                if self.at(')'): self.take(')'); return e
                es = [e]
                while self.at(','):
                    self.take(',')
                    if self.at(')'): break
                    es.append(self.expr())
                self.take(')'); return ('tuple', es)
            if t[1] == '|':
                self.take('|'); ps = []
                while not self.at('|'):
                    ps.append(self.pattern())
                    if self.at(':'): raise Unrecognised("typed closure parameter")
                    if self.at(','): self.take(',')
                self.take('|')
                if self.at('->'): raise Unrecognised("closure return type")
                return ('closure', ps, self.expr())
            if t[1] == '{': return ('block', self.block())
            raise Unrecognised("expression at %r" % (t[1],))
        if t[0] != 'id': raise Unrecognised("expression at %r" % (t[1],))
        if t[1] == 'if': return self.if_()
        if t[1] == 'match': return self.match_()
        if t[1] in ('true', 'false'): self.p += 1; return ('bool', t[1] == 'true')
        if t[1] in ('unsafe', 'loop', 'while', 'for', 'move', 'async', 'return', 'break', 'continue', 'let'):
            raise Unrecognised("`%s` in an expression" % t[1])
        segs = [self.ident()]
        while self.at('::'):
            self.take('::')
            if self.at('<'): raise Unrecognised("generic arguments in a path")
            segs.append(self.ident())
        if self.at('!'):
            nxt = self.peek(1)
            if nxt[0] == 'op' and nxt[1] in ('(', '[', '{') and len(segs) == 1:
                self.take('!'); o = self.take()[1]; c = {'(': ')', '[': ']', '{': '}'}[o]
                d, toks = 1, []
                while True:
                    x = self.take()
                    if x[0] == 'op' and x[1] == o: d += 1
                    if x[0] == 'op' and x[1] == c:
                        d -= 1
                        if d == 0: break
                    toks.append(x)
                return ('macro', segs[0], toks)
        if self.at('{') and not nostruct and segs[-1][:1].isupper():
            self.take('{'); fields = []
            while not self.at('}'):
                f = self.ident()
                if self.at(':'): self.take(':'); v = self.expr()
                else: v = ('path', [f])
                fields.append((f, v))
                if self.at(','): self.take(',')
                else: break
            self.take('}'); return ('struct', segs, fields)
        return ('path', segs)
    # ---- statements: returns (node, is_final_expression)
    def stmt(self):
        if self.at('let'):
            self.take('let'); pat = self.pattern(); ty = None
            if self.at(':'): self.take(':'); ty = self.type_until(('=', ';'))
            e = els = None
            if self.at('='):
                self.take('='); e = self.expr()
                if self.at('else'): self.take('else'); els = self.block()
            self.take(';'); return ('let', pat, ty, e, els), False
        if self.at('while'):
            self.take('while')
            if self.at('let'): raise Unrecognised("while let")
            c = self.expr(nostruct=True); return ('while', c, self.block()), False
        if self.at('for'):
            self.take('for'); pat = self.pattern(); self.take('in'); e = self.expr(nostruct=True)
            return ('for', pat, e, self.block()), False
        if self.at('return'):
            self.take('return'); e = None if self.at(';') or self.at('}') else self.expr()
            if self.at(';'): self.take(';')
            return ('return', e), False
        if self.at('continue') or self.at('break'):
            k = self.take()[1]
            if not (self.at(';') or self.at('}')): raise Unrecognised("labelled " + k)
            if self.at(';'): self.take(';')
            return (k,), False
        if self.at('loop') or self.at('unsafe') or self.at('fn') or self.at('use') or self.at('struct') or self.at('#'):
            raise Unrecognised("`%s` in a block" % self.peek()[1])
        e = self.expr()
        t = self.peek()
        if t[0] == 'op' and t[1] in ('=', '+=', '-=', '*=', '/=', '%='):
            self.p += 1; r = self.expr(); self.take(';'); return ('assign', e, t[1], r), False
        if self.at(';'): self.take(';'); return ('expr', e), False
        if self.at('}'):
            if e[0] in ('if', 'iflet') : return ('expr', e), False      # a trailing `if` without value is a statement
            return e, True
        if e[0] in ('if', 'iflet', 'match', 'block'): return ('expr', e), False
        raise Unrecognised("statement ends at %r" % (t[1],))

def find_fn(toks, name):
    """index of the `fn` token of the free function `name`; exactly one must exist"""
    hits = [i for i in range(len(toks) - 1) if toks[i] == ('id', 'fn') and toks[i + 1] == ('id', name)]
    if len(hits) != 1: raise Unrecognised("function %s found %d times" % (name, len(hits)))
    return hits[0]

def parse_fn(toks, name):
    """returns dict(name, params=[(name, type)], ret=type, body=block)"""
    p = Parser(toks); p.p = find_fn(toks, name)
    p.take('fn'); p.ident()
    if p.at('<'): raise Unrecognised("%s: generic function" % name)
    p.take('('); params = []
    while not p.at(')'):
        if p.at('mut'): p.take('mut')
        n = p.ident(); p.take(':'); ty = p.type_until((',',)); params.append((n, ty))
        if p.at(','): p.take(',')
    p.take(')')
    ret = None
    if p.at('->'): p.take('->'); ret = p.type_until(('{',))
    if p.at('where'): raise Unrecognised("%s: where clause" % name)
    body = p.block()
    return {"name": name, "params": params, "ret": ret, "body": body}
