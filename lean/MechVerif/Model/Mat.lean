/-
Matrices as the interpreter stores them: a shape and the elements in column-major
order (nalgebra's linear index), and the dispatch of a binary elementwise operator
over storage forms (`impl_binop_match_arms!` in src/core/src/stdlib.rs, restricted to
the forms of the default feature set: RowDVector, DVector, DMatrix).
-/
import MechVerif.Model.Num
namespace MechVerif.Mat
open MechVerif.Num

structure Mat (α : Type) where
  rows : Nat
  cols : Nat
  data : List α
deriving Repr, DecidableEq

def Mat.wf {α : Type} (m : Mat α) : Prop := m.data.length = m.rows * m.cols

/-- element (i, j), 0-based, column-major -/
def Mat.get? {α : Type} (m : Mat α) (i j : Nat) : Option α :=
  if i < m.rows ∧ j < m.cols then m.data[j * m.rows + i]? else none

inductive Form where
  | RD | VD | MD
deriving DecidableEq, Repr

/-- `Matrix::from_vec` / `to_matrix`: which nalgebra storage holds a rows×cols result
    (`matrix1` is off in the default feature set, so 1×1 is a `DMatrix`) -/
def formOf (rows cols : Nat) : Form :=
  if rows = 1 ∧ cols ≠ 1 then .RD
  else if cols = 1 ∧ rows ≠ 1 then .VD
  else .MD

def Mat.form {α : Type} (m : Mat α) : Form := formOf m.rows m.cols

inductive Operand (α : Type) where
  | scalar (x : α)
  | mat (m : Mat α)
deriving Repr, DecidableEq

def bindE {α β : Type} (x : Except Err α) (g : α → Except Err β) : Except Err β :=
  match x with
  | .ok a => g a
  | .error e => .error e

def mapE {α β : Type} (x : Except Err α) (g : α → β) : Except Err β :=
  match x with
  | .ok a => .ok (g a)
  | .error e => .error e

def getE {α : Type} (l : List α) (k : Nat) : Except Err α :=
  match l[k]? with
  | some x => .ok x
  | none => .error .index

/-- run `g` on 0, 1, …, n-1 in order; the first failure aborts -/
def tabulateM {β : Type} (g : Nat → Except Err β) : Nat → Nat → Except Err (List β)
  | _, 0 => .ok []
  | start, n + 1 =>
    match g start with
    | .error e => .error e
    | .ok y =>
      match tabulateM g (start + 1) n with
      | .error e => .error e
      | .ok ys => .ok (y :: ys)

/-- which kernel family a pair of operands is sent to -/
inductive Kernel where
  | ss            -- scalar ∘ scalar
  | sm | ms       -- scalar with matrix
  | zip           -- two matrices of one storage form (`*_vec_op`)
  | matCol | colMat   -- DMatrix with a column vector (`*_mat_vec_op`, `*_vec_mat_op`)
  | matRow | rowMat   -- DMatrix with a row vector (`*_mat_row_op`, `*_row_mat_op`)
deriving DecidableEq, Repr

/-- dispatch on the storage forms and the shape guards of the match arms -/
def dispatch {α : Type} : Operand α → Operand α → Except Err Kernel
  | .scalar _, .scalar _ => .ok .ss
  | .scalar _, .mat _ => .ok .sm
  | .mat _, .scalar _ => .ok .ms
  | .mat m, .mat n =>
    match m.form, n.form with
    | .MD, .MD | .RD, .RD | .VD, .VD =>
      if m.rows = n.rows ∧ m.cols = n.cols then .ok .zip else .error .dim
    | .MD, .VD => if m.rows = n.rows then .ok .matCol else .error .dim
    | .MD, .RD => if m.cols = n.cols then .ok .matRow else .error .dim
    | .VD, .MD => if m.rows = n.rows then .ok .colMat else .error .dim
    | .RD, .MD => if m.cols = n.cols then .ok .rowMat else .error .dim
    | .RD, .VD | .VD, .RD => .error .kind

/-- every kernel is the same loop over the linear index of the output with its own
    way of addressing the two operands -/
def cellwise {α β : Type} (f : α → α → Except Err β) (A B : Nat → Except Err α) (n : Nat) :
    Except Err (List β) :=
  tabulateM (fun i => bindE (A i) (fun u => bindE (B i) (f u))) 0 n

/-- left operand at linear output index `i` (R = rows of the output) -/
def lhsAt {α : Type} (k : Kernel) (a : Operand α) (R i : Nat) : Except Err α :=
  match a, k with
  | .scalar x, _ => .ok x
  | .mat m, .colMat => getE m.data (i % R)     -- column vector met once per output column
  | .mat m, .rowMat => getE m.data (i / R)     -- row vector: one element per output column
  | .mat m, _ => getE m.data i

/-- right operand at linear output index `i` -/
def rhsAt {α : Type} (k : Kernel) (b : Operand α) (R i : Nat) : Except Err α :=
  match b, k with
  | .scalar y, _ => .ok y
  | .mat n, .matCol => getE n.data (i % R)
  | .mat n, .matRow => getE n.data (i / R)
  | .mat n, _ => getE n.data i

/-- shape of the output buffer the match arm allocates -/
def outShape {α : Type} (k : Kernel) (a b : Operand α) : Nat × Nat :=
  match k, a, b with
  | .sm, _, .mat n | .colMat, _, .mat n | .rowMat, _, .mat n => (n.rows, n.cols)
  | _, .mat m, _ => (m.rows, m.cols)
  | _, _, _ => (1, 1)

/-- a binary operator lifted over operands; `f` is the scalar operation of the kind -/
def evalBinop {α β : Type} (f : α → α → Except Err β) (a b : Operand α) : Except Err (Operand β) :=
  match dispatch a b with
  | .error e => .error e
  | .ok .ss =>
    (match a, b with
     | .scalar x, .scalar y => mapE (f x y) .scalar
     | _, _ => .error .other)
  | .ok k =>
    let sh := outShape k a b
    mapE (cellwise f (lhsAt k a sh.1) (rhsAt k b sh.1) (sh.1 * sh.2))
      (fun d => .mat ⟨sh.1, sh.2, d⟩)

/-- a unary operator lifted over an operand -/
def evalUnop {α β : Type} (f : α → Except Err β) : Operand α → Except Err (Operand β)
  | .scalar x => mapE (f x) .scalar
  | .mat m =>
    mapE (tabulateM (fun i => bindE (getE m.data i) f) 0 (m.rows * m.cols))
      (fun d => .mat ⟨m.rows, m.cols, d⟩)

end MechVerif.Mat
