import MechVerif.Driver.Scalar
import MechVerif.Spec.Index
namespace MechVerif.Driver
open MechVerif.Num MechVerif.Scalar MechVerif.Mat MechVerif.Index

/-- `Value::as_index` of a literal: negative numbers saturate to 0 -/
def ixOfInt (v : Int) : Nat := if v < 0 then 0 else v.toNat

def parseBools (t : String) : Option (List Bool) :=
  (t.splitOn " ").mapM (fun s => if s == "true" then some true else if s == "false" then some false else none)

/-- selector and its syntactic class (s, v1, vr, vc, g1, g, a, b1, br, bc, bm) -/
def parseSel (t : String) : Option (Sel × String) :=
  if t == "a" then some (.all, "a") else
  match t.splitOn ":" with
  | ["s", v] => (parseInt v).map (fun i => (.scalar (ixOfInt i), "s"))
  | ["vr", body] => ((body.splitOn " ").mapM parseInt).map (fun l => (.vec (l.map ixOfInt), if l.length == 1 then "v1" else "vr"))
  | ["vc", body] => ((body.splitOn " ").mapM parseInt).map (fun l => (.vec (l.map ixOfInt), if l.length == 1 then "v1" else "vc"))
  | ["g", a, b] =>
    match parseInt a, parseInt b with
    | some a, some b => some (.vec ((List.range (b - a + 1).toNat).map (fun (k : Nat) => ixOfInt (a + (k : Int)))), if a == b then "g1" else "g")
    | _, _ => none
  | ["br", body] => (parseBools body).map (fun l => (.mask l, if l.length == 1 then "b1" else "br"))
  | ["bc", body] => (parseBools body).map (fun l => (.mask l, if l.length == 1 then "b1" else "bc"))
  | ["bm", _, body] => (parseBools body).map (fun l => (.mask l, "bm"))
  | _ => none

def renderOpt (k : Kind) : Option (Operand Val) → String
  | none => "err"
  | some o => operandText k o

def runC03 (fields : List String) (obs : String) : String × String × String :=
  match fields with
  -- an optional sixth field says how the selectors are written (in place or through variables): the
  -- value of the read does not depend on it
  | _ :: kn :: mt :: s1t :: s2t :: _ =>
    match kindOfName kn with
    | none => ("bad-case", "bad-case", "-")
    | some k =>
      match parseOperand k mt with
      | some (.mat m) =>
        match parseSel s1t, (if s2t == "-" then some (Sel.all, "-") else parseSel s2t) with
        | some (s1, c1), some (s2, c2) =>
          let twoD := s2t != "-"
          let model := renderResult k (access m s1 (if twoD then some s2 else none))
          let specV := if twoD then select2 m s1 s2 else select1 m s1
          let spec := renderOpt k specV
          -- C03-D4: no access arm for this (storage form, selector) combination although the elements exist
          let region := if !supported m.form s1 (if twoD then some s2 else none) && specV.isSome then "C03-D4" else "-"
          (model, if obs == spec then "ok" else "bad:expected " ++ spec ++ " class=" ++ c1 ++ "," ++ c2, region)
        | _, _ => ("bad-case", "bad-case", "-")
      | _ => ("bad-case", "bad-case", "-")
  | _ => ("bad-case", "bad-case", "-")

end MechVerif.Driver
