import MechVerif.Model.AssignIR
import MechVerif.Lemmas.AccessIR
import MechVerif.Lemmas.Assign
namespace MechVerif.AssignIR
open MechVerif.Num MechVerif.Mat MechVerif.Index MechVerif.AccessIR MechVerif.Assign

variable {α β γ : Type}

/-! ### the model's write loop as a list of steps -/

theorem scatter_eq_scatterS (f : α → α → Except Err α) (src : Nat → Except Err α) :
    ∀ (ts : List (Except Err Nat)) (k : Nat) (d : List α),
      scatter f src ts k d = scatterS f (ts.zip ((List.range' k ts.length).map src)) d := by
  intro ts
  induction ts with
  | nil => intro k d; rfl
  | cons t ts ih =>
    intro k d
    rw [List.length_cons, List.range'_succ, List.map_cons, List.zip_cons_cons]
    cases t with
    | error e => simp [scatter, scatterS, step1, bindE]
    | ok p =>
      cases hg : getE d p with
      | error e => simp [scatter, scatterS, step1, bindE, hg]
      | ok old =>
        cases hs : src k with
        | error e => simp [scatter, scatterS, step1, bindE, hg, hs]
        | ok v =>
          cases hf : f old v with
          | error e => simp [scatter, scatterS, step1, bindE, hg, hs, hf]
          | ok new => simp [scatter, scatterS, step1, bindE, hg, hs, hf, ih]

/-- a list of steps whose targets are `ts` and whose j-th source is `src (k + j)` is the model's list -/
theorem steps_eq_zip (src : Nat → Except Err α) :
    ∀ (steps : List (Except Err Nat × Except Err α)) (ts : List (Except Err Nat)) (k : Nat),
      steps.map Prod.fst = ts → (∀ j (h : j < steps.length), steps[j].2 = src (k + j)) →
      steps = ts.zip ((List.range' k ts.length).map src) := by
  intro steps
  induction steps with
  | nil => intro ts k h1 _; subst h1; rfl
  | cons x xs ih =>
    intro ts k h1 h2
    subst h1
    rw [List.map_cons, List.length_cons, List.range'_succ, List.map_cons, List.zip_cons_cons]
    have h0 := h2 0 (by simp)
    simp only [List.getElem_cons_zero, Nat.add_zero] at h0
    congr 1
    · rw [← h0]
    · apply ih _ (k + 1) rfl
      intro j hj
      have := h2 (j + 1) (by simp; omega)
      simp only [List.getElem_cons_succ] at this
      rw [this]; congr 1; omega

/-! ### axes -/

theorem tOk_std {d : Dim} {ax : TAxis} (h : tOk d ax = true) : ∃ a, ax = .std a ∧ axisOk d a = true := by
  cases ax with
  | std a => exact ⟨a, rfl, h⟩
  | maskPred a b => cases h
  | nonzero a b => cases h
  | maskQuot a b q => cases h

/-- an index vector's or a whole dimension's loop variable takes the values 0, 1, 2, … -/
theorem counts_range (m : Mat α) (args : List Arg) (ax : TAxis) (vs : List Nat)
    (hc : countsAddressed ax = true) (hl : tLoopVals m args ax = .ok vs) : vs = List.range vs.length := by
  have key : ∀ b, mapE (boundVal m args b) List.range = .ok vs → vs = List.range vs.length := by
    intro b hb
    cases hbv : boundVal m args b with
    | error e => rw [hbv] at hb; cases hb
    | ok n => rw [hbv] at hb; simp only [mapE, Except.ok.injEq] at hb; subst hb; simp
  cases ax with
  | std a =>
    cases a with
    | scalar a m1 => cases hc
    | vec a m1 b => exact key b hl
    | mask a b g => cases hc
    | all b => exact key b hl
  | maskPred a b => cases hc
  | nonzero a b => cases hc
  | maskQuot a b q => cases hc

theorem scalar_loop (m : Mat α) (args : List Arg) (ax : TAxis) (vs : List Nat)
    (hc : isScalarAx ax = true) (hl : tLoopVals m args ax = .ok vs) : vs = [0] := by
  cases ax with
  | std a =>
    cases a with
    | scalar a m1 => simp only [tLoopVals, loopVals, Except.ok.injEq] at hl; exact hl.symm
    | vec a m1 b => cases hc
    | mask a b g => cases hc
    | all b => cases hc
  | maskPred a b => cases hc
  | nonzero a b => cases hc
  | maskQuot a b q => cases hc

/-! ### one-index kernels -/

/-- **One-index kernels.**  An accepted kernel that writes `sink[k]` performs exactly the writes of `assign1` for the
    selector its index argument holds — same targets in the same order, same source element for each, the same
    operator, so the same contents and the same outcome, also when a step fails half-way. -/
theorem run_linear (arith : OpTok → α → α → Except Err α) (sig : Sig) (ir : KIR) (hok : kOk sig ir = true)
    (hrow : ir.row = none) (m : Mat α) (args : List Arg) (src : Operand α) (hfit : srcFits ir.src src = true)
    (s : Sel) (hs : tSelOf args ir.col = some s) :
    run arith ir m args src = assign1 (fOf arith sig.op) m s src := by
  unfold kOk at hok
  rw [hrow] at hok
  cases hsr : sig.row with
  | some rk => rw [hsr] at hok; simp at hok
  | none =>
    rw [hsr] at hok
    simp only [Bool.and_eq_true, decide_eq_true_eq] at hok
    obtain ⟨hop, ⟨⟨hax, _⟩, _⟩, hsrc⟩ := hok
    obtain ⟨a, hstd, haok⟩ := tOk_std hax
    have hs' : selOf args a = some s := by rw [hstd] at hs; exact hs
    unfold run assign1
    rw [hrow]; simp only
    rcases axis_reads m args .len a s haok hs' with ⟨hg, hsel⟩ | ⟨vs, ix, hg, hl, hsel, hmap⟩
    · have hsel' : selIxs s (m.rows * m.cols) = .error .dim := hsel
      rw [hstd]; simp only [tGuard, hg, hsel', bindE]
    · have hsel' : selIxs s (m.rows * m.cols) = .ok ix := hsel
      have hl' : tLoopVals m args ir.col = .ok vs := by rw [hstd]; exact hl
      rw [hsel']
      have hgl : bindE (tGuard m args ir.col) (fun _ => tLoopVals m args ir.col) = .ok vs := by
        rw [hl', hstd]; simp only [tGuard, hg, bindE]
      rw [hgl]; simp only
      rw [scatter_eq_scatterS, hop]
      have hlen : vs.length = ix.length := by
        have := congrArg List.length hmap; simpa using this
      have hsteps : vs.map (fun v => (linTargetOf m args ir.col v,
            srcElem m args ir.src src 0 v (.ok 0) (tCoord args ir.col v))) =
          (ix.map (linTarget m)).zip ((List.range' 0 (ix.map (linTarget m)).length).map (srcAt src)) := by
        apply steps_eq_zip
        · rw [List.map_map]
          have : (Prod.fst ∘ fun v => (linTargetOf m args ir.col v,
              srcElem m args ir.src src 0 v (.ok 0) (tCoord args ir.col v))) =
              (fun e => bindE e (fun k => if k < m.rows * m.cols then .ok k else .error .index)) ∘ (coord args a) := by
            funext v; simp only [Function.comp, linTargetOf, hstd, tCoord]
          rw [this, ← List.map_map, hmap, List.map_map]
          apply List.map_congr_left; intro i _; rfl
        · intro j hj
          rw [List.getElem_map]
          simp only [Nat.zero_add]
          have hj' : j < vs.length := by simpa using hj
          generalize hx : vs[j]'hj' = x
          cases hsv : sig.vectorSrc with
          | false =>
            rw [hsv] at hsrc; simp only [Bool.false_eq_true, if_false, decide_eq_true_eq] at hsrc
            rw [hsrc] at hfit ⊢
            cases src with
            | scalar v => rfl
            | mat w => cases hfit
          | true =>
            rw [hsv] at hsrc; simp only [if_true, Bool.and_eq_true, decide_eq_true_eq] at hsrc
            obtain ⟨hsrc, hcnt⟩ := hsrc
            rw [hsrc] at hfit ⊢
            cases src with
            | scalar v => cases hfit
            | mat w =>
              have hr := counts_range m args ir.col vs hcnt hl'
              have hvj : x = j := by
                rw [← hx]
                have : vs[j]'hj' = (List.range vs.length)[j]'(by simpa using hj') := by congr 1
                rw [this, List.getElem_range]
              simp only [srcElem, sEval, bindE, srcAt]
              rw [hvj]
      rw [hsteps]

/-! ### two-index kernels, visited in the model's order -/

theorem steps_eq_zip' (steps : List (β × γ)) (ts : List β) (ss : List γ)
    (h1 : steps.map Prod.fst = ts) (h2 : steps.map Prod.snd = ss) : steps = ts.zip ss := by
  subst h1; subst h2
  induction steps with
  | nil => rfl
  | cons x xs ih => simp only [List.map_cons, List.zip_cons_cons]; rw [← ih]

theorem nest_single_row (x : Nat) (cs : List Nat) : nest false [x] cs = nest true [x] cs := by
  simp only [nest, Bool.false_eq_true, if_false, if_true, List.flatMap_cons, List.flatMap_nil, List.append_nil,
    List.map_cons, List.map_nil]
  induction cs with
  | nil => rfl
  | cons c cs ih => simp only [List.map_cons, List.flatMap_cons, List.cons_append, List.nil_append, ih]

theorem nest_single_col (rs : List Nat) (y : Nat) : nest false rs [y] = nest true rs [y] := by
  simp only [nest, Bool.false_eq_true, if_false, if_true, List.flatMap_cons, List.flatMap_nil, List.append_nil,
    List.map_cons, List.map_nil]
  induction rs with
  | nil => rfl
  | cons r rs ih => simp only [List.map_cons, List.flatMap_cons, List.cons_append, List.nil_append, ih]

theorem nest_col_single (rs : List Nat) (y : Nat) : nest true rs [y] = rs.map (fun r => (r, y)) := by
  simp only [nest, if_true, List.flatMap_cons, List.flatMap_nil, List.append_nil]

theorem nest_row_single (x : Nat) (cs : List Nat) : nest true [x] cs = cs.map (fun c => (x, c)) := by
  simp only [nest, if_true, List.map_cons, List.map_nil]
  induction cs with
  | nil => rfl
  | cons c cs ih => simp only [List.map_cons, List.flatMap_cons, List.cons_append, List.nil_append, ih]

/-- the column-outer nest over coordinates that agree with the model's, one by one -/
theorem nest_targets (h : Except Err Nat → Except Err Nat → γ) (f1 g1 f2 g2 : Nat → Except Err Nat)
    (rs R cs C : List Nat) (h1 : rs.map f1 = R.map g1) (h2 : cs.map f2 = C.map g2) :
    cs.flatMap (fun c => rs.map (fun r => h (f1 r) (f2 c))) = C.flatMap (fun c => R.map (fun r => h (g1 r) (g2 c))) := by
  have e : ∀ (l1 l2 : List Nat) (k1 k2 : Nat → Except Err Nat),
      l2.flatMap (fun c => l1.map (fun r => h (k1 r) (k2 c))) =
        (l2.map k2).flatMap (fun cc => (l1.map k1).map (fun rc => h rc cc)) := by
    intro l1 l2 k1 k2
    rw [List.flatMap_map]; congr 1; funext c; rw [List.map_map]; rfl
  rw [e, e, h1, h2]

theorem loops2_ok (m : Mat α) (args : List Arg) (rowAx colAx : TAxis) (rs cs : List Nat)
    (hg1 : tGuard m args rowAx = .ok ()) (hg2 : tGuard m args colAx = .ok ())
    (hl1 : tLoopVals m args rowAx = .ok rs) (hl2 : tLoopVals m args colAx = .ok cs) :
    loops2 m args rowAx colAx false = .ok (rs, cs) := by
  simp only [loops2, hg1, hg2, hl1, hl2, bindE, Bool.false_eq_true, if_false]

/-- the targets of an accepted two-index kernel, in column-outer order, are the model's -/
theorem two_targets (m : Mat α) (args : List Arg) (rowAx colAx : TAxis) (rs R cs C : List Nat)
    (h1 : rs.map (tCoord args rowAx) = R.map pred1) (h2 : cs.map (tCoord args colAx) = C.map pred1) :
    (nest true rs cs).map (fun p => rcTargetOf m args rowAx colAx p.1 p.2) =
      (pairs R C).map (fun p => rcTarget m p.1 p.2) := by
  simp only [nest, if_true, pairs, List.map_flatMap, List.map_map]
  exact nest_targets (fun rc cc => bindE rc (fun r0 => bindE cc (fun c0 =>
      if r0 < m.rows ∧ c0 < m.cols then .ok (c0 * m.rows + r0) else .error .index)))
    (tCoord args rowAx) pred1 (tCoord args colAx) pred1 rs R cs C h1 h2

theorem length_nest (co : Bool) (rs cs : List Nat) : (nest co rs cs).length = rs.length * cs.length := by
  cases co
  · simp only [nest, Bool.false_eq_true, if_false]
    induction rs with
    | nil => simp
    | cons r rs ih => simp only [List.flatMap_cons, List.length_append, List.length_map, ih, List.length_cons]; rw [Nat.add_mul]; omega
  · simp only [nest, if_true]
    induction cs with
    | nil => simp
    | cons c cs ih => simp only [List.flatMap_cons, List.length_append, List.length_map, ih, List.length_cons]; rw [Nat.mul_add]; omega

/-- the sources of an accepted two-index kernel are the model's: the scalar, or the element at the count of
    addressed cells -/
theorem two_sources (sig : Sig) (ir : KIR) (rowAx : TAxis) (m : Mat α) (args : List Arg) (src : Operand α)
    (hfit : srcFits ir.src src = true) (rs cs : List Nat)
    (hl1 : tLoopVals m args rowAx = .ok rs) (hl2 : tLoopVals m args ir.col = .ok cs)
    (hsrc : (if sig.vectorSrc then
       (decide (ir.src = .at .rowVar) && countsAddressed rowAx && isScalarAx ir.col) ||
       (decide (ir.src = .at .colVar) && countsAddressed ir.col && isScalarAx rowAx)
     else decide (ir.src = .whole)) = true) :
    (nest true rs cs).map (fun p => srcElem m args ir.src src p.1 p.2 (tCoord args rowAx p.1) (tCoord args ir.col p.2)) =
      (List.range' 0 (nest true rs cs).length).map (srcAt src) := by
  cases hsv : sig.vectorSrc with
  | false =>
    rw [hsv] at hsrc; simp only [Bool.false_eq_true, if_false, decide_eq_true_eq] at hsrc
    rw [hsrc] at hfit ⊢
    cases src with
    | mat w => cases hfit
    | scalar v =>
      simp only [srcElem]
      show _ = List.map (fun _ => Except.ok v) _
      rw [List.map_const', List.map_const', List.length_range']
  | true =>
    rw [hsv] at hsrc
    simp only [if_true, Bool.or_eq_true, Bool.and_eq_true, decide_eq_true_eq] at hsrc
    rcases hsrc with ⟨⟨hs, hcnt⟩, hsc⟩ | ⟨⟨hs, hcnt⟩, hsc⟩
    · rw [hs] at hfit ⊢
      cases src with
      | scalar v => cases hfit
      | mat w =>
        have hcs := scalar_loop m args ir.col cs hsc hl2
        have hrs := counts_range m args rowAx rs hcnt hl1
        subst hcs
        rw [nest_col_single, List.map_map, List.length_map, ← List.range_eq_range', hrs]
        try rw [List.length_range]
        apply List.map_congr_left; intro r _
        simp only [Function.comp, srcElem, sEval, bindE, srcAt]
    · rw [hs] at hfit ⊢
      cases src with
      | scalar v => cases hfit
      | mat w =>
        have hrs := scalar_loop m args rowAx rs hsc hl1
        have hcs := counts_range m args ir.col cs hcnt hl2
        subst hrs
        rw [nest_row_single, List.map_map, List.length_map, ← List.range_eq_range', hcs]
        try rw [List.length_range]
        apply List.map_congr_left; intro c _
        simp only [Function.comp, srcElem, sEval, bindE, srcAt]

/-- **Two-index kernels in the model's order.**  An accepted kernel that writes `sink[(r, c)]` column by column (or
    with one loop only) and checks nothing ahead of its loops performs exactly the writes of `assign2` for the two
    selectors its index arguments hold: same cells in the same order, same source element for each, the same
    operator — the same contents and outcome, also when a step fails half-way. -/
theorem run_two (arith : OpTok → α → α → Except Err α) (sig : Sig) (ir : KIR) (hok : kOk sig ir = true)
    (hex : kExact ir = true) (rowAx : TAxis) (hrow : ir.row = some rowAx) (m : Mat α) (args : List Arg)
    (src : Operand α) (hfit : srcFits ir.src src = true)
    (s1 s2 : Sel) (hs1 : tSelOf args rowAx = some s1) (hs2 : tSelOf args ir.col = some s2) :
    run arith ir m args src = assign2 (fOf arith sig.op) m s1 s2 src := by
  unfold kOk at hok
  rw [hrow] at hok
  cases hsr : sig.row with
  | none => rw [hsr] at hok; simp at hok
  | some rk =>
    rw [hsr] at hok
    simp only [Bool.and_eq_true, decide_eq_true_eq] at hok
    obtain ⟨hop, ⟨⟨⟨⟨⟨⟨hr, hc⟩, _⟩, _⟩, _⟩, _⟩, hsrc⟩⟩ := hok
    obtain ⟨a1, hstd1, ha1⟩ := tOk_std hr
    obtain ⟨a2, hstd2, ha2⟩ := tOk_std hc
    have hs1' : selOf args a1 = some s1 := by rw [hstd1] at hs1; exact hs1
    have hs2' : selOf args a2 = some s2 := by rw [hstd2] at hs2; exact hs2
    simp only [kExact, hrow, Bool.and_eq_true, Bool.not_eq_true', Bool.or_eq_true] at hex
    obtain ⟨hho, hord⟩ := hex
    unfold run assign2
    rw [hrow, hho]; simp only
    rcases axis_reads m args .rows a1 s1 ha1 hs1' with ⟨hg1, hsel1⟩ | ⟨rs, R, hg1, hl1, hsel1, hmap1⟩
    · have hsel1' : selIxs s1 m.rows = .error .dim := hsel1
      rw [hsel1']
      simp only [loops2, hstd1, tGuard, hg1, bindE]
    · have hsel1' : selIxs s1 m.rows = .ok R := hsel1
      rcases axis_reads m args .cols a2 s2 ha2 hs2' with ⟨hg2, hsel2⟩ | ⟨cs, C, hg2, hl2, hsel2, hmap2⟩
      · have hsel2' : selIxs s2 m.cols = .error .dim := hsel2
        rw [hsel1', hsel2']
        simp only [loops2, hstd1, hstd2, tGuard, hg1, hg2, bindE]
      · have hsel2' : selIxs s2 m.cols = .ok C := hsel2
        have hl1' : tLoopVals m args rowAx = .ok rs := by rw [hstd1]; exact hl1
        have hl2' : tLoopVals m args ir.col = .ok cs := by rw [hstd2]; exact hl2
        have hmap1' : rs.map (tCoord args rowAx) = R.map pred1 := by rw [hstd1]; exact hmap1
        have hmap2' : cs.map (tCoord args ir.col) = C.map pred1 := by rw [hstd2]; exact hmap2
        rw [hsel1', hsel2', loops2_ok m args rowAx ir.col rs cs (by rw [hstd1]; exact hg1) (by rw [hstd2]; exact hg2) hl1' hl2']
        simp only
        have hnest : nest ir.colOuter rs cs = nest true rs cs := by
          rcases hord with (hco | hsc) | hsc
          · rw [hco]
          · have := scalar_loop m args rowAx rs hsc hl1'; subst this
            cases ir.colOuter
            · exact nest_single_row 0 cs
            · rfl
          · have := scalar_loop m args ir.col cs hsc hl2'; subst this
            cases ir.colOuter
            · exact nest_single_col rs 0
            · rfl
        rw [hnest, scatter_eq_scatterS, hop]
        have hT := two_targets m args rowAx ir.col rs R cs C hmap1' hmap2'
        have hS := two_sources sig ir rowAx m args src hfit rs cs hl1' hl2' hsrc
        have hsteps : (nest true rs cs).map (fun p => (rcTargetOf m args rowAx ir.col p.1 p.2,
              srcElem m args ir.src src p.1 p.2 (tCoord args rowAx p.1) (tCoord args ir.col p.2))) =
            ((pairs R C).map (fun p => rcTarget m p.1 p.2)).zip
              ((List.range' 0 ((pairs R C).map (fun p => rcTarget m p.1 p.2)).length).map (srcAt src)) := by
          apply steps_eq_zip'
          · rw [List.map_map, ← hT]; rfl
          · rw [List.map_map, ← hT, List.length_map]; exact hS
        rw [hsteps]

/-! ### same result in another order -/

/-- same outcome, and the same contents when the outcome is success (the contents a *failing* run leaves behind
    depend on the order of the writes) -/
def SameResult {σ : Type} (a b : σ × Except Err Unit) : Prop :=
  (a.2 = .ok () ↔ b.2 = .ok ()) ∧ (a.2 = .ok () → a.1 = b.1)

theorem SameResult.refl {σ : Type} (a : σ × Except Err Unit) : SameResult a a := ⟨Iff.rfl, fun _ => rfl⟩

theorem SameResult.of_eq {σ : Type} {a b : σ × Except Err Unit} (h : a = b) : SameResult a b := by
  subst h; exact SameResult.refl a

theorem SameResult.trans {σ : Type} {a b c : σ × Except Err Unit} (h1 : SameResult a b) (h2 : SameResult b c) :
    SameResult a c :=
  ⟨h1.1.trans h2.1, fun h => (h1.2 h).trans (h2.2 (h1.1.mp h))⟩

theorem SameResult.of_failures {σ : Type} {a b : σ × Except Err Unit} (ha : a.2 ≠ .ok ()) (hb : b.2 ≠ .ok ()) :
    SameResult a b :=
  ⟨⟨fun h => absurd h ha, fun h => absurd h hb⟩, fun h => absurd h ha⟩

theorem SameResult.mat {m : Mat α} {a b : List α × Except Err Unit} (h : SameResult a b) :
    SameResult (({ m with data := a.1 } : Mat α), a.2) (({ m with data := b.1 } : Mat α), b.2) :=
  ⟨h.1, fun hh => by simp only [h.2 hh]⟩

theorem getE_set_ne (d : List α) (p q : Nat) (x : α) (h : q ≠ p) : getE (d.set q x) p = getE d p := by
  unfold getE; rw [List.getElem?_set_ne h]

/-- two steps that write the same source -/
def step2 (f : α → α → Except Err α) (s : Except Err α) (x y : Except Err Nat) (d : List α) : Except Err (List α) :=
  bindE (step1 f x s d) (step1 f y s)

theorem step2_comm (f : α → α → Except Err α) (s : Except Err α) (x y : Except Err Nat) (d : List α) :
    (∃ d', step2 f s x y d = .ok d' ∧ step2 f s y x d = .ok d') ∨
    ((∃ e, step2 f s x y d = .error e) ∧ (∃ e, step2 f s y x d = .error e)) := by
  have dich : ∀ z : Except Err (List α), (∃ d', z = .ok d' ∧ z = .ok d') ∨ ((∃ e, z = .error e) ∧ (∃ e, z = .error e)) := by
    intro z; cases z with
    | ok d' => exact Or.inl ⟨d', rfl, rfl⟩
    | error e => exact Or.inr ⟨⟨e, rfl⟩, ⟨e, rfl⟩⟩
  cases x with
  | error e =>
    right; refine ⟨⟨e, rfl⟩, ?_⟩
    unfold step2
    cases h : step1 f y s d with
    | error e' => exact ⟨e', rfl⟩
    | ok d' => exact ⟨e, rfl⟩
  | ok p =>
    cases y with
    | error e =>
      right; refine ⟨?_, ⟨e, rfl⟩⟩
      unfold step2
      cases h : step1 f (.ok p) s d with
      | error e' => exact ⟨e', rfl⟩
      | ok d' => exact ⟨e, rfl⟩
    | ok q =>
      by_cases hpq : p = q
      · subst hpq; exact dich _
      · have hqp : q ≠ p := fun h => hpq h.symm
        cases s with
        | error e =>
          right
          constructor
          · cases hg : getE d p <;> simp [step2, step1, bindE, hg]
          · cases hg : getE d q <;> simp [step2, step1, bindE, hg]
        | ok v =>
          cases hgp : getE d p with
          | error e =>
            right
            constructor
            · simp [step2, step1, bindE, hgp]
            · cases hgq : getE d q with
              | error e' => simp [step2, step1, bindE, hgq]
              | ok b =>
                cases hfb : f b v with
                | error e' => simp [step2, step1, bindE, hgq, hfb]
                | ok nb => simp [step2, step1, bindE, hgq, hfb, getE_set_ne, hqp, hgp]
          | ok a =>
            cases hgq : getE d q with
            | error e =>
              right
              constructor
              · cases hfa : f a v with
                | error e' => simp [step2, step1, bindE, hgp, hfa]
                | ok na => simp [step2, step1, bindE, hgp, hfa, getE_set_ne, hpq, hgq]
              · simp [step2, step1, bindE, hgq]
            | ok b =>
              cases hfa : f a v with
              | error e =>
                right
                constructor
                · simp [step2, step1, bindE, hgp, hfa]
                · cases hfb : f b v with
                  | error e' => simp [step2, step1, bindE, hgq, hfb]
                  | ok nb => simp [step2, step1, bindE, hgq, hfb, getE_set_ne, hqp, hgp, hfa]
              | ok na =>
                cases hfb : f b v with
                | error e =>
                  right
                  constructor
                  · simp [step2, step1, bindE, hgp, hfa, getE_set_ne, hpq, hgq, hfb]
                  · simp [step2, step1, bindE, hgq, hfb]
                | ok nb =>
                  left
                  refine ⟨(d.set p na).set q nb, ?_, ?_⟩
                  · simp [step2, step1, bindE, hgp, hfa, getE_set_ne, hpq, hgq, hfb]
                  · simp [step2, step1, bindE, hgp, hfa, getE_set_ne, hqp, hgq, hfb]
                    exact List.set_comm _ _ hqp

theorem scatterS_two_ok (f : α → α → Except Err α) (s : Except Err α) (x y : Except Err Nat)
    (rest : List (Except Err Nat × Except Err α)) (d d' : List α) (h : step2 f s x y d = .ok d') :
    scatterS f ((x, s) :: (y, s) :: rest) d = scatterS f rest d' := by
  unfold step2 at h
  simp only [scatterS]
  cases h1 : step1 f x s d with
  | error e => rw [h1] at h; cases h
  | ok d1 =>
    rw [h1] at h; simp only [bindE] at h
    simp only [h]

theorem scatterS_two_error (f : α → α → Except Err α) (s : Except Err α) (x y : Except Err Nat)
    (rest : List (Except Err Nat × Except Err α)) (d : List α) (e : Err) (h : step2 f s x y d = .error e) :
    (scatterS f ((x, s) :: (y, s) :: rest) d).2 ≠ .ok () := by
  unfold step2 at h
  simp only [scatterS]
  cases h1 : step1 f x s d with
  | error e' => simp
  | ok d1 =>
    rw [h1] at h; simp only [bindE] at h
    simp only [h]; simp

/-- **Writes of one value commute.**  Steps that all write the same source value (`x[…] op= v` with a scalar `v`)
    may be performed in any order: the run succeeds in one order iff it succeeds in the other, and then leaves the
    same contents — also with repeated targets and with an operator that can fail. -/
theorem scatterS_perm (f : α → α → Except Err α) (s : Except Err α) {ts1 ts2 : List (Except Err Nat)}
    (hp : ts1.Perm ts2) : ∀ d : List α,
    SameResult (scatterS f (ts1.map (fun t => (t, s))) d) (scatterS f (ts2.map (fun t => (t, s))) d) := by
  induction hp with
  | nil => intro d; exact SameResult.refl _
  | cons x _ ih =>
    intro d
    simp only [List.map_cons, scatterS]
    cases step1 f x s d with
    | error e => exact SameResult.refl _
    | ok d' => exact ih d'
  | swap x y l =>
    intro d
    simp only [List.map_cons]
    rcases step2_comm f s y x d with ⟨d', h1, h2⟩ | ⟨⟨e1, h1⟩, ⟨e2, h2⟩⟩
    · rw [scatterS_two_ok f s y x _ d d' h1, scatterS_two_ok f s x y _ d d' h2]
      exact SameResult.refl _
    · exact SameResult.of_failures (scatterS_two_error f s y x _ d e1 h1) (scatterS_two_error f s x y _ d e2 h2)
  | trans _ _ ih1 ih2 => intro d; exact (ih1 d).trans (ih2 d)

theorem flatMap_cons_perm {ι κ : Type} (f : ι → κ) (g : ι → List κ) (l : List ι) :
    (l.flatMap (fun c => f c :: g c)).Perm (l.map f ++ l.flatMap g) := by
  induction l with
  | nil => exact List.Perm.refl _
  | cons c cs ih =>
    simp only [List.flatMap_cons, List.map_cons, List.cons_append]
    apply List.Perm.cons
    have h1 : (g c ++ cs.flatMap (fun c => f c :: g c)).Perm (g c ++ (cs.map f ++ cs.flatMap g)) :=
      List.Perm.append_left _ ih
    refine h1.trans ?_
    rw [← List.append_assoc, ← List.append_assoc]
    exact List.Perm.append_right _ List.perm_append_comm

/-- the row-outer nest visits the cells of the column-outer nest -/
theorem nest_perm (rs cs : List Nat) : (nest false rs cs).Perm (nest true rs cs) := by
  simp only [nest, Bool.false_eq_true, if_false, if_true]
  induction rs with
  | nil =>
    have : cs.flatMap (fun c => ([] : List Nat).map (fun r => (r, c))) = [] := by
      induction cs with
      | nil => rfl
      | cons c cs ih => simp only [List.map_nil] at ih ⊢; simp only [List.flatMap_cons, List.nil_append, ih]
    rw [this]; exact List.Perm.refl _
  | cons r rs ih =>
    simp only [List.flatMap_cons, List.map_cons]
    refine List.Perm.trans ?_ (flatMap_cons_perm (fun c => (r, c)) (fun c => rs.map (fun r => (r, c))) cs).symm
    exact List.Perm.append_left _ ih

/-! ### two-index kernels in any order, with a view taken ahead of the loop -/

/-- the steps of a two-index kernel over a list of (row variable, column variable) pairs -/
def steps2 (m : Mat α) (args : List Arg) (rowAx colAx : TAxis) (ss : SrcSel) (src : Operand α)
    (N : List (Nat × Nat)) : List (Except Err Nat × Except Err α) :=
  N.map (fun p => (rcTargetOf m args rowAx colAx p.1 p.2,
    srcElem m args ss src p.1 p.2 (tCoord args rowAx p.1) (tCoord args colAx p.2)))

theorem order_same (f : α → α → Except Err α) (m : Mat α) (args : List Arg) (rowAx colAx : TAxis) (ss : SrcSel)
    (src : Operand α) (hfit : srcFits ss src = true) (rs cs : List Nat) (co : Bool)
    (h : rs = [0] ∨ cs = [0] ∨ ss = .whole) (d : List α) :
    SameResult (scatterS f (steps2 m args rowAx colAx ss src (nest co rs cs)) d)
      (scatterS f (steps2 m args rowAx colAx ss src (nest true rs cs)) d) := by
  cases co with
  | true => exact SameResult.refl _
  | false =>
    rcases h with h | h | h
    · subst h; rw [nest_single_row]; exact SameResult.refl _
    · subst h; rw [nest_single_col]; exact SameResult.refl _
    · subst h
      cases src with
      | mat w => cases hfit
      | scalar v =>
        have e : ∀ N : List (Nat × Nat), steps2 m args rowAx colAx .whole (.scalar v) N =
            (N.map (fun p => rcTargetOf m args rowAx colAx p.1 p.2)).map (fun t => (t, Except.ok v)) := by
          intro N; unfold steps2; rw [List.map_map]; rfl
        rw [e, e]
        exact scatterS_perm f (.ok v) ((nest_perm rs cs).map _) d

theorem hoistCheck_col_fail (m : Mat α) (args : List Arg) (rowAx colAx : TAxis) (e : Err)
    (h : hoistCheck args colAx m.cols = .error e) (r c : Nat) :
    ∃ e', rcTargetOf m args rowAx colAx r c = .error e' := by
  cases colAx with
  | std a =>
    cases a with
    | scalar a m1 =>
      unfold rcTargetOf
      cases hr : tCoord args rowAx r with
      | error e' => exact ⟨e', rfl⟩
      | ok r0 =>
        have hcc : tCoord args (.std (.scalar a m1)) c = coord args (.scalar a m1) 0 := rfl
        rw [hcc]
        simp only [hoistCheck] at h
        cases hc : coord args (.scalar a m1) 0 with
        | error e' => exact ⟨e', rfl⟩
        | ok c0 =>
          rw [hc] at h; simp only [bindE] at h ⊢
          by_cases hlt : c0 < m.cols
          · rw [if_pos hlt] at h; cases h
          · rw [if_neg (fun hh => hlt hh.2)]; exact ⟨_, rfl⟩
    | vec a m1 b => cases h
    | mask a b g => cases h
    | all b => cases h
  | maskPred a b => cases h
  | nonzero a b => cases h
  | maskQuot a b q => cases h

theorem hoistCheck_row_fail (m : Mat α) (args : List Arg) (rowAx colAx : TAxis) (e : Err)
    (h : hoistCheck args rowAx m.rows = .error e) (r c : Nat) :
    ∃ e', rcTargetOf m args rowAx colAx r c = .error e' := by
  cases rowAx with
  | std a =>
    cases a with
    | scalar a m1 =>
      unfold rcTargetOf
      have hrr : tCoord args (.std (.scalar a m1)) r = coord args (.scalar a m1) 0 := rfl
      rw [hrr]
      simp only [hoistCheck] at h
      cases hr : coord args (.scalar a m1) 0 with
      | error e' => exact ⟨e', rfl⟩
      | ok r0 =>
        rw [hr] at h; simp only [bindE] at h ⊢
        cases hc : tCoord args colAx c with
        | error e' => exact ⟨e', rfl⟩
        | ok c0 =>
          simp only
          by_cases hlt : r0 < m.rows
          · rw [if_pos hlt] at h; cases h
          · rw [if_neg (fun hh => hlt hh.1)]; exact ⟨_, rfl⟩
    | vec a m1 b => cases h
    | mask a b g => cases h
    | all b => cases h
  | maskPred a b => cases h
  | nonzero a b => cases h
  | maskQuot a b q => cases h

/-- a kernel whose hoisted view fails would fail at its first step as well -/
theorem hoist_fail (f : α → α → Except Err α) (m : Mat α) (args : List Arg) (rowAx colAx : TAxis) (ss : SrcSel)
    (src : Operand α) (e : Err)
    (h : bindE (hoistCheck args rowAx m.rows) (fun _ => hoistCheck args colAx m.cols) = .error e)
    (rs cs : List Nat) (hrs : rs ≠ []) (hcs : cs ≠ []) (d : List α) :
    (scatterS f (steps2 m args rowAx colAx ss src (nest true rs cs)) d).2 ≠ .ok () := by
  have hT : ∀ r c, ∃ e', rcTargetOf m args rowAx colAx r c = .error e' := by
    cases h1 : hoistCheck args rowAx m.rows with
    | error e1 => exact hoistCheck_row_fail m args rowAx colAx e1 h1
    | ok u =>
      rw [h1] at h; simp only [bindE] at h
      exact hoistCheck_col_fail m args rowAx colAx e h
  cases rs with
  | nil => exact absurd rfl hrs
  | cons r rs' =>
    cases cs with
    | nil => exact absurd rfl hcs
    | cons c cs' =>
      obtain ⟨e', he'⟩ := hT r c
      simp only [nest, if_true, List.flatMap_cons, List.map_cons, List.cons_append, steps2, scatterS, he', step1, bindE]
      simp

theorem loops2_hoist (m : Mat α) (args : List Arg) (rowAx colAx : TAxis) (rs cs : List Nat)
    (hg1 : tGuard m args rowAx = .ok ()) (hg2 : tGuard m args colAx = .ok ())
    (hl1 : tLoopVals m args rowAx = .ok rs) (hl2 : tLoopVals m args colAx = .ok cs) :
    loops2 m args rowAx colAx true =
      bindE (bindE (hoistCheck args rowAx m.rows) (fun _ => hoistCheck args colAx m.cols)) (fun _ => .ok (rs, cs)) := by
  simp only [loops2, hg1, hg2, hl1, hl2, bindE, if_true]

theorem run_some (arith : OpTok → α → α → Except Err α) (ir : KIR) (rowAx : TAxis) (hrow : ir.row = some rowAx)
    (m : Mat α) (args : List Arg) (src : Operand α) (rs cs : List Nat)
    (h : loops2 m args rowAx ir.col ir.hoist = .ok (rs, cs)) :
    run arith ir m args src =
      (({ m with data := (scatterS (fOf arith ir.op) (steps2 m args rowAx ir.col ir.src src (nest ir.colOuter rs cs)) m.data).1 } : Mat α),
       (scatterS (fOf arith ir.op) (steps2 m args rowAx ir.col ir.src src (nest ir.colOuter rs cs)) m.data).2) := by
  unfold run; rw [hrow]; simp only [h]; rfl

/-- **Two-index kernels in any order.**  An accepted kernel that writes `sink[(r, c)]` — whatever the order of its two
    loops, and also when it takes a view on a scalar coordinate ahead of its loop — succeeds exactly when `assign2`
    succeeds for the two selectors its arguments hold, and then leaves the same matrix.  (With the row loop outside
    the cells are visited in another order than the model's, and a hoisted view fails before anything is written:
    what a *failing* run leaves behind is therefore not compared.)  A hoisted view is only checked by the model when
    a cell is addressed at all, hence `hne`. -/
theorem run_two_same (arith : OpTok → α → α → Except Err α) (sig : Sig) (ir : KIR) (hok : kOk sig ir = true)
    (rowAx : TAxis) (hrow : ir.row = some rowAx) (m : Mat α) (args : List Arg)
    (src : Operand α) (hfit : srcFits ir.src src = true)
    (s1 s2 : Sel) (hs1 : tSelOf args rowAx = some s1) (hs2 : tSelOf args ir.col = some s2)
    (hne : ir.hoist = true → ∀ R C, selIxs s1 m.rows = .ok R → selIxs s2 m.cols = .ok C → R ≠ [] ∧ C ≠ []) :
    SameResult (run arith ir m args src) (assign2 (fOf arith sig.op) m s1 s2 src) := by
  have hok0 := hok
  unfold kOk at hok
  rw [hrow] at hok
  cases hsr : sig.row with
  | none => rw [hsr] at hok; simp at hok
  | some rk =>
    rw [hsr] at hok
    simp only [Bool.and_eq_true, decide_eq_true_eq] at hok
    obtain ⟨hop, ⟨⟨⟨⟨⟨⟨hr, hc⟩, _⟩, _⟩, _⟩, _⟩, hsrc⟩⟩ := hok
    obtain ⟨a1, hstd1, ha1⟩ := tOk_std hr
    obtain ⟨a2, hstd2, ha2⟩ := tOk_std hc
    have hs1' : selOf args a1 = some s1 := by rw [hstd1] at hs1; exact hs1
    have hs2' : selOf args a2 = some s2 := by rw [hstd2] at hs2; exact hs2
    rcases axis_reads m args .rows a1 s1 ha1 hs1' with ⟨hg1, hsel1⟩ | ⟨rs, R, hg1, hl1, hsel1, hmap1⟩
    · have hsel1' : selIxs s1 m.rows = .error .dim := hsel1
      apply SameResult.of_eq
      unfold run assign2
      rw [hrow, hsel1']
      simp only [loops2, hstd1, tGuard, hg1, bindE]
    · have hsel1' : selIxs s1 m.rows = .ok R := hsel1
      rcases axis_reads m args .cols a2 s2 ha2 hs2' with ⟨hg2, hsel2⟩ | ⟨cs, C, hg2, hl2, hsel2, hmap2⟩
      · have hsel2' : selIxs s2 m.cols = .error .dim := hsel2
        apply SameResult.of_eq
        unfold run assign2
        rw [hrow, hsel1', hsel2']
        simp only [loops2, hstd1, hstd2, tGuard, hg1, hg2, bindE]
      · have hsel2' : selIxs s2 m.cols = .ok C := hsel2
        have hg1' : tGuard m args rowAx = .ok () := by rw [hstd1]; exact hg1
        have hg2' : tGuard m args ir.col = .ok () := by rw [hstd2]; exact hg2
        have hl1' : tLoopVals m args rowAx = .ok rs := by rw [hstd1]; exact hl1
        have hl2' : tLoopVals m args ir.col = .ok cs := by rw [hstd2]; exact hl2
        -- the same kernel with the column loop outside and no hoisted view is the model
        have hx := run_two arith sig { ir with colOuter := true, hoist := false } hok0
          (by simp only [kExact, Bool.not_false, Bool.true_or, Bool.true_and]; cases ir.row <;> rfl) rowAx hrow m args src hfit s1 s2 hs1 hs2
        rw [← hx]
        rw [run_some arith { ir with colOuter := true, hoist := false } rowAx hrow m args src rs cs
          (loops2_ok m args rowAx ir.col rs cs hg1' hg2' hl1' hl2')]
        -- which order-dependent case we are in
        have hcase : rs = [0] ∨ cs = [0] ∨ ir.src = .whole := by
          cases hsv : sig.vectorSrc with
          | false =>
            rw [hsv] at hsrc; simp only [Bool.false_eq_true, if_false, decide_eq_true_eq] at hsrc
            exact Or.inr (Or.inr hsrc)
          | true =>
            rw [hsv] at hsrc
            simp only [if_true, Bool.or_eq_true, Bool.and_eq_true, decide_eq_true_eq] at hsrc
            rcases hsrc with ⟨_, hsc⟩ | ⟨_, hsc⟩
            · exact Or.inr (Or.inl (scalar_loop m args ir.col cs hsc hl2'))
            · exact Or.inl (scalar_loop m args rowAx rs hsc hl1')
        have hord := order_same (fOf arith ir.op) m args rowAx ir.col ir.src src hfit rs cs ir.colOuter hcase m.data
        cases hh : ir.hoist with
        | false =>
          rw [run_some arith ir rowAx hrow m args src rs cs (by rw [hh]; exact loops2_ok m args rowAx ir.col rs cs hg1' hg2' hl1' hl2')]
          exact hord.mat
        | true =>
          have hl := loops2_hoist m args rowAx ir.col rs cs hg1' hg2' hl1' hl2'
          cases hchk : bindE (hoistCheck args rowAx m.rows) (fun _ => hoistCheck args ir.col m.cols) with
          | ok u =>
            rw [hchk] at hl; simp only [bindE] at hl
            rw [run_some arith ir rowAx hrow m args src rs cs (by rw [hh]; exact hl)]
            exact hord.mat
          | error e =>
            rw [hchk] at hl; simp only [bindE] at hl
            obtain ⟨hR, hC⟩ := hne hh R C hsel1' hsel2'
            have hrs : rs ≠ [] := by
              intro h0; subst h0; simp only [List.map_nil] at hmap1
              exact hR (List.map_eq_nil_iff.mp hmap1.symm)
            have hcs : cs ≠ [] := by
              intro h0; subst h0; simp only [List.map_nil] at hmap2
              exact hC (List.map_eq_nil_iff.mp hmap2.symm)
            apply SameResult.of_failures
            · unfold run; rw [hrow]; simp only [hh, hl]; simp
            · exact hoist_fail (fOf arith ir.op) m args rowAx ir.col ir.src src e hchk rs cs hrs hcs m.data

end MechVerif.AssignIR
