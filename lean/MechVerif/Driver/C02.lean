import MechVerif.Driver.Util
import MechVerif.Spec.Prec
namespace MechVerif.Driver
open MechVerif.Prec

/-- operator table: (name, symbol, grammar level) -/
def opTable : List (String × String × Nat) := [
  ("or", "||", 1), ("and", "&&", 1), ("xor", "⊕", 1),
  ("eq", "==", 2), ("ne", "!=", 2), ("lt", "<", 2), ("le", "<=", 2), ("gt", ">", 2), ("ge", ">=", 2),
  ("add", "+", 3), ("sub", "-", 3), ("mul", "*", 4), ("div", "/", 4), ("mod", "%", 4), ("pow", "^", 5)]

def opOf (name : String) : Option Op :=
  match opTable.findIdx? (fun e => e.1 == name) with
  | some i => some ⟨i, (opTable.getD i ("", "", 0)).2.2⟩
  | none => none

inductive A where
  | lit (s : String)
  | paren (t : Tree A)
  | neg (a : A)
  | not (a : A)

mutual
partial def parseA : List String → Option (A × List String)
  | "neg" :: ts => (parseA ts).map (fun p => (A.neg p.1, p.2))
  | "not" :: ts => (parseA ts).map (fun p => (A.not p.1, p.2))
  | "(" :: ts =>
    match parseF ts with
    | some (t, ")" :: rest) => some (A.paren t, rest)
    | _ => none
  | t :: ts => if t == ")" || (opOf t).isSome then none else some (A.lit t, ts)
  | [] => none

/-- a whole formula up to a closing parenthesis or the end -/
partial def parseF (ts : List String) : Option (Tree A × List String) :=
  match parseA ts with
  | none => none
  | some (a, rest) =>
    let rec chain (ts : List String) (acc : List (Op × A)) : Option (List (Op × A) × List String) :=
      match ts with
      | [] => some (acc.reverse, [])
      | ")" :: _ => some (acc.reverse, ts)
      | t :: ts' =>
        match opOf t, parseA ts' with
        | some o, some (b, rest') => chain rest' ((o, b) :: acc)
        | _, _ => none
    match chain rest [] with
    | none => none
    | some (pairs, rest') =>
      let res := parseFormula 7 a pairs
      if res.2.isEmpty then some (res.1, rest') else none
end

mutual
partial def sexprA : A → String
  | .lit s => s
  | .paren t => "(paren " ++ sexprT t ++ ")"
  | .neg a => "(neg " ++ sexprA a ++ ")"
  | .not a => "(not " ++ sexprA a ++ ")"
partial def sexprT : Tree A → String
  | .leaf a => sexprA a
  | .node l o r => "(" ++ (opTable.getD o.name ("?", "?", 0)).1 ++ " " ++ sexprT l ++ " " ++ sexprT r ++ ")"
end

mutual
partial def ptextA : A → String
  | .lit s => s
  | .paren t => "(" ++ ptextT t ++ ")"
  | .neg a => "(-" ++ ptextA a ++ ")"
  | .not a => "(!" ++ ptextA a ++ ")"
partial def ptextT : Tree A → String
  | .leaf a => ptextA a
  | .node l o r => "(" ++ ptextT l ++ " " ++ (opTable.getD o.name ("?", "?", 0)).2.1 ++ " " ++ ptextT r ++ ")"
end

def runC02 (fields : List String) (obs : String) : String × String × String :=
  match fields with
  | [_, body] =>
    match parseF (body.splitOn " ") with
    | some (t, []) =>
      let model := "tree:" ++ sexprT t ++ "#p:" ++ ptextT t ++ "#same:true"
      (model, if obs == model then "ok" else "bad:expected " ++ model, "-")
    | _ => ("bad-case", "bad-case", "-")
  | _ => ("bad-case", "bad-case", "-")

end MechVerif.Driver
