import MechVerif.Driver.C19
import MechVerif.Model.Doc
namespace MechVerif.Driver.S10
open MechVerif.Plan MechVerif.Doc MechVerif.Driver

def pElem (s : String) : Option (Elem Plan.Stmt) :=
  match s.splitOn ":" with
  | "X" :: _ => some .prose
  | "C" :: rest => (parsePStmt (":".intercalate rest)).map .code
  -- a code line with a trailing comment: the statement alone
  | "T" :: _ :: rest => (parsePStmt (":".intercalate rest)).map .code
  | "F" :: name :: rest =>
    (match ((":".intercalate rest).splitOn "|").mapM parsePStmt with
     -- `-` a plain mech fence, `#` a hidden one (mech:hidden), `%` one whose output is switched off
     -- (mech{output: false}): all three are code of the unnamed program; `!` disabled; else the block's name
     | some ss => some (if name == "-" || name == "#" || name == "%" then .unnamed ss else if name == "!" then .disabled ss else .named name ss)
     | none => none)
  | _ => none

def snapSt (s : St) : String := snapPlan s s.cells

/-- the reference: only the executable code, each namespace on its own -/
def specText (doc : List (Elem Plan.Stmt)) (names : List String) : String :=
  let mainS := runIso execStmt St.empty (mainCode doc)
  let ok := (runAll execStmt St.empty (mainCode doc)).isSome
  -- a namespace exists once a fence of its name was reached; after an abort only the fences before it count
  let rec prefixOk : St → List (Elem Plan.Stmt) → List (Elem Plan.Stmt) → List (Elem Plan.Stmt)
    | _, [], acc => acc.reverse
    | s, e :: rest, acc =>
      match e with
      | .code st => (match execStmt s st with | some s' => prefixOk s' rest (e :: acc) | none => acc.reverse)
      | .unnamed ss => (match runAll execStmt s ss with | some s' => prefixOk s' rest (e :: acc) | none => acc.reverse)
      | _ => prefixOk s rest (e :: acc)
  let reached := prefixOk St.empty doc []
  let parts := names.filterMap (fun n =>
    let chunks := nsChunks n reached
    if chunks.isEmpty then none else some ("ns" ++ n ++ "{" ++ snapSt (chunks.foldl (runIso execStmt) St.empty) ++ "}"))
  (if ok then "ok" else "err") ++ "|main{" ++ snapSt mainS ++ "}" ++ String.join ((sortStrings parts).map (fun p => "|" ++ p))

def runC10 (fields : List String) (obs : String) : String × String × String :=
  match fields with
  | [_, body] =>
    (match (body.splitOn ";;").mapM pElem with
     | none => ("bad-case", "bad-case", "-")
     | some doc =>
       let names := (doc.filterMap (fun e => match e with | .named n _ => some n | _ => none)).eraseDups
       let (d, ok) := interp execStmt St.empty ⟨St.empty, []⟩ doc
       let parts := d.subs.map (fun p => "ns" ++ p.1 ++ "{" ++ snapSt p.2 ++ "}")
       let model := (if ok then "ok" else "err") ++ "|main{" ++ snapSt d.main ++ "}" ++ String.join ((sortStrings parts).map (fun p => "|" ++ p))
       let exp := specText doc names
       (model, (if obs == exp then "ok" else "bad:expected " ++ exp), "-"))
  | _ => ("bad-case", "bad-case", "-")

end MechVerif.Driver.S10
