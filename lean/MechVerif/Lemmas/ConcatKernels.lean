/-
C11: the concatenation kernels as written (`Gen/ConcatKernels.lean`, regenerated from the source on every run)
compute the model.

* `copy_into_eq`, `copy_into_v_eq`, `copy_into_r_eq`, `copy_into_row_major_eq`: each generated routine equals the
  closed form of `Model/Concat.lean` (`copyLin`: the source's elements over consecutive positions; `copyRowMajor`:
  column by column, each a destination height further) for every source, destination and offset, including the
  panics.  The second is the stride lemma: the flat loop whose position advances by
  `((ix + 1) % src_rows == 0) as usize * stride + 1` is the nest "for each column, for each row".
* `horzcat_as_written`, `vertcat_as_written`: the dispatch and `solve` the table describes (`evalCat`), run with any
  routines that compute the closed forms, produce what `hcatAll` / `vcatAll` produce; `evalLit_eq`: with the checks
  of `matrix()` / `matrix_row()` around them, what `matrixLit` produces, errors included.
-/
import MechVerif.Gen.ConcatKernels
import MechVerif.Lemmas.Concat
namespace MechVerif.ConcatIR
open MechVerif.Num MechVerif.Mat MechVerif.Concat

variable {α : Type}

theorem bindE_ok {β γ : Type} (a : β) (g : β → Except Err γ) : bindE (.ok a) g = g a := rfl
theorem bindE_error {β γ : Type} (e : Err) (g : β → Except Err γ) : bindE (.error e) g = .error e := rfl

theorem blit_nil (d : List α) (p : Nat) : blit [] d p = .ok d := by simp [blit]

theorem blit_cons (x : α) (xs d : List α) (p : Nat) :
    blit (x :: xs) d p = if p < d.length then blit xs (d.set p x) (p + 1) else .error .index := by
  by_cases hp : p < d.length
  · simp only [hp, if_true]
    cases xs with
    | nil =>
      have : p + 1 ≤ d.length := hp
      simp [blit, this, List.set_eq_take_append_cons_drop, hp]
    | cons y ys =>
      unfold blit
      simp only [List.length_cons, List.length_set]
      by_cases hr : p + (ys.length + 1 + 1) ≤ d.length
      · have hr' : p + 1 + (ys.length + 1) ≤ d.length := by omega
        simp only [hr, hr', if_true, Nat.succ_ne_zero, if_false, Except.ok.injEq]
        apply List.ext_getElem?
        intro k
        simp only [List.getElem?_append, List.length_take, List.length_append, List.length_cons, List.getElem?_take,
          List.getElem?_drop, List.getElem?_set, List.length_set]
        grind
      · have hr' : ¬ p + 1 + (ys.length + 1) ≤ d.length := by omega
        simp [hr, hr']
  · have : ¬ p + (xs.length + 1) ≤ d.length := by omega
    simp [blit, hp, this]

/-- the loop of `copy_into*`: element `i` of the source to position `i + off` -/
theorem forFrom_copy (src : Mat α) (off : Nat) (body : Nat → Mat α → Except Err (Mat α))
    (hbody : ∀ i d, body i d = bindE (readLin src i) (fun t => bindE (writeLin d (i + off) t) (fun d => .ok d))) :
    ∀ (xs : List α) (i : Nat) (d : Mat α), src.data.drop i = xs →
    forFrom body i xs.length d
      = match blit xs d.data (i + off) with
        | .error e => .error e
        | .ok r => .ok ⟨d.rows, d.cols, r⟩ := by
  intro xs
  induction xs with
  | nil => intro i d _; simp [forFrom, blit_nil]
  | cons x xs ih =>
    intro i d h
    have hx : src.data[i]? = some x := by
      have := congrArg (fun l => l[0]?) h
      simpa [List.getElem?_drop] using this
    have hd : src.data.drop (i + 1) = xs := by
      have := congrArg List.tail h
      simpa [List.tail_drop] using this
    simp only [List.length_cons, forFrom, hbody, readLin, getE, hx, bindE, writeLin, blit_cons]
    by_cases hp : i + off < d.data.length
    · simp only [hp, if_true]
      rw [ih (i + 1) _ hd]
      simp only [Nat.add_right_comm i 1 off]
    · simp [hp]

theorem copy_into_eq (src dst : Mat α) (off : Nat) (hs : Mat.wf' src) :
    Gen.ConcatKernels.copy_into src dst off = copyLin src dst off := by
  unfold Gen.ConcatKernels.copy_into copyLin
  simp only [forRange, len]
  rw [← hs, forFrom_copy src off _ (fun _ _ => rfl) src.data 0 dst (by simp)]
  simp only [Nat.zero_add]
  cases blit src.data dst.data off <;> simp [bindE]

theorem copy_into_v_eq (src dst : Mat α) (off : Nat) (hs : Mat.wf' src) :
    Gen.ConcatKernels.copy_into_v src dst off = copyLin src dst off := by
  unfold Gen.ConcatKernels.copy_into_v copyLin
  simp only [forRange, len]
  rw [← hs, forFrom_copy src off _ (fun _ _ => rfl) src.data 0 dst (by simp)]
  simp only [Nat.zero_add]
  cases blit src.data dst.data off <;> simp [bindE]

theorem copy_into_r_eq (src dst : Mat α) (off : Nat) (hs : Mat.wf' src) :
    Gen.ConcatKernels.copy_into_r src dst off = copyLin src dst off := by
  unfold Gen.ConcatKernels.copy_into_r copyLin
  simp only [forRange, len]
  rw [← hs, forFrom_copy src off _ (fun _ _ => rfl) src.data 0 dst (by simp)]
  simp only [Nat.zero_add]
  cases blit src.data dst.data off <;> simp [bindE]


theorem forFrom_add {σ : Type} (body : Nat → σ → Except Err σ) : ∀ (a b i : Nat) (s : σ),
    forFrom body i (a + b) s = match forFrom body i a s with
      | .error e => .error e
      | .ok s' => forFrom body (i + a) b s' := by
  intro a
  induction a with
  | zero => intro b i s; simp [forFrom]
  | succ a ih =>
    intro b i s
    rw [Nat.add_right_comm a 1 b]
    simp only [forFrom]
    cases body i s with
    | error e => rfl
    | ok s' => simp only [ih]; rw [Nat.add_assoc i 1 a, Nat.add_comm 1 a]

/-- one column of the flat loop of `copy_into_row_major`: the position advances by one per element and by the stride
    on top after the last element of the column -/
theorem forFrom_col (src : Mat α) (stride c : Nat) (body : Nat → Nat × Mat α → Except Err (Nat × Mat α))
    (hbody : ∀ ix st, body ix st = bindE (readLin src ix) (fun t => bindE (writeLin st.2 st.1 t) (fun d =>
      .ok (st.1 + (((b2n (((ix + 1) % nrows src) == 0)) * stride) + 1), d)))) :
    ∀ (xs : List α) (k pos : Nat) (d : Mat α) (rest : List α), k + xs.length = src.rows →
      src.data.drop (c * src.rows + k) = xs ++ rest →
      forFrom body (c * src.rows + k) xs.length (pos, d)
        = match blit xs d.data pos with
          | .error e => .error e
          | .ok r => .ok (pos + xs.length + (if xs.length = 0 then 0 else stride), ⟨d.rows, d.cols, r⟩) := by
  intro xs
  induction xs with
  | nil => intro k pos d rest _ _; simp [forFrom, blit_nil]
  | cons x xs ih =>
    intro k pos d rest hk h
    have hx : src.data[c * src.rows + k]? = some x := by
      have := congrArg (fun l => l[0]?) h
      simpa [List.getElem?_drop] using this
    have hd : src.data.drop (c * src.rows + (k + 1)) = xs ++ rest := by
      have := congrArg List.tail h
      simpa [List.tail_drop, Nat.add_assoc] using this
    simp only [List.length_cons] at hk
    simp only [List.length_cons, forFrom, hbody, readLin, getE, hx, bindE, writeLin, blit_cons, nrows]
    by_cases hp : pos < d.data.length
    · simp only [hp, if_true]
      have hmod : (c * src.rows + k + 1) % src.rows = (k + 1) % src.rows := by
        rw [Nat.add_assoc, Nat.mul_comm, Nat.mul_add_mod]
      rw [hmod, Nat.add_assoc (c * src.rows) k 1, ih (k + 1) _ _ rest (by omega) hd]
      cases xs with
      | nil =>
        have : (k + 1) % src.rows = 0 := by
          simp only [List.length_nil] at hk
          rw [show k + 1 = src.rows by omega, Nat.mod_self]
        simp [this, b2n, blit_nil]
        omega
      | cons y ys =>
        have : ¬ (k + 1) % src.rows = 0 := by
          simp only [List.length_cons] at hk
          rw [Nat.mod_eq_of_lt (by omega)]; omega
        simp only [List.length_cons, this, b2n, beq_iff_eq, if_false, Nat.zero_mul, Nat.zero_add, Nat.succ_ne_zero]
        cases blit (y :: ys) (d.data.set pos x) (pos + 1) with
        | error e => rfl
        | ok r => simp only [Except.ok.injEq, Prod.mk.injEq, and_true]; omega
    · simp [hp]


theorem blitCols_rows0 (src : Mat α) (h0 : src.rows = 0) (R : Nat) : ∀ (n c : Nat) (d : List α) (pos : Nat),
    blitCols src R c n d pos = .ok d := by
  intro n
  induction n with
  | zero => intro c d pos; rfl
  | succ n ih =>
    intro c d pos
    have : colOf src c = [] := by simp [colOf, h0]
    simp only [blitCols, this, blit_nil, ih]

/-- the flat loop of `copy_into_row_major` is the column-by-column copy -/
theorem forFrom_cols (src : Mat α) (hs : Mat.wf' src) (stride : Nat)
    (body : Nat → Nat × Mat α → Except Err (Nat × Mat α))
    (hbody : ∀ ix st, body ix st = bindE (readLin src ix) (fun t => bindE (writeLin st.2 st.1 t) (fun d =>
      .ok (st.1 + (((b2n (((ix + 1) % nrows src) == 0)) * stride) + 1), d)))) (hr : 0 < src.rows) :
    ∀ (n c pos : Nat) (d : Mat α), c + n = src.cols →
      forFrom body (c * src.rows) (n * src.rows) (pos, d)
        = match blitCols src (src.rows + stride) c n d.data pos with
          | .error e => .error e
          | .ok r => .ok (pos + n * (src.rows + stride), ⟨d.rows, d.cols, r⟩) := by
  intro n
  induction n with
  | zero => intro c pos d _; simp [forFrom, blitCols]
  | succ n ih =>
    intro c pos d hc
    have hl := colOf_length src hs c (by omega)
    have hcol := forFrom_col src stride c body hbody (colOf src c) 0 pos d ((src.data.drop (c * src.rows)).drop src.rows)
      (by omega) (by simp only [colOf, Nat.add_zero, List.take_append_drop])
    rw [hl] at hcol
    simp only [Nat.add_zero] at hcol
    rw [Nat.succ_mul, Nat.add_comm (n * src.rows) src.rows, forFrom_add, hcol]
    simp only [blitCols]
    cases blit (colOf src c) d.data pos with
    | error e => rfl
    | ok r1 =>
      have hne : ¬ src.rows = 0 := by omega
      simp only [hne, if_false]
      rw [← Nat.succ_mul, ih (c + 1) _ _ (by omega), Nat.add_assoc pos src.rows stride]
      cases blitCols src (src.rows + stride) (c + 1) n r1 (pos + (src.rows + stride)) with
      | error e => rfl
      | ok r => simp only [Except.ok.injEq, Prod.mk.injEq, and_true]; rw [Nat.succ_mul]; omega

theorem copy_into_row_major_eq (src dst : Mat α) (off : Nat) (hs : Mat.wf' src) :
    Gen.ConcatKernels.copy_into_row_major src dst off = copyRowMajor src dst off := by
  unfold Gen.ConcatKernels.copy_into_row_major copyRowMajor
  simp only [forRange, len, usub]
  by_cases hlt : dst.rows < src.rows
  · have : ¬ nrows src ≤ nrows dst := by simp only [nrows]; omega
    simp only [hlt, this, if_true, if_false, bindE_error]
  · have hle : nrows src ≤ nrows dst := by simp only [nrows]; omega
    simp only [hle, if_true, hlt, if_false, bindE_ok]
    by_cases h0 : src.rows = 0
    · simp [h0, forFrom, blitCols_rows0 src h0, bindE_ok, nrows]
    · rw [Nat.mul_comm src.rows src.cols]
      have := forFrom_cols src hs (nrows dst - nrows src) _ (fun _ _ => rfl) (by omega) src.cols 0 off dst (by omega)
      rw [Nat.zero_mul] at this
      simp only [nrows] at hle
      rw [this, show src.rows + (nrows dst - nrows src) = dst.rows by simp only [nrows]; omega]
      cases blitCols src dst.rows 0 src.cols dst.data off <;> rfl

/-! ### the table: dispatch and `solve` compute `hcatAll` / `vcatAll` -/

/-- the closed forms, by routine -/
def modelImpl : Routine → Mat α → Mat α → Nat → Except Err (Mat α × Nat)
  | .copy_into_row_major => copyRowMajor
  | _ => copyLin

def Routine.linear : Routine → Bool
  | .copy_into_row_major => false
  | _ => true

theorem gen_impl_eq (r : Routine) (src dst : Mat α) (off : Nat) (hs : Mat.wf' src) :
    Gen.ConcatKernels.impl r src dst off = modelImpl r src dst off := by
  cases r
  · exact copy_into_eq src dst off hs
  · exact copy_into_v_eq src dst off hs
  · exact copy_into_r_eq src dst off hs
  · exact copy_into_row_major_eq src dst off hs

/-- writing inside the middle of three segments -/
theorem blit_mid (x pre mid post : List α) (h : x.length ≤ mid.length) :
    blit x (pre ++ mid ++ post) pre.length = .ok (pre ++ x ++ mid.drop x.length ++ post) := by
  unfold blit
  by_cases h0 : x.length = 0
  · have : x = [] := List.length_eq_zero_iff.mp h0
    subst this
    simp
  · have hle : pre.length + x.length ≤ (pre ++ mid ++ post).length := by simp only [List.length_append]; omega
    simp only [h0, if_false, hle, if_true, Except.ok.injEq]
    apply List.ext_getElem?
    intro k
    simp only [List.getElem?_append, List.length_take, List.length_append, List.getElem?_take,
      List.getElem?_drop, List.length_drop]
    grind

theorem hcatAll_data : ∀ (bs : List (Mat α)) (acc : Mat α), (∀ b ∈ bs, b.rows = acc.rows) →
    hcatAll acc bs = .ok ⟨acc.rows, acc.cols + sumCols bs, acc.data ++ bs.flatMap (·.data)⟩ := by
  intro bs
  induction bs with
  | nil => intro acc _; simp [hcatAll, sumCols]
  | cons b bs ih =>
    intro acc h
    have hb : acc.rows = b.rows := (h b List.mem_cons_self).symm
    simp only [hcatAll, hcat2, hb, if_true]
    rw [ih _ (fun x hx => by simpa [hb] using h x (List.mem_cons_of_mem _ hx))]
    simp [sumCols, Nat.add_assoc]

theorem colOf_zero (m : Mat α) (hm : Mat.wf' m) (hc : m.cols = 1) : colOf m 0 = m.data := by
  unfold colOf
  simp only [Nat.zero_mul, List.drop_zero]
  apply List.take_of_length_le
  rw [hm, hc]; omega

theorem vcatAll_col1 : ∀ (bs : List (Mat α)) (acc : Mat α), Mat.wf' acc → (∀ b ∈ bs, Mat.wf' b) → acc.cols = 1 →
    (∀ b ∈ bs, b.cols = 1) →
    vcatAll acc bs = .ok ⟨acc.rows + sumRows bs, 1, acc.data ++ bs.flatMap (·.data)⟩ := by
  intro bs
  induction bs with
  | nil => intro acc _ _ hc _; cases acc; simp_all [vcatAll, sumRows]
  | cons b bs ih =>
    intro acc ha hwf hc h
    have hb : b.cols = 1 := h b List.mem_cons_self
    have hbw : Mat.wf' b := hwf b List.mem_cons_self
    have h2 : vcat2 acc b = .ok ⟨acc.rows + b.rows, 1, acc.data ++ b.data⟩ := by
      simp [vcat2, hc, hb, colOf_zero acc ha hc, colOf_zero b hbw hb]
    simp only [vcatAll, h2]
    rw [ih _ (vcat2_wf acc b _ ha hbw h2) (fun x hx => hwf x (List.mem_cons_of_mem _ hx)) rfl
      (fun x hx => h x (List.mem_cons_of_mem _ hx))]
    simp [sumRows, Nat.add_assoc]


theorem modelImpl_linear (r : Routine) (hr : r.linear = true) : (modelImpl r : Mat α → Mat α → Nat → _) = copyLin := by
  cases r <;> first | rfl | cases hr

section run
variable (impl : Routine → Mat α → Mat α → Nat → Except Err (Mat α × Nat))
  (himpl : ∀ r m dst off, Mat.wf' m → impl r m dst off = modelImpl r m dst off)
include himpl

/-- `offset += e.copy_into(&self.out, offset)` over all arguments: the blocks' elements one after the other -/
theorem runLoop_lin (r : Routine) (hr : r.linear = true) (f : Nat) :
    ∀ (es : List (Mat α)) (pre mid post : List α) (R C : Nat), (∀ e ∈ es, Mat.wf' e) →
      (es.flatMap (·.data)).length ≤ mid.length →
      runLoop impl ⟨f, r, .offset, .add⟩ es (⟨R, C, pre ++ mid ++ post⟩, pre.length)
        = .ok (⟨R, C, pre ++ es.flatMap (·.data) ++ mid.drop (es.flatMap (·.data)).length ++ post⟩,
               pre.length + (es.flatMap (·.data)).length) := by
  intro es
  induction es with
  | nil => intro pre mid post R C _ _; simp [runLoop]
  | cons e es ih =>
    intro pre mid post R C hwf hlen
    have he : Mat.wf' e := hwf e List.mem_cons_self
    simp only [List.flatMap_cons, List.length_append] at hlen
    simp only [runLoop, runStep, himpl r e _ _ he, modelImpl_linear r hr, copyLin,
      blit_mid e.data pre mid post (by omega)]
    have := ih (pre ++ e.data) (mid.drop e.data.length) post R C (fun x hx => hwf x (List.mem_cons_of_mem _ hx))
      (by simp only [List.length_drop]; omega)
    rw [← he]
    simp only [List.length_append] at this
    rw [this]
    simp [List.append_assoc, Nat.add_assoc]

end run

section seq
variable (impl : Routine → Mat α → Mat α → Nat → Except Err (Mat α × Nat))

theorem runSeq2 (r : Routine) (a b out : Mat α) :
    mapE (runSeq impl [a, b] (seqOf r 2) (out, 0)) (·.1)
      = mapE (runLoop impl ⟨0, r, .offset, .add⟩ [a, b] (out, 0)) (·.1) := by
  simp only [seqOf, runSeq, runLoop, runStep, List.range_zero, List.map_nil, List.nil_append,
    List.getElem?_cons_zero, List.getElem?_cons_succ, Nat.zero_add]
  cases impl r a out 0 with
  | error e => rfl
  | ok p =>
    simp only
    cases impl r b p.1 p.2 with
    | error e => rfl
    | ok q => rfl

theorem runSeq3 (r : Routine) (a b c out : Mat α) :
    mapE (runSeq impl [a, b, c] (seqOf r 3) (out, 0)) (·.1)
      = mapE (runLoop impl ⟨0, r, .offset, .add⟩ [a, b, c] (out, 0)) (·.1) := by
  simp only [seqOf, runSeq, runLoop, runStep, List.range_succ, List.range_zero, List.map_nil, List.nil_append, List.map_cons,
    List.cons_append,
    List.getElem?_cons_zero, List.getElem?_cons_succ, Nat.zero_add]
  cases impl r a out 0 with
  | error e => rfl
  | ok p =>
    simp only
    cases impl r b p.1 p.2 with
    | error e => rfl
    | ok q =>
      simp only
      cases impl r c q.1 (p.2 + q.2) with
      | error e => rfl
      | ok q => rfl

theorem runSeq4 (r : Routine) (a b c d out : Mat α) :
    mapE (runSeq impl [a, b, c, d] (seqOf r 4) (out, 0)) (·.1)
      = mapE (runLoop impl ⟨0, r, .offset, .add⟩ [a, b, c, d] (out, 0)) (·.1) := by
  simp only [seqOf, runSeq, runLoop, runStep, List.range_succ, List.range_zero, List.map_nil, List.nil_append, List.map_cons,
    List.cons_append, List.map_append,
    List.getElem?_cons_zero, List.getElem?_cons_succ, Nat.zero_add]
  cases impl r a out 0 with
  | error e => rfl
  | ok p =>
    simp only
    cases impl r b p.1 p.2 with
    | error e => rfl
    | ok q =>
      simp only
      cases impl r c q.1 (p.2 + q.2) with
      | error e => rfl
      | ok s =>
        simp only
        cases impl r d s.1 (p.2 + q.2 + s.2) with
        | error e => rfl
        | ok q => rfl

end seq

/-- the elements a block contributes -/
def chunk (a : Operand α) : List α := (blockOf a).data

/-- the index advance of the `byKind` wiring -/
def advOf (madv : Dim) (sadv : Nat) : Operand α → Nat
  | .scalar _ => sadv
  | .mat m => madv.of m

/-- a buffer segment after the matrices among the arguments were copied to their places -/
def overlayMats : List (Operand α) → List α → List α
  | [], mid => mid
  | .scalar _ :: as, mid => mid.take 1 ++ overlayMats as (mid.drop 1)
  | .mat m :: as, mid => m.data ++ overlayMats as (mid.drop m.data.length)

/-- … after the scalars were written to theirs -/
def overlayScalars : List (Operand α) → List α → List α
  | [], mid => mid
  | .scalar x :: as, mid => x :: overlayScalars as (mid.drop 1)
  | .mat m :: as, mid => mid.take m.data.length ++ overlayScalars as (mid.drop m.data.length)

theorem chunk_scalar (x : α) : chunk (.scalar x) = [x] := rfl
theorem chunk_mat (m : Mat α) : chunk (.mat m) = m.data := rfl

theorem overlayMats_length : ∀ (args : List (Operand α)) (mid : List α), (args.flatMap chunk).length ≤ mid.length →
    (overlayMats args mid).length = mid.length := by
  intro args
  induction args with
  | nil => intro mid _; rfl
  | cons a as ih =>
    intro mid h
    simp only [List.flatMap_cons, List.length_append] at h
    cases a with
    | scalar x =>
      simp only [chunk_scalar, List.length_cons, List.length_nil] at h
      simp only [overlayMats, List.length_append, List.length_take]
      rw [ih _ (by simp only [List.length_drop]; omega), List.length_drop]; omega
    | mat m =>
      simp only [chunk_mat] at h
      simp only [overlayMats, List.length_append]
      rw [ih _ (by simp only [List.length_drop]; omega), List.length_drop]; omega

theorem overlay_final : ∀ (args : List (Operand α)) (mid : List α), mid.length = (args.flatMap chunk).length →
    overlayScalars args (overlayMats args mid) = args.flatMap chunk := by
  intro args
  induction args with
  | nil =>
    intro mid h
    have : mid = [] := List.length_eq_zero_iff.mp (by simpa using h)
    subst this; rfl
  | cons a as ih =>
    intro mid h
    simp only [List.flatMap_cons, List.length_append] at h
    cases a with
    | scalar x =>
      simp only [chunk_scalar, List.length_cons, List.length_nil] at h
      have h1 : (mid.take 1).length = 1 := by rw [List.length_take]; omega
      simp only [overlayMats, overlayScalars, List.flatMap_cons, chunk_scalar, List.cons_append, List.nil_append]
      rw [List.drop_left' h1, ih _ (by simp only [List.length_drop]; omega)]
    | mat m =>
      simp only [chunk_mat] at h
      simp only [overlayMats, overlayScalars, List.flatMap_cons, chunk_mat, List.take_left', List.drop_left']
      rw [ih _ (by simp only [List.length_drop]; omega)]

section run
variable (impl : Routine → Mat α → Mat α → Nat → Except Err (Mat α × Nat))
  (himpl : ∀ r m dst off, Mat.wf' m → impl r m dst off = modelImpl r m dst off)
include himpl

theorem copyMats_overlay (r : Routine) (hr : r.linear = true) (madv : Dim) (sadv : Nat) :
    ∀ (args : List (Operand α)) (pre mid post : List α) (R C : Nat),
      (∀ a ∈ args, advOf madv sadv a = (chunk a).length) → (∀ a ∈ args, Mat.wf' (blockOf a)) →
      (args.flatMap chunk).length ≤ mid.length →
      copyMats impl r (indexArgs madv sadv pre.length args) ⟨R, C, pre ++ mid ++ post⟩
        = .ok ⟨R, C, pre ++ overlayMats args mid ++ post⟩ := by
  intro args
  induction args with
  | nil => intro pre mid post R C _ _ _; simp [indexArgs, copyMats, overlayMats]
  | cons a as ih =>
    intro pre mid post R C hadv hwf hlen
    simp only [List.flatMap_cons, List.length_append] at hlen
    have hadv' := fun x hx => hadv x (List.mem_cons_of_mem _ hx)
    have hwf' := fun x hx => hwf x (List.mem_cons_of_mem _ hx)
    cases a with
    | scalar x =>
      have ha : sadv = 1 := hadv (.scalar x) List.mem_cons_self
      simp only [chunk_scalar, List.length_cons, List.length_nil] at hlen
      have h1 : (mid.take 1).length = 1 := by rw [List.length_take]; omega
      have := ih (pre ++ mid.take 1) (mid.drop 1) post R C hadv' hwf' (by simp only [List.length_drop]; omega)
      simp only [List.length_append, h1, List.append_assoc, List.take_append_drop] at this
      subst ha
      simp only [indexArgs, copyMats, overlayMats, List.append_assoc]
      exact this
    | mat m =>
      have ha : madv.of m = m.data.length := hadv (.mat m) List.mem_cons_self
      have hm : Mat.wf' m := hwf (.mat m) List.mem_cons_self
      simp only [chunk_mat] at hlen
      have := ih (pre ++ m.data) (mid.drop m.data.length) post R C hadv' hwf' (by simp only [List.length_drop]; omega)
      simp only [List.length_append, List.append_assoc] at this
      simp only [indexArgs, copyMats, ha, overlayMats, himpl r m _ _ hm, modelImpl_linear r hr, copyLin,
        blit_mid m.data pre mid post (by omega)]
      simp only [List.append_assoc]
      exact this

end run

theorem writeScalars_overlay (madv : Dim) (sadv : Nat) :
    ∀ (args : List (Operand α)) (pre mid post : List α) (R C : Nat),
      (∀ a ∈ args, advOf madv sadv a = (chunk a).length) →
      (args.flatMap chunk).length ≤ mid.length →
      writeScalars (indexArgs madv sadv pre.length args) ⟨R, C, pre ++ mid ++ post⟩
        = .ok ⟨R, C, pre ++ overlayScalars args mid ++ post⟩ := by
  intro args
  induction args with
  | nil => intro pre mid post R C _ _; simp [indexArgs, writeScalars, overlayScalars]
  | cons a as ih =>
    intro pre mid post R C hadv hlen
    simp only [List.flatMap_cons, List.length_append] at hlen
    have hadv' := fun x hx => hadv x (List.mem_cons_of_mem _ hx)
    cases a with
    | scalar x =>
      have ha : sadv = 1 := hadv (.scalar x) List.mem_cons_self
      simp only [chunk_scalar, List.length_cons, List.length_nil] at hlen
      subst ha
      cases mid with
      | nil => simp at hlen
      | cons y ys =>
        simp only [List.length_cons] at hlen
        have := ih (pre ++ [x]) ys post R C hadv' (by omega)
        simp only [List.length_append, List.length_cons, List.length_nil, List.append_assoc] at this
        have hlt : pre.length < (pre ++ (y :: ys ++ post)).length := by simp only [List.length_append, List.length_cons]; omega
        have hset : (pre ++ (y :: ys ++ post)).set pre.length x = pre ++ ([x] ++ (ys ++ post)) := by
          rw [List.set_append_right _ _ (Nat.le_refl _)]
          simp
        simp only [indexArgs, writeScalars, writeLin, overlayScalars, List.append_assoc, hlt, if_true, hset, List.drop_succ_cons,
          List.drop_zero]
        exact this
    | mat m =>
      have ha : madv.of m = m.data.length := hadv (.mat m) List.mem_cons_self
      simp only [chunk_mat] at hlen
      have hl : (mid.take m.data.length).length = m.data.length := by rw [List.length_take]; omega
      have := ih (pre ++ mid.take m.data.length) (mid.drop m.data.length) post R C hadv' (by simp only [List.length_drop]; omega)
      simp only [List.length_append, hl, List.append_assoc, List.take_append_drop] at this
      simp only [indexArgs, writeScalars, ha, overlayScalars, List.append_assoc]
      exact this


theorem blit_spec (x d : List α) (p : Nat) (h : p + x.length ≤ d.length) :
    ∃ r, blit x d p = .ok r ∧ r.length = d.length ∧
      ∀ k, r[k]? = if p ≤ k ∧ k < p + x.length then x[k - p]? else d[k]? := by
  by_cases h0 : x.length = 0
  · have : x = [] := List.length_eq_zero_iff.mp h0
    subst this
    refine ⟨d, by simp [blit], rfl, ?_⟩
    intro k
    have : ¬ (p ≤ k ∧ k < p + ([] : List α).length) := by simp only [List.length_nil]; omega
    simp only [this, if_false]
  · refine ⟨d.take p ++ x ++ d.drop (p + x.length), by simp [blit, h0, h], ?_, ?_⟩
    · simp only [List.length_append, List.length_take, List.length_drop]; omega
    · intro k
      simp only [List.getElem?_append, List.length_take, List.length_append, List.getElem?_take, List.getElem?_drop]
      grind

/-- position `j·R + i` lies in the stretch of `h` positions starting at row `o` of column `c` exactly when `j = c`
    and `i` is one of the rows `o … o+h-1` -/
theorem lin_range (R i j c o h : Nat) (hi : i < R) (ho : o + h ≤ R) :
    (o + c * R ≤ j * R + i ∧ j * R + i < o + c * R + h) ↔ (j = c ∧ o ≤ i ∧ i < o + h) := by
  rcases Nat.lt_trichotomy j c with hlt | heq | hgt
  · have := Nat.mul_le_mul_right R (show j + 1 ≤ c from hlt)
    rw [Nat.succ_mul] at this
    constructor <;> intro h' <;> omega
  · subst heq
    constructor <;> intro h' <;> omega
  · have := Nat.mul_le_mul_right R (show c + 1 ≤ j from hgt)
    rw [Nat.succ_mul] at this
    constructor <;> intro h' <;> omega

theorem blitCols_spec (src : Mat α) (hs : Mat.wf' src) (R C o : Nat) (ho : o + src.rows ≤ R) (hC : src.cols ≤ C) :
    ∀ (n c : Nat) (d : List α), c + n = src.cols → d.length = R * C →
      ∃ r, blitCols src R c n d (o + c * R) = .ok r ∧ r.length = d.length ∧
        ∀ i j, i < R → j < C →
          r[j * R + i]? = if c ≤ j ∧ j < c + n ∧ o ≤ i ∧ i < o + src.rows then src.data[j * src.rows + (i - o)]?
                          else d[j * R + i]? := by
  intro n
  induction n with
  | zero =>
    intro c d _ _
    refine ⟨d, rfl, rfl, ?_⟩
    intro i j _ _
    have : ¬ (c ≤ j ∧ j < c + 0 ∧ o ≤ i ∧ i < o + src.rows) := by omega
    simp only [this, if_false]
  | succ n ih =>
    intro c d hc hd
    have hl := colOf_length src hs c (by omega)
    have hin : o + c * R + (colOf src c).length ≤ d.length := by
      have := Nat.mul_le_mul_right R (show c + 1 ≤ C by omega)
      rw [Nat.succ_mul] at this
      rw [hl, hd, Nat.mul_comm R C]; omega
    obtain ⟨r1, hb, hlen1, hget1⟩ := blit_spec (colOf src c) d (o + c * R) hin
    obtain ⟨r, hr, hlen, hget⟩ := ih (c + 1) r1 (by omega) (by rw [hlen1, hd])
    rw [Nat.succ_mul, ← Nat.add_assoc] at hr
    refine ⟨r, by simp only [blitCols, hb, hr], by rw [hlen, hlen1], ?_⟩
    intro i j hi hj
    rw [hget i j hi hj, hget1, hl]
    have hrange := lin_range R i j c o src.rows hi ho
    by_cases hjc : j = c
    · subst hjc
      by_cases hio : o ≤ i ∧ i < o + src.rows
      · have h1 : o + j * R ≤ j * R + i ∧ j * R + i < o + j * R + src.rows := hrange.mpr ⟨rfl, hio⟩
        have h2 : ¬ (j + 1 ≤ j ∧ j < j + 1 + n ∧ o ≤ i ∧ i < o + src.rows) := by omega
        have h3 : j ≤ j ∧ j < j + (n + 1) ∧ o ≤ i ∧ i < o + src.rows := by omega
        rw [if_neg h2, if_pos h1, if_pos h3]
        rw [show j * R + i - (o + j * R) = i - o by omega, colOf_get src j (i - o) (by omega)]
      · have h1 : ¬ (o + j * R ≤ j * R + i ∧ j * R + i < o + j * R + src.rows) := fun h => hio (hrange.mp h).2
        have h2 : ¬ (j + 1 ≤ j ∧ j < j + 1 + n ∧ o ≤ i ∧ i < o + src.rows) := by omega
        have h3 : ¬ (j ≤ j ∧ j < j + (n + 1) ∧ o ≤ i ∧ i < o + src.rows) := by omega
        rw [if_neg h2, if_neg h1, if_neg h3]
    · have h1 : ¬ (o + c * R ≤ j * R + i ∧ j * R + i < o + c * R + src.rows) := fun h => hjc (hrange.mp h).1
      rw [if_neg h1]
      have : (c + 1 ≤ j ∧ j < c + 1 + n ∧ o ≤ i ∧ i < o + src.rows) ↔ (c ≤ j ∧ j < c + (n + 1) ∧ o ≤ i ∧ i < o + src.rows) := by
        constructor <;> intro h <;> omega
      simp only [this]


/-- `copy_into_row_major` places the source as a block with its top left corner at row `o`, column 0 -/
theorem copyRowMajor_spec (src dst : Mat α) (o : Nat) (hs : Mat.wf' src) (hd : Mat.wf' dst)
    (ho : o + src.rows ≤ dst.rows) (hC : src.cols ≤ dst.cols) :
    ∃ out, copyRowMajor src dst o = .ok (out, src.rows) ∧ out.rows = dst.rows ∧ out.cols = dst.cols ∧ Mat.wf' out ∧
      ∀ i j, i < dst.rows → j < dst.cols →
        out.get? i j = if o ≤ i ∧ i < o + src.rows ∧ j < src.cols then src.get? (i - o) j else dst.get? i j := by
  obtain ⟨r, hr, hlen, hget⟩ := blitCols_spec src hs dst.rows dst.cols o ho hC src.cols 0 dst.data (by omega) hd
  rw [Nat.zero_mul, Nat.add_zero] at hr
  have hlt : ¬ dst.rows < src.rows := by omega
  refine ⟨⟨dst.rows, dst.cols, r⟩, by simp only [copyRowMajor, hlt, if_false, hr], rfl, rfl, by simp only [Mat.wf', hlen]; exact hd, ?_⟩
  intro i j hi hj
  have h1 : i < dst.rows ∧ j < dst.cols := ⟨hi, hj⟩
  simp only [Mat.get?]
  rw [if_pos h1, if_pos h1, hget i j hi hj]
  by_cases hc : o ≤ i ∧ i < o + src.rows ∧ j < src.cols
  · have h2 : 0 ≤ j ∧ j < 0 + src.cols ∧ o ≤ i ∧ i < o + src.rows := by omega
    have h3 : i - o < src.rows ∧ j < src.cols := by omega
    rw [if_pos hc, if_pos h2, if_pos h3]
  · have h2 : ¬ (0 ≤ j ∧ j < 0 + src.cols ∧ o ≤ i ∧ i < o + src.rows) := by omega
    rw [if_neg hc, if_neg h2]

section run
variable (impl : Routine → Mat α → Mat α → Nat → Except Err (Mat α × Nat))
  (himpl : ∀ r m dst off, Mat.wf' m → impl r m dst off = modelImpl r m dst off)
include himpl

/-- `offset += e.copy_into_row_major(&self.out, offset)` over all arguments: the blocks stacked from row `o` on -/
theorem runLoop_rowMajor (f : Nat) :
    ∀ (es : List (Mat α)) (o : Nat) (out : Mat α), (∀ e ∈ es, Mat.wf' e) → (∀ e ∈ es, e.cols = out.cols) → Mat.wf' out →
      o + sumRows es ≤ out.rows →
      ∃ out', runLoop impl ⟨f, .copy_into_row_major, .offset, .add⟩ es (out, o) = .ok (out', o + sumRows es) ∧
        out'.rows = out.rows ∧ out'.cols = out.cols ∧ Mat.wf' out' ∧
        ∀ i j, i < out.rows → j < out.cols →
          out'.get? i j = if o ≤ i ∧ i < o + sumRows es then vGet es (i - o) j else out.get? i j := by
  intro es
  induction es with
  | nil =>
    intro o out _ _ hw _
    refine ⟨out, by simp [runLoop, sumRows], rfl, rfl, hw, ?_⟩
    intro i j _ _
    have : ¬ (o ≤ i ∧ i < o + sumRows ([] : List (Mat α))) := by simp only [sumRows, List.map_nil, List.sum_nil]; omega
    rw [if_neg this]
  | cons e es ih =>
    intro o out hwf hcols hw ho
    have he : Mat.wf' e := hwf e List.mem_cons_self
    have hec : e.cols = out.cols := hcols e List.mem_cons_self
    have hsum : sumRows (e :: es) = e.rows + sumRows es := by simp [sumRows]
    rw [hsum] at ho
    obtain ⟨o1, h1, hr1, hc1, hw1, hg1⟩ := copyRowMajor_spec e out o he hw (by omega) (by omega)
    obtain ⟨o2, h2, hr2, hc2, hw2, hg2⟩ := ih (o + e.rows) o1 (fun x hx => hwf x (List.mem_cons_of_mem _ hx))
      (fun x hx => by rw [hc1]; exact hcols x (List.mem_cons_of_mem _ hx)) hw1 (by rw [hr1]; omega)
    refine ⟨o2, ?_, by rw [hr2, hr1], by rw [hc2, hc1], hw2, ?_⟩
    · simp only [runLoop, runStep, himpl _ e _ _ he, modelImpl, h1, h2, hsum, Nat.add_assoc]
    · intro i j hi hj
      rw [hg2 i j (by rw [hr1]; exact hi) (by rw [hc1]; exact hj), hg1 i j hi hj, hsum]
      simp only [vGet]
      by_cases ha : o ≤ i ∧ i < o + e.rows
      · have c1 : ¬ (o + e.rows ≤ i ∧ i < o + e.rows + sumRows es) := by omega
        have c2 : o ≤ i ∧ i < o + e.rows ∧ j < e.cols := by omega
        have c3 : o ≤ i ∧ i < o + (e.rows + sumRows es) := by omega
        have c4 : i - o < e.rows := by omega
        rw [if_neg c1, if_pos c2, if_pos c3, if_pos c4]
      · have c2 : ¬ (o ≤ i ∧ i < o + e.rows ∧ j < e.cols) := by omega
        by_cases hb : o + e.rows ≤ i ∧ i < o + e.rows + sumRows es
        · have c3 : o ≤ i ∧ i < o + (e.rows + sumRows es) := by omega
          have c4 : ¬ i - o < e.rows := by omega
          rw [if_pos hb, if_pos c3, if_neg c4, show i - (o + e.rows) = i - o - e.rows by omega]
        · have c3 : ¬ (o ≤ i ∧ i < o + (e.rows + sumRows es)) := by omega
          rw [if_neg hb, if_neg c2, if_neg c3]

end run

/-- two well-formed matrices of one shape with the same elements are the same matrix -/
theorem mat_ext (a b : Mat α) (hr : a.rows = b.rows) (hc : a.cols = b.cols) (ha : Mat.wf' a) (hb : Mat.wf' b)
    (h : ∀ i j, i < a.rows → j < a.cols → a.get? i j = b.get? i j) : a = b := by
  obtain ⟨R, C, da⟩ := a
  obtain ⟨R', C', db⟩ := b
  simp only at hr hc
  subst hr hc
  simp only [Mat.wf'] at ha hb
  congr 1
  apply List.ext_getElem?
  intro k
  by_cases hk : k < R * C
  · have hR : 0 < R := by
      rcases Nat.eq_zero_or_pos R with h0 | h0
      · subst h0; simp at hk
      · exact h0
    have hj : k / R < C := by rw [Nat.div_lt_iff_lt_mul hR, Nat.mul_comm]; exact hk
    have hi : k % R < R := Nat.mod_lt _ hR
    have := h (k % R) (k / R) hi hj
    simp only [Mat.get?, hi, hj, and_self, if_true] at this
    rw [show k / R * R + k % R = k by rw [Nat.mul_comm]; exact Nat.div_add_mod k R] at this
    exact this
  · rw [List.getElem?_eq_none (by omega), List.getElem?_eq_none (by omega)]


/-! ### dispatch -/

theorem selectArm_nil (n r c : Nat) : selectArm [] n r c = none := rfl
theorem selectArm_cons (a : Arm) (arms : List Arm) (n r c : Nat) :
    selectArm (a :: arms) n r c =
      if a.pat.1.admits n = true ∧ a.pat.2.1.admits r = true ∧ a.pat.2.2.admits c = true then some a else selectArm arms n r c := by
  simp only [selectArm, List.find?]
  cases h1 : a.pat.1.admits n <;> cases h2 : a.pat.2.1.admits r <;> cases h3 : a.pat.2.2.admits c <;> simp
theorem admits_any (n : Nat) : Pat.any.admits n = true := rfl
theorem admits_lit (k n : Nat) : (Pat.lit k).admits n = true ↔ k = n := by simp [Pat.admits]

theorem horz_select_one (r c : Nat) :
    ∃ arm, selectArm expectedHorzcat.arms 1 r c = some arm ∧ arm.wiring = .single ∧ arm.alloc = .none ∧
      ∀ s ∈ arm.structs, (lookupSolve expectedSolves s == some .nop || lookupSolve expectedSolves s == some .scalar1) = true := by
  by_cases hr : r = 1
  · subst hr
    by_cases hc : c = 1
    · subst hc
      simp only [expectedHorzcat, selectArm_cons, admits_any, admits_lit, true_and, and_true, and_self, if_true]
      exact ⟨_, rfl, rfl, rfl, by decide⟩
    · have hc' : ¬ 1 = c := fun h => hc h.symm
      simp only [expectedHorzcat, selectArm_cons, admits_any, admits_lit, true_and, and_true, and_self, hc', and_false, if_false, if_true]
      exact ⟨_, rfl, rfl, rfl, by decide⟩
  · have hr' : ¬ 1 = r := fun h => hr h.symm
    simp only [expectedHorzcat, selectArm_cons, admits_any, admits_lit, true_and, and_true, hr', false_and, and_false, if_false, if_true]
    exact ⟨_, rfl, rfl, rfl, by decide⟩

theorem horz_select_row (n c : Nat) (hn : 2 ≤ n) :
    selectArm expectedHorzcat.arms n 1 c = some ⟨(.any, .lit 1, .any), ["HorizontalConcatenateRDN"], .rd .cols, .byKind .cols 1⟩ := by
  have h1 : ¬ 1 = n := by omega
  simp only [expectedHorzcat, selectArm_cons, admits_any, admits_lit, true_and, and_true, h1, false_and, if_false, if_true]

theorem horz_select_mat (n r c : Nat) (hn : 2 ≤ n) (hr : r ≠ 1) :
    selectArm expectedHorzcat.arms n r c =
      if n = 2 then some ⟨(.lit 2, .any, .any), ["HorizontalConcatenateTwoArgs"], .md .rows .cols, .fields [0, 1]⟩
      else if n = 3 then some ⟨(.lit 3, .any, .any), ["HorizontalConcatenateThreeArgs"], .md .rows .cols, .fields [0, 1, 2]⟩
      else if n = 4 then some ⟨(.lit 4, .any, .any), ["HorizontalConcatenateFourArgs"], .md .rows .cols, .fields [0, 1, 2, 3]⟩
      else some ⟨(.any, .any, .any), ["HorizontalConcatenateNArgs"], .md .rows .cols, .inOrder⟩ := by
  have h1 : ¬ 1 = n := by omega
  have h2 : ¬ 1 = r := fun h => hr h.symm
  simp only [expectedHorzcat, selectArm_cons, admits_any, admits_lit, true_and, and_true, h1, h2, false_and, and_false, if_false, if_true,
    eq_comm (a := n)]


theorem allMats_of_rows : ∀ (args : List (Operand α)), (∀ x ∈ args, (blockOf x).rows ≠ 1) →
    allMats args = .ok (args.map blockOf) := by
  intro args
  induction args with
  | nil => intro _; rfl
  | cons a as ih =>
    intro h
    have := ih (fun x hx => h x (List.mem_cons_of_mem _ hx))
    cases a with
    | scalar x => exact absurd rfl (h (.scalar x) List.mem_cons_self)
    | mat m => simp only [allMats, asMat, this, List.map_cons, blockOf]

theorem flatMap_data_length (R : Nat) : ∀ (es : List (Mat α)), (∀ e ∈ es, Mat.wf' e) → (∀ e ∈ es, e.rows = R) →
    (es.flatMap (·.data)).length = R * sumCols es := by
  intro es
  induction es with
  | nil => intro _ _; simp [sumCols]
  | cons e es ih =>
    intro hwf hr
    have he : e.data.length = e.rows * e.cols := hwf e List.mem_cons_self
    rw [hr e List.mem_cons_self] at he
    simp only [List.flatMap_cons, List.length_append, he, sumCols, List.map_cons, List.sum_cons, Nat.mul_add]
    rw [ih (fun x hx => hwf x (List.mem_cons_of_mem _ hx)) (fun x hx => hr x (List.mem_cons_of_mem _ hx))]
    rfl

theorem chunk_length_of_rows1 (x : Operand α) (hw : Mat.wf' (blockOf x)) (h1 : (blockOf x).rows = 1) :
    (chunk x).length = (blockOf x).cols := by
  simp only [chunk]; rw [hw, h1, Nat.one_mul]

theorem flatMap_chunk_length (f : Mat α → Nat) : ∀ (args : List (Operand α)),
    (∀ x ∈ args, (chunk x).length = f (blockOf x)) → (args.flatMap chunk).length = ((args.map blockOf).map f).sum := by
  intro args
  induction args with
  | nil => intro _; rfl
  | cons a as ih =>
    intro h
    simp only [List.flatMap_cons, List.length_append, List.map_cons, List.sum_cons, h a List.mem_cons_self,
      ih (fun x hx => h x (List.mem_cons_of_mem _ hx))]

theorem flatMap_chunk (args : List (Operand α)) : args.flatMap chunk = (args.map blockOf).flatMap (·.data) := by
  induction args with
  | nil => rfl
  | cons a as ih => simp only [List.flatMap_cons, List.map_cons, ih, chunk]

section run
variable (impl : Routine → Mat α → Mat α → Nat → Except Err (Mat α × Nat))
  (himpl : ∀ r m dst off, Mat.wf' m → impl r m dst off = modelImpl r m dst off)
include himpl

/-- the matrix kernels of `horzcat`: every block copied behind the one before fills the buffer with the blocks' elements -/
theorem horz_mats_core (d : α) (R : Nat) (es : List (Mat α)) (hwf : ∀ e ∈ es, Mat.wf' e) (hr : ∀ e ∈ es, e.rows = R) :
    mapE (runLoop impl ⟨0, .copy_into, .offset, .add⟩ es (⟨R, sumCols es, List.replicate (R * sumCols es) d⟩, 0)) (·.1)
      = .ok ⟨R, sumCols es, es.flatMap (·.data)⟩ := by
  have hlen := flatMap_data_length R es hwf hr
  have := runLoop_lin impl himpl .copy_into rfl 0 es [] (List.replicate (R * sumCols es) d) [] R (sumCols es) hwf
    (by rw [hlen, List.length_replicate]; exact Nat.le_refl _)
  simp only [List.nil_append, List.append_nil, List.length_nil] at this
  rw [this]
  simp only [mapE, Except.ok.injEq, Mat.mk.injEq, true_and]
  rw [List.drop_eq_nil_of_le (by rw [hlen, List.length_replicate]; exact Nat.le_refl _), List.append_nil]


/-- the vector kernels (`…RDN`, `…VDN`): matrices copied to their recorded places, then the scalars written to theirs,
    fill the buffer with the blocks' elements in the order of the arguments -/
theorem indexed_core (d : α) (r : Routine) (hr : r.linear = true) (madv : Dim) (R C L : Nat) (args : List (Operand α))
    (hwf : ∀ x ∈ args, Mat.wf' (blockOf x)) (hadv : ∀ x ∈ args, advOf madv 1 x = (chunk x).length)
    (hlen : (args.flatMap chunk).length = L) :
    bindE (copyMats impl r (indexArgs madv 1 0 args) ⟨R, C, List.replicate L d⟩) (writeScalars (indexArgs madv 1 0 args))
      = .ok ⟨R, C, args.flatMap chunk⟩ := by
  have h1 := copyMats_overlay impl himpl r hr madv 1 args [] (List.replicate L d) [] R C hadv hwf
    (by rw [hlen, List.length_replicate]; exact Nat.le_refl _)
  simp only [List.nil_append, List.append_nil, List.length_nil] at h1
  have hl2 : (args.flatMap chunk).length ≤ (overlayMats args (List.replicate L d)).length := by
    rw [overlayMats_length _ _ (by rw [hlen, List.length_replicate]; exact Nat.le_refl _), hlen, List.length_replicate]
    exact Nat.le_refl _
  have h2 := writeScalars_overlay madv 1 args [] (overlayMats args (List.replicate L d)) [] R C hadv hl2
  simp only [List.nil_append, List.append_nil, List.length_nil] at h2
  rw [h1, bindE_ok, h2, overlay_final _ _ (by rw [List.length_replicate, hlen])]

theorem horzcat_as_written (d : α) (a : Operand α) (as : List (Operand α))
    (hwf : ∀ x ∈ a :: as, Mat.wf' (blockOf x)) (hrows : ∀ x ∈ as, (blockOf x).rows = (blockOf a).rows) :
    evalCat impl expectedHorzcat expectedSolves d (a :: as) = hcatAll (blockOf a) (as.map blockOf) := by
  rw [hcatAll_data _ _ (by simpa using hrows)]
  have hr : expectedHorzcat.rows.eval ((a :: as).map blockOf) = (blockOf a).rows := rfl
  have hc : expectedHorzcat.cols.eval ((a :: as).map blockOf) = (blockOf a).cols + sumCols (as.map blockOf) := by
    simp [expectedHorzcat, Agg.eval, sumCols, Dim.of]
  have hrows' : ∀ x ∈ a :: as, (blockOf x).rows = (blockOf a).rows := by
    intro x hx
    cases List.mem_cons.mp hx with
    | inl e => rw [e]
    | inr h => exact hrows x h
  simp only [evalCat, hr, hc]
  cases as with
  | nil =>
    obtain ⟨arm, hsel, hw, hal, hst⟩ := horz_select_one (blockOf a).rows ((blockOf a).cols + sumCols ([].map blockOf : List (Mat α)))
    simp only [List.length_singleton, hsel, hw, hal, Alloc.buffer, List.all_eq_true.mpr hst, if_true]
    simp [sumCols]
  | cons b bs =>
    by_cases h1 : (blockOf a).rows = 1
    · rw [h1, horz_select_row _ _ (by simp only [List.length_cons]; omega)]
      have hl : lookupSolve expectedSolves "HorizontalConcatenateRDN" = some (.indexed .copy_into_r) := by decide
      simp only [Alloc.buffer, Dim.pick, hl]
      have hlen : ((a :: b :: bs).flatMap chunk).length = (blockOf a).cols + sumCols ((b :: bs).map blockOf) := by
        rw [flatMap_chunk_length (·.cols) _ (fun x hx => chunk_length_of_rows1 x (hwf x hx) (by rw [hrows' x hx, h1]))]
        simp [sumCols]
      rw [indexed_core impl himpl d .copy_into_r rfl .cols 1 _ _ (a :: b :: bs) hwf ?_ hlen]
      · simp [flatMap_chunk, chunk]
      · intro x hx
        cases x with
        | scalar y => rfl
        | mat m =>
          have := chunk_length_of_rows1 (.mat m) (hwf _ hx) (by rw [hrows' _ hx, h1])
          simp only [advOf, Dim.of, this, blockOf]
    · have hne : ∀ x ∈ a :: b :: bs, (blockOf x).rows ≠ 1 := fun x hx => by rw [hrows' x hx]; exact h1
      have hall := allMats_of_rows _ hne
      have hC : (blockOf a).cols + sumCols ((b :: bs).map blockOf) = sumCols ((a :: b :: bs).map blockOf) := by simp [sumCols]
      have hcore := horz_mats_core impl himpl d (blockOf a).rows ((a :: b :: bs).map blockOf)
        (fun e he => by obtain ⟨x, hx, rfl⟩ := List.mem_map.mp he; exact hwf x hx)
        (fun e he => by obtain ⟨x, hx, rfl⟩ := List.mem_map.mp he; exact hrows' x hx)
      have hdata : (blockOf a).data ++ ((b :: bs).map blockOf).flatMap (·.data) = ((a :: b :: bs).map blockOf).flatMap (·.data) := by
        simp
      rw [horz_select_mat _ _ _ (by simp only [List.length_cons]; omega) h1, hC, hdata]
      have l2 : lookupSolve expectedSolves "HorizontalConcatenateTwoArgs" = some (.seq (seqOf .copy_into 2)) := by decide
      have l3 : lookupSolve expectedSolves "HorizontalConcatenateThreeArgs" = some (.seq (seqOf .copy_into 3)) := by decide
      have l4 : lookupSolve expectedSolves "HorizontalConcatenateFourArgs" = some (.seq (seqOf .copy_into 4)) := by decide
      have ln : lookupSolve expectedSolves "HorizontalConcatenateNArgs" = some (.loop 0 ⟨0, .copy_into, .offset, .add⟩) := by decide
      match bs, hall, hcore with
      | [], hall, hcore =>
        simp only [List.length_cons, List.length_nil, if_true, Alloc.buffer, Dim.pick, l2, List.map_cons, List.map_nil,
          List.getElem?_cons_zero, List.getElem?_cons_succ, Option.getD_some, hall, runSeq2]
        exact hcore
      | [c], hall, hcore =>
        have hn : (a :: b :: [c]).length = 3 := rfl
        simp only [hn, (by decide : ¬ (3 : Nat) = 2), if_false, if_true, Alloc.buffer, Dim.pick, l3, List.map_cons, List.map_nil,
          List.getElem?_cons_zero, List.getElem?_cons_succ, Option.getD_some, hall, runSeq3]
        exact hcore
      | [c, e], hall, hcore =>
        have hn : (a :: b :: [c, e]).length = 4 := rfl
        simp only [hn, (by decide : ¬ (4 : Nat) = 2), (by decide : ¬ (4 : Nat) = 3), if_false, if_true, Alloc.buffer, Dim.pick, l4, List.map_cons, List.map_nil,
          List.getElem?_cons_zero, List.getElem?_cons_succ, Option.getD_some, hall, runSeq4]
        exact hcore
      | c :: e :: f :: rest, hall, hcore =>
        have h2 : ¬ rest.length + 1 + 1 + 1 + 1 + 1 = 2 := by omega
        have h3 : ¬ rest.length + 1 + 1 + 1 + 1 + 1 = 3 := by omega
        have h4 : ¬ rest.length + 1 + 1 + 1 + 1 + 1 = 4 := by omega
        simp only [List.length_cons, h2, h3, h4, if_false, Alloc.buffer, Dim.pick, ln, hall]
        exact hcore

end run
theorem vert_select_vec (n r : Nat) :
    selectArm expectedVertcat.arms n r 1 =
      if n = 1 then some ⟨(.lit 1, .any, .lit 1), ["VerticalConcatenateVD"], .none, .single⟩
      else if n = 2 then some ⟨(.lit 2, .any, .lit 1), ["VerticalConcatenateVD2"], .vd .rows, .fields [0, 1]⟩
      else if n = 3 then some ⟨(.lit 3, .any, .lit 1), ["VerticalConcatenateVD3"], .vd .rows, .fields [0, 1, 2]⟩
      else if n = 4 then some ⟨(.lit 4, .any, .lit 1), ["VerticalConcatenateVD4"], .vd .rows, .fields [0, 1, 2, 3]⟩
      else some ⟨(.any, .any, .lit 1), ["VerticalConcatenateVDN"], .vd .rows, .byKind .rows 1⟩ := by
  simp only [expectedVertcat, selectArm_cons, admits_any, admits_lit, true_and, and_true, if_true, eq_comm (a := n)]

theorem vert_select_mat (n r c : Nat) (hc : c ≠ 1) :
    selectArm expectedVertcat.arms n r c =
      if n = 2 then some ⟨(.lit 2, .any, .any), ["VerticalConcatenateTwoArgs"], .md .rows .cols, .fields [0, 1]⟩
      else if n = 3 then some ⟨(.lit 3, .any, .any), ["VerticalConcatenateThreeArgs"], .md .rows .cols, .fields [0, 1, 2]⟩
      else if n = 4 then some ⟨(.lit 4, .any, .any), ["VerticalConcatenateFourArgs"], .md .rows .cols, .fields [0, 1, 2, 3]⟩
      else some ⟨(.any, .any, .any), ["VerticalConcatenateNArgs"], .md .rows .cols, .inOrder⟩ := by
  have h1 : ¬ 1 = c := fun h => hc h.symm
  simp only [expectedVertcat, selectArm_cons, admits_any, admits_lit, true_and, and_true, h1, and_false, if_false, if_true,
    eq_comm (a := n)]

theorem allMats_map_mat : ∀ (es : List (Mat α)), allMats (es.map .mat) = .ok es := by
  intro es
  induction es with
  | nil => rfl
  | cons e es ih => simp only [List.map_cons, allMats, asMat, ih]

theorem vcatAll_ok : ∀ (bs : List (Mat α)) (acc : Mat α), (∀ b ∈ bs, b.cols = acc.cols) → ∃ r, vcatAll acc bs = .ok r := by
  intro bs
  induction bs with
  | nil => intro acc _; exact ⟨acc, rfl⟩
  | cons b bs ih =>
    intro acc h
    have hb : acc.cols = b.cols := (h b List.mem_cons_self).symm
    simp only [vcatAll, vcat2, hb, if_true]
    exact ih _ (fun x hx => by simpa [hb] using h x (List.mem_cons_of_mem _ hx))

theorem flatMap_data_length_col (es : List (Mat α)) (hwf : ∀ e ∈ es, Mat.wf' e) (hc : ∀ e ∈ es, e.cols = 1) :
    (es.flatMap (·.data)).length = sumRows es := by
  induction es with
  | nil => rfl
  | cons e es ih =>
    have he : e.data.length = e.rows * e.cols := hwf e List.mem_cons_self
    rw [hc e List.mem_cons_self, Nat.mul_one] at he
    simp only [List.flatMap_cons, List.length_append, he, sumRows, List.map_cons, List.sum_cons]
    rw [ih (fun x hx => hwf x (List.mem_cons_of_mem _ hx)) (fun x hx => hc x (List.mem_cons_of_mem _ hx))]
    rfl

section run
variable (impl : Routine → Mat α → Mat α → Nat → Except Err (Mat α × Nat))
  (himpl : ∀ r m dst off, Mat.wf' m → impl r m dst off = modelImpl r m dst off)
include himpl

/-- the column-vector kernels of `vertcat` -/
theorem vert_vec_core (d : α) (es : List (Mat α)) (hwf : ∀ e ∈ es, Mat.wf' e) (hc : ∀ e ∈ es, e.cols = 1) :
    mapE (runLoop impl ⟨0, .copy_into_v, .offset, .add⟩ es (⟨sumRows es, 1, List.replicate (sumRows es) d⟩, 0)) (·.1)
      = .ok ⟨sumRows es, 1, es.flatMap (·.data)⟩ := by
  have hlen := flatMap_data_length_col es hwf hc
  have := runLoop_lin impl himpl .copy_into_v rfl 0 es [] (List.replicate (sumRows es) d) [] (sumRows es) 1 hwf
    (by rw [hlen, List.length_replicate]; exact Nat.le_refl _)
  simp only [List.nil_append, List.append_nil, List.length_nil] at this
  rw [this]
  simp only [mapE, Except.ok.injEq, Mat.mk.injEq, true_and]
  rw [List.drop_eq_nil_of_le (by rw [hlen, List.length_replicate]; exact Nat.le_refl _), List.append_nil]

/-- the matrix kernels of `vertcat`: every block copied below the one before is the stacked matrix -/
theorem vert_mats_core (d : α) (a : Mat α) (as : List (Mat α)) (hwf : ∀ e ∈ a :: as, Mat.wf' e)
    (hc : ∀ e ∈ as, e.cols = a.cols) :
    mapE (runLoop impl ⟨0, .copy_into_row_major, .offset, .add⟩ (a :: as)
        (⟨sumRows (a :: as), a.cols, List.replicate (sumRows (a :: as) * a.cols) d⟩, 0)) (·.1)
      = vcatAll a as := by
  obtain ⟨r, hr⟩ := vcatAll_ok as a hc
  obtain ⟨rwf, rcols, rrows, _, rget⟩ := vcatAll_spec as a r (hwf a List.mem_cons_self)
    (fun x hx => hwf x (List.mem_cons_of_mem _ hx)) hr
  have hc' : ∀ e ∈ a :: as, e.cols = a.cols := by
    intro e he
    cases List.mem_cons.mp he with
    | inl h => rw [h]
    | inr h => exact hc e h
  obtain ⟨out, hrun, orows, ocols, owf, oget⟩ := runLoop_rowMajor impl himpl 0 (a :: as) 0
    ⟨sumRows (a :: as), a.cols, List.replicate (sumRows (a :: as) * a.cols) d⟩ hwf hc'
    (by simp only [Mat.wf', List.length_replicate]) (by simp only [Nat.zero_add]; exact Nat.le_refl _)
  rw [hrun, hr]
  simp only [mapE, Except.ok.injEq]
  simp only at orows ocols oget
  apply mat_ext out r (by rw [orows, rrows]) (by rw [ocols, rcols]) owf rwf
  intro i j hi hj
  rw [orows] at hi
  rw [ocols] at hj
  rw [oget i j hi hj, rget i j (by rw [rrows]; exact hi) (by rw [rcols]; exact hj)]
  have : 0 ≤ i ∧ i < 0 + sumRows (a :: as) := by omega
  rw [if_pos this, Nat.sub_zero]


theorem vertcat_as_written (d : α) (a : Mat α) (as : List (Mat α))
    (hwf : ∀ e ∈ a :: as, Mat.wf' e) (hcols : ∀ e ∈ as, e.cols = a.cols) :
    evalCat impl expectedVertcat expectedSolves d ((a :: as).map .mat) = vcatAll a as := by
  have hb : ((a :: as).map Operand.mat).map blockOf = a :: as := by
    simp only [List.map_map]
    exact List.map_id' (a :: as)
  have hr : expectedVertcat.rows.eval (a :: as) = sumRows (a :: as) := rfl
  have hc : expectedVertcat.cols.eval (a :: as) = a.cols := rfl
  have hcols' : ∀ e ∈ a :: as, e.cols = a.cols := by
    intro e he
    cases List.mem_cons.mp he with
    | inl h => rw [h]
    | inr h => exact hcols e h
  have hall := allMats_map_mat (a :: as)
  simp only [evalCat, hb, hr, hc, List.length_map]
  by_cases h1 : a.cols = 1
  · have hc1 : ∀ e ∈ a :: as, e.cols = 1 := fun e he => by rw [hcols' e he, h1]
    rw [vcatAll_col1 as a (hwf a List.mem_cons_self) (fun x hx => hwf x (List.mem_cons_of_mem _ hx)) h1
      (fun x hx => hc1 x (List.mem_cons_of_mem _ hx))]
    have hcore := vert_vec_core impl himpl d (a :: as) hwf hc1
    have hS : a.rows + sumRows as = sumRows (a :: as) := by simp [sumRows]
    have hdata : a.data ++ as.flatMap (·.data) = (a :: as).flatMap (·.data) := by simp
    rw [h1, vert_select_vec, hS, hdata]
    have l1 : lookupSolve expectedSolves "VerticalConcatenateVD" = some .nop := by decide
    have l2 : lookupSolve expectedSolves "VerticalConcatenateVD2" = some (.seq (seqOf .copy_into_v 2)) := by decide
    have l3 : lookupSolve expectedSolves "VerticalConcatenateVD3" = some (.seq (seqOf .copy_into_v 3)) := by decide
    have l4 : lookupSolve expectedSolves "VerticalConcatenateVD4" = some (.seq (seqOf .copy_into_v 4)) := by decide
    have ln : lookupSolve expectedSolves "VerticalConcatenateVDN" = some (.indexed .copy_into_v) := by decide
    match as, hwf, hc1, hall, hcore with
    | [], hwf, hc1, hall, hcore =>
      have hw : a.data.length = a.rows := by rw [hwf a List.mem_cons_self, h1, Nat.mul_one]
      simp [Alloc.buffer, l1, blockOf, sumRows, ← h1]
    | [b], hwf, hc1, hall, hcore =>
      have hn : (a :: [b]).length = 2 := rfl
      simp only [hn, (by decide : ¬ (2 : Nat) = 1), if_false, if_true, Alloc.buffer, Dim.pick, l2, List.map_cons, List.map_nil,
        List.getElem?_cons_zero, List.getElem?_cons_succ, Option.getD_some, allMats, asMat, runSeq2]
      exact hcore
    | [b, c], hwf, hc1, hall, hcore =>
      have hn : (a :: [b, c]).length = 3 := rfl
      simp only [hn, (by decide : ¬ (3 : Nat) = 1), (by decide : ¬ (3 : Nat) = 2), if_false, if_true, Alloc.buffer, Dim.pick, l3,
        List.map_cons, List.map_nil,
        List.getElem?_cons_zero, List.getElem?_cons_succ, Option.getD_some, allMats, asMat, runSeq3]
      exact hcore
    | [b, c, e], hwf, hc1, hall, hcore =>
      have hn : (a :: [b, c, e]).length = 4 := rfl
      simp only [hn, (by decide : ¬ (4 : Nat) = 1), (by decide : ¬ (4 : Nat) = 2), (by decide : ¬ (4 : Nat) = 3), if_false, if_true,
        Alloc.buffer, Dim.pick, l4, List.map_cons, List.map_nil,
        List.getElem?_cons_zero, List.getElem?_cons_succ, Option.getD_some, allMats, asMat, runSeq4]
      exact hcore
    | b :: c :: e :: f :: rest, hwf, hc1, hall, hcore =>
      have h1' : ¬ rest.length + 1 + 1 + 1 + 1 + 1 = 1 := by omega
      have h2 : ¬ rest.length + 1 + 1 + 1 + 1 + 1 = 2 := by omega
      have h3 : ¬ rest.length + 1 + 1 + 1 + 1 + 1 = 3 := by omega
      have h4 : ¬ rest.length + 1 + 1 + 1 + 1 + 1 = 4 := by omega
      simp only [List.length_cons, h1', h2, h3, h4, if_false, Alloc.buffer, Dim.pick, ln]
      have hlen := flatMap_data_length_col _ hwf hc1
      have hfm : ((a :: b :: c :: e :: f :: rest).map Operand.mat).flatMap chunk = (a :: b :: c :: e :: f :: rest).flatMap (·.data) := by
        rw [flatMap_chunk, List.map_map]
        exact congrArg _ (List.map_id' _)
      rw [indexed_core impl himpl d .copy_into_v rfl .rows _ _ _ _ ?_ ?_ (by rw [hfm]; exact hlen), hfm]
      · intro x hx
        obtain ⟨m, hm, rfl⟩ := List.mem_map.mp hx
        exact hwf m hm
      · intro x hx
        obtain ⟨m, hm, rfl⟩ := List.mem_map.mp hx
        have : m.data.length = m.rows * m.cols := hwf m hm
        rw [hc1 m hm, Nat.mul_one] at this
        simp only [advOf, Dim.of, chunk_mat, this]
  · have hcore := vert_mats_core impl himpl d a as hwf hcols
    rw [vert_select_mat _ _ _ h1]
    have l2 : lookupSolve expectedSolves "VerticalConcatenateTwoArgs" = some (.seq (seqOf .copy_into_row_major 2)) := by decide
    have l3 : lookupSolve expectedSolves "VerticalConcatenateThreeArgs" = some (.seq (seqOf .copy_into_row_major 3)) := by decide
    have l4 : lookupSolve expectedSolves "VerticalConcatenateFourArgs" = some (.seq (seqOf .copy_into_row_major 4)) := by decide
    have ln : lookupSolve expectedSolves "VerticalConcatenateNArgs" = some (.loop 0 ⟨0, .copy_into_row_major, .offset, .add⟩) := by decide
    match as, hall, hcore with
    | [], hall, hcore =>
      have hn : ([a] : List (Mat α)).length = 1 := rfl
      simp only [hn, (by decide : ¬ (1 : Nat) = 2), (by decide : ¬ (1 : Nat) = 3), (by decide : ¬ (1 : Nat) = 4), if_false,
        Alloc.buffer, Dim.pick, ln, hall]
      exact hcore
    | [b], hall, hcore =>
      have hn : (a :: [b]).length = 2 := rfl
      simp only [hn, if_true, Alloc.buffer, Dim.pick, l2, List.map_cons, List.map_nil,
        List.getElem?_cons_zero, List.getElem?_cons_succ, Option.getD_some, allMats, asMat, runSeq2]
      exact hcore
    | [b, c], hall, hcore =>
      have hn : (a :: [b, c]).length = 3 := rfl
      simp only [hn, (by decide : ¬ (3 : Nat) = 2), if_false, if_true, Alloc.buffer, Dim.pick, l3,
        List.map_cons, List.map_nil,
        List.getElem?_cons_zero, List.getElem?_cons_succ, Option.getD_some, allMats, asMat, runSeq3]
      exact hcore
    | [b, c, e], hall, hcore =>
      have hn : (a :: [b, c, e]).length = 4 := rfl
      simp only [hn, (by decide : ¬ (4 : Nat) = 2), (by decide : ¬ (4 : Nat) = 3), if_false, if_true,
        Alloc.buffer, Dim.pick, l4, List.map_cons, List.map_nil,
        List.getElem?_cons_zero, List.getElem?_cons_succ, Option.getD_some, allMats, asMat, runSeq4]
      exact hcore
    | b :: c :: e :: f :: rest, hall, hcore =>
      have h2 : ¬ rest.length + 1 + 1 + 1 + 1 + 1 = 2 := by omega
      have h3 : ¬ rest.length + 1 + 1 + 1 + 1 + 1 = 3 := by omega
      have h4 : ¬ rest.length + 1 + 1 + 1 + 1 + 1 = 4 := by omega
      simp only [List.length_cons, h2, h3, h4, if_false, Alloc.buffer, Dim.pick, ln, hall]
      exact hcore

end run
/-! ### the whole literal -/

theorem hcatAll_error_dim : ∀ (bs : List (Mat α)) (acc : Mat α), (∃ b ∈ bs, b.rows ≠ acc.rows) →
    hcatAll acc bs = .error .dim := by
  intro bs
  induction bs with
  | nil => intro acc ⟨b, hb, _⟩; cases hb
  | cons b bs ih =>
    intro acc ⟨x, hx, hne⟩
    simp only [hcatAll, hcat2]
    by_cases he : acc.rows = b.rows
    · simp only [he, if_true]
      cases List.mem_cons.mp hx with
      | inl e => subst e; exact absurd he.symm hne
      | inr hm => exact ih _ ⟨x, hm, by simpa [he] using hne⟩
    · simp only [he, if_false]

theorem vcatAll_error_dim : ∀ (bs : List (Mat α)) (acc : Mat α), (∃ b ∈ bs, b.cols ≠ acc.cols) →
    vcatAll acc bs = .error .dim := by
  intro bs
  induction bs with
  | nil => intro acc ⟨b, hb, _⟩; cases hb
  | cons b bs ih =>
    intro acc ⟨x, hx, hne⟩
    simp only [vcatAll, vcat2]
    by_cases he : acc.cols = b.cols
    · simp only [he, if_true]
      cases List.mem_cons.mp hx with
      | inl e => subst e; exact absurd he.symm hne
      | inr hm => exact ih _ ⟨x, hm, by simpa [he] using hne⟩
    · simp only [he, if_false]

theorem rowsM_wf : ∀ (rows : List (List (Mat α))) (rms : List (Mat α)), (∀ row ∈ rows, ∀ b ∈ row, Mat.wf' b) →
    rowsM rows = .ok rms → ∀ m ∈ rms, Mat.wf' m := by
  intro rows
  induction rows with
  | nil => intro rms _ h m hm; simp only [rowsM, Except.ok.injEq] at h; subst h; cases hm
  | cons row rows ih =>
    intro rms hwf h m hm
    cases row with
    | nil => simp [rowsM] at h
    | cons b bs =>
      simp only [rowsM] at h
      cases h1 : hcatAll b bs with
      | error e => simp [h1] at h
      | ok rm =>
        simp only [h1] at h
        cases h2 : rowsM rows with
        | error e => simp [h2] at h
        | ok rest =>
          simp only [h2, Except.ok.injEq] at h; subst h
          have hb := hwf (b :: bs) List.mem_cons_self
          cases List.mem_cons.mp hm with
          | inl e =>
            subst e
            exact (hcatAll_spec bs b m (hb b List.mem_cons_self) (fun x hx => hb x (List.mem_cons_of_mem _ hx)) h1).1
          | inr hr => exact ih rest (fun r hr' => hwf r (List.mem_cons_of_mem _ hr')) h2 m hr

section run
variable (impl : Routine → Mat α → Mat α → Nat → Except Err (Mat α × Nat))
  (himpl : ∀ r m dst off, Mat.wf' m → impl r m dst off = modelImpl r m dst off)
include himpl

theorem evalRow_eq (d : α) (a : Operand α) (as : List (Operand α)) (hwf : ∀ x ∈ a :: as, Mat.wf' (blockOf x)) :
    evalRow impl expectedHorzcat expectedSolves d (a :: as) = hcatAll (blockOf a) (as.map blockOf) := by
  simp only [evalRow]
  by_cases h : as.all (fun x => (blockOf x).rows == (blockOf a).rows) = true
  · simp only [h, if_true]
    exact horzcat_as_written impl himpl d a as hwf (fun x hx => by simpa using List.all_eq_true.mp h x hx)
  · simp only [h]
    rw [Bool.not_eq_true] at h
    obtain ⟨x, hx, hne⟩ := List.all_eq_false.mp h
    rw [hcatAll_error_dim _ _ ⟨blockOf x, List.mem_map.mpr ⟨x, hx, rfl⟩, by simpa using hne⟩]
    rfl

theorem evalRows_eq (d : α) : ∀ (rows : List (List (Operand α))), (∀ row ∈ rows, ∀ x ∈ row, Mat.wf' (blockOf x)) →
    evalRows impl expectedHorzcat expectedSolves d rows = rowsM (rows.map (·.map blockOf)) := by
  intro rows
  induction rows with
  | nil => intro _; rfl
  | cons row rows ih =>
    intro hwf
    have ih' := ih (fun r hr => hwf r (List.mem_cons_of_mem _ hr))
    cases row with
    | nil => simp only [evalRows, evalRow, List.map_cons, List.map_nil, rowsM]
    | cons a as =>
      simp only [evalRows, List.map_cons, rowsM, evalRow_eq impl himpl d a as (hwf _ List.mem_cons_self), ih']
      cases hcatAll (blockOf a) (as.map blockOf) with
      | error e => rfl
      | ok m => cases rowsM (rows.map (·.map blockOf)) <;> rfl

/-- a matrix literal evaluated the way `matrix()` / `matrix_row()` do it, with the dispatch, `solve` and copy routines
    of the table: the model's `matrixLit`, errors included -/
theorem evalLit_eq (d : α) (rows : List (List (Operand α))) (hwf : ∀ row ∈ rows, ∀ x ∈ row, Mat.wf' (blockOf x)) :
    evalLit impl expectedHorzcat expectedVertcat expectedSolves d rows = matrixLit (rows.map (·.map blockOf)) := by
  simp only [evalLit, matrixLit, evalRows_eq impl himpl d rows hwf]
  cases h : rowsM (rows.map (·.map blockOf)) with
  | error e => rfl
  | ok rms =>
    have hw := rowsM_wf _ rms (by
      intro row hrow b hb
      obtain ⟨r, hr, rfl⟩ := List.mem_map.mp hrow
      obtain ⟨x, hx, rfl⟩ := List.mem_map.mp hb
      exact hwf r hr x hx) h
    match rms, hw with
    | [], _ => rfl
    | [m], _ => rfl
    | m :: m2 :: ms, hw =>
      simp only
      by_cases hc : (m2 :: ms).all (fun x => x.cols == m.cols) = true
      · simp only [hc, if_true]
        exact vertcat_as_written impl himpl d m (m2 :: ms) hw (fun x hx => by simpa using List.all_eq_true.mp hc x hx)
      · simp only [hc]
        rw [Bool.not_eq_true] at hc
        obtain ⟨x, hx, hne⟩ := List.all_eq_false.mp hc
        rw [vcatAll_error_dim _ _ ⟨x, hx, by simpa using hne⟩]
        rfl

end run
end MechVerif.ConcatIR
