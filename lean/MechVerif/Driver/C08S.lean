import MechVerif.Driver.C02
import MechVerif.Driver.C06
import MechVerif.Model.Syntax
namespace MechVerif.Driver.S08S
open MechVerif.Prec MechVerif.Driver MechVerif.Syntax

/-- the grammar of the real parser for the modelled levels: `-` after an operand is `sub` -/
def gram : Syntax.Gram := ⟨7, ⟨10, 3⟩⟩

structure Names where
  lits : List String := []
  ids : List String := []
  kinds : List String := []

/-- tokens of a case line (see harness/src/c08s.rs) -/
def tokenise (ws : List String) : Option (List Tok × Names) :=
  ws.foldlM (fun (acc : List Tok × Names) w =>
    let (ts, nm) := acc
    if w.startsWith "L" then some (ts ++ [Tok.lit nm.lits.length], { nm with lits := nm.lits ++ [(w.drop 1).toString] })
    else if w.startsWith "I" then some (ts ++ [Tok.id nm.ids.length], { nm with ids := nm.ids ++ [(w.drop 1).toString] })
    else if w.startsWith "K" then
      (match S06.unhexStr (w.drop 1).toString with
       | some k => some (ts ++ [Tok.kind nm.kinds.length], { nm with kinds := nm.kinds ++ [k] })
       | none => none)
    else if w.startsWith "A" then (w.drop 1).toString.toNat?.map (fun k => (ts ++ [Tok.opAssign k], nm))
    else match w with
      | "(" => some (ts ++ [.lp], nm) | ")" => some (ts ++ [.rp], nm) | "[" => some (ts ++ [.lb], nm) | "]" => some (ts ++ [.rb], nm)
      | "{" => some (ts ++ [.lc], nm) | "}" => some (ts ++ [.rc], nm) | "," => some (ts ++ [.comma], nm) | ";" => some (ts ++ [.semi], nm)
      | "." => some (ts ++ [.dot], nm) | "swz" => some (ts ++ [.swz], nm) | "|" => some (ts ++ [.bar], nm)
      | "_" => some (ts ++ [.sp], nm) | ":" => some (ts ++ [.colon], nm) | ".." => some (ts ++ [.dots false], nm) | "..=" => some (ts ++ [.dots true], nm)
      | "neg" => some (ts ++ [.dash], nm) | "sub" => some (ts ++ [.dash], nm) | "not" => some (ts ++ [.bang], nm) | "tr" => some (ts ++ [.quote], nm)
      | "~" => some (ts ++ [.tilde], nm) | ":=" => some (ts ++ [.define], nm) | "=" => some (ts ++ [.assign], nm) | "NL" => some (ts ++ [.nl], nm)
      | _ => (opOf w).map (fun o => (ts ++ [Tok.op o], nm))) ([], {})

/-- the formatter's spelling of each operator -/
def fmtSym (name : String) : String :=
  match name with
  | "or" => "||" | "and" => "&&" | "xor" => "⊻" | "eq" => "⩵" | "ne" => "≠" | "lt" => "<" | "le" => "≤" | "gt" => ">" | "ge" => "≥"
  | "add" => "+" | "sub" => "-" | "mul" => "*" | "div" => "/" | "mod" => "%" | "pow" => "^"
  | "join" => "⋈" | "ljoin" => "⟕" | "rjoin" => "⟖" | "fjoin" => "⟗" | "semi" => "⋉" | "anti" => "▷"
  | "union" => "∪" | "inter" => "∩" | "diff" => "∖" | "symdiff" => "Δ" | "subset" => "⊆" | "superset" => "⊇"
  | "psubset" => "⊊" | "psuperset" => "⊋" | "elem" => "∈" | "notelem" => "∉" | _ => "?"

def opName (o : Op) : String := (opTable.getD o.name ("?", "?", 0)).1

def sp (xs : List String) : String := " ".intercalate xs

/-- a kind annotation as the concatenation of its tokens' texts (what the harness prints): the punctuation
    between the tokens is not part of any token -/
def kindToks (k : String) : String := String.ofList (k.toList.filter (fun c => c.isAlphanum))

mutual
/-- the tree as the s-expression harness/src/c08s.rs writes for the real tree -/
partial def sxF (nm : Names) : Fac → String
  | .lit n => nm.lits.getD n "?"
  | .var n => nm.ids.getD n "?"
  | .call f args => if args.isEmpty then "(call " ++ nm.ids.getD f "?" ++ ")" else "(call " ++ nm.ids.getD f "?" ++ " " ++ sp (args.map (sxA nm)) ++ ")"
  | .mat rows => if rows.isEmpty then "(mat)" else "(mat " ++ sp (rows.map (fun r => "(row " ++ sp (r.map (sxE nm)) ++ ")")) ++ ")"
  | .tup es => if es.isEmpty then "(tup)" else "(tup " ++ sp (es.map (sxE nm)) ++ ")"
  | .set es => if es.isEmpty then "(set)" else "(set " ++ sp (es.map (sxE nm)) ++ ")"
  | .recd bs => "(rec " ++ sp (bs.map (fun b => match b with
      | .mk x k e => "(bind " ++ nm.ids.getD x "?" ++ " " ++ (match k with | some k => kindToks (nm.kinds.getD k "?") | none => "-") ++ " " ++ sxE nm e ++ ")")) ++ ")"
  | .map ms => if ms.isEmpty then "(map)" else "(map " ++ sp (ms.map (fun m => match m with | .mk k v => "(kv " ++ sxE nm k ++ " " ++ sxE nm v ++ ")")) ++ ")"
  | .tbl hdr rows => "(tbl " ++ sp (hdr.map (fun f => "(fld " ++ nm.ids.getD f.1 "?" ++ " " ++ kindToks (nm.kinds.getD f.2 "?") ++ ")")) ++ " " ++
      sp (rows.map (fun r => "(row " ++ sp (r.map (sxE nm)) ++ ")")) ++ ")"
  | .slice x sels => "(slice " ++ nm.ids.getD x "?" ++ " " ++ sp (sels.map (sxL nm)) ++ ")"
  | .paren t => "(paren " ++ sxT nm t ++ ")"
  | .neg f => "(neg " ++ sxF nm f ++ ")"
  | .not f => "(not " ++ sxF nm f ++ ")"
  | .tr f => "(tr " ++ sxF nm f ++ ")"
partial def sxT (nm : Names) : Tree Fac → String
  | .leaf f => sxF nm f
  | .node l o r => "(" ++ opName o ++ " " ++ sxT nm l ++ " " ++ sxT nm r ++ ")"
partial def sxE (nm : Names) : Ex Fac → String
  | .form t => sxT nm t
  | .range a i b => "(range " ++ (if i then "1" else "0") ++ " " ++ sxT nm a ++ " " ++ sxT nm b ++ ")"
  | .range3 a i1 s i2 b => "(range3 " ++ (if i1 then "1" else "0") ++ " " ++ (if i2 then "1" else "0") ++ " " ++ sxT nm a ++ " " ++ sxT nm s ++ " " ++ sxT nm b ++ ")"
partial def sxS (nm : Names) : Syntax.Sub Fac → String
  | .all => ":"
  | .ex e => sxE nm e
partial def sxL (nm : Names) : Syntax.Sel Fac → String
  | .bracket ss => "(br " ++ sp (ss.map (sxS nm)) ++ ")"
  | .brace ss => "(bc " ++ sp (ss.map (sxS nm)) ++ ")"
  | .dot y => "(dot " ++ nm.ids.getD y "?" ++ ")"
  | .dotInt k => "(doti " ++ nm.lits.getD k "?" ++ ")"
  | .swizzle y ys => "(swz " ++ sp ((y :: ys).map (fun z => nm.ids.getD z "?")) ++ ")"
partial def sxA (nm : Names) : Syntax.Arg Fac → String
  | .pos e => sxE nm e
  | .named x e => "(named " ++ nm.ids.getD x "?" ++ " " ++ sxE nm e ++ ")"
end

def sxStmt (nm : Names) : Stmt → String
  | .define mu x k e => "(def " ++ (if mu then "1" else "0") ++ " " ++ nm.ids.getD x "?" ++ " " ++
      (match k with | some k => kindToks (nm.kinds.getD k "?") | none => "-") ++ " " ++ sxE nm e ++ ")"
  | .assign x sels e => "(asg " ++ nm.ids.getD x "?" ++ " [" ++ sp (sels.map (sxL nm)) ++ "] " ++ sxE nm e ++ ")"
  | .opAssign x sels k e => "(opa " ++ toString k ++ " " ++ nm.ids.getD x "?" ++ " [" ++ sp (sels.map (sxL nm)) ++ "] " ++ sxE nm e ++ ")"

/-- the formatter's spelling of a token and the spacing around it: operators between single spaces,
    `, ` in call arguments, sets, records and maps, `: ` after an argument name, a binding name and a map key, `, ` in
    tuples and subscripts, `,` (no space) inside a swizzle, nothing between the subscripts of a chain, `; ` between matrix rows, a table as `|a<k> b<k>| e e | e e |`, `{:}` for the empty map -/
def opAssignSym (k : Nat) : String := ["+=", "-=", "*=", "/=", "^="].getD k "?="

mutual
partial def txF (nm : Names) : Fac → String
  | .lit n => nm.lits.getD n "?"
  | .var n => nm.ids.getD n "?"
  | .call f args => nm.ids.getD f "?" ++ "(" ++ ", ".intercalate (args.map (txA nm)) ++ ")"
  | .mat rows => "[" ++ "; ".intercalate (rows.map (fun r => " ".intercalate (r.map (txE nm)))) ++ "]"
  | .tup es => "(" ++ ", ".intercalate (es.map (txE nm)) ++ ")"
  | .set es => "{" ++ ", ".intercalate (es.map (txE nm)) ++ "}"
  | .recd bs => "{" ++ ", ".intercalate (bs.map (fun b => match b with
      | .mk x k e => nm.ids.getD x "?" ++ (match k with | some k => "<" ++ nm.kinds.getD k "?" ++ ">" | none => "") ++ ": " ++ txE nm e)) ++ "}"
  | .map ms => if ms.isEmpty then "{:}" else "{" ++ ", ".intercalate (ms.map (fun m => match m with | .mk k v => txE nm k ++ ": " ++ txE nm v)) ++ "}"
  | .tbl hdr rows => "|" ++ " ".intercalate (hdr.map (fun f => nm.ids.getD f.1 "?" ++ "<" ++ nm.kinds.getD f.2 "?" ++ ">")) ++ "| " ++
      " | ".intercalate (rows.map (fun r => " ".intercalate (r.map (txE nm)))) ++ " |"
  | .slice x sels => nm.ids.getD x "?" ++ "".intercalate (sels.map (txL nm))
  | .paren t => "(" ++ txT nm t ++ ")"
  | .neg f => "-" ++ txF nm f
  | .not f => "!" ++ txF nm f
  | .tr f => txF nm f ++ "'"
partial def txT (nm : Names) : Tree Fac → String
  | .leaf f => txF nm f
  | .node l o r => txT nm l ++ " " ++ fmtSym (opName o) ++ " " ++ txT nm r
partial def txE (nm : Names) : Ex Fac → String
  | .form t => txT nm t
  | .range a i b => txT nm a ++ (if i then "..=" else "..") ++ txT nm b
  | .range3 a i1 s i2 b => txT nm a ++ (if i1 then "..=" else "..") ++ txT nm s ++ (if i2 then "..=" else "..") ++ txT nm b
partial def txS (nm : Names) : Syntax.Sub Fac → String
  | .all => ":"
  | .ex e => txE nm e
partial def txL (nm : Names) : Syntax.Sel Fac → String
  | .bracket ss => "[" ++ ", ".intercalate (ss.map (txS nm)) ++ "]"
  | .brace ss => "{" ++ ", ".intercalate (ss.map (txS nm)) ++ "}"
  | .dot y => "." ++ nm.ids.getD y "?"
  | .dotInt k => "." ++ nm.lits.getD k "?"
  | .swizzle y ys => "." ++ ",".intercalate ((y :: ys).map (fun z => nm.ids.getD z "?"))
partial def txA (nm : Names) : Syntax.Arg Fac → String
  | .pos e => txE nm e
  | .named x e => nm.ids.getD x "?" ++ ": " ++ txE nm e
end

def txTarget (nm : Names) (x : Nat) (sels : List (Syntax.Sel Fac)) : String :=
  nm.ids.getD x "?" ++ "".intercalate (sels.map (txL nm))

def txStmt (nm : Names) : Stmt → String
  | .define mu x k e => (if mu then "~" else "") ++ nm.ids.getD x "?" ++ (match k with | some k => "<" ++ nm.kinds.getD k "?" ++ ">" | none => "") ++ " := " ++ txE nm e
  | .assign x subs e => txTarget nm x subs ++ " = " ++ txE nm e
  | .opAssign x subs k e => txTarget nm x subs ++ " " ++ opAssignSym k ++ " " ++ txE nm e

/-- the model's prediction for a case of class `syntax`: formatted text, round trip, idempotence, both trees -/
def predict (tokLine : String) : String :=
  match tokenise (tokLine.splitOn " ") with
  | none => "bad-case"
  | some (toks, nm) =>
    match pProg gram (2 * toks.length + 8) toks with
    | some ss =>
      -- the proved round trip, evaluated: the rendering of what was parsed is the token text
      if rProg gram ss != toks then "model-roundtrip-broken" else
      let text := "\n".intercalate (ss.map (txStmt nm)) ++ "\n"
      let tree := sp (ss.map (sxStmt nm))
      "F=" ++ hexOfText text.toList ++ "|R=same|I=same|T=" ++ tree ++ "|U=" ++ tree
    | none => "unparsed-program"

end MechVerif.Driver.S08S
