#!/usr/bin/env python3
"""Regenerates lean/MechVerif/Gen/ConcatKernels.lean from the source of matrix concatenation:
(a) the four copy routines `copy_into`, `copy_into_v`, `copy_into_r`, `copy_into_row_major` of the macro `copy_mat!`
    (src/core/src/structures/matrix.rs) are translated statement by statement into Lean *definitions* over the
    primitives of `Model/ConcatIR.lean`:
      let [mut] x = unsafe { (*(self.as_ptr())).clone() };     let x := self              (the source, a `Mat α`)
      let [mut] x = unsafe { &mut *(dst.as_mut_ptr()) };       let x := dst               (the destination buffer)
      let [mut] x = e;                                          let x := e
      let [mut] x = a - b;                                      bindE (usub a b) (fun x => …)   (usize underflow panics;
                                                                a subtraction inside a larger expression is bound to a
                                                                fresh name first, in evaluation order)
      for v in 0..n { body }                                    forRange n state (fun v state => body … .ok state)
                                                                state = the outer variables the body assigns
      d[e1] = s[e2].clone();                                    bindE (readLin s e2) (fun t => bindE (writeLin d e1 t) (fun d => …))
      x += e;                                                   let x := x + e
      e            (last expression)                            .ok (destination, e)
      m.len() / m.nrows() / m.ncols()                           len m / nrows m / ncols m
      a + b, a * b, a % b, a == b, (c) as usize                 a + b, a * b, a % b, (a == b), b2n c
    Nothing is simplified: `((ix + 1) % src_rows == 0) as usize * stride + 1` arrives in Lean as written.
(b) horzcat.rs / vertcat.rs: for the arms of `impl_horzcat_arms!` / `impl_vertcat_arms!` that exist with the default
    features (`matrixd`, `vectord`, `row_vectord` on; every fixed-size storage off) the tuple pattern, the struct(s) the
    arm builds, the output buffer it allocates (which component of the matched triple sizes which dimension), how the
    arguments are handed to the struct (field order / in order / by kind with the index advanced by `shape()[k]` for a
    matrix and by a literal for a scalar), how `rows` and `columns` of the scrutinee are computed, and for every struct
    so built its `solve`: which copy routine on which field with which offset argument, and what happens to the value
    the routine returns (`let offset = …`, `offset += …`, dropped).
The generated file ends in a `decide` proof that the table is the one `Model/ConcatIR.lean` expects; that the routines
compute the model's functions is proved in `Lemmas/ConcatKernels.lean` about the generated definitions (a changed body
makes that proof fail).  A source whose shape the reader does not recognise makes `generate` return (False, reason)."""
import os, re, sys

class Unrecognised(Exception):
    pass
FEATURES_ON = {"matrixd", "vectord", "row_vectord", "matrix", "matrix_horzcat", "matrix_vertcat", "compiler"}
ROUTINES = ["copy_into", "copy_into_v", "copy_into_r", "copy_into_row_major"]
LEAN_KEYWORDS = {"at", "from", "fun", "end", "do", "then", "else", "if", "let", "have", "show", "in", "match", "with", "by", "open",
                 "def", "theorem", "instance", "structure", "class", "where", "deriving", "import", "namespace", "section", "variable",
                 "universe", "export", "private", "protected", "return", "for", "unless", "try", "catch", "finally", "mut", "nomatch",
                 "nofun", "this", "Type", "Prop", "Sort", "forall", "exists", "calc", "macro", "syntax", "notation", "infix", "prefix",
                 "postfix", "attribute", "set_option", "example", "abbrev", "inductive", "mutual", "axiom", "opaque", "extends", "using",
                 "termination_by", "decreasing_by", "suffices", "obtain", "rcases", "omit", "include", "local", "scoped", "elab", "rfl",
                 # names the generated definitions use themselves
                 "bindE", "forRange", "readLin", "writeLin", "usub", "b2n", "len", "nrows", "ncols", "Mat", "Nat", "Err", "Except", "st", "α"}

TOK = re.compile(r"\$\w+|[A-Za-z_]\w*|\d+|==|!=|>=|<=|&&|\|\||\.\.|=>|->|\+=|-=|\*=|::|[-+*/%^<>=(){}\[\];,.&!|:#?'\"]")

def strip_comments(text):
    text = re.sub(r'//[^\n]*', '', text)
    return re.sub(r'/\*.*?\*/', '', text, flags=re.S)

def balanced(text, i, open_c='{', close_c='}'):
    """text[i] is the opening bracket; returns the index just after the matching closing one"""
    assert text[i] == open_c
    d = 0
    while i < len(text):
        c = text[i]
        d += (c == open_c) - (c == close_c)
        i += 1
        if d == 0: return i
    raise Unrecognised("unbalanced brackets")

def macro_body(text, name):
    m = re.search(r'macro_rules!\s*%s\s*\{' % re.escape(name), text)
    if not m: raise Unrecognised("macro %s not found" % name)
    end = balanced(text, m.end() - 1)
    return text[m.end():end - 1]

# ---------------------------------------------------------------------------------------------------------------------
# cfg attributes

def cfg_value(expr):
    """truth of a cfg predicate under the default feature set"""
    toks = re.findall(r'[A-Za-z_]\w*|"[^"]*"|[(),=]|\$\w+', expr)
    pos = [0]
    def peek(): return toks[pos[0]] if pos[0] < len(toks) else None
    def take(x=None):
        t = peek()
        if t is None or (x is not None and t != x): raise Unrecognised("cfg predicate: " + expr)
        pos[0] += 1; return t
    def pred():
        t = take()
        if t in ('all', 'any', 'not'):
            take('('); vals = []
            while peek() != ')':
                vals.append(pred())
                if peek() == ',': take(',')
            take(')')
            if t == 'all': return all(vals)
            if t == 'any': return any(vals)
            if len(vals) != 1: raise Unrecognised("cfg predicate: " + expr)
            return not vals[0]
        if t == 'feature':
            take('='); v = take()
            if v.startswith('$'): return True       # `feature = $type_string`: the element kinds, all on
            if not v.startswith('"'): raise Unrecognised("cfg predicate: " + expr)
            return v.strip('"') in FEATURES_ON
        raise Unrecognised("cfg predicate: " + expr)
    v = pred()
    if pos[0] != len(toks): raise Unrecognised("cfg predicate: " + expr)
    return v

def item_end(text, i):
    """end of the item (function, statement, match arm) that starts at text[i]: the first `;` or `,` at depth 0, or the
    `}` that returns to depth 0 (plus a `,` that follows it)"""
    d = 0
    n = len(text)
    while i < n:
        c = text[i]
        if c in '([{': d += 1
        elif c in ')]}':
            d -= 1
            if d < 0: return i          # the enclosing block ends: the item was its last
            if d == 0 and c == '}':
                j = i + 1
                while j < n and text[j] in ' \t\r\n': j += 1
                if j < n and text[j] == ',': return j + 1
                return i + 1
        elif c in ';,' and d == 0: return i + 1
        elif c == '"':
            i += 1
            while i < n and text[i] != '"': i += 2 if text[i] == '\\' else 1
        i += 1
    return n

def apply_cfg(text):
    """drops every item whose #[cfg(...)] is false under the default features, and the attributes themselves"""
    out, i = [], 0
    while True:
        m = re.compile(r'#\s*\[\s*cfg\s*\(').search(text, i)
        if not m:
            out.append(text[i:]); break
        out.append(text[i:m.start()])
        close = balanced(text, m.end() - 1, '(', ')')
        expr = text[m.end():close - 1]
        j = close
        while j < len(text) and text[j] in ' \t\r\n': j += 1
        if j >= len(text) or text[j] != ']': raise Unrecognised("cfg attribute: " + text[m.start():m.start() + 60])
        j += 1
        # several attributes in a row: all must hold
        live = cfg_value(expr)
        while True:
            m2 = re.compile(r'\s*#\s*\[\s*cfg\s*\(').match(text, j)
            if not m2: break
            close = balanced(text, m2.end() - 1, '(', ')')
            live = cfg_value(text[m2.end():close - 1]) and live
            j = close
            while j < len(text) and text[j] in ' \t\r\n': j += 1
            if text[j] != ']': raise Unrecognised("cfg attribute")
            j += 1
        # other attributes (#[derive(..)]) between cfg and item stay with the item
        if live: i = j
        else:
            k = j
            while True:
                m3 = re.compile(r'\s*#\s*\[').match(text, k)
                if not m3: break
                k = balanced(text, m3.end() - 1, '[', ']')
            i = item_end(text, k)
    return "".join(out)

# ---------------------------------------------------------------------------------------------------------------------
# (a) the copy routines

def lean_name(n):
    return n + "'" if n in LEAN_KEYWORDS else n

class Expr:
    pass

def parse_expr(toks, names):
    """precedence climbing over the few operators the routines use; returns (ast, type) with type 'nat' | 'bool'"""
    pos = [0]
    def peek(): return toks[pos[0]] if pos[0] < len(toks) else None
    def take(x=None):
        t = peek()
        if t is None or (x is not None and t != x): raise Unrecognised("expression: " + ' '.join(toks))
        pos[0] += 1; return t
    def primary():
        t = take()
        if t == '(':
            e = expr(0); take(')'); return e
        if re.match(r'^\d+$', t): return ('int', t), 'nat'
        if re.match(r'^[A-Za-z_]\w*$', t):
            if peek() == '.':
                take('.'); meth = take(); take('('); take(')')
                if meth not in ('len', 'nrows', 'ncols'): raise Unrecognised("method ." + meth + "()")
                if names.get(t) != 'mat': raise Unrecognised("." + meth + "() on something that is neither the source nor the destination: " + t)
                return ('meth', meth, t), 'nat'
            if names.get(t) != 'nat': raise Unrecognised("not a number variable: " + t)
            return ('var', t), 'nat'
        raise Unrecognised("expression: " + ' '.join(toks))
    def cast():
        e = primary()
        while peek() == 'as':
            take('as'); ty = take()
            if ty != 'usize': raise Unrecognised("cast to " + ty)
            e = (('cast', e[0]), 'nat') if e[1] == 'bool' else e
        return e
    LEVELS = [['=='], ['+', '-'], ['*', '%']]
    def expr(level):
        if level == len(LEVELS): return cast()
        l = expr(level + 1)
        while peek() in LEVELS[level]:
            op = take(); r = expr(level + 1)
            if l[1] != 'nat' or r[1] != 'nat': raise Unrecognised("operands of " + op)
            if op == '==' : l = (('bin', '==', l[0], r[0]), 'bool')
            else: l = (('bin', op, l[0], r[0]), 'nat')
            if op == '==' and peek() == '==': raise Unrecognised("chained ==")
        return l
    e = expr(0)
    if pos[0] != len(toks): raise Unrecognised("expression: " + ' '.join(toks))
    return e

def has_sub(ast):
    if ast[0] == 'bin': return ast[1] == '-' or has_sub(ast[2]) or has_sub(ast[3])
    if ast[0] == 'cast': return has_sub(ast[1])
    return False

def anf(ast, binds, fresh):
    """every subtraction becomes a checked one bound to a fresh name, in evaluation order (left operand first)"""
    k = ast[0]
    if k == 'bin':
        l = anf(ast[2], binds, fresh); r = anf(ast[3], binds, fresh)
        if ast[1] == '-':
            t = fresh(); binds.append((t, l, r)); return ('tmp', t)
        return ('bin', ast[1], l, r)
    if k == 'cast': return ('cast', anf(ast[1], binds, fresh))
    return ast

def render(ast, top=False):
    k = ast[0]
    if k == 'int': return ast[1]
    if k == 'var': return lean_name(ast[1])
    if k == 'tmp': return ast[1]
    if k == 'meth': return "%s %s" % (ast[1], lean_name(ast[2])) if top else "(%s %s)" % (ast[1], lean_name(ast[2]))
    if k == 'cast': return "b2n %s" % render(ast[1]) if top else "(b2n %s)" % render(ast[1])
    if k == 'bin':
        s = "%s %s %s" % (render(ast[2]), ast[1], render(ast[3]))
        return s if top else "(" + s + ")"
    raise Unrecognised("expression node " + k)

def split_statements(toks):
    """top-level statements of a block: (tokens, ended_by_semicolon) and ('for', header tokens, body tokens)"""
    out, i, cur, d = [], 0, [], 0
    while i < len(toks):
        t = toks[i]
        if d == 0 and t == 'for' and not cur:
            j = i
            while toks[j] != '{': j += 1
            dd, k = 0, j
            while True:
                dd += (toks[k] == '{') - (toks[k] == '}')
                k += 1
                if dd == 0: break
            out.append(('for', toks[i + 1:j], toks[j + 1:k - 1])); i = k; continue
        if t in '([{': d += 1
        if t in ')]}': d -= 1
        if t == ';' and d == 0:
            out.append(('stmt', cur, True)); cur = []
        else: cur.append(t)
        i += 1
    if cur: out.append(('stmt', cur, False))
    return out

def translate_routine(name, sig, body):
    """sig = (destination parameter, its storage type, offset parameter); body = text between the braces"""
    dst_param, dst_type, off_param = sig
    toks = TOK.findall(strip_comments(body))
    names = {off_param: 'nat'}          # variable -> 'nat' | 'mat'
    srcs, dsts = set(), set()
    decl_order = [off_param]
    uid = [0]
    def fresh():
        uid[0] += 1; return "t%d" % uid[0]
    def assigned(stmts):
        a = []
        for s in stmts:
            if s[0] == 'for':
                for x in assigned(split_statements(s[2])):
                    if x not in a: a.append(x)
            else:
                ts = s[1]
                if len(ts) > 1 and ts[1] == '+=' and ts[0] not in a: a.append(ts[0])
                if '=' in ts and ts[0] != 'let' and ts[1] == '[' and ts[0] not in a: a.append(ts[0])
        return a
    def block(stmts, indent, tail):
        """renders the statements followed by `tail()` (the continuation) — returns lines"""
        if not stmts: return tail(indent)
        s, rest = stmts[0], stmts[1:]
        pad = "  " * indent
        if s[0] == 'for':
            head, body_t = s[1], s[2]
            if len(head) < 5 or head[1] != 'in' or head[2] != '0' or head[3] != '..': raise Unrecognised("loop header: " + ' '.join(head))
            v = head[0]
            if not re.match(r'^[A-Za-z_]\w*$', v): raise Unrecognised("loop variable: " + v)
            bound, ty = parse_expr(head[4:], names)
            if ty != 'nat' or has_sub(bound): raise Unrecognised("loop bound: " + ' '.join(head[4:]))
            inner = split_statements(body_t)
            state = [x for x in decl_order if x in assigned(inner)]
            for x in assigned(inner):
                if x not in decl_order: raise Unrecognised("the loop assigns a variable it does not own: " + x)
            if not state: raise Unrecognised("a loop that assigns nothing")
            if v in names: raise Unrecognised("loop variable shadows " + v)
            def proj(k, n):
                return "st" + ".2" * k + (".1" if k < n - 1 else "") if n > 1 else "st"
            def unpack(ind):
                return ["%slet %s := %s" % ("  " * ind, lean_name(x), proj(k, len(state))) for k, x in enumerate(state)] if len(state) > 1 else []
            pack = lean_name(state[0]) if len(state) == 1 else "(" + ", ".join(lean_name(x) for x in state) + ")"
            stvar = lean_name(state[0]) if len(state) == 1 else "st"
            names[v] = 'nat'
            saved = list(decl_order)
            body_lines = unpack(indent + 2) + block(inner, indent + 2, lambda ind: ["%s.ok %s" % ("  " * ind, pack)])
            del names[v]
            for x in decl_order[len(saved):]: names.pop(x, None)
            decl_order[:] = saved
            lines = ["%sbindE (forRange %s %s (fun %s %s =>" % (pad, render(bound), pack, lean_name(v), stvar)]
            lines += body_lines
            lines[-1] += ")) (fun %s =>" % stvar
            lines += unpack(indent)
            after = block(rest, indent, tail)
            after[-1] += ")"
            return lines + after
        ts, semi = s[1], s[2]
        if not semi:
            if rest: raise Unrecognised("an expression in the middle of a block: " + ' '.join(ts))
            if indent != 1: raise Unrecognised("a loop body that ends in an expression")
            e, ty = parse_expr(ts, names)
            if ty != 'nat' or has_sub(e): raise Unrecognised("returned expression: " + ' '.join(ts))
            if len(dsts) != 1: raise Unrecognised("which variable is the destination?")
            return ["%s.ok (%s, %s)" % (pad, lean_name(sorted(dsts)[0]), render(e, True))]
        if ts[0] == 'let':
            ts2 = ts[2:] if ts[1:2] == ['mut'] else ts[1:]
            if len(ts2) < 3 or ts2[1] != '=' or not re.match(r'^[A-Za-z_]\w*$', ts2[0]): raise Unrecognised("let: " + ' '.join(ts))
            x, rhs = ts2[0], ts2[2:]
            r = ' '.join(rhs)
            if r == 'unsafe { ( * ( self . as_ptr ( ) ) ) . clone ( ) }':
                names[x] = 'mat'; srcs.add(x); decl_order.append(x)
                return ["%slet %s := self" % (pad, lean_name(x))] + block(rest, indent, tail)
            if r == 'unsafe { & mut * ( %s . as_mut_ptr ( ) ) }' % dst_param:
                names[x] = 'mat'; dsts.add(x); decl_order.append(x)
                return ["%slet %s := %s" % (pad, lean_name(x), lean_name(dst_param))] + block(rest, indent, tail)
            e, ty = parse_expr(rhs, names)
            if ty != 'nat': raise Unrecognised("let of a truth value: " + ' '.join(ts))
            if x in names and names[x] != 'nat': raise Unrecognised("let shadows a matrix: " + x)
            if e[0] == 'bin' and e[1] == '-' and not has_sub(e[2]) and not has_sub(e[3]):
                line = "%sbindE (usub %s %s) (fun %s =>" % (pad, render(e[2]), render(e[3]), lean_name(x))
                names[x] = 'nat'
                if x not in decl_order: decl_order.append(x)
                after = block(rest, indent, tail)
                after[-1] += ")"
                return [line] + after
            binds = []
            e = anf(e, binds, fresh)
            names[x] = 'nat'
            if x not in decl_order: decl_order.append(x)
            after = block(rest, indent, tail)
            after[-1] += ")" * len(binds)
            return ["%sbindE (usub %s %s) (fun %s =>" % (pad, render(l), render(r), tn) for tn, l, r in binds] + \
                   ["%slet %s := %s" % (pad, lean_name(x), render(e, True))] + after
        if len(ts) > 2 and ts[1] == '+=':
            x = ts[0]
            if names.get(x) != 'nat': raise Unrecognised("+= on " + x)
            e, ty = parse_expr(ts[2:], names)
            if ty != 'nat': raise Unrecognised("+= : " + ' '.join(ts))
            binds = []
            e = anf(e, binds, fresh)
            after = block(rest, indent, tail)
            after[-1] += ")" * len(binds)
            return ["%sbindE (usub %s %s) (fun %s =>" % (pad, render(l), render(r), tn) for tn, l, r in binds] + \
                   ["%slet %s := %s + %s" % (pad, lean_name(x), lean_name(x), render(e))] + after
        m = None
        if ts[1:2] == ['[']:
            # D [ e1 ] = S [ e2 ] . clone ( )
            d = ts[0]
            dd, k = 0, 1
            while True:
                dd += (ts[k] == '[') - (ts[k] == ']')
                k += 1
                if dd == 0: break
            e1 = ts[2:k - 1]
            if ts[k:k + 1] != ['='] or ts[-5:] != ['.', 'clone', '(', ')'][-5:] and ts[-4:] != ['.', 'clone', '(', ')']: raise Unrecognised("statement: " + ' '.join(ts))
            rhs = ts[k + 1:-4]
            if len(rhs) < 4 or rhs[1] != '[' or rhs[-1] != ']': raise Unrecognised("right-hand side: " + ' '.join(rhs))
            sname, e2 = rhs[0], rhs[2:-1]
            if d not in dsts: raise Unrecognised("a write into something that is not the destination: " + d)
            if sname not in srcs: raise Unrecognised("a read from something that is not the source: " + sname)
            a1, t1 = parse_expr(e1, names); a2, t2 = parse_expr(e2, names)
            if t1 != 'nat' or t2 != 'nat' or has_sub(a1) or has_sub(a2): raise Unrecognised("index expression: " + ' '.join(ts))
            t = fresh()
            lines = ["%sbindE (readLin %s %s) (fun %s =>" % (pad, lean_name(sname), render(a2), t),
                     "%sbindE (writeLin %s %s %s) (fun %s =>" % (pad, lean_name(d), render(a1), t, lean_name(d))]
            after = block(rest, indent, tail)
            after[-1] += "))"
            return lines + after
        raise Unrecognised("statement: " + ' '.join(ts))
    stmts = split_statements(toks)
    if not stmts or stmts[-1][0] != 'stmt' or stmts[-1][2]: raise Unrecognised("the routine does not end in an expression")
    for n in (dst_param, off_param):
        if not re.match(r'^[A-Za-z_]\w*$', n) or n == 'self': raise Unrecognised("parameter name " + n)
    lines = block(stmts, 1, lambda ind: [])
    head = ["/-- `fn %s(&self, %s: &Ref<%s<T>>, %s: usize) -> usize` -/" % (name, dst_param, dst_type, off_param),
            "def %s (self %s : Mat α) (%s : Nat) : Except Err (Mat α × Nat) :=" % (name, lean_name(dst_param), lean_name(off_param))]
    return head + lines

def read_routines(repo):
    text = open(os.path.join(repo, "src/core/src/structures/matrix.rs"), newline='').read().replace('\r\n', '\n')
    body = apply_cfg(strip_comments(macro_body(text, "copy_mat")))
    m = re.search(r'impl\s*<\s*T\s*>\s*CopyMat\s*<\s*T\s*>\s*for\s*Ref\s*<\s*\$(\w+)\s*<\s*T\s*>\s*>', body)
    if not m: raise Unrecognised("copy_mat!: no `impl<T> CopyMat<T> for Ref<$x<T>>`")
    # the macro is the only implementation of the trait, and it is stamped out for the three dynamic storages
    clean = strip_comments(text)
    m0 = re.search(r'macro_rules!\s*copy_mat\s*\{', clean)
    outside = clean[:m0.start()] + clean[balanced(clean, m0.end() - 1):]
    if re.search(r'\bCopyMat\s*<[^>]*>\s*for\b', outside): raise Unrecognised("an implementation of CopyMat outside copy_mat!")
    stamped = set(re.findall(r'\bcopy_mat!\s*\(\s*(\w+)\s*\)', apply_cfg(outside)))
    if stamped != {"DMatrix", "DVector", "RowDVector"}: raise Unrecognised("copy_mat! is stamped out for %s with the default features" % sorted(stamped))
    out = []
    for name in ROUTINES:
        ms = list(re.finditer(r'fn\s+%s\s*\(\s*&\s*self\s*,\s*(\w+)\s*:\s*&\s*Ref\s*<\s*(\w+)\s*<\s*T\s*>\s*>\s*,\s*(\w+)\s*:\s*usize\s*\)\s*->\s*usize\s*\{' % name, body))
        if len(ms) != 1: raise Unrecognised("copy_mat!: %d definitions of %s with the expected signature" % (len(ms), name))
        mm = ms[0]
        end = balanced(body, mm.end() - 1)
        try: out.append((name, mm.group(2), translate_routine(name, (mm.group(1), mm.group(2), mm.group(3)), body[mm.end():end - 1])))
        except (Unrecognised, IndexError) as e: raise Unrecognised("%s: %s" % (name, e or "index"))
    return out

# ---------------------------------------------------------------------------------------------------------------------
# (b) the structs' `solve` and the arms that build them

def norm(text):
    return ' '.join(TOK.findall(text))

def read_solves(text):
    """struct name -> normalised body of `fn solve(&self)`, for structs written out and for those a macro stamps out"""
    solves = {}
    def solve_of(impl_body):
        m = re.search(r'fn\s+solve\s*\(\s*&\s*self\s*\)\s*\{', impl_body)
        if not m: return None
        end = balanced(impl_body, m.end() - 1)
        return norm(impl_body[m.end():end - 1])
    macros = {}
    for m in re.finditer(r'macro_rules!\s*(\w+)\s*\{', text):
        end = balanced(text, m.end() - 1)
        macros[m.group(1)] = (m.start(), end, text[m.end():end - 1])
    def in_macro(i): return any(a <= i < b for a, b, _ in macros.values())
    for m in re.finditer(r'impl\s*<\s*T\s*>\s*MechFunctionImpl\s+for\s+(\$?\w+)\s*<\s*T\s*>', text):
        j = text.index('{', m.end())
        end = balanced(text, j)
        s = solve_of(text[j:end])
        if s is None: continue
        if not in_macro(m.start()): solves.setdefault(m.group(1), s)
    for name, (a, b, body) in macros.items():
        mm = re.search(r'impl\s*<\s*T\s*>\s*MechFunctionImpl\s+for\s+\$(\w+)\s*<\s*T\s*>', body)
        if not mm: continue
        j = body.index('{', mm.end())
        s = solve_of(body[j:balanced(body, j)])
        if s is None: continue
        head = re.match(r'\s*\(\s*\$(\w+)\s*:\s*ident', body)
        if not head or head.group(1) != mm.group(1): continue
        for inv in re.finditer(r'\b%s!\s*\(\s*(\w+)\s*[,)]' % re.escape(name), text):
            if not in_macro(inv.start()): solves.setdefault(inv.group(1), s)
    return solves

CALL = r'(self \. e(\d+)|e) \. (\w+) \( & self \. out , (0|offset|\* i) \)'

def classify_solve(s):
    """normalised solve body -> Lean `Solve` term"""
    if s == '': return ".nop"
    if re.match(r'^unsafe \{ let mut (\w+) = \( & mut \* \( self \. out \. as_mut_ptr \( \) \) \) ; \1 \[ 0 \] = self \. arg \. borrow \( \) \. clone \( \) ; \}$', s):
        return ".scalar1"
    # the name of the offset variable is the author's choice
    m = re.match(r'^let (?:mut )?(\w+) = ', s)
    if m and m.group(1) not in ('offset', 'self', 'e', 'i', 'out', '_'):
        if 'offset' in s.split(' '): raise Unrecognised("two offset variables")
        s = ' '.join('offset' if x == m.group(1) else x for x in s.split(' '))
    def step(field, routine, arg, upd):
        if routine not in ROUTINES: raise Unrecognised("call of " + routine)
        return "⟨%s, .%s, %s, %s⟩" % (field, routine, {"0": ".zero", "offset": ".offset", "* i": ".index"}[arg], upd)
    # `let mut offset = k; for e in &self.e0 { offset += e.R(&self.out, offset); }`
    m = re.match(r'^let mut offset = (\d+) ; for e in & self \. e0 \{ (.*) \}$', s)
    if m:
        inner = m.group(2)
        mm = re.match(r'^(offset \+= |offset = |let _ = |)' + CALL + r' ;$', inner)
        if not mm or mm.group(2) != 'e': raise Unrecognised("loop body: " + inner)
        upd = {"offset += ": ".add", "offset = ": ".bind", "let _ = ": ".drop", "": ".drop"}[mm.group(1)]
        return "(.loop %s %s)" % (m.group(1), step(0, mm.group(4), mm.group(5), upd))
    # matrices to their recorded index, then scalars to theirs
    m = re.match(r'^unsafe \{ let mut (\w+) = \( & mut \* \( self \. out \. as_mut_ptr \( \) \) \) ; for \( e , i \) in & self \. matrix \{ (.*?) \} for \( e , i \) in & self \. scalar \{ \1 \[ \* i \] = e \. borrow \( \) \. clone \( \) ; \} \}$', s)
    if m:
        mm = re.match(r'^(let _ = |)' + CALL + r' ;$', m.group(2))
        if not mm or mm.group(2) != 'e' or mm.group(5) != '* i': raise Unrecognised("matrix loop: " + m.group(2))
        if mm.group(4) not in ROUTINES: raise Unrecognised("call of " + mm.group(4))
        return "(.indexed .%s)" % mm.group(4)
    # a fixed number of calls
    stmts = [x.strip() for x in s.split(';')]
    if stmts and stmts[-1] == '': stmts.pop()
    steps = []
    for st in stmts:
        mm = re.match(r'^(let mut offset = |let offset = |offset \+= |offset = |let _ = |)' + CALL + r'$', st)
        if not mm or mm.group(2) == 'e': raise Unrecognised("statement of solve: " + st)
        upd = {"let mut offset = ": ".bind", "let offset = ": ".bind", "offset = ": ".bind", "offset += ": ".add", "let _ = ": ".drop", "": ".drop"}[mm.group(1)]
        steps.append(step(mm.group(3), mm.group(4), mm.group(5), upd))
    if not steps: raise Unrecognised("solve: " + s)
    return "(.seq [%s])" % ", ".join(steps)

def split_arms(body):
    """arms of a match body (text between its braces): list of (pattern text, arm body text)"""
    arms, i, n = [], 0, len(body)
    while True:
        while i < n and body[i] in ' \t\r\n,': i += 1
        if i >= n: break
        j, d = i, 0
        while j < n and not (d == 0 and body.startswith('=>', j)):
            d += (body[j] in '([{') - (body[j] in ')]}')
            j += 1
        if j >= n: raise Unrecognised("match arm without `=>`")
        pat = body[i:j].strip()
        k = j + 2
        while k < n and body[k] in ' \t\r\n': k += 1
        if body[k] == '{':
            e = balanced(body, k); arms.append((pat, body[k + 1:e - 1])); i = e
        else:
            e = item_end(body, k); arms.append((pat, body[k:e].rstrip(',').strip())); i = e
    return arms

def read_cat(text, macro, which):
    body = apply_cfg(strip_comments(macro_body(text, macro)))
    m = re.search(r'match\s*\(\s*nargs\s*,\s*rows\s*,\s*columns\s*\)\s*\{', body)
    if not m: raise Unrecognised("%s: no `match (nargs,rows,columns)`" % macro)
    if len(re.findall(r'match\s*\(\s*nargs\s*,\s*rows\s*,\s*columns\s*\)', body)) != 1: raise Unrecognised("%s: several matches on (nargs,rows,columns)" % macro)
    pre = body[:m.start()]
    def last_let(name):
        ms = list(re.finditer(r'let\s+%s\s*(?::\s*usize\s*)?=\s*([^;]*);' % name, pre))
        if not ms: raise Unrecognised("%s: no `let %s`" % (macro, name))
        return norm(ms[-1].group(1))
    if last_let('nargs') != 'arguments . len ( )': raise Unrecognised("%s: nargs = %s" % (macro, last_let('nargs')))
    if not re.search(r'let\s+arguments\s*=\s*\$args\s*;', pre): raise Unrecognised("%s: `let arguments = $args`" % macro)
    def agg(s):
        mm = re.match(r'^arguments \[ 0 \] \. shape \( \) \[ ([01]) \]$', s)
        if mm: return "(.first %s)" % (".rows" if mm.group(1) == '0' else ".cols")
        mm = re.match(r'^arguments \. iter \( \) \. fold \( 0 , \| (\w+) , (\w+) \| \1 \+ \2 \. shape \( \) \[ ([01]) \] \)$', s)
        if mm and mm.group(1) != mm.group(2): return "(.sum %s)" % (".rows" if mm.group(3) == '0' else ".cols")
        raise Unrecognised("%s: how a dimension of the result is computed: %s" % (macro, s))
    rows, cols = agg(last_let('rows')), agg(last_let('columns'))
    end = balanced(body, m.end() - 1)
    arms_out, used = [], []
    for pat, abody in split_arms(body[m.end():end - 1]):
        p = norm(pat)
        if p in ('_', 'x'):     # the catch-all error arm
            continue
        mm = re.match(r'^\( (\w+) , (\w+) , (\w+) \)$', p)
        if not mm: raise Unrecognised("%s: arm pattern %s" % (macro, p))
        comps = mm.groups()
        binds = {}
        pats = []
        for k, c in enumerate(comps):
            if re.match(r'^\d+$', c): pats.append(".lit %s" % c)
            else:
                pats.append(".any")
                if c != '_': binds[c] = k
        def dim(v):
            if binds.get(v) == 1: return ".rows"
            if binds.get(v) == 2: return ".cols"
            raise Unrecognised("%s %s: a buffer sized by `%s`, which is not the matched number of rows or columns" % (macro, p, v))
        ab = norm(abody)
        structs = []
        for s in re.findall(r'Box :: new \( (\w+) \{', ab):
            if s not in structs: structs.append(s)
        if not structs: raise Unrecognised("%s %s: builds no function" % (macro, p))
        allocs = re.findall(r'let (?:mut )?out = (\w+) :: from_element \( ([^()]*) \)', ab)
        alloc = ".none"
        if allocs:
            if len(allocs) != 1: raise Unrecognised("%s %s: several output buffers" % (macro, p))
            ty, args = allocs[0][0], [a.strip() for a in allocs[0][1].split(',')]
            if args[-1] != '$default': raise Unrecognised("%s %s: buffer not filled with the default element" % (macro, p))
            args = args[:-1]
            if ty == 'DMatrix' and len(args) == 2: alloc = "(.md %s %s)" % (dim(args[0]), dim(args[1]))
            elif ty == 'RowDVector' and len(args) == 1: alloc = "(.rd %s)" % dim(args[0])
            elif ty == 'DVector' and len(args) == 1: alloc = "(.vd %s)" % dim(args[0])
            else: raise Unrecognised("%s %s: buffer %s(%s)" % (macro, p, ty, ", ".join(args)))
            if not re.search(r'out : Ref :: new \( out( \. clone \( \))? \)', ab): raise Unrecognised("%s %s: the buffer is not the struct's `out`" % (macro, p))
        # how the arguments reach the struct
        wiring = None
        if alloc == ".none":
            if pats[0] != ".lit 1": raise Unrecognised("%s %s: no buffer, yet not a one-argument arm" % (macro, p))
            if not all(re.search(r'%s \{ (arg : e0 \. clone \( \) , )?out : (e0 \. clone \( \)|Ref :: new \( DMatrix :: from_element \( 1 , 1 , \$default \) \)) \}' % s, ab) for s in structs):
                raise Unrecognised("%s %s: a one-argument arm that does not hand its argument through" % (macro, p))
            wiring = ".single"
        elif 'matrix_args' in ab or 'scalar_args' in ab:
            pairs = re.findall(r'(\w+) \. push \( \( (.*?) , (\w+) \) \) ; (\w+) \+= ([^;]*) ;', ab)
            n_push, n_adv = len(re.findall(r'\. push \(', ab)), len(re.findall(r'\+=', ab))
            if not pairs or n_push != len(pairs) or n_adv != len(pairs): raise Unrecognised("%s %s: pushes and index advances do not pair up" % (macro, p))
            madv, sadv = set(), set()
            for lst, what, ix, ix2, adv in pairs:
                if ix != 'i' or ix2 != 'i': raise Unrecognised("%s %s: index variable" % (macro, p))
                if lst == 'matrix_args':
                    if what != 'e0 . get_copyable_matrix ( )': raise Unrecognised("%s %s: matrix argument %s" % (macro, p, what))
                    a = re.match(r'^e0 \. shape \( \) \[ ([01]) \]$', adv)
                    if not a: raise Unrecognised("%s %s: index advanced by %s" % (macro, p, adv))
                    madv.add(".rows" if a.group(1) == '0' else ".cols")
                elif lst == 'scalar_args':
                    if not re.match(r'^\d+$', adv): raise Unrecognised("%s %s: index advanced by %s" % (macro, p, adv))
                    sadv.add(adv)
                else: raise Unrecognised("%s %s: push onto %s" % (macro, p, lst))
            if len(madv) != 1 or len(sadv) != 1: raise Unrecognised("%s %s: branches advance the index differently" % (macro, p))
            if not re.search(r'let mut i = 0 ; for arg in arguments \. iter \( \) \{', ab): raise Unrecognised("%s %s: index loop" % (macro, p))
            if not re.search(r'\{ scalar : scalar_args , matrix : matrix_args , out :', ab): raise Unrecognised("%s %s: struct fields" % (macro, p))
            wiring = "(.byKind %s %s)" % (sorted(madv)[0], sorted(sadv)[0])
        elif re.search(r'for arg in arguments \{', ab):
            if not (re.search(r'let e0 = extract_matrix \( & arg \) \? ; args \. push \( e0 \) ;', ab) or
                    re.search(r'match arg \{ Value :: \[ < Matrix \$kind : camel > \] \( m0 \) => \{ let e0 = m0 \. get_copyable_matrix \( \) ; args \. push \( e0 \) ; \}', ab)):
                raise Unrecognised("%s %s: argument loop" % (macro, p))
            if not re.search(r'\{ e0 : args , out :', ab): raise Unrecognised("%s %s: struct fields" % (macro, p))
            wiring = ".inOrder"
        else:
            fields = {}
            for f, k in re.findall(r'let (e\d+) = extract_matrix \( & arguments \[ (\d+) \] \) \?', ab): fields[f] = int(k)
            sl = re.search(r'match & arguments \[ \.\. \] \{ \[ (.*?) \] =>', ab)
            if sl:
                vars_ = re.findall(r'Value :: \[ < Matrix \$kind : camel > \] \( (\w+) \)', sl.group(1))
                if len(vars_) != len(sl.group(1).split(' , ')): raise Unrecognised("%s %s: slice pattern %s" % (macro, p, sl.group(1)))
                for f, v in re.findall(r'let (e\d+) = (\w+) \. get_copyable_matrix \( \)', ab):
                    if v not in vars_: raise Unrecognised("%s %s: %s is bound to %s" % (macro, p, f, v))
                    fields[f] = vars_.index(v)
            lit = re.search(r'%s \{ (.*?) , out :' % structs[0], ab)
            if not lit or len(structs) != 1: raise Unrecognised("%s %s: struct literal" % (macro, p))
            order = []
            for k, item in enumerate(lit.group(1).split(' , ')):
                mm2 = re.match(r'^(e\d+)(?: : (e\d+))?$', item)
                if not mm2 or mm2.group(1) != "e%d" % k: raise Unrecognised("%s %s: struct field %s" % (macro, p, item))
                src = mm2.group(2) or mm2.group(1)
                if src not in fields: raise Unrecognised("%s %s: where does %s come from?" % (macro, p, src))
                order.append(str(fields[src]))
            wiring = "(.fields [%s])" % ", ".join(order)
        for s in structs:
            if s not in used: used.append(s)
        arms_out.append("⟨(%s, %s, %s), [%s], %s, %s⟩" % (pats[0], pats[1], pats[2], ", ".join('"%s"' % s for s in structs), alloc, wiring))
    return rows, cols, arms_out, used

def extract(repo="/repo"):
    routines = read_routines(repo)
    cats, solves = {}, []
    for which, path, macro in (("horzcat", "src/interpreter/src/stdlib/horzcat.rs", "impl_horzcat_arms"),
                               ("vertcat", "src/interpreter/src/stdlib/vertcat.rs", "impl_vertcat_arms")):
        text = open(os.path.join(repo, path), newline='').read().replace('\r\n', '\n')
        try:
            rows, cols, arms, used = read_cat(text, macro, which)
            sv = read_solves(apply_cfg(strip_comments(text)))
            for s in used:
                if s not in sv: raise Unrecognised("no `solve` found for " + s)
                try: solves.append((s, classify_solve(sv[s])))
                except Unrecognised as e: raise Unrecognised("%s::solve: %s" % (s, e))
        except (Unrecognised, ValueError, IndexError) as e: raise Unrecognised("%s: %s" % (which, e))
        cats[which] = (rows, cols, arms)
    return routines, solves, cats

def generate(root, repo="/repo"):
    try: routines, solves, cats = extract(repo)
    except (Unrecognised, OSError) as e: return False, "C11 concatenation-kernel extraction failed: %s" % e
    L = ["/- GENERATED by tools/extract_concat.py from src/core/src/structures/matrix.rs (`copy_mat!`) and",
         "   src/interpreter/src/stdlib/{horzcat,vertcat}.rs — do not edit. -/",
         "import MechVerif.Model.ConcatIR", "namespace MechVerif.Gen.ConcatKernels",
         "open MechVerif.Num MechVerif.Mat MechVerif.ConcatIR", "set_option linter.unusedVariables false", "", "variable {α : Type}", ""]
    for name, ty, lines in routines:
        L += lines + [""]
    L += ["/-- the storage type each routine writes into -/",
          "def destinations : List (Routine × String) :=",
          "  [" + ", ".join('(.%s, "%s")' % (n, ty) for n, ty, _ in routines) + "]", "",
          "/-- the routines by name -/",
          "def impl : Routine → Mat α → Mat α → Nat → Except Err (Mat α × Nat)"]
    L += ["  | .%s => %s" % (n, n) for n, _, _ in routines]
    L += ["", "/-- `solve` of every struct an arm below builds -/", "def solves : List (String × Solve) :=", "  ["]
    L.append(",\n".join('   ("%s", %s)' % (s, c) for s, c in solves) + "]")
    for which in ("horzcat", "vertcat"):
        rows, cols, arms = cats[which]
        L += ["", "/-- `impl_%s_arms!`: how `rows` and `columns` of `match (nargs,rows,columns)` are computed, and the arms that" % which,
              "    exist with the default features, in order -/",
              "def %s : Cat :=" % which, "  ⟨%s, %s," % (rows, cols), "   ["]
        L.append(",\n".join("    " + a for a in arms) + "]⟩")
    L += ["", "/-- which routine each struct calls on which field with which offset, what becomes of the returned value, which arm",
          "    builds which struct over which buffer: all as the model expects -/",
          "theorem C11_concat_table_as_written :",
          "    destinations = expectedDestinations ∧ solves = expectedSolves ∧ horzcat = expectedHorzcat ∧ vertcat = expectedVertcat := by decide",
          "", "end MechVerif.Gen.ConcatKernels", ""]
    text = "\n".join(L)
    out = os.path.join(root, 'lean', 'MechVerif', 'Gen', 'ConcatKernels.lean')
    old = open(out).read() if os.path.exists(out) else None
    if old != text: open(out, 'w').write(text)
    return True, "C11 concatenation kernels extracted: %d routines, %d structs, %d+%d arms" % (
        len(routines), len(solves), len(cats["horzcat"][2]), len(cats["vertcat"][2]))

if __name__ == '__main__':
    root = os.path.dirname(os.path.dirname(os.path.abspath(__file__)))
    if len(sys.argv) > 1 and sys.argv[1] == '--show':
        r, s, c = extract(sys.argv[2] if len(sys.argv) > 2 else "/repo")
        for n, ty, lines in r: print("\n".join(lines)); print()
        for x in s: print(x)
        for k, v in c.items():
            print(k, v[0], v[1])
            for a in v[2]: print("   ", a)
    else:
        repo = "/repo"
        outroot = root
        for a in sys.argv[1:]:
            if a.startswith("repo="): repo = a[5:]
            if a.startswith("root="): outroot = a[5:]
        print(generate(outroot, repo))
