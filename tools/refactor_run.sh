#!/bin/bash
# usage: tools/refactor_run.sh <dir> [checks...]   applies refactors/<dir>/patch.diff (a behaviour-preserving rewrite) to /repo,
# runs the quick checks with seeds 1 and 2, restores /repo; every check is expected to pass
set -u
d="$1"; shift
cd /verif
if [ -n "$(git -C /repo status --porcelain)" ]; then echo "/repo is not clean"; exit 2; fi
git -C /repo apply "/verif/refactors/$d/patch.diff" || { echo "patch does not apply"; exit 2; }
res=""
for c in "$@"; do for s in 1 2; do
  out=$(./check $c --tier quick --seed $s 2>&1 | grep -v KNOWN-FINDING | tail -4)
  if echo "$out" | grep -q "^VIOLATION"; then res="$res $c/$s:ALARM"; cp -f replays/$c-*-$s.json "refactors/$d/" 2>/dev/null; else res="$res $c/$s:quiet"; fi
done; done
git -C /repo checkout -- .
# what the run wrote from the patched tree must not stay: the generated level table and the evidence files
git -C /verif checkout -- evidence lean/MechVerif/Gen 2>/dev/null
echo "RESULT $d:$res"
