#!/usr/bin/env python3
"""Teeth of the C16 translator tie, without touching /repo: writes `git show HEAD:` of functions.rs and expressions.rs
into a temporary tree, applies one small change, runs tools/extract_arms.py on the copy (`repo=` argument) and builds
MechVerif.Props.C16 with the skeleton generated from it; reports which Lean proof fails, or that the reader refused
the shape (the check would print a NOTE and keep the committed skeleton), or that the change was absorbed
(re-formatting, renaming).  Gen/ArmsSkeleton.lean is regenerated from the unchanged copy at the end.
usage: tools/teeth_arms.py [experiment-id …]"""
import os, re, shutil, subprocess, sys, tempfile
ROOT = os.path.dirname(os.path.dirname(os.path.abspath(__file__)))
sys.path.insert(0, os.path.join(ROOT, "tools"))
import extract_arms as EA

FN, EX = EA.FN_SRC, EA.EX_SRC

def rename(text):
    for a, b in [("current_args", "now"), ("next_args", "then_args"), ("input_arg_values", "actuals"), ("fxn_def", "def0"),
                 ("matched", "hit"), ("passed_guard", "holds"), ("guard_env", "scratch"), ("base_env", "outer"), ("env", "bindings"),
                 ("step", "outcome"), ("scope", "frame"), ("tail_args", "again"), ("coerced", "shaped"), ("out", "produced"),
                 ("output", "res"), ("arm", "a"), ("arm_ix", "k"), ("arm_idx", "k"), ("detached_source", "subject"), ("source", "raw"),
                 ("match_expr", "mx"), ("missing_patterns", "lacking"), ("fxn_call", "call0"), ("value", "val")]:
        text = re.sub(r'(?<![\w.])%s\b' % a, b, text)      # not after a `.`: field names stay
    return text

def reformat(text):
    text = re.sub(r'(?m)^( +)', lambda m: '\t' * (len(m.group(1)) // 2), text)
    text = text.replace("let mut env = Environment::new();", "let mut env /* fresh */\n=\nEnvironment :: new ( ) ; // per arm")
    text = text.replace("let mut guard_env = base_env.clone();", "let mut guard_env\n= base_env . clone ( ) ; /* per arm */")
    return text.replace('\n', '\r\n')

# (id, what, file, old text (white space flexible) or a function on the whole text, new text)
EXPERIMENTS = [
 ("env-once", "the pattern environment created once for all arms", FN,
  "for (arm_idx, arm) in fxn_def.code.match_arms.iter().enumerate() { let mut env = Environment::new();",
  "let mut env = Environment::new(); for (arm_idx, arm) in fxn_def.code.match_arms.iter().enumerate() {"),
 ("binding-env-once", "match_expression builds its binding environment once instead of per arm", EX,
  "for (arm_ix, arm) in match_expr.arms.iter().enumerate() { let mut guard_env = base_env.clone();",
  "let mut guard_env = base_env.clone(); for (arm_ix, arm) in match_expr.arms.iter().enumerate() {"),
 ("bind-original", "in the tail-call loop the inputs bound to the arguments of the original call", FN,
  "bind_function_inputs(fxn_def, &current_args, p)?;", "bind_function_inputs(fxn_def, input_arg_values, p)?;"),
 ("arms-on-original", "in the tail-call loop the arms run on the arguments of the original call", FN,
  "execute_function_match_arms(fxn_def, &current_args, p)?;", "execute_function_match_arms(fxn_def, input_arg_values, p)?;"),
 ("guard-first", "a guard evaluated before (and regardless of) the pattern", EX,
  lambda t: (lambda m: t.replace(m.group(0), m.group(2).replace("matched && match", "match") + "\n        " + m.group(1)) if m else t)(
      re.search(r'(let matched = match &arm\.pattern \{.*?\n        \};)\s*// The guard[^\n]*\n\s*(let passed_guard = matched && match &arm\.guard \{.*?\n        \};)', t, re.S)), None),
 ("guard-ungated", "the guard evaluated whether or not the pattern matched (C16-D1 undone)", EX,
  "let passed_guard = matched && match &arm.guard {", "let passed_guard = match &arm.guard {"),
 ("guard-in-base", "the guard evaluated in the base environment", EX,
  "Some(guard) => guard_expression_true(guard, &guard_env, p)?, None => true, }; if matched && passed_guard {",
  "Some(guard) => guard_expression_true(guard, &base_env, p)?, None => true, }; if matched && passed_guard {"),
 ("reversed-fn-arms", "the arm loop of a function reversed", FN,
  "in fxn_def.code.match_arms.iter().enumerate() {", "in fxn_def.code.match_arms.iter().rev().enumerate() {"),
 ("reversed-match-arms", "the arm loop of a match expression reversed", EX,
  "for (arm_ix, arm) in match_expr.arms.iter().enumerate() { let mut guard_env", "for (arm_ix, arm) in match_expr.arms.iter().rev().enumerate() { let mut guard_env"),
 ("arity-after-broadcast", "the arity test after the broadcast attempt", FN,
  lambda t: (lambda m: t.replace(m.group(0), "") .replace("trace_println!(\n    p,\n    \"{}\",\n    format_trace(\n      \"fn\",\n      format!(\n        \"enter", m.group(0) + "\n  trace_println!(\n    p,\n    \"{}\",\n    format_trace(\n      \"fn\",\n      format!(\n        \"enter", 1) if m else t)(
      re.search(r'if input_arg_values\.len\(\) != fxn_def\.input\.len\(\) \{.*?\n  \}\n', t, re.S)), None),
 ("arity-equal", "the arity test `==` instead of `!=`", FN,
  "if input_arg_values.len() != fxn_def.input.len() {", "if input_arg_values.len() == fxn_def.input.len() {"),
 ("tail-keeps-args", "a tail call does not replace the arguments", FN, "current_args = next_args;", "let _ = next_args;"),
 ("no-arm-skipped", "a matched arm does not stop the scan (the `return` of the value dropped)", FN,
  "return Ok(FunctionCallStep::Return(coerced));", "let _ = FunctionCallStep::Return(coerced);"),
 ("not-matched", "`if !matched`", FN, lambda t: re.sub(r'if matched \{(\s*// Tail-call)', r'if !matched {\1', t), None),
 ("wildcard-false", "a wildcard arm of a match does not match", EX, "Pattern::Wildcard => true, _ => crate::patterns::pattern_matches_value_with_semantics( &arm.pattern, &detached_source,",
  "Pattern::Wildcard => false, _ => crate::patterns::pattern_matches_value_with_semantics( &arm.pattern, &detached_source,"),
 ("match-into-base", "the pattern of a match arm matched into the base environment", EX,
  "&detached_source, &mut guard_env, p, crate::patterns::PatternMatchSemantics::OptionGuard, )?, }; // The guard",
  "&detached_source, &mut base_env, p, crate::patterns::PatternMatchSemantics::OptionGuard, )?, }; // The guard"),
 ("body-in-base", "the body of a match arm evaluated in the base environment", EX,
  "let output = expression(&arm.expression, Some(&guard_env), p)?;", "let output = expression(&arm.expression, Some(&base_env), p)?;"),
 ("exhaustiveness-after", "the exhaustiveness test of match_expression dropped for a missing enum (falls through to the loop)", EX,
  "} else { return Err(MechError::new(MatchNonExhaustiveError, None) .with_compiler_loc() .with_tokens(match_expr.source.tokens())); }", "}"),
 ("missing-nonempty-ok", "`if !missing_patterns.is_empty()`", EX, "if missing_patterns.is_empty() {", "if !missing_patterns.is_empty() {"),
 ("tail-arity-dropped", "a self call of any arity is a tail call", FN, "if tail_args.len() == fxn_def.input.len() {", "if true {"),
 ("rename", "every local and parameter renamed", "both", rename, None),
 ("reformat", "CRLF, tabs, statements split over lines, comments inside statements", "both", reformat, None),
 ("while-loop", "the tail-call loop written `while true`", FN, "loop { let scope = FunctionScope::enter(p);", "while true { let scope = FunctionScope::enter(p);"),
 ("unknown-call", "an unknown call in the arm loop", FN, "let mut env = Environment::new();", "let mut env = Environment::new(); p.note_arm();"),
 ("skip-first", "the arm loop skipping the first arm (`.skip(1)`)", FN, "in fxn_def.code.match_arms.iter().enumerate() {", "in fxn_def.code.match_arms.iter().skip(1).enumerate() {"),
]

def theorem_at(path, line):
    name = "?"
    for n, l in enumerate(open(path), 1):
        m = re.match(r'\s*(?:theorem|example)\s*([\w.\']*)', l)
        if m: name = m.group(1) or "example (line %d)" % n
        if n >= line: break
    return name

def clean_copy(tmp):
    out = {}
    for src in (FN, EX):
        p = os.path.join(tmp, src)
        os.makedirs(os.path.dirname(p), exist_ok=True)
        text = subprocess.run(["git", "-C", "/repo", "show", "HEAD:" + src], stdout=subprocess.PIPE, check=True).stdout.decode()
        open(p, "w", newline='').write(text)
        out[src] = (p, text)
    return out

def run(exp):
    eid, what, which, old, new = exp
    tmp = tempfile.mkdtemp(prefix="teeth_c16_")
    try:
        files = clean_copy(tmp)
        applied = False
        for src in ((FN, EX) if which == "both" else (which,)):
            p, text = files[src]
            if callable(old):
                changed = old(text)
                if changed == text: continue
            else:
                pat = re.compile(r'\s*'.join(re.escape(t) for t in re.findall(r'\w+|[^\w\s]', old)))
                hits = pat.findall(text)
                if len(hits) != 1: return "%s: NOT APPLIED (%d occurrences of the text to change)" % (eid, len(hits))
                changed = pat.sub(lambda m: new, text)
            open(p, "w", newline='').write(changed); applied = True
        if not applied: return "%s: NOT APPLIED" % eid
        ok, msg = EA.generate(ROOT, repo=tmp)
        if not ok: return "%s — %s: REFUSED → NOTE, committed skeleton stays (%s)" % (eid, what, msg)
        r = subprocess.run(["lake", "build", "MechVerif.Props.C16"], cwd=os.path.join(ROOT, "lean"), stdout=subprocess.PIPE, stderr=subprocess.STDOUT, text=True)
        if r.returncode == 0: return "%s — %s: extracted skeleton unchanged, all proofs pass" % (eid, what)
        bad = sorted(set(re.findall(r"error: (MechVerif/[\w/]+\.lean):(\d+)", r.stdout)))
        names = sorted(set("%s (%s)" % (theorem_at(os.path.join(ROOT, "lean", b[0]), int(b[1])), os.path.basename(b[0])) for b in bad))
        return "%s — %s: FAILS at %s" % (eid, what, ", ".join(names) or r.stdout[-300:])
    finally:
        shutil.rmtree(tmp, ignore_errors=True)

if __name__ == "__main__":
    want = sys.argv[1:]
    try:
        for e in EXPERIMENTS:
            if want and e[0] not in want: continue
            print(run(e), flush=True)
    finally:
        tmp = tempfile.mkdtemp(prefix="teeth_c16_")
        clean_copy(tmp)
        print("restored:", EA.generate(ROOT, repo=tmp), flush=True)
        shutil.rmtree(tmp, ignore_errors=True)
