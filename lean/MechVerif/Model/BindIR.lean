/-
C05, a tie to the source: the decisions of `variable_define`, `variable_assign` and `op_assign`
(src/interpreter/src/statements.rs), of `SymbolTable::{insert, get_mutable, contains}`
(src/core/src/program/symbol_table.rs) and of `bind_function_inputs` (src/interpreter/src/functions.rs) as they are
written.  `tools/extract_bind.py` reads them into the records below; `lookupAsWritten` / `definePrologue` give them
their meaning on the store of `Model/Store.lean`.
-/
import MechVerif.Model.Store
namespace MechVerif.BindIR
open MechVerif.Store

/-- how an assignment finds its target -/
structure LookupIR where
  /-- the right-hand side is evaluated before the target is looked up -/
  sourceFirst : Bool
  /-- the target is looked up among the mutable variables -/
  mutableLookup : Bool
  /-- the error when the name is defined but not among them / not defined at all -/
  whenDefined : String
  whenUndefined : String
deriving DecidableEq, Repr

structure DefineIR where
  /-- an existing name is refused before the right-hand side is evaluated, whatever the form of the definition -/
  existingRefusedFirst : Bool
  existingError : String
  /-- every `save_symbol` of the function saves this name with the declared mutability … -/
  savesDeclaredFlag : Bool
  /-- … and comes after the evaluation of the right-hand side -/
  savesAfterEvaluation : Bool
  /-- every path to a `save_symbol` passes the test of the existing name -/
  noSaveBypassesTest : Bool
deriving DecidableEq, Repr

structure TableIR where
  insertAlwaysInSymbols : Bool
  insertInMutablesIffFlag : Bool
  getMutableReadsMutables : Bool
  containsReadsSymbols : Bool
deriving DecidableEq, Repr

structure Skel where
  assign : LookupIR
  opAssign : LookupIR
  define : DefineIR
  table : TableIR
  /-- `bind_function_inputs` saves a function's parameters as immutable names -/
  functionInputsImmutable : Bool
deriving DecidableEq, Repr

def errOf (name : String) : SErr :=
  if name = "NotMutableError" then .immutable else if name = "UndefinedVariableError" then .undefined
  else if name = "VariableAlreadyDefinedError" then .redefine else .eval

/-- the target lookup as written -/
def lookupAsWritten (ir : LookupIR) (s : Store) (n : Name) : Except SErr Nat :=
  match s.lookup n with
  | some (c, true) => .ok c
  | some (c, false) => if ir.mutableLookup then .error (errOf ir.whenDefined) else .ok c
  | none => .error (errOf ir.whenUndefined)

/-- what a definition does before it evaluates anything -/
def definePrologue (ir : DefineIR) (s : Store) (n : Name) : Option SErr :=
  if ir.existingRefusedFirst && (s.lookup n).isSome then some (errOf ir.existingError) else none

def expectedLookup : LookupIR := ⟨true, true, "NotMutableError", "UndefinedVariableError"⟩

def expected : Skel :=
  ⟨expectedLookup, expectedLookup, ⟨true, "VariableAlreadyDefinedError", true, true, true⟩, ⟨true, true, true, true⟩, true⟩

end MechVerif.BindIR
