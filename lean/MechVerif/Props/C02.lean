/-
C02 — Formulas evaluate according to the documented precedence and left associativity.
Model: `Model/Prec.lean` (level-by-level recursive descent + left fold), spec:
`Spec/Prec.lean` (`WellGrouped`).  The level table of the real grammar is regenerated
from src/syntax/src/expressions.rs on every run (`Gen/PrecLevels.lean`).
-/
import MechVerif.Lemmas.Formula
import MechVerif.Lemmas.Syntax
import MechVerif.Gen.PrecLevels
namespace MechVerif.Prec

variable {α β : Type}

/-- The parse tree is faithful to the text: its in-order traversal is the flat formula
    (first operand, then the operator/operand pairs it consumed). -/
theorem C02_parse_inorder (N : Nat) (a : α) (rest : Rest α) (h : OpsIn N rest) :
    (parseFormula N a rest).1.first = a ∧ rest = (parseFormula N a rest).1.tail ++ (parseFormula N a rest).2 :=
  parse_inorder N a rest h

/-- … and it accounts for the whole formula. -/
theorem C02_parse_consumes_all (N : Nat) (a : α) (rest : Rest α) (h : OpsIn N rest) :
    (parseFormula N a rest).2 = [] ∧ (parseFormula N a rest).1.tail = rest :=
  parse_consumes_all N a rest h

/-- The parse tree is the documented grouping: tighter levels sit below looser ones and
    operators of one level (including `^`) group from the left. -/
theorem C02_parse_wellgrouped (N : Nat) (a : α) (rest : Rest α) (h : OpsIn N rest) :
    WellGrouped (parseFormula N a rest).1 :=
  parse_wellgrouped N a rest h

/-- The documented grouping is unique, so the parser computes *the* grouping: any
    well-grouped tree with the same in-order sequence is the parse tree. -/
theorem C02_grouping_unique (N : Nat) (a : α) (rest : Rest α) (h : OpsIn N rest) (t : Tree α)
    (hwg : WellGrouped t) (hf : t.first = a) (ht : t.tail = rest) : (parseFormula N a rest).1 = t :=
  grouping_unique N a rest h t hwg hf ht

/-- An unparenthesised formula evaluates to the value of its documented grouping, for
    every operand evaluation and every operator semantics. -/
theorem C02_eval_unparen_eq_paren (N : Nat) (a : α) (rest : Rest α) (h : OpsIn N rest) (t : Tree α)
    (hwg : WellGrouped t) (hf : t.first = a) (ht : t.tail = rest) (atom : α → β) (ap : Op → β → β → β) :
    (parseFormula N a rest).1.eval atom ap = t.eval atom ap := by
  rw [C02_grouping_unique N a rest h t hwg hf ht]

/-- left-nested term of a chain -/
def leftNest (acc : Tree α) : Rest α → Tree α
  | [] => acc
  | (o, b) :: r => leftNest (.node acc o (.leaf b)) r

theorem leftNest_props (k : Nat) : ∀ (r : Rest α) (acc : Tree α), WellGrouped acc → (∀ x ∈ acc.ops, k ≤ x.lvl) →
    (∀ x ∈ r, x.1.lvl = k) →
    WellGrouped (leftNest acc r) ∧ (leftNest acc r).first = acc.first ∧ (leftNest acc r).tail = acc.tail ++ r := by
  intro r
  induction r with
  | nil => intro acc hwg _ _; exact ⟨hwg, rfl, by simp [leftNest]⟩
  | cons x r ih =>
    intro acc hwg hge hk
    obtain ⟨o, b⟩ := x
    have hok : o.lvl = k := hk (o, b) List.mem_cons_self
    have hwg' : WellGrouped (Tree.node acc o (Tree.leaf b)) :=
      ⟨fun x hx => by rw [hok]; exact hge x hx, fun x hx => by simp [Tree.ops, Tree.tail] at hx, hwg, trivial⟩
    have hge' : ∀ x ∈ (Tree.node acc o (Tree.leaf b)).ops, k ≤ x.lvl := by
      intro x hx
      rw [ops_node] at hx
      cases List.mem_append.mp hx with
      | inl h => exact hge x h
      | inr h => simp [Tree.ops, Tree.tail] at h; subst h; omega
    obtain ⟨h1, h2, h3⟩ := ih (Tree.node acc o (Tree.leaf b)) hwg' hge' (fun x hx => hk x (List.mem_cons_of_mem _ hx))
    refine ⟨h1, by simpa [leftNest, Tree.first] using h2, ?_⟩
    simp only [leftNest]
    rw [h3]
    simp [Tree.tail, Tree.first]

/-- Operators of one level group left to right: `a o1 b o2 c …` is `((a o1 b) o2 c) …`. -/
theorem C02_same_level_left_assoc (N k : Nat) (hk : 1 ≤ k ∧ k ≤ N) (a : α) (rest : Rest α)
    (h : ∀ x ∈ rest, x.1.lvl = k) : (parseFormula N a rest).1 = leftNest (.leaf a) rest := by
  obtain ⟨h1, h2, h3⟩ := leftNest_props k rest (.leaf a) trivial (fun x hx => by simp [Tree.ops, Tree.tail] at hx) h
  apply C02_grouping_unique N a rest (fun x hx => by rw [h x hx]; exact hk) _ h1
  · simpa [Tree.first] using h2
  · simpa [Tree.tail] using h3

/-- The levels of the real grammar, as extracted from the source on this run, are the
    documented ones. -/
theorem C02_levels_match : generatedLevels = specLevels ∧ generatedFoldsLeft = true := by decide

/-! ### non-vacuity -/
def plus : Op := ⟨0, 3⟩
def times : Op := ⟨1, 4⟩
def pow : Op := ⟨2, 5⟩
def gt : Op := ⟨3, 2⟩
example : (parseFormula 7 1 [(plus, 2), (times, 3), (pow, 4), (pow, 5), (gt, 6)]).1 =
    .node (.node (.leaf 1) plus (.node (.leaf 2) times (.node (.node (.leaf 3) pow (.leaf 4)) pow (.leaf 5)))) gt (.leaf 6) := by decide
example : OpsIn 7 [(plus, (2 : Nat)), (times, 3), (pow, 4), (pow, 5), (gt, 6)] := by
  intro x hx; simp at hx; rcases hx with h | h | h | h | h <;> subst h <;> decide

end MechVerif.Prec

/-! ## the whole formula grammar: parentheses, prefix operators, transpose (Model/Formula.lean) -/
namespace MechVerif.Formula
open MechVerif.Prec

/-- A formula with any nesting of parentheses, prefix `-` / `!` and transposes is read as the tree
    it is the text of: inside every pair of parentheses, and at the top, the operators are grouped
    by level and from the left; for every amount of fuel that covers the size of the text and
    whatever follows the formula (`)`, the end, anything that continues neither an operand nor
    the operator chain). -/
theorem C02_nested_formula_parse (g : Gram) (t : Trm) (h : okT g t) (n : Nat) (hn : costT t + 2 ≤ n)
    (rest : List Tok) (hr : NoCont g rest) : pForm g n (rTrm g t ++ rest) = some (t, rest) :=
  (rt_all g n).2.2 t hn h rest hr

/-- Explicit parentheses always override the grouping by level: *any* tree over the grammar's
    operators — grouped against the levels, to the right, in whatever way — written with parentheses
    around each operation is read back as exactly that tree, and its value is the value of that
    tree, for every meaning of the atoms and the operators. -/
theorem C02_parentheses_override (g : Gram) (t : Trm) (hl : okL g t) (hops : OpsIn g.N t.tail)
    (n : Nat) (hn : costF (parenAll t) ≤ n) (rest : List Tok) (hr : ∀ t r, rest = t :: r → t ≠ .quote)
    {β : Type} (atom : Nat → β) (neg not tr : β → β) (ap : Op → β → β → β) :
    pFac g n (rFac g (parenAll t) ++ rest) = some (parenAll t, rest) ∧
    evalFac atom neg not tr ap (parenAll t) = evalTrm atom neg not tr ap t :=
  ⟨(rt_all g n).1 (parenAll t) hn (okF_parenAll g t hl hops) rest hr, eval_parenAll atom neg not tr ap t⟩

/-- Prefix operators and the transpose bind tightest: in `-a o b'` the minus belongs to `a` and the
    transpose to `b`, whatever the binary operator `o` — also for `^`. -/
theorem C02_prefix_postfix_bind_tightest (g : Gram) (o : Op) (ho : 1 ≤ o.lvl ∧ o.lvl ≤ g.N) (a b : Fac)
    (ha : okF g a) (hb : okF g b) (hbb : b.isBase = true) (n : Nat) (hn : costF a + costF b + 7 ≤ n) :
    pForm g n (.dash :: rFac g a ++ g.opTok o :: rFac g b ++ [.quote]) =
      some (.node (.leaf (.neg a)) o (.leaf (.tr b)), []) := by
  have hok : okT g (.node (.leaf (.neg a)) o (.leaf (.tr b))) := by
    refine ⟨⟨?_, ?_, trivial, trivial⟩, ?_, ?_⟩
    · intro x hx; simp [Tree.ops, Tree.tail] at hx
    · intro x hx; simp [Tree.ops, Tree.tail] at hx
    · intro x hx; simp only [Tree.tail, Tree.first, List.nil_append, List.mem_cons, List.not_mem_nil, or_false] at hx
      subst hx; exact ho
    · simp only [okL, okF]; exact ⟨ha, hbb, hb⟩
  have := C02_nested_formula_parse g _ hok n (by simp only [costT, costF]; omega) [] (by intro t r e; cases e)
  simpa [rTrm, rFac] using this

/-- One character, two readings: after an operand `-` is subtraction, where an operand is expected
    it is negation, so `a - - b` is `a - (-b)`. -/
theorem C02_dash_reads_by_position (g : Gram) (hs : 1 ≤ g.sub.lvl ∧ g.sub.lvl ≤ g.N) (a b : Fac)
    (ha : okF g a) (hb : okF g b) (n : Nat) (hn : costF a + costF b + 7 ≤ n) :
    pForm g n (rFac g a ++ .dash :: .dash :: rFac g b) = some (.node (.leaf a) g.sub (.leaf (.neg b)), []) := by
  have hok : okT g (.node (.leaf a) g.sub (.leaf (.neg b))) := by
    refine ⟨⟨?_, ?_, trivial, trivial⟩, ?_, ?_⟩
    · intro x hx; simp [Tree.ops, Tree.tail] at hx
    · intro x hx; simp [Tree.ops, Tree.tail] at hx
    · intro x hx; simp only [Tree.tail, Tree.first, List.nil_append, List.mem_cons, List.not_mem_nil, or_false] at hx
      subst hx; exact hs
    · simp only [okL, okF]; exact ⟨ha, hb⟩
  have := C02_nested_formula_parse g _ hok n (by simp only [costT, costF]; omega) [] (by intro t r e; cases e)
  simpa [rTrm, rFac, Gram.opTok] using this

/-! ### non-vacuity: `-(1 + 2 * 3)' ^ !4 - 5` over the seven levels -/
def g7 : Gram := ⟨7, ⟨10, 3⟩⟩
def demo : Trm :=
  .node (.node (.leaf (.neg (.tr (.paren (.node (.leaf (.atom 1)) plus (.node (.leaf (.atom 2)) times (.leaf (.atom 3)))))))) pow
      (.leaf (.not (.atom 4)))) g7.sub (.leaf (.atom 5))
example : rTrm g7 demo = [.dash, .lp, .atom 1, .op plus, .atom 2, .op times, .atom 3, .rp, .quote, .op pow, .bang, .atom 4, .dash, .atom 5] := by
  decide
example : (pForm g7 40 (rTrm g7 demo)).map (fun p => rTrm g7 p.1) = some (rTrm g7 demo) := by decide

end MechVerif.Formula


/-! ## formulas over structured operands (Model/Syntax.lean) -/
namespace MechVerif.Syntax
open MechVerif.Prec

/-- Whatever the operands of a formula are — literals, names, calls, matrix literals, tuples, sets,
    subscripted names, parenthesised formulas, prefixed or transposed operands — and wherever the
    formula stands (a statement, a call argument, a matrix element, a subscript, a range bound),
    the tree the parser returns is the documented grouping of the operands and operators in text
    order: operators of the grammar's levels, tighter levels below looser ones, equal levels from
    the left; and it is the only such tree (`C02_grouping_unique`). -/
theorem C02_structured_formula_wellgrouped (g : Gram) (n : Nat) (ts : List Tok) (t : Trm) (r : List Tok)
    (h : pForm g n ts = some (t, r)) :
    WellGrouped t ∧ OpsIn g.N t.tail ∧ rFac g t.first ++ rRest g t.tail ++ r = ts := by
  obtain ⟨h1, h2⟩ := pForm_wellgrouped g n ts t r h
  refine ⟨h1, h2, ?_⟩
  have := (pr_all g n).2.2.1 ts t r h
  rw [this, rTrm_flat]

/-- A `-` after a closing bracket continues the formula (it is the subtraction operator), a `-`
    where an operand is expected is the prefix: `f(a) - b` is one formula of two operands, and in a
    matrix row `[f(a) -b]` (element separator before the `-`) it starts the second element. -/
theorem C02_dash_after_bracket (g : Gram) (hs : 1 ≤ g.sub.lvl ∧ g.sub.lvl ≤ g.N) (f a b : Nat) :
    pForm g 13 [.id f, .lp, .id a, .rp, .dash, .id b] =
      some (.node (.leaf (.call f [.pos (.form (.leaf (.var a)))])) g.sub (.leaf (.var b)), []) ∧
    pFac g 20 [.lb, .id f, .lp, .id a, .rp, .sp, .dash, .id b, .rb] =
      some (.mat [[.form (.leaf (.call f [.pos (.form (.leaf (.var a)))])), .form (.leaf (.neg (.var b)))]], []) := by
  constructor
  · have h1 := (rt_all g 13).2.2.1 (.node (.leaf (.call f [.pos (.form (.leaf (.var a)))])) g.sub (.leaf (.var b)))
      (by simp [costT, costF, costArgs, costArg, costE])
      ⟨by simp [WellGrouped, Tree.ops, Tree.tail], by intro x hx; simp [Tree.tail, Tree.first] at hx; subst hx; exact hs,
       by simp [okL, okF, okArgs, okArg, okE, WellGrouped, OpsIn, Tree.tail, Tree.first, lastOp, Fac.open]⟩ [] (by intro t r e; cases e)
      (by intro _ t r e; cases e)
    simp only [rTrm, rFac, rArgs, rArg, rEx, Gram.opTok, if_true, List.append_nil, List.cons_append, List.nil_append] at h1
    exact h1
  · have h2 := (rt_all g 20).1 (.mat [[.form (.leaf (.call f [.pos (.form (.leaf (.var a)))])), .form (.leaf (.neg (.var b)))]])
      (by simp [costF, costRows, costEs, costE, costT, costArgs, costArg])
      (by simp [okF, okRows, okEs, okE, okL, okArgs, okArg, WellGrouped, OpsIn, Tree.tail, Tree.ops]) [] (by intro t r e; cases e)
      (by intro _ t r e; cases e)
    simp only [rFac, rRows, rRow, rExs, rArgs, rArg, rEx, rTrm, List.append_nil, List.cons_append, List.nil_append, List.append_assoc] at h2
    exact h2

end MechVerif.Syntax
