/-
The layout tables of the bytecode file format that `Model/Bytecode.lean`, `Model/Loader.lean` and `Model/Emit.lean` follow:
field order and widths of the header, opcode numbers, the fields of every instruction form, the constant-table and
symbol entries, magic and format version.  `Lemmas/Layout.lean` proves that the model's writers emit exactly these
layouts (the readers are tied to the writers by the round-trip theorems of C07); `Gen/Layout.lean`, regenerated from
/repo on every run, proves that they are the layouts written in sections.rs / program.rs / context.rs.
Names are those of the Rust source.
-/
import MechVerif.Model.Emit
namespace MechVerif.Layout
open MechVerif.Bytecode MechVerif.Loader
open MechVerif.Crc (Byte)

/-- `ByteCodeHeader`: (field, bytes), in the order written and read -/
def headerLayout : List (String × Nat) :=
  [("magic", 4), ("version", 1), ("mech_ver", 2), ("flags", 2), ("reg_count", 4), ("instr_count", 4),
   ("feature_count", 4), ("feature_off", 8), ("types_count", 4), ("types_off", 8),
   ("const_count", 4), ("const_tbl_off", 8), ("const_tbl_len", 8), ("const_blob_off", 8), ("const_blob_len", 8),
   ("symbols_len", 8), ("symbols_off", 8), ("instr_off", 8), ("instr_len", 8), ("dict_off", 8), ("dict_len", 8),
   ("reserved", 4)]

/-- the numeric fields of a header in the order of `headerLayout` (the magic, a byte string, comes first) -/
def headerValues (h : Header) : List Nat :=
  [h.version, h.mechVer, h.flags, h.regCount, h.instrCount, h.featureCount, h.featureOff, h.typesCount, h.typesOff,
   h.constCount, h.constTblOff, h.constTblLen, h.constBlobOff, h.constBlobLen, h.symbolsLen, h.symbolsOff,
   h.instrOff, h.instrLen, h.dictOff, h.dictLen, h.reserved]

/-- values written little-endian one after the other with the given widths -/
def encodeFields : List Nat → List Nat → List Byte
  | w :: ws, v :: vs => leBytes w v ++ encodeFields ws vs
  | _, _ => []

/-- `enum OpCode` -/
def opcodeTable : List (String × Nat) :=
  [("ConstLoad", 0x01), ("NullOp", 0x10), ("Unop", 0x20), ("Binop", 0x30), ("Ternop", 0x40), ("Quadop", 0x50),
   ("VarArg", 0x60), ("Return", 0xFF)]

/-- `EncodedInstr` / `DecodedInstr`: (variant, `OpCode` written as the first byte, the fields after it, a list of u32
    follows — its length is the last field) -/
def instrLayout : List (String × String × List (String × Nat) × Bool) :=
  [("ConstLoad", "ConstLoad", [("dst", 4), ("const_id", 4)], false),
   ("NullOp", "NullOp", [("fxn_id", 8), ("dst", 4)], false),
   ("UnOp", "Unop", [("fxn_id", 8), ("dst", 4), ("src", 4)], false),
   ("BinOp", "Binop", [("fxn_id", 8), ("dst", 4), ("lhs", 4), ("rhs", 4)], false),
   ("TernOp", "Ternop", [("fxn_id", 8), ("dst", 4), ("a", 4), ("b", 4), ("c", 4)], false),
   ("QuadOp", "Quadop", [("fxn_id", 8), ("dst", 4), ("a", 4), ("b", 4), ("c", 4), ("d", 4)], false),
   ("VarArg", "VarArg", [("fxn_id", 8), ("dst", 4), ("args.len", 4)], true),
   ("Ret", "Return", [("src", 4)], false)]

/-- the Rust variant of an instruction of the model -/
def variantOf : Instr → String
  | .constLoad .. => "ConstLoad" | .nullOp .. => "NullOp" | .unOp .. => "UnOp" | .binOp .. => "BinOp"
  | .ternOp .. => "TernOp" | .quadOp .. => "QuadOp" | .varArg .. => "VarArg" | .ret .. => "Ret"

/-- its fixed fields in the order of `instrLayout`, and the u32 list that follows them -/
def fieldValues : Instr → List Nat
  | .constLoad d c => [d, c] | .nullOp f d => [f, d] | .unOp f d s => [f, d, s] | .binOp f d l r => [f, d, l, r]
  | .ternOp f d a b c => [f, d, a, b, c] | .quadOp f d a b c e => [f, d, a, b, c, e]
  | .varArg f d args => [f, d, args.length] | .ret s => [s]

def listValues : Instr → List Nat
  | .varArg _ _ args => args
  | _ => []

/-- the row of an instruction in a table shaped like `instrLayout`, and the number of an opcode in one shaped like
    `opcodeTable` -/
def instrRowIn (tbl : List (String × String × List (String × Nat) × Bool)) (i : Instr) : String × String × List (String × Nat) × Bool :=
  (tbl.find? (fun r => r.1 == variantOf i)).getD ("", "", [], false)

def opcodeIn (tbl : List (String × Nat)) (name : String) : Nat := ((tbl.find? (fun p => p.1 == name)).map (·.2)).getD 0

def instrRow (i : Instr) : String × String × List (String × Nat) × Bool := instrRowIn instrLayout i

def opcodeOf (name : String) : Nat := opcodeIn opcodeTable name

/-- does a table read off `decode_instructions` — (OpCode, variant built, widths read, a u32 list follows) — read for
    every opcode what `instrLayout` writes for it -/
def readerAgrees (rd : List (String × String × List Nat × Bool)) : Bool :=
  rd.length == instrLayout.length &&
  instrLayout.all (fun r => rd.contains (r.2.1, r.1, r.2.2.1.map (·.2), r.2.2.2))

/-- `ParsedConstEntry` (the compiler's `ConstEntry::write_to` writes a zero byte for `reserved`) -/
def constEntryLayout : List (String × Nat) :=
  [("type_id", 4), ("enc", 1), ("align", 1), ("flags", 1), ("reserved", 1), ("offset", 8), ("length", 8)]

def constEntryValues (c : CEntry) : List Nat := [c.typeId, c.enc, c.align, c.flags, c.reserved, c.offset, c.length]

/-- `SymbolEntry` -/
def symbolEntryLayout : List (String × Nat) := [("id", 8), ("mutable", 1), ("reg", 4)]

def symbolEntryValues (s : Nat × Bool × Nat) : List Nat := [s.1, if s.2.1 then 1 else 0, s.2.2]

def CONST_ENTRY_SIZE : Nat := 24
def SYMBOL_ENTRY_SIZE : Nat := 13

/-- `version: 1` of the header the compiler writes (`ParsedProgram::validate` expects it; the loader carries it as data) -/
def FORMAT_VERSION : Nat := 1

end MechVerif.Layout
