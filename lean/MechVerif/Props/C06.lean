/-
C06 — Compiled bytecode computes what the interpreter computed.

Three models carry the statements: the constant codec (Model/Const.lean — `ConstElem::write_le` /
`from_le`), the codec of kinds and of set and table constants (Model/ConstValue.lean) and `run_program` as a register machine (Model/RunProgram.lean).  The compile side
(which function name and which registers each generated function struct emits) is not modelled:
the correspondence check runs it and compares.
-/
import MechVerif.Lemmas.Const
import MechVerif.Lemmas.ConstValue
import MechVerif.Model.RunProgram
namespace MechVerif.RunProgram
open MechVerif.Const

/-! ### constants survive the trip through the file -/

/-- Every scalar constant (integers of every width and sign, floats as bit patterns, bools,
    strings, rationals, complex numbers) decodes to exactly the value that was encoded. -/
theorem C06_const_roundtrip (v : CV) (h : v.wf) (rest : List Crc.Byte) :
    decode v.kind (encode v ++ rest) = some (v, rest) := decode_encode v h rest

/-- A matrix constant decodes to the same shape and the same elements in the same order. -/
theorem C06_matrix_const_roundtrip (m : MatC) (h : m.wf) (rest : List Crc.Byte) :
    decodeMat m.kind (encodeMat m ++ rest) = some (m, rest) := decodeMat_encodeMat m h rest

/-! ### run_program -/

/-- An operation whose function id is not registered is an error: it never yields a value. -/
theorem C06_unregistered_is_error (consts : List String) (st : St) (arity : Option Nat) (dst : Nat) (args : List Nat)
    (rest : List Ins) : runIns consts st (.op arity false dst args :: rest) = .error (.unknownFunction arity) := by
  simp [runIns, step]

theorem runIns_append (consts : List String) : ∀ (pre : List Ins) (st : St) (post : List Ins),
    runIns consts st (pre ++ post) =
      (match runIns consts st pre with | .ok st' => runIns consts st' post | .error e => .error e) := by
  intro pre
  induction pre with
  | nil => intro st post; rfl
  | cons i pre ih =>
    intro st post
    simp only [List.cons_append, runIns]
    cases step consts st i with
    | error e => rfl
    | ok st' => exact ih st' post

/-- The result of a program is the value in the destination register of its last operation
    at the time it is built — not anything a function computes: the functions are
    constructed, never solved. -/
theorem C06_result_is_last_destination (regCount : Nat) (consts : List String) (symOut : Option String)
    (pre : List Ins) (arity : Option Nat) (dst : Nat) (args : List Nat) (st : St) (v : String)
    (hpre : runIns consts ⟨List.replicate regCount "empty", symOut.getD "empty"⟩ pre = .ok st)
    (hargs : ∀ a ∈ args, a < st.regs.length) (hdst : st.regs[dst]? = some v) :
    runProgram regCount consts symOut (pre ++ [.op arity true dst args]) = .ok v := by
  simp only [runProgram, runIns_append, hpre, runIns, step]
  have : (args.any fun a => decide (st.regs.length ≤ a)) = false := by
    rw [List.any_eq_false]
    intro a ha
    simpa using hargs a ha
  simp [this, hdst]

/-- `ConstLoad` copies the constant into the register and touches nothing else. -/
theorem C06_const_load (consts : List String) (st : St) (dst cid : Nat) (v : String)
    (hc : consts[cid]? = some v) (hd : dst < st.regs.length) :
    step consts st (.constLoad dst cid) = .ok ⟨st.regs.set dst v, st.out⟩ := by
  simp [step, hc, setReg, hd]

/-- The shape the compiler emits for a step whose output cell holds the constant `c`: load
    the cells, then the operation.  Running it returns that constant — the value the
    interpreter had computed into the cell. -/
theorem C06_loaded_output_is_result (regCount : Nat) (consts : List String) (dst cid : Nat) (v : String)
    (arity : Option Nat) (hc : consts[cid]? = some v) (hd : dst < regCount) :
    runProgram regCount consts none [.constLoad dst cid, .op arity true dst []] = .ok v := by
  simp [runProgram, runIns, step, hc, setReg, hd]

/-- A program without operations returns the empty value (or the constant of a symbol): the
    pinned commit returns it for programs whose last value no plan step produces (finding
    C06-D4). -/
theorem C06_no_operation_no_result (regCount : Nat) (consts : List String) (loads : List (Nat × Nat))
    (h : ∀ p ∈ loads, p.1 < regCount ∧ p.2 < consts.length) :
    runProgram regCount consts none (loads.map (fun p => Ins.constLoad p.1 p.2)) = .ok "empty" := by
  have : ∀ (loads : List (Nat × Nat)) (st : St), st.regs.length = regCount → st.out = "empty" →
      (∀ p ∈ loads, p.1 < regCount ∧ p.2 < consts.length) →
      ∃ st', runIns consts st (loads.map (fun p => Ins.constLoad p.1 p.2)) = .ok st' ∧ st'.out = "empty" := by
    intro loads
    induction loads with
    | nil => intro st _ ho _; exact ⟨st, rfl, ho⟩
    | cons p loads ih =>
      intro st hl ho hall
      obtain ⟨hp1, hp2⟩ := hall p (List.mem_cons_self ..)
      have hc : consts[p.2]? = some consts[p.2] := List.getElem?_eq_getElem hp2
      simp only [List.map_cons, runIns, step, hc, setReg, hl, hp1, if_true]
      exact ih ⟨st.regs.set p.1 consts[p.2], st.out⟩ (by simp [hl]) ho (fun q hq => hall q (List.mem_cons_of_mem _ hq))
  obtain ⟨st', h1, h2⟩ := this loads ⟨List.replicate regCount "empty", "empty"⟩ (by simp) rfl h
  simp [runProgram, h1, h2]

end MechVerif.RunProgram

/-! ### compound constants: kinds, sets, tables (Model/ConstValue.lean) -/
namespace MechVerif.ConstValue
open MechVerif.Const

/-- A kind is read back as written: every scalar kind, matrix and set kinds over a scalar element
    kind, enum kinds, and table kinds whose columns are, recursively, such kinds — for any fuel that
    covers the nesting depth, whatever follows in the buffer. -/
theorem C06_kind_roundtrip (vk : VK) (h : readable vk) (fuel : Nat) (hf : costVK vk ≤ fuel) (rest : List Crc.Byte) :
    decodeVK fuel (encodeVK vk ++ rest) = some vk := decodeVK_encodeVK vk h fuel hf rest

/-- An element nested in a compound constant (its kind tag, then its scalar payload: integers of
    every width and sign, floats, strings, bools, rationals, complex numbers, the empty value) is read
    back as the same value of the same kind, and the buffer is left where the next element starts. -/
theorem C06_nested_value_roundtrip (v : NV) (h : v.wf) (rest : List Crc.Byte) :
    decodeNV (encodeNV v ++ rest) = some (v, rest) := decodeNV_encodeNV v h rest

/-- A set constant is read back with its element kind, its count and its elements in order. -/
theorem C06_set_const_roundtrip (s : SetC) (h : s.wf) (rest : List Crc.Byte) :
    decodeSet (encodeSet s ++ rest) = some s := decodeSet_encodeSet s h rest

/-- A table constant is read back with its kind, its shape and, for every column in order, the
    column's id, kind, elements and name. -/
theorem C06_table_const_roundtrip (t : TableC) (h : t.wf) (rest : List Crc.Byte) :
    decodeTable (encodeTable t ++ rest) = some t := decodeTable_encodeTable t h rest

/-- Not every kind the compiler writes is read back: the kind of a set of sets is cut short (the
    decoder steps over the inner kind by one byte), so such a constant does not load — it is an
    error, never another value (the region of finding C06-D1 / C07-D6). -/
theorem C06_nested_set_kind_not_read : decodeVK 8 (encodeVK (.set (.set (.simple 12) none) none)) = none :=
  nested_set_kind_misread

/-- `|a<u8> b<i128>| 1 -2 | 3 -4 |` -/
def exTable : TableC :=
  { kind := .table [([0x61#8], .simple 1), ([0x62#8], .simple 10)] 2, rows := 2, cols := 2,
    columns := [⟨7, .simple 1, 2, 1, [.scalar (.uint 1 1), .scalar (.uint 1 3)], [0x61#8]⟩,
                ⟨9, .simple 10, 2, 1, [.scalar (.sint 16 (-2)), .scalar (.sint 16 (-4))], [0x62#8]⟩] }

example : exTable.wf := by
  refine ⟨by simp [exTable, readable, fieldsReadable], by decide, by decide, rfl, ?_⟩
  intro c hc
  simp only [exTable, List.mem_cons, List.not_mem_nil, or_false] at hc
  rcases hc with h | h <;> subst h <;>
    exact ⟨by decide, by simp [readable], by decide, by decide, by decide, rfl,
      by intro v hv; simp only [List.mem_cons, List.not_mem_nil, or_false] at hv; rcases hv with h | h <;> subst h <;>
         (constructor <;> simp [NV.wf, CV.wf, CV.kind, tagOfEk]), by decide⟩

end MechVerif.ConstValue
