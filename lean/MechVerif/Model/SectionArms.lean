/-
C10, a tie to the source: what each arm of `section_element()` (src/interpreter/src/mechdown.rs) does, as written.
`tools/extract_section.py` classifies every arm by the calls it makes and reads the decisions of the fenced-code arm;
this file says which classification the document model (`Model/Doc.lean`) assumes, and `fenceStep` restates the
fenced-code arm, as extracted, in the model's terms.
-/
import MechVerif.Model.Doc
namespace MechVerif.SectionArms
open MechVerif.Doc

inductive ArmClass where
  | inert      -- hashes the element, or returns the empty value: no statement runs, no variable is touched
  | inline     -- evaluates the inline elements of its paragraphs (`paragraph_element`): values are stored as outputs only
  | code       -- runs `mech_code` in the interpreter it was given
  | fence      -- the fenced-code protocol
  | wrapper    -- recursion into the wrapped element (a floated element)
  | mika       -- a Mika section, in an interpreter of its own
deriving DecidableEq, Repr

/-- the decisions of the fenced-code arm: the disabled test comes first and returns; namespace 0 runs in the
    interpreter given (`mainHere`) with the recorded isolation flag; another namespace runs in the sub-interpreter
    found or created under that namespace (`subKeyed`) with its flag; under isolation an error of a statement becomes a
    value and the run of the fence ends there (`isolationYieldsValue`) -/
structure FenceArm where
  disabledFirst : Bool
  mainHere : Bool
  mainIsolates : Bool
  subKeyed : Bool
  subIsolates : Bool
  isolationYieldsValue : Bool
deriving DecidableEq, Repr

/-- the classification `Model/Doc.lean` assumes: only these elements are not inert -/
def expectedClass (variant : String) : ArmClass :=
  if variant = "MechCode" then .code
  else if variant = "FencedMechCode" then .fence
  else if variant = "Float" then .wrapper
  else if variant = "Mika" then .mika
  else if variant = "Paragraph" ∨ variant = "Comment" ∨ variant = "Table" ∨ variant = "FigureTable" then .inline
  else .inert

def armsOk (arms : List (String × ArmClass)) : Bool :=
  arms.all (fun a => a.2 == expectedClass a.1) &&
  ["MechCode", "FencedMechCode", "Paragraph", "Comment", "Table", "QuoteBlock", "List", "CodeBlock", "ThematicBreak", "Subtitle"].all
    (fun v => arms.any (fun a => a.1 == v))

def fenceOk (f : FenceArm) : Bool := f == ⟨true, true, false, true, true, true⟩

/-- the fenced-code arm as extracted, in the terms of the document model: `ns = none` is namespace 0 -/
def fenceStep {σ τ : Type} (f : FenceArm) (exec : σ → τ → Option σ) (init : σ) (d : DState σ)
    (disabled : Bool) (ns : Option String) (ss : List τ) : Option (DState σ) :=
  if f.disabledFirst && disabled then some d else
  match ns with
  | none =>
    if !f.mainHere then none else
    if f.mainIsolates then some { d with main := runIso exec d.main ss }
    else (runAll exec d.main ss).map (fun m => { d with main := m })
  | some n =>
    if !f.subKeyed || !f.isolationYieldsValue then none else
    if f.subIsolates then some { d with subs := setSub d.subs n (runIso exec (getSub init d.subs n) ss) }
    else (runAll exec (getSub init d.subs n) ss).map (fun m => { d with subs := setSub d.subs n m })

end MechVerif.SectionArms
