/-
C06 — Compiled bytecode computes what the interpreter computed.

Four models carry the statements: the constant codec (Model/Const.lean — `ConstElem::write_le` /
`from_le`), the codec of kinds and of set and table constants (Model/ConstValue.lean), `run_program` as a register machine
(Model/RunProgram.lean) and the compiler's context — one register per cell, one constant per compiled cell, the emitted
instructions — (Model/Compile.lean).  Which function name each generated function struct emits, which of its fields it
hands to the compiler and in which order is not modelled: the correspondence check runs it and compares.
-/
import MechVerif.Gen.CompileMacros
import MechVerif.Lemmas.Const
import MechVerif.Lemmas.ConstValue
import MechVerif.Model.RunProgram
import MechVerif.Lemmas.Compile
namespace MechVerif.RunProgram
open MechVerif.Const

/-! ### constants survive the trip through the file -/

/-- Every scalar constant (integers of every width and sign, floats as bit patterns, bools,
    strings, rationals, complex numbers) decodes to exactly the value that was encoded. -/
theorem C06_const_roundtrip (v : CV) (h : v.wf) (rest : List Crc.Byte) :
    decode v.kind (encode v ++ rest) = some (v, rest) := decode_encode v h rest

/-- A matrix constant decodes to the same shape and the same elements in the same order. -/
theorem C06_matrix_const_roundtrip (m : MatC) (h : m.wf) (rest : List Crc.Byte) :
    decodeMat m.kind (encodeMat m ++ rest) = some (m, rest) := decodeMat_encodeMat m h rest

/-! ### run_program -/

/-- An operation whose function id is not registered is an error: it never yields a value. -/
theorem C06_unregistered_is_error (consts : List String) (st : St) (arity : Option Nat) (dst : Nat) (args : List Nat)
    (rest : List Ins) : runIns consts st (.op arity false dst args :: rest) = .error (.unknownFunction arity) := by
  simp [runIns, step]

theorem runIns_append (consts : List String) : ∀ (pre : List Ins) (st : St) (post : List Ins),
    runIns consts st (pre ++ post) =
      (match runIns consts st pre with | .ok st' => runIns consts st' post | .error e => .error e) := by
  intro pre
  induction pre with
  | nil => intro st post; rfl
  | cons i pre ih =>
    intro st post
    simp only [List.cons_append, runIns]
    cases step consts st i with
    | error e => rfl
    | ok st' => exact ih st' post

/-- The result of a program is the value in the destination register of its last operation
    at the time it is built — not anything a function computes: the functions are
    constructed, never solved. -/
theorem C06_result_is_last_destination (regCount : Nat) (consts : List String) (symOut : Option String)
    (pre : List Ins) (arity : Option Nat) (dst : Nat) (args : List Nat) (st : St) (v : String)
    (hpre : runIns consts ⟨List.replicate regCount "empty", symOut.getD "empty"⟩ pre = .ok st)
    (hargs : ∀ a ∈ args, a < st.regs.length) (hdst : st.regs[dst]? = some v) :
    runProgram regCount consts symOut (pre ++ [.op arity true dst args]) = .ok v := by
  simp only [runProgram, runIns_append, hpre, runIns, step]
  have : (args.any fun a => decide (st.regs.length ≤ a)) = false := by
    rw [List.any_eq_false]
    intro a ha
    simpa using hargs a ha
  simp [this, hdst]

/-- `ConstLoad` copies the constant into the register and touches nothing else. -/
theorem C06_const_load (consts : List String) (st : St) (dst cid : Nat) (v : String)
    (hc : consts[cid]? = some v) (hd : dst < st.regs.length) :
    step consts st (.constLoad dst cid) = .ok ⟨st.regs.set dst v, st.out⟩ := by
  simp [step, hc, setReg, hd]

/-- The shape the compiler emits for a step whose output cell holds the constant `c`: load
    the cells, then the operation.  Running it returns that constant — the value the
    interpreter had computed into the cell. -/
theorem C06_loaded_output_is_result (regCount : Nat) (consts : List String) (dst cid : Nat) (v : String)
    (arity : Option Nat) (hc : consts[cid]? = some v) (hd : dst < regCount) :
    runProgram regCount consts none [.constLoad dst cid, .op arity true dst []] = .ok v := by
  simp [runProgram, runIns, step, hc, setReg, hd]

/-- A program without operations returns the empty value (or the constant of a symbol): the
    pinned commit returns it for programs whose last value no plan step produces (finding
    C06-D4). -/
theorem C06_no_operation_no_result (regCount : Nat) (consts : List String) (loads : List (Nat × Nat))
    (h : ∀ p ∈ loads, p.1 < regCount ∧ p.2 < consts.length) :
    runProgram regCount consts none (loads.map (fun p => Ins.constLoad p.1 p.2)) = .ok "empty" := by
  have : ∀ (loads : List (Nat × Nat)) (st : St), st.regs.length = regCount → st.out = "empty" →
      (∀ p ∈ loads, p.1 < regCount ∧ p.2 < consts.length) →
      ∃ st', runIns consts st (loads.map (fun p => Ins.constLoad p.1 p.2)) = .ok st' ∧ st'.out = "empty" := by
    intro loads
    induction loads with
    | nil => intro st _ ho _; exact ⟨st, rfl, ho⟩
    | cons p loads ih =>
      intro st hl ho hall
      obtain ⟨hp1, hp2⟩ := hall p (List.mem_cons_self ..)
      have hc : consts[p.2]? = some consts[p.2] := List.getElem?_eq_getElem hp2
      simp only [List.map_cons, runIns, step, hc, setReg, hl, hp1, if_true]
      exact ih ⟨st.regs.set p.1 consts[p.2], st.out⟩ (by simp [hl]) ho (fun q hq => hall q (List.mem_cons_of_mem _ hq))
  obtain ⟨st', h1, h2⟩ := this loads ⟨List.replicate regCount "empty", "empty"⟩ (by simp) rfl h
  simp [runProgram, h1, h2]

end MechVerif.RunProgram

/-! ### compound constants: kinds, sets, tables (Model/ConstValue.lean) -/
namespace MechVerif.ConstValue
open MechVerif.Const

/-- A kind is read back as written: every scalar kind, matrix and set kinds over a scalar element
    kind, enum kinds, and table kinds whose columns are, recursively, such kinds — for any fuel that
    covers the nesting depth, whatever follows in the buffer. -/
theorem C06_kind_roundtrip (vk : VK) (h : readable vk) (fuel : Nat) (hf : costVK vk ≤ fuel) (rest : List Crc.Byte) :
    decodeVK fuel (encodeVK vk ++ rest) = some vk := decodeVK_encodeVK vk h fuel hf rest

/-- An element nested in a compound constant (its kind tag, then its scalar payload: integers of
    every width and sign, floats, strings, bools, rationals, complex numbers, the empty value) is read
    back as the same value of the same kind, and the buffer is left where the next element starts. -/
theorem C06_nested_value_roundtrip (v : NV) (h : v.wf) (rest : List Crc.Byte) :
    decodeNV (encodeNV v ++ rest) = some (v, rest) := decodeNV_encodeNV v h rest

/-- A set constant is read back with its element kind, its count and its elements in order. -/
theorem C06_set_const_roundtrip (s : SetC) (h : s.wf) (rest : List Crc.Byte) :
    decodeSet (encodeSet s ++ rest) = some s := decodeSet_encodeSet s h rest

/-- A table constant is read back with its kind, its shape and, for every column in order, the
    column's id, kind, elements and name. -/
theorem C06_table_const_roundtrip (t : TableC) (h : t.wf) (rest : List Crc.Byte) :
    decodeTable (encodeTable t ++ rest) = some t := decodeTable_encodeTable t h rest

/-- Not every kind the compiler writes is read back: the kind of a set of sets is cut short (the
    decoder steps over the inner kind by one byte), so such a constant does not load — it is an
    error, never another value (the region of finding C06-D1 / C07-D6). -/
theorem C06_nested_set_kind_not_read : decodeVK 8 (encodeVK (.set (.set (.simple 12) none) none)) = none :=
  nested_set_kind_misread

/-- `|a<u8> b<i128>| 1 -2 | 3 -4 |` -/
def exTable : TableC :=
  { kind := .table [([0x61#8], .simple 1), ([0x62#8], .simple 10)] 2, rows := 2, cols := 2,
    columns := [⟨7, .simple 1, 2, 1, [.scalar (.uint 1 1), .scalar (.uint 1 3)], [0x61#8]⟩,
                ⟨9, .simple 10, 2, 1, [.scalar (.sint 16 (-2)), .scalar (.sint 16 (-4))], [0x62#8]⟩] }

example : exTable.wf := by
  refine ⟨by simp [exTable, readable, fieldsReadable], by decide, by decide, rfl, ?_⟩
  intro c hc
  simp only [exTable, List.mem_cons, List.not_mem_nil, or_false] at hc
  rcases hc with h | h <;> subst h <;>
    exact ⟨by decide, by simp [readable], by decide, by decide, by decide, rfl,
      by intro v hv; simp only [List.mem_cons, List.not_mem_nil, or_false] at hv; rcases hv with h | h <;> subst h <;>
         (constructor <;> simp [NV.wf, CV.wf, CV.kind, tagOfEk]), by decide⟩

end MechVerif.ConstValue

/-! ### the compiler: one register per cell, consecutive constant ids, one operation per step (Model/Compile.lean) -/
namespace MechVerif.Compile
open MechVerif.RunProgram

/-- After compiling any plan from the empty context the register map is a bijection between the cells the plan
    mentions and the registers `0 … nextReg-1`: two cells have the same register exactly when they are the same cell,
    a number is a register of some cell exactly when it is below `nextReg` (the header's register count), every cell
    of every step has a register, and compiling more steps never changes a register already given. -/
theorem C06_registers_by_cell (plan : List Step) :
    (∀ a b ra rb, regOf (compilePlan Ctx.empty plan).regMap a = some ra →
       regOf (compilePlan Ctx.empty plan).regMap b = some rb → (ra = rb ↔ a = b)) ∧
    (∀ r, r < (compilePlan Ctx.empty plan).nextReg ↔ ∃ a, regOf (compilePlan Ctx.empty plan).regMap a = some r) ∧
    (∀ s ∈ plan, ∀ a ∈ s.out :: s.args, ∃ r, regOf (compilePlan Ctx.empty plan).regMap a = some r) ∧
    (∀ (more : List Step) (a : Addr) (r : Reg), regOf (compilePlan Ctx.empty plan).regMap a = some r →
       regOf (compilePlan Ctx.empty (plan ++ more)).regMap a = some r) := by
  obtain ⟨hi, _⟩ := compilePlan_spec plan Ctx.empty Inv.empty
  refine ⟨?_, ?_, compilePlan_has_reg plan Ctx.empty Inv.empty, ?_⟩
  · intro a b ra rb ha hb
    constructor
    · intro h; subst h; exact hi.inj a b ra ha hb
    · intro h; subst h; rw [ha] at hb; exact Option.some.inj hb
  · intro r
    exact ⟨hi.surj r, fun ⟨a, ha⟩ => hi.lt a r ha⟩
  · intro more a r ha
    rw [compilePlan_append]
    exact (compilePlan_spec more _ hi).2.regOf ha

/-- What a step adds to the program, whatever was compiled before it: one `ConstLoad` for its output cell and one for
    each argument cell in order, each into the register of its cell, with constant ids counting up from the number of
    constants there were (the constants being those cells, in that order); then exactly one operation of the step's
    class and function id whose destination is the register of the output cell and whose sources are the registers of
    the argument cells in order. -/
theorem C06_compile_step_shape (pre : List Step) (s : Step) :
    ∃ (d : Reg) (rs : List Reg),
      rs.length = s.args.length ∧
      (s.out :: s.args).map (regOf (compilePlan Ctx.empty (pre ++ [s])).regMap) = (d :: rs).map some ∧
      (compilePlan Ctx.empty (pre ++ [s])).instrs =
        (compilePlan Ctx.empty pre).instrs ++
          (d :: rs).mapIdx (fun i r => Instr.constLoad r ((compilePlan Ctx.empty pre).consts.length + i)) ++
          [Instr.op s.cls s.fxnId d rs] ∧
      (compilePlan Ctx.empty (pre ++ [s])).consts = (compilePlan Ctx.empty pre).consts ++ (s.out :: s.args) := by
  obtain ⟨hi, _⟩ := compilePlan_spec pre Ctx.empty Inv.empty
  obtain ⟨d, rs, _, _, h3, h4, h5, _⟩ := compileStep_spec (compilePlan Ctx.empty pre) s hi
  have hc : compilePlan Ctx.empty (pre ++ [s]) = compileStep (compilePlan Ctx.empty pre) s := by
    rw [compilePlan_append]; rfl
  refine ⟨d, rs, ?_, by rw [hc]; exact h3, by rw [hc]; exact h4, by rw [hc]; exact h5⟩
  have := congrArg List.length h3
  simpa using this.symm

/-- Compiling a plan and running the result: when every function id of the plan is registered in the fresh
    interpreter, the compiled stream runs without an error in a register file of the header's size and returns the
    value the output cell of the last step held when the plan was compiled — the constant loaded last into the
    destination register of the last operation. -/
theorem C06_run_compiled_returns_last_out (registered : Nat → Bool) (store : Addr → String)
    (pre : List Step) (last : Step) (hreg : ∀ s ∈ pre ++ [last], registered s.fxnId = true) :
    run registered store (compilePlan Ctx.empty (pre ++ [last])) = .ok (store last.out) := by
  have hc : compilePlan Ctx.empty (pre ++ [last]) = compileStep (compilePlan Ctx.empty pre) last := by
    rw [compilePlan_append]; rfl
  obtain ⟨hi, _⟩ := compilePlan_spec pre Ctx.empty Inv.empty
  obtain ⟨d, rs, _, hx, _⟩ := compileStep_spec (compilePlan Ctx.empty pre) last hi
  have hfit : Fits ((compilePlan Ctx.empty (pre ++ [last])).consts.map store) (compilePlan Ctx.empty (pre ++ [last])).nextReg
      store (compileStep (compilePlan Ctx.empty pre) last) := by
    rw [hc]; exact ⟨Nat.le_refl _, [], by simp⟩
  have h0 : Runs ((compilePlan Ctx.empty (pre ++ [last])).consts.map store) registered
      ⟨List.replicate (compilePlan Ctx.empty (pre ++ [last])).nextReg "empty", "empty"⟩ Ctx.empty
      ⟨List.replicate (compilePlan Ctx.empty (pre ++ [last])).nextReg "empty", "empty"⟩ := by
    simp [Runs, Ctx.empty, runIns]
  obtain ⟨st1, r1, l1, n1⟩ := runs_compilePlan pre Ctx.empty _ Inv.empty h0
    (by intro a r h; simp [Ctx.empty, regOf] at h) (by simp) (Fits.of_ext hx hfit)
    (fun s hs => hreg s (List.mem_append_left _ hs))
  obtain ⟨st2, r2, _, _, o2⟩ := runs_compileStep (compilePlan Ctx.empty pre) last st1 hi r1 l1 n1 hfit
    (hreg last (by simp))
  unfold Runs at r2
  rw [← hc] at r2
  simp only [run, runProgram, Option.getD_none, r2, o2]

/-- And when the plan contains a step whose function id the fresh interpreter does not know, running the compiled
    stream is an error — the one naming the arity of the first such step — never a value. -/
theorem C06_run_compiled_unregistered_is_error (registered : Nat → Bool) (store : Addr → String)
    (pre : List Step) (s : Step) (rest : List Step) (hpre : ∀ q ∈ pre, registered q.fxnId = true)
    (hs : registered s.fxnId = false) :
    run registered store (compilePlan Ctx.empty (pre ++ s :: rest)) = .error (.unknownFunction s.cls.arity) := by
  have hc : compilePlan Ctx.empty (pre ++ s :: rest) = compilePlan (compileStep (compilePlan Ctx.empty pre) s) rest := by
    rw [compilePlan_append]; rfl
  obtain ⟨hi, _⟩ := compilePlan_spec pre Ctx.empty Inv.empty
  obtain ⟨d, rs, hi', hx, _⟩ := compileStep_spec (compilePlan Ctx.empty pre) s hi
  have hy := (compilePlan_spec rest _ hi').2
  have hfit : Fits ((compilePlan Ctx.empty (pre ++ s :: rest)).consts.map store) (compilePlan Ctx.empty (pre ++ s :: rest)).nextReg
      store (compileStep (compilePlan Ctx.empty pre) s) := by
    apply Fits.of_ext hy
    rw [hc]; exact ⟨Nat.le_refl _, [], by simp⟩
  have h0 : Runs ((compilePlan Ctx.empty (pre ++ s :: rest)).consts.map store) registered
      ⟨List.replicate (compilePlan Ctx.empty (pre ++ s :: rest)).nextReg "empty", "empty"⟩ Ctx.empty
      ⟨List.replicate (compilePlan Ctx.empty (pre ++ s :: rest)).nextReg "empty", "empty"⟩ := by
    simp [Runs, Ctx.empty, runIns]
  obtain ⟨st1, r1, l1, n1⟩ := runs_compilePlan pre Ctx.empty _ Inv.empty h0
    (by intro a r h; simp [Ctx.empty, regOf] at h) (by simp) (Fits.of_ext hx hfit) hpre
  obtain ⟨i, hi2⟩ := hy.instrs
  have := run_compileStep_unregistered (compilePlan Ctx.empty pre) s st1 hi r1 l1 n1 hfit hs (i.map (toIns registered))
  rw [← List.map_append, ← hi2, ← hc] at this
  simp only [run, runProgram, Option.getD_none, this]

/-! `b := a + a; c := b * a` as the interpreter plans it: the sum into a temporary (cell 11) over the cell of `a`
    (cell 10) twice, the definition of `b` over that temporary (with its name and mutability cells 12 and 13), the
    product into a new temporary (cell 14) over the cells of `b` and `a`. -/
def exPlan : List Step :=
  [⟨.bin, 501, 11, [10, 10]⟩, ⟨.bin, 502, 11, [12, 13]⟩, ⟨.bin, 503, 14, [11, 10]⟩]

def exStore : Addr → String
  | 10 => "f64:3" | 11 => "f64:6" | 12 => "string:b" | 13 => "bool:false" | 14 => "f64:18" | _ => "empty"

/-- five cells, five registers; the cell of `a` keeps register 1 and the temporary register 0 wherever they recur -/
example : (compilePlan Ctx.empty exPlan).regMap = [(11, 0), (10, 1), (12, 2), (13, 3), (14, 4)] := by decide
example : (compilePlan Ctx.empty exPlan).nextReg = 5 := by decide
example : (compilePlan Ctx.empty exPlan).consts = [11, 10, 10, 11, 12, 13, 14, 11, 10] := by decide
example : (compilePlan Ctx.empty exPlan).instrs =
    [.constLoad 0 0, .constLoad 1 1, .constLoad 1 2, .op .bin 501 0 [1, 1],
     .constLoad 0 3, .constLoad 2 4, .constLoad 3 5, .op .bin 502 0 [2, 3],
     .constLoad 4 6, .constLoad 0 7, .constLoad 1 8, .op .bin 503 4 [0, 1]] := by decide
/-- loaded and run with every function registered, the program returns the product; with the last one unknown, an error -/
example : run (fun _ => true) exStore (compilePlan Ctx.empty exPlan) = .ok "f64:18" := by rfl
example : run (fun f => f != 503) exStore (compilePlan Ctx.empty exPlan) = .error (.unknownFunction (some 2)) := by rfl
example : ∀ s ∈ exPlan, s.wf := by
  intro s hs
  simp only [exPlan, List.mem_cons, List.not_mem_nil, or_false] at hs
  rcases hs with rfl | rfl | rfl <;> rfl

end MechVerif.Compile

/-! ### the compile macros as they are written

`Gen/CompileMacros.lean` is regenerated from src/core/src/stdlib.rs and src/core/src/program/compiler/context.rs on every
run (`tools/extract_compile.py`); `C06_compile_macros_as_written_ok` is its `decide` proof. -/
namespace MechVerif.CompileIR
open MechVerif.Compile

theorem compileRegs_cons (c : Ctx) (a : Addr) (rest : List Addr) :
    compileRegs c (a :: rest) =
      ((compileRegs (compileRegister c a).1 rest).1, (compileRegister c a).2 :: (compileRegs (compileRegister c a).1 rest).2) := rfl

theorem compileRegs_length (l : List Addr) : ∀ c : Ctx, (compileRegs c l).2.length = l.length := by
  induction l with
  | nil => intro c; rfl
  | cons a rest ih => intro c; rw [compileRegs_cons]; simp [ih]

/-- **Every compile macro as written is `compileStep`**: for a step whose argument count fits its class, running the
    extracted macro — the operands allocated and loaded in the order written, the operation emitted on the registers in
    the positions written — gives the context `Model/Compile.compileStep` gives.  Hence `C06_registers_by_cell`,
    `C06_compile_step_shape` and `C06_run_compiled_returns_last_out` hold for the macros as written. -/
theorem C06_macro_as_written_is_compileStep (c : Ctx) (s : Step) (hwf : s.wf) :
    runMacro (expectedMacro s.cls) c s = compileStep c s := by
  obtain ⟨cls, f, out, args⟩ := s
  have hl := compileRegs_length args (compileRegister c out).1
  cases cls <;> simp only [Step.wf, OpClass.arity] at hwf
  case var =>
    simp only [runMacro, expectedMacro, compileStep, operandAddrs, List.flatMap_cons, List.flatMap_nil, List.append_nil,
      List.singleton_append, compileRegs_cons, List.drop_one, List.tail_cons, List.getD_cons_zero, if_true]
  all_goals (
    rcases args with _ | ⟨a1, _ | ⟨a2, _ | ⟨a3, _ | ⟨a4, _ | ⟨a5, r⟩⟩⟩⟩⟩ <;>
    simp only [List.length_cons, List.length_nil] at hwf <;>
    first
      | omega
      | rfl)

/-- the macros extracted from the source are the expected ones, class by class -/
theorem C06_macros_as_written_are_expected :
    Gen.CompileMacros.macros = [expectedMacro .null, expectedMacro .un, expectedMacro .bin, expectedMacro .tern,
      expectedMacro .quad, expectedMacro .var] := by
  have h := Gen.CompileMacros.C06_compile_macros_as_written_ok.1
  simpa [macrosOk] using h

/-! non-vacuity: a macro that allocates an argument before the output, or hands the sources over in another order, is refused -/
example : macrosOk [expectedMacro .null, expectedMacro .un, ⟨.bin, [.arg 1, .out, .arg 2], 1, [0, 2], false⟩,
    expectedMacro .tern, expectedMacro .quad, expectedMacro .var] = false := by decide
example : macrosOk [expectedMacro .null, expectedMacro .un, ⟨.bin, [.out, .arg 1, .arg 2], 0, [2, 1], false⟩,
    expectedMacro .tern, expectedMacro .quad, expectedMacro .var] = false := by decide

end MechVerif.CompileIR
