/-
Reference semantics for C11: the block matrix.  Element (i, j) of `[r1; r2; …]` is the
element of the block that covers (i, j) when the entries of each row are placed side
by side and the rows are stacked.
-/
import MechVerif.Model.Concat
namespace MechVerif.Concat
open MechVerif.Mat

/-- blocks side by side -/
def hGet {α : Type} : List (Mat α) → Nat → Nat → Option α
  | [], _, _ => none
  | b :: bs, i, j => if j < b.cols then b.get? i j else hGet bs i (j - b.cols)

/-- blocks stacked -/
def vGet {α : Type} : List (Mat α) → Nat → Nat → Option α
  | [], _, _ => none
  | b :: bs, i, j => if i < b.rows then b.get? i j else vGet bs (i - b.rows) j

def rowHeight {α : Type} : List (Mat α) → Nat
  | [] => 0
  | b :: _ => b.rows

/-- rows of blocks -/
def litGet {α : Type} : List (List (Mat α)) → Nat → Nat → Option α
  | [], _, _ => none
  | r :: rs, i, j => if i < rowHeight r then hGet r i j else litGet rs (i - rowHeight r) j

def sumCols {α : Type} (bs : List (Mat α)) : Nat := (bs.map (·.cols)).sum
def sumRows {α : Type} (bs : List (Mat α)) : Nat := (bs.map (·.rows)).sum

end MechVerif.Concat
