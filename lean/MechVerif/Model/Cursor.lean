/-
The parser's cursor (src/syntax/src/lib.rs `ParseString`): a position in the list of
graphemes and the (row, col) location of that position, advanced by `consume_one` /
`consume_tag`; the end-of-line skipping loops of src/syntax/src/parser.rs; and the decision
logic of `parser::parse`.
A grapheme is abstracted to what the bookkeeping looks at: whether it is a line break and
its display width (0 for control characters, else 1).  `init_source` appends one "\n".
-/
namespace MechVerif.Cursor

structure G where
  nl : Bool
  w : Nat
  text : String := ""
deriving DecidableEq, Repr

structure PS where
  cursor : Nat
  row : Nat
  col : Nat
deriving DecidableEq, Repr

def start : PS := ⟨0, 1, 1⟩

/-- `consume_one`: a line break moves to the next row unless it is the last grapheme -/
def consumeOne (gs : List G) (p : PS) : Option PS :=
  match gs[p.cursor]? with
  | none => none
  | some g =>
    if g.nl then
      if p.cursor + 1 = gs.length then some ⟨p.cursor + 1, p.row, p.col⟩ else some ⟨p.cursor + 1, p.row + 1, 1⟩
    else some ⟨p.cursor + 1, p.row, p.col + g.w⟩

/-- the location of position `c`, computed from the start -/
def locOf (gs : List G) : Nat → PS
  | 0 => start
  | c + 1 => (consumeOne gs (locOf gs c)).getD (locOf gs c)

/-- `consume_tag`: all graphemes of the tag must match; then the cursor moves over them -/
def consumeTag (gs : List G) (p : PS) (tag : List String) : Option PS :=
  if tag.isEmpty then some p else
  if gs.length - p.cursor < tag.length then none else
  if (List.range tag.length).all (fun i => ((gs[p.cursor + i]?).map (·.text)) == tag[i]?) then
    tag.foldl (fun acc _ => acc.bind (consumeOne gs)) (some p)
  else none

/-- `skip_till_eol`: consume graphemes until a line break is next (or the input ends) -/
def skipTillEol (gs : List G) : Nat → PS → PS
  | 0, p => p
  | fuel + 1, p =>
    match gs[p.cursor]? with
    | none => p
    | some g => if g.nl then p else (match consumeOne gs p with | some p' => skipTillEol gs fuel p' | none => p)

/-- `new_line`: one line-break grapheme -/
def newLine (gs : List G) (p : PS) : Option PS :=
  match gs[p.cursor]? with
  | some g => if g.nl then consumeOne gs p else none
  | none => none

/-- `skip_past_eol` -/
def skipPastEol (gs : List G) (p : PS) : Option PS := newLine gs (skipTillEol gs gs.length p)

/-! `parser::parse`: the decision at the end -/

inductive Outcome where
  | tree          -- Ok(tree)
  | report (n : Nat)   -- Err(report with n entries)
deriving DecidableEq, Repr

/-- `hasTree`: parse_mech returned a tree; `logged`: entries in the error log (including the
    failure's own entry); `remaining`: graphemes left unparsed -/
def decide (hasTree : Bool) (logged remaining : Nat) : Outcome :=
  let total := logged + (if remaining ≠ 0 then 1 else 0)
  if total = 0 ∧ hasTree then .tree else .report total

/-! the statement-level recovery loop as a transition system: each turn a sub-parser either
    succeeds having consumed up to some position, or fails and the recovery skip moves to
    some position; the loop stops when nothing is left or no progress is made -/

def recoveryLoop (len : Nat) (next : Nat → Nat) : Nat → Nat → Nat
  | 0, c => c
  | fuel + 1, c => if c ≥ len then c else let c' := next c; if c' ≤ c then c else recoveryLoop len next fuel c'

end MechVerif.Cursor
