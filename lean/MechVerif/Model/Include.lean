/-
Model of the Mechdown include expander of `src/mechfs.rs`
(`read_mech_source_file` → `expand_mechdown_includes` →
`expand_mechdown_includes_recursive` / `expand_mechdown_include_tokens`).

Text is `List Char`.  Everything the real code does on bytes happens on ASCII
prefixes (spaces, backticks, tildes), so char positions and byte positions agree
where they are used.  A file system is a finite list of (path, contents); a path
is the list of its components below the model root.  `resolve` models
`parent.join(raw).canonicalize()` on a tree without symlinks.
-/
namespace MechVerif.Include

abbrev Text := List Char
abbrev Path := List Text

structure FS where
  files : List (Path × Text)

def FS.read (fs : FS) (p : Path) : Option Text :=
  (fs.files.find? (fun e => e.1 == p)).map (·.2)

def FS.keys (fs : FS) : List Path := fs.files.map (·.1)

def FS.isFile (fs : FS) (p : Path) : Bool := (fs.read p).isSome

/-- a directory exists iff it is the root or a proper prefix of some file path -/
def FS.isDir (fs : FS) (d : Path) : Bool :=
  d.isEmpty || fs.files.any (fun e => decide (d.length < e.1.length) && e.1.take d.length == d)

/-- `char::is_whitespace` (Unicode White_Space), used by `str::trim` -/
def isWs (c : Char) : Bool :=
  let n := c.toNat
  (9 ≤ n && n ≤ 13) || n == 32 || n == 0x85 || n == 0xA0 || n == 0x1680 ||
  (0x2000 ≤ n && n ≤ 0x200A) || n == 0x2028 || n == 0x2029 || n == 0x202F ||
  n == 0x205F || n == 0x3000

def trimWs (t : Text) : Text :=
  ((t.dropWhile isWs).reverse.dropWhile isWs).reverse

/-- `str::split_inclusive('\n')` -/
def splitLinesAux : Text → Text → List Text
  | [], acc => if acc.isEmpty then [] else [acc.reverse]
  | c :: cs, acc =>
    if c == '\n' then (c :: acc).reverse :: splitLinesAux cs []
    else splitLinesAux cs (c :: acc)

def splitLines (t : Text) : List Text := splitLinesAux t []

/-- `code_fence_delimiter`: (marker, run length, index after the run) -/
def codeFenceDelimiter (line : Text) : Option (Char × Nat × Nat) :=
  let i := Nat.min (line.takeWhile (· == ' ')).length 4
  if i > 3 || i ≥ line.length then none else
  match line.drop i with
  | [] => none
  | marker :: rest =>
    if marker != '`' && marker != '~' then none else
    let count := 1 + (rest.takeWhile (· == marker)).length
    if count < 3 then none else some (marker, count, i + count)

/-- `is_code_fence_close` -/
def isFenceClose (line : Text) (marker : Char) (minLen : Nat) : Bool :=
  match codeFenceDelimiter line with
  | none => false
  | some (m, count, after) =>
    if m != marker || count < minLen then false
    else (line.drop after).all (fun c => c == ' ' || c == '\t' || c == '\r' || c == '\n')

/-- `line.strip_suffix('\n')` → (body, newline) -/
def stripNl (line : Text) : Text × Text :=
  match line.getLast? with
  | some '\n' => (line.dropLast, ['\n'])
  | _ => (line, [])

def endsWith (t suffix : Text) : Bool :=
  decide (suffix.length ≤ t.length) && t.drop (t.length - suffix.length) == suffix

/-- `standalone_braced_content` followed by `looks_like_mech_include`:
    the trimmed include name if the line (without newline) is a stand-alone include -/
def includeTarget (body : Text) : Option Text :=
  let t := trimWs body
  if t.head? == some '{' && t.getLast? == some '}' && decide (2 ≤ t.length) then
    let inner := (t.drop 1).dropLast
    let raw := trimWs inner
    if endsWith raw ".mec".toList then some raw else none
  else none

def splitSlashAux : Text → Text → List Text
  | [], acc => [acc.reverse]
  | c :: cs, acc => if c == '/' then acc.reverse :: splitSlashAux cs [] else splitSlashAux cs (c :: acc)

def splitSlash (t : Text) : List Text := splitSlashAux t []

/-- walk the components of a relative path from directory `cur` -/
def walk (fs : FS) : Path → List Text → Option Path
  | _, [] => none
  | cur, c :: rest =>
    if c.isEmpty || c == ['.'] then
      (if rest.isEmpty then none else walk fs cur rest)
    else if c == ['.', '.'] then
      (if cur.isEmpty || rest.isEmpty then none else walk fs cur.dropLast rest)
    else
      let nxt := cur ++ [c]
      if rest.isEmpty then (if fs.isFile nxt then some nxt else none)
      else if fs.isDir nxt then walk fs nxt rest else none

/-- `parent.join(raw).canonicalize()`; absolute names are outside the model tree -/
def resolve (fs : FS) (dir : Path) (raw : Text) : Option Path :=
  if raw.head? == some '/' then none else walk fs dir (splitSlash raw)

inductive Err where
  | circular
  | missing (name : Text)
  | fuel
deriving DecidableEq, Repr

abbrev Fence := Option (Char × Nat)

/-- the line loop of `expand_mechdown_includes_recursive` fused with
    `expand_mechdown_include_tokens` (the outside-fence buffer is processed line by
    line in order, so buffering does not change the result) -/
def expandLines (rec : Path → Except Err Text) (fs : FS) (dir : Path) :
    Fence → List Text → Except Err Text
  | _, [] => .ok []
  | some (m, k), l :: ls =>
    match expandLines rec fs dir (if isFenceClose l m k then none else some (m, k)) ls with
    | .error e => .error e
    | .ok r => .ok (l ++ r)
  | none, l :: ls =>
    match codeFenceDelimiter l with
    | some (m, k, _) =>
      (match expandLines rec fs dir (some (m, k)) ls with
       | .error e => .error e
       | .ok r => .ok (l ++ r))
    | none =>
      match includeTarget (stripNl l).1 with
      | none =>
        (match expandLines rec fs dir none ls with
         | .error e => .error e
         | .ok r => .ok (l ++ r))
      | some raw =>
        match resolve fs dir raw with
        | none => .error (.missing raw)
        | some q =>
          match rec q with
          | .error e => .error e
          | .ok s =>
            match expandLines rec fs dir none ls with
            | .error e => .error e
            | .ok r => .ok (s ++ (stripNl l).2 ++ r)

/-- `expand_mechdown_includes_recursive`; `active` is the `active_set` -/
def expandFile (fs : FS) : Nat → List Path → Path → Except Err Text
  | 0, _, _ => .error .fuel
  | n + 1, active, p =>
    if active.contains p then .error .circular else
    match fs.read p with
    | none => .error (.missing [])
    | some src => expandLines (expandFile fs n (p :: active)) fs p.dropLast none (splitLines src)

/-- `read_mech_source_file` on a `.mec` path given relative to the model root -/
def load (fs : FS) (root : Text) : Except Err Text :=
  match resolve fs [] root with
  | none => .error (.missing root)
  | some p => expandFile fs (fs.files.length + 1) [] p

/-- resolved targets of the stand-alone include lines outside fences -/
def targetsLines (fs : FS) (dir : Path) : Fence → List Text → List Path
  | _, [] => []
  | some (m, k), l :: ls =>
    targetsLines fs dir (if isFenceClose l m k then none else some (m, k)) ls
  | none, l :: ls =>
    match codeFenceDelimiter l with
    | some (m, k, _) => targetsLines fs dir (some (m, k)) ls
    | none =>
      match includeTarget (stripNl l).1 with
      | none => targetsLines fs dir none ls
      | some raw =>
        match resolve fs dir raw with
        | none => targetsLines fs dir none ls
        | some q => q :: targetsLines fs dir none ls

/-- include names outside fences that do not resolve -/
def danglingLines (fs : FS) (dir : Path) : Fence → List Text → List Text
  | _, [] => []
  | some (m, k), l :: ls =>
    danglingLines fs dir (if isFenceClose l m k then none else some (m, k)) ls
  | none, l :: ls =>
    match codeFenceDelimiter l with
    | some (m, k, _) => danglingLines fs dir (some (m, k)) ls
    | none =>
      match includeTarget (stripNl l).1 with
      | none => danglingLines fs dir none ls
      | some raw =>
        match resolve fs dir raw with
        | none => raw :: danglingLines fs dir none ls
        | some _ => danglingLines fs dir none ls

def targets (fs : FS) (p : Path) : List Path :=
  match fs.read p with
  | none => []
  | some src => targetsLines fs p.dropLast none (splitLines src)

end MechVerif.Include
