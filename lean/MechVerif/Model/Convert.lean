/-
Kind annotations: the `ConvertKind` arms of src/interpreter/src/stdlib/convert/
(scalar.rs, mat_to_mat.rs, scalar_to_mat.rs) as enumerated at the pinned commit:
every ordered pair of the twelve integer/float kinds (Rust `as` casts), every numeric
kind → string, f64 ↔ r64, bool → bool/string; everything else is UnsupportedConversion.
-/
import MechVerif.Model.Scalar
import MechVerif.Model.Mat
import MechVerif.Model.Float
namespace MechVerif.Convert
open MechVerif.Num MechVerif.Scalar MechVerif.Mat MechVerif.FloatX

/-- two's-complement wrap of an integer into the kind (`as` between integer types) -/
def wrapTo (k : IKind) (v : Int) : Int :=
  let span : Int := 2 ^ k.bits
  (v - k.lo) % span + k.lo

/-- the parts of float conversion the model does not compute exactly -/
structure ConvImpl where
  f64ToF32 : UInt64 → UInt32              -- rounding to binary32 (hardware)
  f64ToString : UInt64 → String           -- Rust `Display` for f64
  f32ToString : UInt32 → String
  ratToF64 : Int → Int → UInt64           -- `n as f64 / d as f64`
  f64ToRat : UInt64 → Option (Int × Int)  -- `Ratio::from_float`, reduced

def convertScalar (ci : ConvImpl) (k1 k2 : Kind) (v : Val) : Except Err Val :=
  match k1, k2, v with
  | .int _, .int b, .int x => .ok (.int (wrapTo b x))
  | .int _, .f64, .int x => .ok (.f64 (intToF64 x))
  | .int _, .f32, .int x => .ok (.f32 (intToF32 x))
  | .f64, .int b, .f64 x => .ok (.int (floatToInt b.lo b.hi (decode64 x)))
  | .f32, .int b, .f32 x => .ok (.int (floatToInt b.lo b.hi (decode32 x)))
  | .f64, .f64, .f64 x => .ok (.f64 x)
  | .f32, .f32, .f32 x => .ok (.f32 x)
  | .f32, .f64, .f32 x => .ok (.f64 (f32ToF64 x))
  | .f64, .f32, .f64 x => .ok (.f32 (ci.f64ToF32 x))
  | .int _, .string, .int x => .ok (.str (toString x))
  | .f64, .string, .f64 x => .ok (.str (ci.f64ToString x))
  | .f32, .string, .f32 x => .ok (.str (ci.f32ToString x))
  | .f64, .r64, .f64 x => (match ci.f64ToRat x with | some (n, d) => .ok (.rat n d) | none => .error .other)
  | .r64, .f64, .rat n d => .ok (.f64 (ci.ratToF64 n d))
  | .r64, .r64, .rat n d => .ok (.rat n d)
  | .r64, .string, .rat n d => .ok (.str (toString n ++ "/" ++ toString d))
  | .bool, .bool, .bool b => .ok (.bool b)
  | .bool, .string, .bool b => .ok (.str (if b then "true" else "false"))
  | .string, .string, .str s => .ok (.str s)
  | .c64, .c64, .cplx a b => .ok (.cplx a b)
  | _, _, _ => .error .kind

/-- elementwise conversion keeps the shape -/
def convertMat (ci : ConvImpl) (k1 k2 : Kind) (m : Mat Val) : Except Err (Mat Val) :=
  mapE (tabulateM (fun i => bindE (getE m.data i) (convertScalar ci k1 k2)) 0 (m.rows * m.cols))
    (fun d => ⟨m.rows, m.cols, d⟩)

/-- C12-D2: at the pinned commit the identity annotation on a rational or complex scalar is
    rejected (`x := 1/2; y<r64> := x`) -/
def scalarIdentityGap (k1 k2 : Kind) : Bool := (k1 == .r64 && k2 == .r64) || (k1 == .c64 && k2 == .c64)

/-- scalar annotation as implemented -/
def convertScalarImpl (ci : ConvImpl) (k1 k2 : Kind) (v : Val) : Except Err Val :=
  if scalarIdentityGap k1 k2 then .error .kind else convertScalar ci k1 k2 v

/-- C12-D1: the matrix converter has its own kind table: it additionally accepts
    bool → number (false ↦ 0, true ↦ 1) and f32 → r64, and lacks r64 → f64 -/
def matExtra (k1 k2 : Kind) : Bool :=
  (k1 == .bool && (match k2 with | .int _ | .f32 | .f64 => true | _ => false)) || (k1 == .f32 && k2 == .r64)

def matMissing (k1 k2 : Kind) : Bool := k1 == .r64 && k2 == .f64

def convertElemImpl (ci : ConvImpl) (k1 k2 : Kind) (v : Val) : Except Err Val :=
  match k1, k2, v with
  | .bool, .int _, .bool b => .ok (.int (if b then 1 else 0))
  | .bool, .f64, .bool b => .ok (.f64 (intToF64 (if b then 1 else 0)))
  | .bool, .f32, .bool b => .ok (.f32 (intToF32 (if b then 1 else 0)))
  | .f32, .r64, .f32 x => (match ci.f64ToRat (f32ToF64 x) with | some (n, d) => .ok (.rat n d) | none => .error .other)
  | _, _, _ => if matMissing k1 k2 then .error .kind else convertScalar ci k1 k2 v

/-- matrix annotation as implemented -/
def convertMatImpl (ci : ConvImpl) (k1 k2 : Kind) (m : Mat Val) : Except Err (Mat Val) :=
  mapE (tabulateM (fun i => bindE (getE m.data i) (convertElemImpl ci k1 k2)) 0 (m.rows * m.cols))
    (fun d => ⟨m.rows, m.cols, d⟩)

/-- `y<[K]:r,c> := m`: same elements in the same (column-major) order, new shape -/
def reshape {α : Type} (m : Mat α) (r c : Nat) : Except Err (Mat α) :=
  if r * c = m.rows * m.cols then .ok ⟨r, c, m.data⟩ else .error .kind

/-- scalar to matrix: fill -/
def fill {α : Type} (x : α) (r c : Nat) : Mat α := ⟨r, c, List.replicate (r * c) x⟩

/-- matrix to set: the distinct elements in first-occurrence order -/
def dedup {α : Type} [DecidableEq α] : List α → List α
  | [] => []
  | x :: xs => let r := dedup xs; if x ∈ r then r else x :: r

def toSetList {α : Type} [DecidableEq α] (m : Mat α) : List α := (dedup m.data.reverse).reverse

end MechVerif.Convert
