/-
Range construction of `machines/range/src/{exclusive,inclusive,exclusive_increment,
inclusive_increment}.rs`: size computation in the operand kind (or in f64 for the
increment forms), then the fill loop `out[i] = cur; cur = cur + step`, which
performs the addition after the last element too.
-/
import MechVerif.Model.Num
namespace MechVerif.Range
open MechVerif.Num

/-- the fill loop of `Range*Scalar::solve` for an integer kind -/
def fillInt (k : IKind) (step : Int) : Nat → Int → Except Err (List Int)
  | 0, _ => .ok []
  | n + 1, cur =>
    if k.inR (cur + step) then
      match fillInt k step n (cur + step) with
      | .ok xs => .ok (cur :: xs)
      | .error e => .error e
    else .error .overflow

/-- `from..to` -/
def rangeExclInt (k : IKind) (a b : Int) : Except Err (List Int) :=
  if !k.inR (b - a) then .error .overflow else
  let d := b - a
  if d < 0 then .error .empty else
  if d == 0 then .error .empty else fillInt k 1 d.toNat a

/-- `from..=to` -/
def rangeInclInt (k : IKind) (a b : Int) : Except Err (List Int) :=
  if !k.inR (b - a) then .error .overflow else
  if !k.inR (b - a + 1) then .error .overflow else
  let d := b - a + 1
  if d < 0 then .error .empty else
  if d == 0 then .error .empty else fillInt k 1 d.toNat a

/-- size of `from..step..to` as the code computes it, given the f64 quotient
    rounding function `q diff step` (= `(diff/step).ceil()` resp. `.floor()` as usize) -/
def incSize (incl : Bool) (q : Int → Int → Nat) (diff s : Int) : Except Err Nat :=
  if s = 0 then .error .empty else
  if (0 < diff ∧ 0 < s) ∨ (diff < 0 ∧ s < 0) then .ok (if incl then q diff s + 1 else q diff s)
  else if incl then (if diff = 0 then .ok 1 else .error .empty) else .ok 0

/-- `from..step..to` / `from..step..=to` -/
def rangeIncInt (k : IKind) (incl : Bool) (q : Int → Int → Nat) (a s b : Int) : Except Err (List Int) :=
  if k.inR (b - a) = false then .error .overflow else
  if b - a < 0 then .error .empty else
  match incSize incl q (b - a) s with
  | .error e => .error e
  | .ok 0 => .error .empty
  | .ok n => fillInt k s n a

/-- exact quotient roundings (what the f64 computation yields for |values| < 2^52) -/
def qCeil (diff s : Int) : Nat := (Int.toNat ((diff + s - 1) / s))
def qFloor (diff s : Int) : Nat := (Int.toNat (diff / s))

/-! ### float kinds: the same control flow over a parameter structure -/

structure FOps (F : Type) where
  add : F → F → F
  sub : F → F → F
  ltZero : F → Bool
  one : F
  toUsize : F → Nat                    -- `v as usize`
  incSize : Bool → F → F → F → Except Err Nat   -- the f64 block of the increment forms

def fillF {F : Type} (o : FOps F) (step : F) : Nat → F → List F
  | 0, _ => []
  | n + 1, cur => cur :: fillF o step n (o.add cur step)

def rangeExclF {F : Type} (o : FOps F) (a b : F) : Except Err (List F) :=
  let d := o.sub b a
  if o.ltZero d then .error .empty else
  match o.toUsize d with
  | 0 => .error .empty
  | n => .ok (fillF o o.one n a)

def rangeInclF {F : Type} (o : FOps F) (a b : F) : Except Err (List F) :=
  let d := o.add (o.sub b a) o.one
  if o.ltZero d then .error .empty else
  match o.toUsize d with
  | 0 => .error .empty
  | n => .ok (fillF o o.one n a)

def rangeIncF {F : Type} (o : FOps F) (incl : Bool) (a s b : F) : Except Err (List F) :=
  if o.ltZero (o.sub b a) then .error .empty else
  match o.incSize incl a s b with
  | .error e => .error e
  | .ok 0 => .error .empty
  | .ok n => .ok (fillF o s n a)

end MechVerif.Range
