/-
Tables and the six joins of src/interpreter/src/stdlib/table_ops.rs
(`TableJoinFxn::build_joined_table`), and row selection
(src/interpreter/src/stdlib/access/table.rs).

A table is its column headers and its rows; a cell is a scalar or the empty value.
Columns are identified by name (the column id is the hash of the name).  The join is
written as the code runs it: one pass over the left rows that appends to `out_rows` and
records which right rows were matched, then (right/full outer) one pass over the right
rows that were never matched.  `rhs_matched[j] = true` for every j in `matched_rhs` is
written as one `zipWith` over the flags.
-/
import MechVerif.Model.SetElem
namespace MechVerif.Tbl
open MechVerif.SetM MechVerif.Num

abbrev Cell := Option Atom          -- `none` is `Value::Empty`
abbrev Row := List Cell

structure Col where
  name : String
  kind : AKind
  opt : Bool := false               -- `u8?`: the column may hold the empty value
deriving DecidableEq, Repr

structure Table where
  cols : List Col
  rows : List Row
deriving Repr

inductive JoinMode where
  | inner | left | right | full | semi | anti
deriving DecidableEq, Repr

/-- `Option<Value> == Option<Value>` in `rows_match` -/
def cellEq : Cell → Cell → Bool
  | some a, some b => a.eq b
  | none, none => true
  | _, _ => false

/-- positions (left, right) of the commonly named columns, in left order -/
def commonCols (L R : List Col) : List (Nat × Nat) :=
  (L.zipIdx).filterMap (fun ci => (R.findIdx? (fun r => r.name == ci.1.name)).map (fun j => (ci.2, j)))

/-- right positions that are not join keys, in right order -/
def rhsOnly (L R : List Col) : List Nat :=
  (List.range R.length).filter (fun j => !(commonCols L R).any (fun p => p.2 == j))

def cellAt (r : Row) (i : Nat) : Cell := (r[i]?).getD none

def rowsMatch (common : List (Nat × Nat)) (a b : Row) : Bool :=
  common.all (fun p => cellEq (cellAt a p.1) (cellAt b p.2))

/-- `merge_rows(.., rhs_empty = false)` -/
def mergeRow (ro : List Nat) (a b : Row) : Row := a ++ ro.map (cellAt b)
/-- `merge_rows(.., rhs_row = 0, rhs_empty = true)` -/
def padRight (ro : List Nat) (a : Row) : Row := a ++ ro.map (fun _ => none)
/-- the row built for an unmatched right row -/
def padLeft (nL : Nat) (common : List (Nat × Nat)) (ro : List Nat) (b : Row) : Row :=
  (List.range nL).map (fun i => match common.find? (fun p => p.1 == i) with
    | some p => cellAt b p.2
    | none => none) ++ ro.map (cellAt b)

structure St where
  out : List Row
  matched : List Bool

/-- the body of `for lhs_row in 1..=lhs.rows` -/
def stepLhs (mode : JoinMode) (common : List (Nat × Nat)) (ro : List Nat) (B : List Row) (st : St) (a : Row) : St :=
  let ms := B.filter (rowsMatch common a)                      -- matched_rhs
  let mark := List.zipWith (fun m b => m || rowsMatch common a b) st.matched B
  match mode with
  | .inner => ⟨st.out ++ ms.map (mergeRow ro a), mark⟩
  | .left | .full =>
    if ms.isEmpty then ⟨st.out ++ [padRight ro a], st.matched⟩ else ⟨st.out ++ ms.map (mergeRow ro a), mark⟩
  | .right => if ms.isEmpty then st else ⟨st.out ++ ms.map (mergeRow ro a), mark⟩
  | .semi => if !ms.isEmpty then ⟨st.out ++ [a], st.matched⟩ else st
  | .anti => if ms.isEmpty then ⟨st.out ++ [a], st.matched⟩ else st

def joinRows (mode : JoinMode) (L R : List Col) (A B : List Row) : List Row :=
  let common := commonCols L R
  let ro := rhsOnly L R
  let st := A.foldl (stepLhs mode common ro B) ⟨[], B.map (fun _ => false)⟩
  match mode with
  | .right | .full =>
    st.out ++ ((B.zip st.matched).filter (fun p => !p.2)).map (fun p => padLeft L.length common ro p.1)
  | _ => st.out

/-- `make_optional_kind` where the mode can leave the side without a partner -/
def joinCols (mode : JoinMode) (L R : List Col) : List Col :=
  let common := commonCols L R
  match mode with
  | .semi | .anti => L
  | _ =>
    (L.zipIdx.map (fun ci =>
      if !(common.any (fun p => p.1 == ci.2)) && (mode == .right || mode == .full) then { ci.1 with opt := true } else ci.1))
    ++ (rhsOnly L R).filterMap (fun j => (R[j]?).map (fun c =>
      if mode == .left || mode == .full then { c with opt := true } else c))

def join (mode : JoinMode) (A B : Table) : Table :=
  ⟨joinCols mode A.cols B.cols, joinRows mode A.cols B.cols A.rows B.rows⟩

/-! row selection: 1-based indices, or a logical mask -/

def selectIdx (rows : List Row) (ix : List Nat) : Option (List Row) :=
  ix.mapM (fun i => if i = 0 then none else rows[i - 1]?)

def selectMask (rows : List Row) (mask : List Bool) : List Row :=
  ((rows.zip mask).filter (fun p => p.2)).map (fun p => p.1)

end MechVerif.Tbl
