/-
C03, second tie to the source: the access kernels as they are *written*.

src/interpreter/src/stdlib/access/matrix.rs holds one macro per way of reading a matrix
(`access_1d`, `access_2d`, `access_1d_slice`, `access_2d_slice`, `access_2d_slice_all`, the
logical-mask variants, `access_row`, `access_col`, …).  `tools/extract_access.py` reads each macro
body and writes what it says as a value of `AIR`: for each of the (one or two) coordinates handed to
`source.index(…)` how it is computed (an index argument minus one, an element of an index vector
minus one, a loop variable filtered by a logical mask, a loop variable over a whole dimension), which
loop is the outer one, which length checks guard the masks, how the output position advances.
`run` below gives such a value its meaning — the loops as written — and `Lemmas/AccessIR.lean`
proves that an accepted `AIR` reads exactly what `gather1` / `gather2` of `Model/Index.lean` read,
the functions the C03 theorems are about.
-/
import MechVerif.Model.Index
namespace MechVerif.AccessIR
open MechVerif.Num MechVerif.Mat MechVerif.Index

inductive Dim where
  | rows | cols | len
deriving DecidableEq, Repr

/-- what bounds a loop variable -/
inductive Bound where
  | argLen (a : Nat)      -- `ix<a>.len()` / `.nrows()` of an index argument
  | dim (d : Dim)         -- `source.nrows()` / `.ncols()` / `.len()`
deriving DecidableEq, Repr

/-- how one coordinate of `source.index(…)` is computed -/
inductive Axis where
  /-- `*$ix<a> - 1` (no loop) -/
  | scalar (a : Nat) (minus1 : Bool)
  /-- `ix<a>[v] - 1`, `v` running to `bound` -/
  | vec (a : Nat) (minus1 : Bool) (bound : Bound)
  /-- `v` itself, running to `bound`, kept when `ix<a>[v] == true`; `guard` is the dimension whose
      extent the mask's length is compared with before anything is read -/
  | mask (a : Nat) (bound : Bound) (guard : Option Dim)
  /-- `v` itself, running over a whole dimension of the source -/
  | all (bound : Bound)
deriving DecidableEq, Repr

structure AIR where
  /-- the row coordinate; `none`: linear access `source.index(e)` -/
  row : Option Axis
  /-- the column coordinate, or the linear one -/
  col : Axis
  /-- of two loops, the column coordinate's is the outer one -/
  colOuter : Bool
  /-- the output position is a counter that advances with every element written (or, with a single
      loop and no mask, that loop's variable) -/
  outSequential : Bool
deriving DecidableEq, Repr

/-- an index argument as `Value::as_index` delivers it -/
inductive Arg where
  | scalar (i : Nat)
  | ixs (l : List Nat)
  | bools (l : List Bool)
deriving DecidableEq, Repr

def dimOf {α : Type} (m : Mat α) : Dim → Nat
  | .rows => m.rows
  | .cols => m.cols
  | .len => m.rows * m.cols

def argLen (args : List Arg) (a : Nat) : Except Err Nat :=
  match args[a]? with
  | some (.ixs l) => .ok l.length
  | some (.bools l) => .ok l.length
  | _ => .error .other

def boundVal {α : Type} (m : Mat α) (args : List Arg) : Bound → Except Err Nat
  | .argLen a => argLen args a
  | .dim d => .ok (dimOf m d)

/-- sequence a list of results: the first failure aborts -/
def seqM {β : Type} : List (Except Err β) → Except Err (List β)
  | [] => .ok []
  | x :: xs =>
    match x with
    | .error e => .error e
    | .ok y => match seqM xs with
      | .error e => .error e
      | .ok ys => .ok (y :: ys)

/-- the mask checks that run before anything is read -/
def guardOk {α : Type} (m : Mat α) (args : List Arg) : Axis → Except Err Unit
  | .mask a _ (some d) => bindE (argLen args a) (fun n => if n = dimOf m d then .ok () else .error .dim)
  | _ => .ok ()

/-- the values the axis' loop variable takes, in order (a scalar axis has no loop: one turn) -/
def loopVals {α : Type} (m : Mat α) (args : List Arg) : Axis → Except Err (List Nat)
  | .scalar _ _ => .ok [0]
  | .vec _ _ b => mapE (boundVal m args b) List.range
  | .all b => mapE (boundVal m args b) List.range
  | .mask a b _ =>
    bindE (boundVal m args b) (fun n =>
      match args[a]? with
      | some (.bools l) =>
        -- `ix[v]` panics past the end of the mask
        if n ≤ l.length then .ok ((List.range n).filter (fun v => l.getD v false)) else .error .index
      | _ => .error .other)

/-- the 0-based coordinate for a value of the loop variable -/
def coord (args : List Arg) : Axis → Nat → Except Err Nat
  | .scalar a m1, _ =>
    (match args[a]? with
     | some (.scalar i) => if m1 then pred1 i else .ok i
     | _ => .error .other)
  | .vec a m1 _, v =>
    (match args[a]? with
     | some (.ixs l) => bindE (getE l v) (fun i => if m1 then pred1 i else .ok i)
     | _ => .error .other)
  | .mask _ _ _, v => .ok v
  | .all _, v => .ok v

/-- the elements a kernel reads, in the order it writes them -/
def run {α : Type} (ir : AIR) (m : Mat α) (args : List Arg) : Except Err (List α) :=
  match ir.row with
  | none =>
    bindE (guardOk m args ir.col) (fun _ =>
    bindE (loopVals m args ir.col) (fun vs =>
      seqM (vs.map (fun v => bindE (coord args ir.col v) (getLin m)))))
  | some rowAx =>
    bindE (guardOk m args rowAx) (fun _ =>
    bindE (guardOk m args ir.col) (fun _ =>
    bindE (loopVals m args rowAx) (fun rs =>
    bindE (loopVals m args ir.col) (fun cs =>
      let cell (r c : Nat) : Except Err α :=
        bindE (coord args rowAx r) (fun r0 => bindE (coord args ir.col c) (fun c0 => getRC m r0 c0))
      if ir.colOuter then seqM (cs.flatMap (fun c => rs.map (fun r => cell r c)))
      else seqM (rs.flatMap (fun r => cs.map (fun c => cell r c)))))))

/-- the selector of `Model/Index` an axis stands for (what the index argument holds) -/
def selOf (args : List Arg) : Axis → Option Sel
  | .scalar a _ => (match args[a]? with | some (.scalar i) => some (.scalar i) | _ => none)
  | .vec a _ _ => (match args[a]? with | some (.ixs l) => some (.vec l) | _ => none)
  | .mask a _ _ => (match args[a]? with | some (.bools l) => some (.mask l) | _ => none)
  | .all _ => some .all

/-- An axis is written the way the model reads it: `- 1` on index arguments, a vector's loop runs over
    that vector's own length, a mask's loop runs over the mask's length or the guarded dimension and
    its length is compared with the dimension `d` it indexes, a whole-dimension loop runs over `d`. -/
def axisOk (d : Dim) : Axis → Bool
  | .scalar _ m1 => m1
  | .vec a m1 b => m1 && decide (b = .argLen a)
  | .mask a b g => decide (g = some d) && (decide (b = .argLen a) || decide (b = .dim d))
  | .all b => decide (b = .dim d)

/-- A kernel is accepted when its coordinates are written as the model reads them, the output is
    filled in sequence, and — with two loops — the column coordinate's loop is the outer one (the
    output is column-major).  With a scalar coordinate there is one loop at most and the order of the
    nest is immaterial. -/
def airOk (ir : AIR) : Bool :=
  ir.outSequential &&
  match ir.row with
  | none => axisOk .len ir.col
  | some r =>
    axisOk .rows r && axisOk .cols ir.col &&
    (ir.colOuter || (match r, ir.col with | .scalar _ _, _ => true | _, .scalar _ _ => true | _, _ => false))

end MechVerif.AccessIR
