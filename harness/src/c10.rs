//! C10: literate documents. Case: `doc <elements ;;-joined>`; element:
//!   `C:<stmt>`            code line in the document body (stmt as in C05: D/A/P)
//!   `F:<name>:<stmt>|<stmt>…`   fenced block ```mech:<name>``` (name `-` = unnamed fence, `!` = disabled, `#` = hidden, `%` = output off)
//!   `X:<kind>`            prose: title, section, para, list, quote, break, table, code, comment
//! Observation: `main{x=…;…}` then `ns<name>{…}` for every sub-interpreter (by name, sorted), or `err`.
use crate::common::*;
use crate::interp::*;
use mech_core::*;
use mech_syntax::*;
use mech_interpreter::*;

fn atom_src(a: &str) -> String { let (t, r) = a.split_at(1); if t == "n" { r.to_string() } else { r.to_string() } }
fn expr_src(e: &str) -> String {
  if e.starts_with('b') { let op = &e[1..2]; let (a, b) = e[2..].split_once(',').unwrap(); format!("{} {} {}", atom_src(a), op, atom_src(b)) } else { atom_src(e) }
}
pub fn stmt_src(s: &str) -> String {
  let p: Vec<&str> = s.split(':').collect();
  match p[0] {
    "D" => format!("{}{} := {}", if p[1] == "1" { "~" } else { "" }, p[2], expr_src(p[3])),
    "A" => format!("{} = {}", p[1], expr_src(p[2])),
    "P" => format!("{} += {}", p[1], expr_src(p[2])),
    _ => panic!("bad stmt"),
  }
}

fn prose(kind: &str, n: usize) -> String {
  match kind {
    "title" => format!("Document {}\n===============================================================================\n", n),
    "section" => format!("{}. Section about x and y\n-------------------------------------------------------------------------------\n", n),
    "para" => "This paragraph mentions x and y, says that x = 3 is not code, and ends here.\n".to_string(),
    "list" => "- first item with a = 1\n- second item\n- third item\n".to_string(),
    "quote" => "> a quoted remark about z\n".to_string(),
    "break" => "***\n".to_string(),
    "table" => "| Name | Value |\n|------|-------|\n| x    | 12    |\n".to_string(),
    "code" => "```python\nx = 99\ny = x + 1\n```\n".to_string(),
    // code blocks that are not Mech code, whatever they contain: no code identifier, tilde fences, another language
    "code-bare" => "```\nx = 99\n```\n".to_string(),
    "code-bare-def" => "```\n~x := 5\ny := 6\n```\n".to_string(),
    "code-tilde" => "~~~\nx = 98\n~~~\n".to_string(),
    "code-tilde-lang" => "~~~rust\nlet x = 97;\n~~~\n".to_string(),
    "code-ebnf" => "```ebnf\nX := A | B, C ;\n```\n".to_string(),
    "code-shell" => "```\n$ cargo build --release\n```\n".to_string(),
    "comment" => "-- a comment line about x\n".to_string(),
    // comments whose text goes on, after a semicolon, with something that would be a statement
    k if k.starts_with("comment-code-") => { let v = &k["comment-code-".len()..]; match n % 3 { 0 => format!("-- remember this; {} = 77\n", v), 1 => format!("// see above; {} += 5\n", v), _ => format!("-- a; b; {} = 1; {} = 2\n", v, v) } }
    _ => "Plain prose.\n".to_string(),
  }
}

pub fn source(case: &str) -> String {
  let f: Vec<&str> = case.split('\t').collect();
  let mut out = String::new();
  let mut n = 0;
  for el in f[1].split(";;") {
    n += 1;
    let (k, rest) = el.split_once(':').unwrap();
    match k {
      "C" => { out.push_str(&stmt_src(rest)); out.push_str("\n\n"); }
      // a code line with a trailing comment that goes on with statement-like text after a semicolon
      "T" => { let (v, st) = rest.split_once(':').unwrap(); out.push_str(&stmt_src(st)); out.push_str(&if n % 2 == 0 { format!(" -- set once; {} = 7\n\n", v) } else { format!(" // later; {} += 1\n\n", v) }); }
      "F" => { let (name, body) = rest.split_once(':').unwrap();
               let tag = match name { "-" => "mech".to_string(), "!" => "mech:disabled".to_string(), "#" => "mech:hidden".to_string(), "%" => "mech{output: false}".to_string(), nm => format!("mech:{}", nm.replace('~', ":")) };   // `~` in a case line stands for a colon inside the name
               out.push_str(&format!("```{}\n", tag));
               for s in body.split('|') { out.push_str(&stmt_src(s)); out.push('\n'); }
               out.push_str("```\n\n"); }
      _ => { out.push_str(&prose(rest, n)); out.push('\n'); }
    }
  }
  out
}

fn snapshot(intrp: &Interpreter) -> String {
  let st = intrp.symbols();
  let st = st.borrow();
  let d = st.dictionary.borrow();
  let mut v: Vec<String> = st.symbols.iter().filter_map(|(k, val)| {
    let name = d.get(k).cloned().unwrap_or("?".into());
    if name == "ans" { None } else { Some(format!("{}={}", name, canon(&val.borrow()))) } }).collect();
  v.sort();
  v.join(";")
}

pub fn run(src: &str, names: &[String]) -> String {
  let tree = match std::panic::catch_unwind(|| parser::parse(src)) { Ok(Ok(t)) => t, Ok(Err(_)) => return format!("harness:parseerr:{}", hexs(src)), Err(_) => return format!("harness:parsepanic:{}", hexs(src)) };
  let mut intrp = Interpreter::new(0);
  let status = match std::panic::catch_unwind(std::panic::AssertUnwindSafe(|| intrp.interpret(&tree))) {
    Ok(Ok(_)) => "ok", Ok(Err(_)) => "err", Err(_) => return "hostpanic".into() };
  let mut out = format!("{}|main{{{}}}", status, snapshot(&intrp));
  let subs = intrp.sub_interpreters.borrow();
  let mut parts: Vec<String> = vec![];
  for nm in names {
    let id = hash_str(&nm.replace('~', ":"));
    if let Some(s) = subs.get(&id) { parts.push(format!("ns{}{{{}}}", nm, snapshot(s))); }
  }
  parts.sort();
  if subs.len() != parts.len() { parts.push(format!("unnamed-subs:{}", subs.len() - parts.len())); }
  for p in parts { out.push('|'); out.push_str(&p); }
  out
}

pub fn exec(case: &str) -> String {
  let f: Vec<&str> = case.split('\t').collect();
  let mut names: Vec<String> = vec![];
  for el in f[1].split(";;") { if let Some(r) = el.strip_prefix("F:") { let nm = r.split(':').next().unwrap(); if nm != "-" && nm != "!" && !names.contains(&nm.to_string()) { names.push(nm.to_string()); } } }
  run(&source(case), &names)
}

fn gen_expr(rng: &mut Rng, vars: &[String]) -> String {
  let atom = |rng: &mut Rng| -> String { if vars.is_empty() || rng.chance(1, 3) { format!("n{}", rng.range(0, 9)) } else { format!("v{}", rng.pick(vars)) } };
  if rng.chance(1, 2) { atom(rng) } else { let op = *rng.pick(&["+", "-", "*"]); let a = atom(rng); let b = if op == "*" { format!("n{}", rng.range(1, 3)) } else { atom(rng) }; format!("b{}{},{}", op, a, b) }
}

/// one statement over the variables of a namespace; `bad`: refer to a variable that does not exist there
fn gen_stmt(rng: &mut Rng, vars: &mut Vec<String>, muts: &mut Vec<String>, pool: &[&str], foreign: &[String], bad: bool) -> String {
  if bad { let f = if !foreign.is_empty() && rng.chance(2, 3) { rng.pick(foreign).clone() } else { "nowhere".to_string() }; let n = format!("e{}", rng.below(1000)); return format!("D:0:{}:b+v{},n1", n, f); }
  let fresh: Vec<&&str> = pool.iter().filter(|n| !vars.contains(&n.to_string())).collect();
  if !muts.is_empty() && rng.chance(1, 4) { let m = rng.pick(muts).clone(); let e = gen_expr(rng, vars); return if rng.chance(1, 2) { format!("A:{}:{}", m, e) } else { format!("P:{}:{}", m, e) }; }
  if fresh.is_empty() { let m = vars[0].clone(); return format!("D:0:{}x:{}", m, gen_expr(rng, vars)); }
  let n = fresh[rng.below(fresh.len() as u64) as usize].to_string();
  let mutable = rng.chance(1, 3);
  let e = gen_expr(rng, vars);
  vars.push(n.clone()); if mutable { muts.push(n.clone()); }
  format!("D:{}:{}:{}", if mutable { 1 } else { 0 }, n, e)
}

pub fn generate(seed: u64, thorough: bool, sink: &mut Sink) -> Vec<String> {
  let mut rng = Rng::new(seed);
  let mut cases = vec![];
  let n = if thorough { 20000 } else { 1500 };
  let prose_kinds = ["title", "section", "para", "list", "quote", "break", "table", "code", "comment",
    "code-bare", "code-bare-def", "code-tilde", "code-tilde-lang", "code-ebnf", "code-shell"];
  // names of code blocks; several begin with letters of the tag prefix `mech:` or differ only by such a prefix
  // … and names that contain colons themselves and share their first or last segment (`~` stands for the colon)
  let all_names = ["alpha", "beta", "gamma", "calc", "alc", "c", "me", "h2", "ex", "x", "model~a", "model~b", "fig~one~x", "fig~two~x", "alpha~x"];
  for _ in 0..n {
    let len = 3 + rng.below(if thorough { 14 } else { 9 }) as usize;
    let mut main_vars: Vec<String> = vec![]; let mut main_muts: Vec<String> = vec![];
    let mut ns_vars: Vec<(Vec<String>, Vec<String>)> = vec![(vec![], vec![]), (vec![], vec![]), (vec![], vec![])];
    let ns_names: Vec<&str> = { let mut pool = all_names.to_vec(); let mut v = vec![]; for _ in 0..3 { let i = rng.below(pool.len() as u64) as usize; v.push(pool.remove(i)); } v };
    let mut els: Vec<String> = vec![];
    let errors = rng.below(6);   // 0: an error in a named fence, 1: an error in the main program, else none
    let err_at = rng.below(len as u64) as usize;
    if rng.chance(1, 2) { els.push("X:title".into()); }
    for i in 0..len {
      match rng.below(10) {
        0 | 1 | 2 if rng.chance(1, 6) => { let v = if main_muts.is_empty() { "x".to_string() } else { rng.pick(&main_muts).clone() };
                       if els.last().map(|e| e == "X:list").unwrap_or(false) { els.push("X:para".into()); } else { els.push(format!("X:comment-code-{}", v)); } sink.hit("element:comment-with-code-after-semicolon"); }
        0 | 1 | 2 => { let mut k = *rng.pick(&prose_kinds);
                       // a comment line directly after a list does not parse at this commit
                       if k == "comment" && els.last().map(|e| e == "X:list").unwrap_or(false) { k = "para"; }
                       els.push(format!("X:{}", k)); sink.hit("element:prose"); }
        3 | 4 | 5 => { let bad = errors == 1 && i >= err_at && rng.chance(1, 2);
                       let foreign: Vec<String> = ns_vars.iter().flat_map(|v| v.0.clone()).filter(|v| !main_vars.contains(v)).collect();
                       let st = gen_stmt(&mut rng, &mut main_vars, &mut main_muts, &["x", "y", "z", "w", "u", "v"], &foreign, bad);
                       if !bad && !main_muts.is_empty() && rng.chance(1, 5) { let v = rng.pick(&main_muts).clone(); els.push(format!("T:{}:{}", v, st)); sink.hit("element:code-line-with-trailing-comment"); }
                       else { els.push(format!("C:{}", st)); sink.hit("element:code-line"); } }
        6 => { let k = 1 + rng.below(3) as usize; let mut ss = vec![];
               for _ in 0..k { ss.push(gen_stmt(&mut rng, &mut main_vars, &mut main_muts, &["x", "y", "z", "w", "u", "v"], &[], false)); }
               // a plain fence, a hidden one or one with its output switched off: all of them code of the unnamed program
               let mark = match rng.below(4) { 0 => "#", 1 => "%", _ => "-" };
               els.push(format!("F:{}:{}", mark, ss.join("|"))); sink.hit(match mark { "#" => "element:hidden-fence", "%" => "element:output-off-fence", _ => "element:unnamed-fence" }); }
        7 => { let k = 1 + rng.below(2) as usize; let mut tv = main_vars.clone(); let mut tm = main_muts.clone(); let mut ss = vec![];
               for _ in 0..k { ss.push(gen_stmt(&mut rng, &mut tv, &mut tm, &["q", "r"], &[], false)); }
               els.push(format!("F:!:{}", ss.join("|"))); sink.hit("element:disabled-fence"); }
        _ => { let ni = rng.below(3) as usize; let k = 1 + rng.below(3) as usize; let mut ss = vec![];
               let bad_pos = if errors == 0 && rng.chance(1, 2) { Some(rng.below(k as u64) as usize) } else { None };
               for j in 0..k { let bad = bad_pos == Some(j);
                 let (ref mut vs, ref mut ms) = ns_vars[ni];
                 // names also used in the main program and in other namespaces: isolation is observable
                 ss.push(gen_stmt(&mut rng, vs, ms, &["x", "y", "a", "b", "c"], &main_vars, bad));
                 if bad { break; } }
               els.push(format!("F:{}:{}", ns_names[ni], ss.join("|"))); sink.hit("element:named-fence"); if bad_pos.is_some() { sink.hit("error-in-named-fence"); } }
      }
    }
    if errors == 1 { sink.hit("error-in-main"); }
    let case = format!("doc\t{}", els.join(";;"));
    if cases.len() < 2 { sink.sample(source(&case)); }
    cases.push(case);
  }
  cases
}
