import MechVerif.Driver.C14
import MechVerif.Lemmas.Table
namespace MechVerif.Driver.S18
open MechVerif.Num MechVerif.SetM MechVerif.Tbl MechVerif.Driver.S14

def akindOfName (s : String) : Option AKind :=
  if s == "f64" then some .f64 else if s == "string" then some .str else if s == "bool" then some .bool
  else if s == "r64" then some .rat else (IKind.ofName s).map .int

def cellText : Cell → String
  | some a => atomText a
  | none => "empty"

def colKindText (c : Col) : String := akindText c.kind ++ (if c.opt then "?" else "")

def parseTableCase (s : String) : Option Table :=
  match s.splitOn "|" with
  | [hdr, body] =>
    let cols := (hdr.splitOn ",").mapM (fun c => match c.splitOn ":" with
      | [n, k] => (akindOfName k).map (fun k => ({ name := n, kind := k } : Col))
      | _ => none)
    let rows : Option (List Row) := if body.isEmpty then some [] else
      (body.splitOn ";").mapM (fun r => (r.splitOn " ").mapM (fun c => (parseAtom14 c).map some))
    (match cols, rows with | some c, some r => some ⟨c, r⟩ | _, _ => none)
  | _ => none

def column (rows : List Row) (i : Nat) : List Cell := rows.map (fun r => cellAt r i)

def tableText (cols : List Col) (rows : List Row) : String :=
  let colTexts := cols.zipIdx.map (fun ci => s!"{ci.1.name}<{colKindText ci.1}>=" ++ ",".intercalate ((column rows ci.2).map cellText))
  s!"table:{rows.length}x{cols.length}:[" ++ ";".intercalate colTexts ++ "]"

def recordText (cols : List Col) (row : Row) : String :=
  "record:[" ++ ";".intercalate (cols.zipIdx.map (fun ci => s!"{ci.1.name}<{colKindText ci.1}>=" ++ cellText (cellAt row ci.2))) ++ "]"

def modeOf (s : String) : Option JoinMode :=
  if s == "inner" then some .inner else if s == "left" then some .left else if s == "right" then some .right
  else if s == "full" then some .full else if s == "semi" then some .semi else if s == "anti" then some .anti else none

/-- observed `table:RxC:[name<kind>=v,v;…]` → header texts and rows of cell texts -/
structure TObs where
  nrows : Nat
  ncols : Nat
  headers : List String          -- `name<kind>`
  rows : List (List String)

def transpose (cols : List (List String)) (n : Nat) : List (List String) :=
  (List.range n).map (fun i => cols.map (fun c => (c[i]?).getD "?"))

def parseTableObs (s : String) : Option TObs :=
  if !s.startsWith "table:" then none else
  match ((s.drop 6).toString.splitOn ":[") with
  | [dims, body] =>
    (match dims.splitOn "x" with
     | [r, c] =>
       let body := (body.dropEnd 1).toString
       let colTexts := if body.isEmpty then [] else body.splitOn ";"
       let parsed := colTexts.map (fun ct => match ct.splitOn "=" with
         | [h, vs] => (h, if vs.isEmpty then [] else vs.splitOn ",")
         | _ => (ct, []))
       let n := r.toNat!
       some ⟨n, c.toNat!, parsed.map (·.1), transpose (parsed.map (·.2)) n⟩
     | _ => none)
  | _ => none

def sortRows (l : List (List String)) : List String := sortStrings (l.map (fun r => ",".intercalate r))

def runC18 (fields : List String) (obs : String) : String × String × String :=
  let bad := ("bad-case", "bad-case", "-")
  -- a trailing `form=…` field says how the tables and the index are written (variables, mutable variables,
  -- in place): the result does not depend on it
  match fields.filter (fun f => !f.startsWith "form=") with
  | ["join", m, _, l, r] =>
    (match modeOf m, parseTableCase l, parseTableCase r with
     | some mode, some A, some B =>
       let J := join mode A B
       let model := tableText J.cols J.rows
       -- specification: the relational-algebra rows as a multiset, the union of the columns
       let specR := specRows mode A.cols B.cols A.rows B.rows
       let specHeaders := J.cols.map (fun c => s!"{c.name}<{colKindText c}>")
       let verdict :=
         match parseTableObs obs with
         | none => "bad:expected a table"
         | some o =>
           if o.headers != specHeaders then "bad:columns differ from " ++ ";".intercalate specHeaders
           else if o.nrows != o.rows.length || o.ncols != o.headers.length then "bad:reported shape differs from the data"
           else if sortRows o.rows != sortRows (specR.map (fun r => (List.range J.cols.length).map (fun i => cellText (cellAt r i)))) then
             "bad:rows differ from the relational-algebra join"
           else "ok"
       (model, verdict, "-")
     | _, _, _ => bad)
  | ["sel", how, t, arg] =>
    (match parseTableCase t with
     | none => bad
     | some T =>
       let n := T.rows.length
       let single := (arg.splitOn ",").length == 1
       if how == "chain" then
         -- `T[[i …]][second]`: the rows the index vector selects, then a mask (one flag per selected row) or an index vector
         match arg.splitOn "|" with
         | [a, b] =>
           (match (a.splitOn ",").mapM String.toNat? with
            | none => bad
            | some ix1 =>
              let exp : String :=
                match selectIdx T.rows ix1 with
                | none => "err"
                | some rows1 =>
                  if (b.splitOn ",").all (fun w => w == "true" || w == "false") then
                    let mask := (b.splitOn ",").map (· == "true")
                    if mask.length == rows1.length then tableText T.cols (selectMask rows1 mask) else "err"
                  else match (b.splitOn ",").mapM String.toNat? with
                    | some ix2 => (match selectIdx rows1 ix2 with | some rows => tableText T.cols rows | none => "err")
                    | none => "err"
              (exp, (if obs == exp then "ok" else "bad:expected " ++ exp), "-"))
         | _ => bad
       else if how == "rec" then
         match arg.toNat? with
         | some i =>
           let exp := if i == 0 then none else T.rows[i - 1]?
           let model := match exp with | some r => recordText T.cols r | none => "err"
           (model, (if obs == model then "ok" else "bad:expected " ++ model), "-")
         | none => bad
       else if how == "vec" || how == "range" then
         let ix : Option (List Nat) :=
           if how == "vec" then (arg.splitOn ",").mapM String.toNat?
           else match arg.splitOn "," with
             | [a, b] => (match a.toNat?, b.toNat? with | some a, some b => some ((List.range (b + 1 - a)).map (· + a)) | _, _ => none)
             | _ => none
         match ix with
         | none => bad
         | some ix =>
           let exp := match selectIdx T.rows ix with | some rows => tableText T.cols rows | none => "err"
           -- C18-D1: a selector of exactly one element has no implementation
           let one := ix.length == 1
           let model := if one then "err" else exp
           let _ := single
           (model, (if obs == exp then "ok" else "bad:expected " ++ exp), if obs != exp && one then "C18-D1" else "-")
       else
         let mask := (arg.splitOn ",").map (· == "true")
         let exp := if mask.length == n then tableText T.cols (selectMask T.rows mask) else "err"
         -- C18-D1: a one-element selector has no implementation; otherwise the mask must have one flag per row
         let model := if mask.length == 1 then "err" else exp
         let region := if obs == exp then "-" else if mask.length == 1 then "C18-D1" else "-"
         (model, (if obs == exp then "ok" else "bad:expected " ++ exp), region))
  | _ => bad

end MechVerif.Driver.S18
