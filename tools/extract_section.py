#!/usr/bin/env python3
"""Regenerates lean/MechVerif/Gen/SectionArms.lean from src/interpreter/src/mechdown.rs: for every arm of
`section_element()` what it does with the interpreter (nothing but hashing; evaluating the inline elements of its
paragraphs; running Mech code in the interpreter it was given; the fenced-code protocol; recursion into a wrapped
element; a Mika section in its own interpreter), the three decisions of the fenced-code arm (disabled first; namespace 0
runs in the given interpreter without error isolation; any other namespace runs in the sub-interpreter of that id with
error isolation) and what `eval_fenced_code_block` does with an error under isolation.
A shape the reader does not recognise makes `generate` return (False, reason)."""
import os, re, sys
sys.path.insert(0, os.path.dirname(os.path.abspath(__file__)))
from extract_kernels import Unrecognised

def block(text, start):
    i = text.index('{', start); d = 1; j = i + 1
    while d:
        d += (text[j] == '{') - (text[j] == '}'); j += 1
    return text[i + 1:j - 1], j

def arms_of(body):
    """top-level arms `SectionElement::V(pat) => expr,` of a match body"""
    out = []; i = 0
    pat = re.compile(r'(?:#\[cfg\([^\]]*\)\]\s*)?SectionElement::(\w+)\s*(\([^=]*?\))?\s*=>\s*')
    while True:
        m = pat.search(body, i)
        if not m: break
        j = m.end()
        if body[j] == '{':
            b, e = block(body, j); expr = b; i = e
        else:
            d = 0; e = j
            while e < len(body) and not (body[e] == ',' and d == 0):
                d += (body[e] in '({[') - (body[e] in ')}]'); e += 1
            expr = body[j:e]; i = e
        out.append((m.group(1), expr))
    return out

def classify(variant, expr):
    e = re.sub(r'\s+', ' ', expr.strip())
    calls = set(re.findall(r'\b(mech_code|eval_fenced_code_block|paragraph_element|section_element|section|comment)\s*\(', e))
    if re.fullmatch(r'\w+\.hash\(&mut hasher\)', e): return ".inert"
    if re.fullmatch(r'return Ok\(Value::Empty\);?', e): return ".inert"
    if calls == {"paragraph_element"}: return ".inline"
    if calls == {"mech_code", "comment"} or calls == {"mech_code"}:
        if not re.search(r'mech_code\(\s*&?\w+\s*,\s*p\s*\)', e): raise Unrecognised(variant + ": mech_code not run in p")
        return ".code"
    if calls == {"eval_fenced_code_block"}: return ".fence"
    if calls == {"section_element"}:
        if not re.search(r'return section_element\(\s*\w+\s*,\s*p\s*\)', e): raise Unrecognised(variant + ": recursion")
        return ".wrapper"
    if calls == {"section"}: return ".mika"
    raise Unrecognised("%s: arm does %s" % (variant, sorted(calls) or e[:50]))

def extract(repo="/repo"):
    text = open(os.path.join(repo, "src/interpreter/src/mechdown.rs"), newline='').read().replace('\r\n', '\n')
    text = re.sub(r'//[^\n]*', '', text)
    m = re.search(r'pub\s+fn\s+section_element\s*\(', text)
    if not m: raise Unrecognised("section_element() not found")
    body, _ = block(text, m.end())
    mm = re.search(r'match\s+element\s*\{', body)
    if not mm: raise Unrecognised("no `match element`")
    mb, _ = block(body, mm.end() - 1)
    table = []
    fence = None
    for v, e in arms_of(mb):
        c = classify(v, e)
        if (v, c) not in table: table.append((v, c))
        if c == ".fence": fence = e
    if fence is None: raise Unrecognised("no fenced-code arm")
    f = re.sub(r'\s+', ' ', fence)
    # the three decisions of the fence arm, in order
    d = re.match(r'^ ?if block\.config\.disabled( == true)? \{ return Ok\(Value::Empty\); \}', f)
    disabled_first = d is not None
    ns = re.search(r'let (\w+) = block\.config\.namespace;', f)
    if not ns: raise Unrecognised("fence arm: namespace")
    idv = ns.group(1)
    z = re.search(r'if %s == 0 \{ out = eval_fenced_code_block\(&block\.code, (\w+), (true|false)\)\?;' % idv, f)
    if not z: raise Unrecognised("fence arm: namespace 0 branch")
    main_in_p = z.group(1) == 'p'; main_isolate = z.group(2)
    s = re.search(r'\.entry\((\w+)\) \.or_insert\(', f)
    o = re.search(r'\} else \{.*out = eval_fenced_code_block\(&block\.code, (\w+), (true|false)\)\?;', f)
    if not s or not o: raise Unrecognised("fence arm: named branch")
    keyed_by_ns = s.group(1) == idv
    sub_var = o.group(1)
    sub_is_entry = re.search(r'let mut %s = sub_interpreters \.entry' % sub_var, f) is not None or re.search(r'let %s = sub_interpreters \.entry' % sub_var, f) is not None
    sub_isolate = o.group(2)
    # eval_fenced_code_block: an error under isolation becomes a value (Ok), otherwise it is returned
    m2 = re.search(r'fn\s+eval_fenced_code_block\s*\(', text)
    if not m2: raise Unrecognised("eval_fenced_code_block not found")
    eb, _ = block(text, m2.end())
    ebn = re.sub(r'\s+', ' ', eb)
    iso = re.search(r'match mech_code\(\w+, interpreter\) \{ Ok\(value\) => out = value, Err\(err\) => \{ if isolate_errors \{ (.*?) \} return Err\(err\); \}', ebn)
    if not iso: raise Unrecognised("eval_fenced_code_block: error handling")
    iso_ok = len(re.findall(r'return Ok\(', iso.group(1))) >= 1 and 'return Err' not in iso.group(1)
    b = lambda x: "true" if x else "false"
    fence_ir = "⟨%s, %s, %s, %s, %s, %s⟩" % (b(disabled_first), b(main_in_p), main_isolate, b(keyed_by_ns and sub_is_entry), sub_isolate, b(iso_ok))
    return table, fence_ir

def generate(root, repo="/repo"):
    try: table, fence = extract(repo)
    except (Unrecognised, OSError, ValueError) as e: return False, "C10 section-arm extraction failed: %s" % e
    L = ["/- GENERATED by tools/extract_section.py from src/interpreter/src/mechdown.rs — do not edit. -/", "import MechVerif.Model.SectionArms",
         "namespace MechVerif.Gen.SectionArms", "open MechVerif.SectionArms", "", "/-- (variant of SectionElement, what its arm does) -/",
         "def arms : List (String × ArmClass) :=", "  [" + ",\n   ".join('("%s", %s)' % a for a in table) + "]", "",
         "/-- the decisions of the fenced-code arm and of eval_fenced_code_block -/", "def fence : FenceArm := " + fence, "",
         "/-- only Mech code, fenced Mech code, the wrapper of a floated element and Mika sections run statements; paragraphs, comments, tables and figure",
         "    captions only evaluate their inline elements; every other element is inert; the fenced-code arm decides as the model does -/",
         "theorem C10_section_arms_as_written_ok : armsOk arms = true ∧ fenceOk fence = true := by decide", "", "end MechVerif.Gen.SectionArms", ""]
    text = "\n".join(L)
    out = os.path.join(root, 'lean', 'MechVerif', 'Gen', 'SectionArms.lean')
    old = open(out).read() if os.path.exists(out) else None
    if old != text: open(out, 'w').write(text)
    return True, "C10 section arms extracted: %d variants, fence %s" % (len(table), fence)

if __name__ == '__main__':
    root = os.path.dirname(os.path.dirname(os.path.abspath(__file__)))
    if len(sys.argv) > 1 and sys.argv[1] == '--show':
        t, f = extract(sys.argv[2] if len(sys.argv) > 2 else "/repo")
        for x in t: print(x)
        print(f)
    else: print(generate(root))
