import MechVerif.Gen.ConcatKernels
import MechVerif.Lemmas.Concat
namespace MechVerif.ConcatIR
open MechVerif.Num MechVerif.Mat MechVerif.Concat

variable {α : Type}

theorem blit_nil (d : List α) (p : Nat) : blit [] d p = .ok d := by simp [blit]

theorem blit_cons (x : α) (xs d : List α) (p : Nat) :
    blit (x :: xs) d p = if p < d.length then blit xs (d.set p x) (p + 1) else .error .index := by
  by_cases hp : p < d.length
  · simp only [hp, if_true]
    cases xs with
    | nil =>
      have : p + 1 ≤ d.length := hp
      simp [blit, this, List.set_eq_take_append_cons_drop, hp]
    | cons y ys =>
      unfold blit
      simp only [List.length_cons, List.length_set]
      by_cases hr : p + (ys.length + 1 + 1) ≤ d.length
      · have hr' : p + 1 + (ys.length + 1) ≤ d.length := by omega
        simp only [hr, hr', if_true, Nat.succ_ne_zero, if_false, Except.ok.injEq]
        apply List.ext_getElem?
        intro k
        simp only [List.getElem?_append, List.length_take, List.length_append, List.length_cons, List.getElem?_take,
          List.getElem?_drop, List.getElem?_set, List.length_set]
        grind
      · have hr' : ¬ p + 1 + (ys.length + 1) ≤ d.length := by omega
        simp [hr, hr']
  · have : ¬ p + (xs.length + 1) ≤ d.length := by omega
    simp [blit, hp, this]

/-- the loop of `copy_into*`: element `i` of the source to position `i + off` -/
theorem forFrom_copy (src : Mat α) (off : Nat) (body : Nat → Mat α → Except Err (Mat α))
    (hbody : ∀ i d, body i d = bindE (readLin src i) (fun t => bindE (writeLin d (i + off) t) (fun d => .ok d))) :
    ∀ (xs : List α) (i : Nat) (d : Mat α), src.data.drop i = xs →
    forFrom body i xs.length d
      = match blit xs d.data (i + off) with
        | .error e => .error e
        | .ok r => .ok ⟨d.rows, d.cols, r⟩ := by
  intro xs
  induction xs with
  | nil => intro i d _; simp [forFrom, blit_nil]
  | cons x xs ih =>
    intro i d h
    have hx : src.data[i]? = some x := by
      have := congrArg (fun l => l[0]?) h
      simpa [List.getElem?_drop] using this
    have hd : src.data.drop (i + 1) = xs := by
      have := congrArg List.tail h
      simpa [List.tail_drop] using this
    simp only [List.length_cons, forFrom, hbody, readLin, getE, hx, bindE, writeLin, blit_cons]
    by_cases hp : i + off < d.data.length
    · simp only [hp, if_true]
      rw [ih (i + 1) _ hd]
      simp only [Nat.add_right_comm i 1 off]
    · simp [hp]

theorem copy_into_eq (src dst : Mat α) (off : Nat) (hs : Mat.wf' src) :
    Gen.ConcatKernels.copy_into src dst off = copyLin src dst off := by
  unfold Gen.ConcatKernels.copy_into copyLin
  simp only [forRange, len]
  rw [← hs, forFrom_copy src off _ (fun _ _ => rfl) src.data 0 dst (by simp)]
  simp only [Nat.zero_add]
  cases blit src.data dst.data off <;> simp [bindE, hs]


theorem forFrom_add {σ : Type} (body : Nat → σ → Except Err σ) : ∀ (a b i : Nat) (s : σ),
    forFrom body i (a + b) s = match forFrom body i a s with
      | .error e => .error e
      | .ok s' => forFrom body (i + a) b s' := by
  intro a
  induction a with
  | zero => intro b i s; simp [forFrom]
  | succ a ih =>
    intro b i s
    rw [Nat.add_right_comm a 1 b]
    simp only [forFrom]
    cases body i s with
    | error e => rfl
    | ok s' => simp only [ih]; rw [Nat.add_assoc i 1 a, Nat.add_comm 1 a]

/-- one column of the flat loop of `copy_into_row_major`: the position advances by one per element and by the stride
    on top after the last element of the column -/
theorem forFrom_col (src : Mat α) (stride c : Nat) (body : Nat → Nat × Mat α → Except Err (Nat × Mat α))
    (hbody : ∀ ix st, body ix st = bindE (readLin src ix) (fun t => bindE (writeLin st.2 st.1 t) (fun d =>
      .ok (st.1 + (((b2n (((ix + 1) % nrows src) == 0)) * stride) + 1), d)))) :
    ∀ (xs : List α) (k pos : Nat) (d : Mat α) (rest : List α), k + xs.length = src.rows →
      src.data.drop (c * src.rows + k) = xs ++ rest →
      forFrom body (c * src.rows + k) xs.length (pos, d)
        = match blit xs d.data pos with
          | .error e => .error e
          | .ok r => .ok (pos + xs.length + (if xs.length = 0 then 0 else stride), ⟨d.rows, d.cols, r⟩) := by
  intro xs
  induction xs with
  | nil => intro k pos d rest _ _; simp [forFrom, blit_nil]
  | cons x xs ih =>
    intro k pos d rest hk h
    have hx : src.data[c * src.rows + k]? = some x := by
      have := congrArg (fun l => l[0]?) h
      simpa [List.getElem?_drop] using this
    have hd : src.data.drop (c * src.rows + (k + 1)) = xs ++ rest := by
      have := congrArg List.tail h
      simpa [List.tail_drop, Nat.add_assoc] using this
    simp only [List.length_cons] at hk
    simp only [List.length_cons, forFrom, hbody, readLin, getE, hx, bindE, writeLin, blit_cons, nrows]
    by_cases hp : pos < d.data.length
    · simp only [hp, if_true]
      have hmod : (c * src.rows + k + 1) % src.rows = (k + 1) % src.rows := by
        rw [Nat.add_assoc, Nat.mul_comm, Nat.mul_add_mod]
      rw [hmod, Nat.add_assoc (c * src.rows) k 1, ih (k + 1) _ _ rest (by omega) hd]
      cases xs with
      | nil =>
        have : (k + 1) % src.rows = 0 := by
          simp only [List.length_nil] at hk
          rw [show k + 1 = src.rows by omega, Nat.mod_self]
        simp [this, b2n, blit_nil]
        omega
      | cons y ys =>
        have : ¬ (k + 1) % src.rows = 0 := by
          simp only [List.length_cons] at hk
          rw [Nat.mod_eq_of_lt (by omega)]; omega
        simp only [List.length_cons, this, b2n, beq_iff_eq, if_false, Nat.zero_mul, Nat.zero_add, Nat.succ_ne_zero]
        cases blit (y :: ys) (d.data.set pos x) (pos + 1) with
        | error e => rfl
        | ok r => simp only [Except.ok.injEq, Prod.mk.injEq, and_true]; omega
    · simp [hp]

end MechVerif.ConcatIR
