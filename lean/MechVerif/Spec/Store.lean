/-
Reference store for C05: names map to values, definitions and assignments copy, an
immutable name never changes, a rejected statement changes nothing.
-/
import MechVerif.Model.Store
namespace MechVerif.Store

inductive RV where
  | num (v : Int)
  | mat (rows cols : Nat) (els : List Int)
  | blob (text : String)
  | tuple (els : List RV)
  | record (fields : List (String × Int))
  | table (rows : Nat) (cols : List (String × List Int))
deriving Repr

structure RStore where
  vars : List (Name × RV × Bool)

def RStore.get (s : RStore) (n : Name) : Option (RV × Bool) :=
  (s.vars.find? (fun e => e.1 == n)).map (·.2)

def RStore.set (s : RStore) (n : Name) (v : RV) : RStore :=
  ⟨s.vars.map (fun e => if e.1 == n then (e.1, v, e.2.2) else e)⟩

def litRV : V → RV
  | .num x => .num x
  | .mat r c els => .mat r c els
  | .blob t => .blob t
  | .tuple _ => .blob "?"
  | .record fs => .record fs
  | .table r cs => .table r cs

def rEval (s : RStore) (e : Expr) : Option RV :=
  match e with
  | .lit v => some (litRV v)
  | .tupleLit els => some (.tuple (els.map .num))
  | .var x => (s.get x).map (·.1)
  | .copy x => match s.get x with
    | some (.num v, _) => some (.num v)
    | some (.mat r c els, _) => some (.mat r c els)
    | _ => none
  | .bad => none

def rCompatible : RV → RV → Bool
  | .num _, .num _ => true
  | .mat r c _, .mat r' c' _ => formTag r c == formTag r' c'
  | .blob a, .blob b => scalarBlob a && scalarBlob b && blobKind a == blobKind b
  | _, _ => false

def rAdd (op : AOp) : RV → RV → Option RV
  | .num a, .num b => some (.num (op.ap a b))
  | .mat r c els, .num b => some (.mat r c (els.map (op.ap · b)))
  | .mat r c els, .mat r' c' els' => if r = r' ∧ c = c' then some (.mat r c (List.zipWith op.ap els els')) else none
  | _, _ => none

def rSetField (f : String) : RV → RV → Option RV
  | .record fs, .num x =>
    if fs.any (fun p => p.1 == f) then some (.record (fs.map (fun p => if p.1 == f then (p.1, x) else p))) else none
  | .table rows cols, .mat r c els =>
    if r = rows ∧ c = 1 ∧ els.length = rows ∧ cols.any (fun p => p.1 == f) then
      some (.table rows (cols.map (fun p => if p.1 == f then (p.1, els) else p)))
    else none
  | _, _ => none

/-- one statement of the reference semantics: (new store, accepted?) -/
def rexec (s : RStore) (st : Stmt) : RStore × Bool :=
  match st with
  | .define m n e =>
    if (s.get n).isSome then (s, false) else
    match rEval s e with
    | none => (s, false)
    | some v => (⟨s.vars ++ [(n, v, m)]⟩, true)
  | .assign n e =>
    match s.get n, rEval s e with
    | some (old, true), some v =>
      (match e with
       | .tupleLit _ => (s, false)
       | _ => if rCompatible old v then (s.set n v, true) else (s, false))
    | _, _ => (s, false)
  | .setIdx n ix v =>
    match s.get n with
    | some (.mat r c els, true) =>
      if ix.all (fun i => 1 ≤ i && i ≤ els.length) then
        (s.set n (.mat r c (ix.foldl (fun acc i => acc.set (i - 1) v) els)), true)
      else (s, false)
    | _ => (s, false)
  | .addAssign op n e =>
    match s.get n, rEval s e with
    | some (old, true), some v =>
      (match rAdd op old v with
       | some nv => (s.set n nv, true)
       | none => (s, false))
    | _, _ => (s, false)
  | .setField n f e =>
    -- the field setters refuse a bare variable as the source; a refusal that changes nothing is
    -- within the property
    match e with
    | .var _ => (s, false)
    | _ =>
      match s.get n, rEval s e with
      | some (old, true), some v =>
        (match rSetField f old v with
         | some nv => (s.set n nv, true)
         | none => (s, false))
      | _, _ => (s, false)
  | .destructure names t =>
    match s.get t with
    | some (.tuple els, _) =>
      if els.length = names.length ∧ names.Nodup ∧ names.all (fun n => (s.get n).isNone) then
        (⟨s.vars ++ (List.zip names els).map (fun p => (p.1, p.2, false))⟩, true)
      else (s, false)
    | _ => (s, false)

end MechVerif.Store
