import MechVerif.Driver.Util
import MechVerif.Model.Crc
import MechVerif.Model.Bytecode
namespace MechVerif.Driver
open MechVerif.Crc MechVerif.Bytecode

def bytesOfHex (s : String) : Option (List Byte) :=
  (unhexBytes s).map (fun b => b.toList.map (fun x => BitVec.ofNat 8 x.toNat))

def hex8 (v : BitVec 32) : String :=
  String.ofList ((List.range 8).reverse.map (fun i => hexNibble ((v.toNat >>> (4 * i)) % 16)))

def flipBitAt (f : List Byte) (b : Nat) : List Byte :=
  f.modify (b / 8) (fun x => x ^^^ (1#8 <<< (b % 8)))

def parseHexNat (s : String) : Nat :=
  s.toList.foldl (fun acc c => acc * 16 + (hexDigit c).getD 0) 0

def mutate (f : List Byte) (spec : String) : Option (List Byte) :=
  match spec.splitOn ":" with
  | ["none"] => some f
  | ["trunc", n] => n.toNat?.map (fun n => f.take n)
  | ["flip", b] => b.toNat?.map (fun b => flipBitAt f b)
  | ["burst", s, m] =>
    match s.toNat? with
    | none => none
    | some start =>
      let mask := parseHexNat m
      some ((List.range 32).foldl (fun g i => if mask.testBit i && (start + i) / 8 < g.length then flipBitAt g (start + i) else g) f)
  | _ => none

def verifyObs (f : List Byte) (pristine : Bool) : String :=
  match verify f with
  | .error .short => "rejected:short"
  | .error .crc => "rejected:crc"
  | .ok _ => if pristine then "accepted" else "crc-pass"

def parseInstr (s : String) : Option Instr :=
  match s.splitOn ":" with
  | ["C", d, c] => do pure (.constLoad (← d.toNat?) (← c.toNat?))
  | ["N", f, d] => do pure (.nullOp (← f.toNat?) (← d.toNat?))
  | ["U", f, d, a] => do pure (.unOp (← f.toNat?) (← d.toNat?) (← a.toNat?))
  | ["B", f, d, a, b] => do pure (.binOp (← f.toNat?) (← d.toNat?) (← a.toNat?) (← b.toNat?))
  | ["T", f, d, a, b, c] => do pure (.ternOp (← f.toNat?) (← d.toNat?) (← a.toNat?) (← b.toNat?) (← c.toNat?))
  | ["Q", f, d, a, b, c, e] => do pure (.quadOp (← f.toNat?) (← d.toNat?) (← a.toNat?) (← b.toNat?) (← c.toNat?) (← e.toNat?))
  | ["V", f, d, args] => do
      let as ← if args.isEmpty then some [] else (args.splitOn ",").mapM (·.toNat?)
      pure (.varArg (← f.toNat?) (← d.toNat?) as)
  | ["R", s] => do pure (.ret (← s.toNat?))
  | _ => none

def instrText : Instr → String
  | .constLoad d c => s!"C:{d}:{c}"
  | .nullOp f d => s!"N:{f}:{d}"
  | .unOp f d a => s!"U:{f}:{d}:{a}"
  | .binOp f d a b => s!"B:{f}:{d}:{a}:{b}"
  | .ternOp f d a b c => s!"T:{f}:{d}:{a}:{b}:{c}"
  | .quadOp f d a b c e => s!"Q:{f}:{d}:{a}:{b}:{c}:{e}"
  | .varArg f d args => s!"V:{f}:{d}:" ++ ",".intercalate (args.map toString)
  | .ret s => s!"R:{s}"

def instrsText (is : List Instr) : String :=
  if is.isEmpty then "-" else ";".intercalate (is.map instrText)

def runC07 (fields : List String) (obs : String) : String × String × String :=
  let eqv (m : String) := (m, if obs == m then "ok" else "bad:expected " ++ m, "-")
  match fields with
  | ["crc", h] =>
    match bytesOfHex h with
    | some f => eqv (hex8 (crc32 f))
    | none => ("bad-case", "bad-case", "-")
  | ["dmg", h, spec] =>
    match bytesOfHex h with
    | none => ("bad-case", "bad-case", "-")
    | some f =>
      match mutate f spec with
      | none => ("bad-case", "bad-case", "-")
      | some g =>
        -- files reaching `dmg … none` with a valid trailer are emitted files: they must load
        let pristine := spec == "none"
        let m := verifyObs g pristine
        -- spec: a damaged emitted file must be rejected (any error kind); a pristine one accepted;
        -- arbitrary byte strings (pristine, but failing the CRC) must be rejected without a host panic
        let v :=
          if pristine then (if obs == m then "ok" else "bad:expected " ++ m)
          else if obs.startsWith "rejected" then "ok" else "bad:damaged file must be rejected"
        -- model agreement is on the CRC stage only: any rejection kind after a CRC pass is not modelled here
        let m' := if !pristine && m == "crc-pass" then obs else m
        (m', v, "-")
  | ["sweep", h, kind] =>
    match bytesOfHex h with
    | none => ("bad-case", "bad-case", "-")
    | some f =>
      if kind == "flips" then
        -- by theorem C07_verify_rejects_flip every single-bit flip of a verifying file is rejected
        let n := 8 * f.length
        eqv s!"rejected={n}/{n}"
      else
        let n := f.length
        let rej := ((List.range n).filter (fun k => !verifies (f.take k))).length
        let m := s!"rejected={rej}/{n}"
        (m, if obs == s!"rejected={n}/{n}" then "ok" else "bad:every truncation must be rejected", "-")
  | ["rt", _] => eqv "same"
  | ["instrs", t] =>
    let parsed := if t == "-" then some [] else (t.splitOn ";").mapM parseInstr
    match parsed with
    | none => ("bad-case", "bad-case", "-")
    | some is =>
      let enc := encodeInstrs is
      let m := match decodeInstrs (enc.length + 1) enc with
        | .ok is' => "ok:" ++ instrsText is'
        | .error .truncated => "err:truncated"
        | .error _ => "err:other"
      let region := if noTrailingRet is then "-" else "C07-D4"
      (m, if obs == "ok:" ++ instrsText is then "ok" else "bad:instruction stream must round-trip", region)
  | _ => ("bad-case", "bad-case", "-")

end MechVerif.Driver
