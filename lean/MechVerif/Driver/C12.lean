import MechVerif.Driver.Scalar
import MechVerif.Model.ConvertTable
namespace MechVerif.Driver
open MechVerif.Num MechVerif.Scalar MechVerif.Mat MechVerif.Convert MechVerif.FloatX

/-- exact decimal text of a dyadic value with few fractional bits (what Rust's `Display`
    prints for such values) -/
def dyDecimal (v : FloatX.Dy) : String :=
  if v.e ≥ 0 then toString (v.m * (2 ^ v.e.toNat : Int)) else
  let k := (-v.e).toNat
  -- v = m / 2^k = m·5^k / 10^k
  let num := v.m.natAbs * 5 ^ k
  let ip := num / 10 ^ k
  let fp := num % 10 ^ k
  if fp == 0 then (if v.m < 0 then "-" else "") ++ toString ip else
  let digits := toString fp
  let padded := String.ofList (List.replicate (k - digits.length) '0') ++ digits
  let trimmed := String.ofList (padded.toList.reverse.dropWhile (· == '0')).reverse
  (if v.m < 0 then "-" else "") ++ toString ip ++ "." ++ trimmed

def hwConv : ConvImpl where
  f64ToF32 := fun b => (Float.ofBits b).toFloat32.toBits
  f64ToString := fun b => match decode64 b with | .finite v => dyDecimal v | _ => "?"
  f32ToString := fun b => match decode32 b with | .finite v => dyDecimal v | _ => "?"
  ratToF64 := fun n d => (Float.ofInt n / Float.ofInt d).toBits
  f64ToRat := fun b => match decode64 b with
    | .finite v =>
      if v.e ≥ 0 then some (v.m * (2 ^ v.e.toNat : Int), 1)
      else some (gcdNorm v.m (2 ^ (-v.e).toNat : Int))
    | _ => none

def setText (k : Kind) (els : List Val) : String :=
  let items := (els.map (fun v => kindName (kindOfVal k v) ++ ":" ++ elemText v))
  let sorted := items.toArray.qsort (· < ·) |>.toList
  s!"set:{kindName k}:n{els.length}:" ++ "{" ++ "|".intercalate sorted ++ "}"

/-- the kinds a function declares: a parameter `p<k2>` converts the argument, a result kind `<k2>` converts the value of
    the body, both through `Value::convert_to`.  Where the source can be converted without an annotation
    (`implicitlyConvertible`: the same kind, a wider integer, integer ↔ float, float ↔ float) the value is the converted
    number — the property demands that.  Elsewhere a parameter refuses the argument and a result keeps the body's value
    as it is (modelled, not demanded). -/
def runConvFn (isArg : Bool) (k1n k2n ot obs : String) : String × String × String :=
  match kindOfName k1n, kindOfName k2n with
  | some k1, some k2 =>
    (match parseOperand k1 ot with
     | some (.scalar v) =>
       let spec := match convertScalar hwConv k1 k2 v with | .ok y => operandText k2 (.scalar y) | .error _ => "err"
       if implicitlyConvertible k1 k2 then (spec, if obs == spec then "ok" else "bad:expected " ++ spec, "-")
       else (if isArg then "err" else operandText k1 (.scalar v), "ok", "-")
     | _ => ("bad-case", "bad-case", "-"))
  | _, _ => ("bad-case", "bad-case", "-")

def runC12 (fields : List String) (obs : String) : String × String × String :=
  let eqv (m : String) := (m, if obs == m then "ok" else "bad:expected " ++ m, "-")
  let res (model spec region : String) := (model, if obs == spec then "ok" else "bad:expected " ++ spec, if model == spec then "-" else region)
  -- a trailing `form=…` field says how the source is written (a variable, in place, a temporary value):
  -- the converted value does not depend on it
  match fields.filter (fun f => !f.startsWith "form=") with
  | ["optempty", _] => eqv "empty"
  | ["convarg", k1n, k2n, ot] => runConvFn true k1n k2n ot obs
  | ["convres", k1n, k2n, ot] => runConvFn false k1n k2n ot obs
  | ["convopt", k1n, k2n, ot] =>
    -- an option kind `k2?` takes a value exactly as `k2` does, or refuses it (either satisfies the property).  Which of
    -- the two happens is modelled: the value goes through `Value::convert_to`, which converts exactly the pairs
    -- `ValueKind::is_convertible_to` lists (`implicitlyConvertible`, tied to the source by Gen/ConvertTables.lean)
    -- and hands a value of the target kind back unchanged
    (match kindOfName k1n, kindOfName k2n with
     | some k1, some k2 =>
       (match parseOperand k1 ot with
        | some (.scalar v) =>
          let spec := match convertScalar hwConv k1 k2 v with | .ok y => operandText k2 (.scalar y) | .error _ => "err"
          let model := if implicitlyConvertible k1 k2 then spec else "err"
          (model, if obs == "err" || obs == spec then "ok" else "bad:expected " ++ spec, "-")
        | _ => ("bad-case", "bad-case", "-"))
     | _, _ => ("bad-case", "bad-case", "-"))
  | ["conv", k1n, k2n, ot] =>
    match kindOfName k1n, kindOfName k2n with
    | some k1, some k2 =>
      match parseOperand k1 ot with
      | some (.scalar v) =>
        let spec := match convertScalar hwConv k1 k2 v with | .ok y => operandText k2 (.scalar y) | .error _ => "err"
        let model := match convertScalarImpl hwConv k1 k2 v with | .ok y => operandText k2 (.scalar y) | .error _ => "err"
        res model spec "C12-D2"
      | some (.mat m) =>
        let spec := match convertMat hwConv k1 k2 m with | .ok y => operandText k2 (.mat y) | .error _ => "err"
        let model := match convertMatImpl hwConv k1 k2 m with | .ok y => operandText k2 (.mat y) | .error _ => "err"
        res model spec "C12-D1"
      | none => ("bad-case", "bad-case", "-")
    | _, _ => ("bad-case", "bad-case", "-")
  | ["reshape", k1n, ot, rt, ct, k2n] =>
    match kindOfName k1n, kindOfName k2n, rt.toNat?, ct.toNat? with
    | some k1, some k2, some r, some c =>
      match parseOperand k1 ot with
      | some (.mat m) =>
        let go (cm : Except Err (Mat Val)) : String := match cm with
          | .error _ => "err"
          | .ok m2 => match reshape m2 r c with | .ok y => operandText k2 (.mat y) | .error _ => "err"
        -- C12-D3: a shape annotation on a rational or complex source matrix is UnsupportedConversion
        if k1 == .r64 || k1 == .c64 then res "err" (go (convertMat hwConv k1 k2 m)) "C12-D3"
        else res (go (convertMatImpl hwConv k1 k2 m)) (go (convertMat hwConv k1 k2 m)) "C12-D1"
      | some (.scalar v) =>
        eqv (match convertScalar hwConv k1 k2 v with
          | .error _ => "err"
          | .ok y => operandText k2 (.mat (fill y r c)))
      | none => ("bad-case", "bad-case", "-")
    | _, _, _, _ => ("bad-case", "bad-case", "-")
  | ["toset2", k1n, k2n, ot] =>
    -- a set of another element kind: the elements converted one by one, then made distinct; the pinned
    -- commit refuses some kind pairs here (which ones is not modelled): a refusal is accepted
    (match kindOfName k1n, kindOfName k2n with
     | some k1, some k2 =>
       (match parseOperand k1 ot with
        | some (.mat m) =>
          if obs == "err" then ("err", "ok", "-") else
          (match convertMat hwConv k1 k2 m with
           | .ok y => eqv (setText k2 (toSetList y))
           | .error _ => eqv "err")
        | _ => ("bad-case", "bad-case", "-"))
     | _, _ => ("bad-case", "bad-case", "-"))
  | ["toset", kn, ot] =>
    match kindOfName kn with
    | some k =>
      match parseOperand k ot with
      | some (.mat m) => eqv (setText k (toSetList m))
      | _ => ("bad-case", "bad-case", "-")
    | none => ("bad-case", "bad-case", "-")
  | _ => ("bad-case", "bad-case", "-")

end MechVerif.Driver
