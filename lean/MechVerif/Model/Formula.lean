/-
The whole formula grammar at token level (src/syntax/src/expressions.rs):

  formula  := l1                       l_k := l_{k+1}, (operator of level k, l_{k+1})*
  factor   := ( "(" formula ")" | "-" factor | "!" factor | atom ), "'"?

`-` is one character with two readings: where an operand is expected it is the prefix of
`negate_factor`, after an operand it is the binary subtraction operator.  Atoms (literals,
variables, calls, structures, slices) are opaque.  Whitespace is not modelled.

The parser collects one operand, then (operator, operand) pairs for as long as an operator
follows, and groups the flat sequence by level with `Prec.parseFormula` (the level-by-level
descent of `Model/Prec.lean`, proved in C02 to return the unique well-grouped tree).  Every
recursive call spends one unit of fuel, so all three functions are structurally recursive.
-/
import MechVerif.Model.Prec
namespace MechVerif.Formula
open MechVerif.Prec

inductive Tok where
  | atom (n : Nat)
  | lp | rp
  | op (o : Op)        -- a binary operator other than `-`
  | dash | bang | quote
deriving DecidableEq, Repr

/-- `Factor`: an atom, a parenthesised formula, a prefix operator on a factor, a transposed factor -/
inductive Fac where
  | atom (n : Nat)
  | paren (t : Tree Fac)
  | neg (f : Fac)
  | not (f : Fac)
  | tr (f : Fac)

abbrev Trm := Tree Fac

/-- the grammar: number of levels and the subtraction operator (what a `-` after an operand means) -/
structure Gram where
  N : Nat
  sub : Op

/-- an operator of one of the grammar's levels -/
def Gram.lvlOk (g : Gram) (o : Op) : Bool := decide (1 ≤ o.lvl) && decide (o.lvl ≤ g.N)

/-- the binary operator a token denotes where an operator is expected (every operator of the real
    grammar belongs to a level and subtraction is only ever written `-`: other `op` tokens are not
    tokens of the language and end the chain like any other foreign token) -/
def Gram.binOp? (g : Gram) : Tok → Option Op
  | .op o => if g.lvlOk o && decide (o ≠ g.sub) then some o else none
  | .dash => if g.lvlOk g.sub then some g.sub else none
  | _ => none

/-- `opt(transpose)` after a factor -/
def post (f : Fac) : List Tok → Fac × List Tok
  | .quote :: r => (.tr f, r)
  | r => (f, r)

mutual
/-- `factor` -/
def pFac (g : Gram) : Nat → List Tok → Option (Fac × List Tok)
  | 0, _ => none
  | n + 1, ts =>
    match ts with
    | .atom a :: r => some (post (.atom a) r)
    | .lp :: r =>
      (match pForm g n r with
       | some (t, .rp :: r') => some (post (.paren t) r')
       | _ => none)
    | .dash :: r => (match pFac g n r with | some (f, r') => some (post (.neg f) r') | none => none)
    | .bang :: r => (match pFac g n r with | some (f, r') => some (post (.not f) r') | none => none)
    | _ => none
/-- `many0(pair(operator, cut(operand)))` over all levels: the flat sequence after the first operand -/
def pChain (g : Gram) : Nat → List Tok → Option (Rest Fac × List Tok)
  | 0, _ => none
  | n + 1, ts =>
    match ts with
    | [] => some ([], [])
    | t :: r =>
      (match g.binOp? t with
       | none => some ([], t :: r)
       | some o =>
         -- `cut`: once the operator is read an operand must follow
         (match pFac g n r with
          | none => none
          | some (f, r1) =>
            (match pChain g n r1 with
             | none => none
             | some (ps, r2) => some ((o, f) :: ps, r2))))
/-- `formula` -/
def pForm (g : Gram) : Nat → List Tok → Option (Trm × List Tok)
  | 0, _ => none
  | n + 1, ts =>
    match pFac g n ts with
    | none => none
    | some (a, r) =>
      (match pChain g n r with
       | none => none
       | some (ps, r') =>
         let res := parseFormula g.N a ps
         -- an operator of no level stops the descent: the formula ends before it
         if res.2.isEmpty then some (res.1, r') else none)
end

/-- the token of a binary operator -/
def Gram.opTok (g : Gram) (o : Op) : Tok := if o = g.sub then .dash else .op o

mutual
/-- the formatter's rendering of a factor … -/
def rFac (g : Gram) : Fac → List Tok
  | .atom n => [.atom n]
  | .paren t => .lp :: rTrm g t ++ [.rp]
  | .neg f => .dash :: rFac g f
  | .not f => .bang :: rFac g f
  | .tr f => rFac g f ++ [.quote]
/-- … and of a term: operands and operators in order, nothing added -/
def rTrm (g : Gram) : Trm → List Tok
  | .leaf f => rFac g f
  | .node l o r => rTrm g l ++ g.opTok o :: rTrm g r
end

/-- rendering of the flat sequence after the first operand -/
def rRest (g : Gram) : Rest Fac → List Tok
  | [] => []
  | (o, f) :: ps => g.opTok o :: rFac g f ++ rRest g ps

mutual
/-- the value of a factor, for any reading of atoms, prefix/postfix operators and binary operators -/
def evalFac {β : Type} (atom : Nat → β) (neg not tr : β → β) (ap : Op → β → β → β) : Fac → β
  | .atom n => atom n
  | .paren t => evalTrm atom neg not tr ap t
  | .neg f => neg (evalFac atom neg not tr ap f)
  | .not f => not (evalFac atom neg not tr ap f)
  | .tr f => tr (evalFac atom neg not tr ap f)
def evalTrm {β : Type} (atom : Nat → β) (neg not tr : β → β) (ap : Op → β → β → β) : Trm → β
  | .leaf f => evalFac atom neg not tr ap f
  | .node l o r => ap o (evalTrm atom neg not tr ap l) (evalTrm atom neg not tr ap r)
end

/-- an arbitrary grouping written with explicit parentheses around every operation -/
def parenAll : Trm → Fac
  | .leaf f => f
  | .node l o r => .paren (.node (.leaf (parenAll l)) o (.leaf (parenAll r)))

mutual
/-- fuel that suffices to read the rendering back -/
def costF : Fac → Nat
  | .atom _ => 1
  | .paren t => 3 + costT t
  | .neg f => 1 + costF f
  | .not f => 1 + costF f
  | .tr f => 1 + costF f
def costT : Trm → Nat
  | .leaf f => 1 + costF f
  | .node l _ r => 1 + costT l + costT r
end

end MechVerif.Formula
