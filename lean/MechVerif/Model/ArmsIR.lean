/-
The control skeleton of user-function calls and of match expressions as written
(src/interpreter/src/functions.rs: `execute_user_function`, `execute_function_match_arms`;
 src/interpreter/src/expressions.rs: `match_expression`), as two small statement languages.

`tools/extract_arms.py` reads the three functions statement by statement and writes them as values of `FStmt` /
`MStmt` into Gen/ArmsSkeleton.lean.  Here: the languages, their meaning (`execF`, `runArms`, `runUser`, `execM`,
`runMatchExpr`) with the leaf operations as parameters (`FOps`, `MOps`), the skeletons the model of Model/Arms.lean
stands for (`expectedUser`, `expectedArms`, `expectedMatch`) and the model's leaves (`modelFOps`, `modelMOps`).

Names of locals are resolved by the extractor to what they are bound to:
  `ArgRef.orig`   the parameter `input_arg_values` of the function being read,
  `ArgRef.cur`    the local bound by `let mut X = input_arg_values.clone()` before the `loop`,
  `ArgRef.next`   what `FunctionCallStep::TailCall(X)` binds,
  `EnvRef.base`   the local bound by `let mut X = env.cloned().unwrap_or_default()`,
  `EnvRef.arm`    in `execute_function_match_arms` the local bound by `let mut X = Environment::new()`, in
                  `match_expression` the local bound by `let mut X = <base>.clone()`,
  `BVar.matched`  the local bound by `let X = pattern_matches_arguments(..)?` / `let X = match &arm.pattern {..}`,
  `BVar.passed`   the local bound by `let X = [matched &&] match &arm.guard {..}`.
-/
import MechVerif.Model.Arms
namespace MechVerif.ArmsIR
open MechVerif.Arms

inductive ArgRef where
  | orig | cur | next
deriving DecidableEq, Repr

inductive EnvRef where
  | base | arm
deriving DecidableEq, Repr

inductive Dir where
  | forward | reverse
deriving DecidableEq, Repr

inductive BVar where
  | matched | passed
deriving DecidableEq, Repr

inductive BExp where
  | var (v : BVar)
  | not (e : BExp)
  | and (a b : BExp)
deriving DecidableEq, Repr

/-! ### user functions -/

inductive FStmt where
  | skip
  | seq (a b : FStmt)
  | ite (c : BExp) (t f : FStmt)
  -- execute_user_function
  | arityCheck                 -- `if input_arg_values.len() != fxn_def.input.len() { return Err(IncorrectNumberOfArguments ..) }`
  | tryBroadcast (a : ArgRef)  -- `if let Some(r) = try_broadcast_user_function(fxn_def, a, p)? { return Ok(r); }`
  | ifArms (t f : FStmt)       -- `let output = if !fxn_def.code.match_arms.is_empty() { t } else { f };`
  | setCur (a : ArgRef)        -- `let mut current_args = a.clone();` / `current_args = a;`
  | loop (body : FStmt)        -- `loop { body }`
  | enterScope                 -- `let scope = FunctionScope::enter(p);`
  | dropScope                  -- `drop(scope);`
  | bindInputs (a : ArgRef)    -- `bind_function_inputs(fxn_def, &a, p)?;`
  | callArms (a : ArgRef)      -- `let step = execute_function_match_arms(fxn_def, &a, p)?;`
  | matchStep (ret tail : FStmt)  -- `match step { Return(value) => ret, TailCall(next_args) => tail }`
  | breakValue                 -- `break Ok(value)`
  | plainBody                  -- the statement body of a function without arms (not read)
  | returnOutput               -- `match output { Ok(v) => Ok(v), Err(e) => Err(e) }` (the value of the function)
  -- execute_function_match_arms
  | enumCheck                  -- the `#[cfg(all(kind_annotation, enum))] { .. }` block: only for an input of an enum kind
  | forArms (d : Dir) (body : FStmt)   -- `for (_, arm) in fxn_def.code.match_arms.iter()[.rev()].enumerate() { body }`
  | newEnv                     -- `let mut env = Environment::new();`
  | matchArgs (a : ArgRef)     -- `let matched = pattern_matches_arguments(&arm.pattern, a, &mut env, p)?;`
  | ifSelfCall (t : FStmt)     -- `if let Expression::FunctionCall(c) = &arm.expression { if c.name.hash() == fxn_def.code.name.hash() { t } }`
  | evalTailArgs               -- `let mut tail_args = ..; for (_, e) in c.args.iter() { tail_args.push(expression(e, Some(&env), p)?); }`
  | ifTailArity (t : FStmt)    -- `if tail_args.len() == fxn_def.input.len() { t }`
  | returnTail                 -- `return Ok(FunctionCallStep::TailCall(tail_args));`
  | evalBody                   -- `let out = expression(&arm.expression, Some(&env), p)?;`
  | coerce                     -- `let coerced = coerce_function_output_kind(detach_value(&out), fxn_def, p)?;`
  | returnValue                -- `return Ok(FunctionCallStep::Return(coerced));`
  | failNoArm                  -- `Err(FunctionOutputUndefinedError ..)` (the value of the function)
deriving DecidableEq, Repr

/-- the leaf operations of a call -/
structure FOps where
  arity : Nat
  arms : List (P × E)
  /-- `try_broadcast_user_function`: `none` when it does not apply -/
  broadcast : List S → Except Err (Option S)
  /-- `bind_function_inputs`: the function scope with the declared inputs bound -/
  bindInputs : List S → Except Err Env
  /-- `pattern_matches_arguments(pattern, args, &mut env, p)`: whether it matched and what became of `env` -/
  matchArgs : P → List S → Env → Except Err (Bool × Env)
  /-- the argument expressions when the body is literally a call of the function being run -/
  selfCall : E → Option (List E)
  evalArgs : Env → List E → Except Err (List S)
  evalBody : Env → E → Except Err S
  coerce : S → Except Err S
  enumCheck : Except Err Unit
  plain : List S → Except Err S

inductive Res where
  | step (s : Step)
  | val (v : S)

structure FStore where
  orig : List S
  cur : List S := []
  next : List S := []
  /-- the function scope (the symbol table swapped in by `FunctionScope::enter`), seen by every evaluation after the arm's environment -/
  scope : Env := []
  env : Env := []
  matched : Bool := false
  arm : Option (P × E) := none
  step : Option Step := none
  value : Option S := none
  tailExprs : Option (List E) := none
  tailArgs : Option (List S) := none
  out : Option S := none
  coerced : Option S := none
  output : Option (Except Err S) := none

inductive FOut where
  | next (s : FStore)
  | brk (s : FStore)
  | ret (r : Except Err Res)
  | stuck

def FStore.args (s : FStore) : ArgRef → List S
  | .orig => s.orig | .cur => s.cur | .next => s.next

def evalBF (s : FStore) : BExp → Bool
  | .var .matched => s.matched
  | .var .passed => false
  | .not e => !evalBF s e
  | .and a b => evalBF s a && evalBF s b

/-- Rust's `loop`: `break` leaves it; a bound on the number of turns stands for the model's fuel -/
def loopN (step : FStore → FOut) : Nat → FStore → FOut
  | 0, _ => .ret (.error .fuel)
  | n + 1, s =>
    match step s with
    | .next s' => loopN step n s'
    | .brk s' => .next s'
    | o => o

/-- Rust's `for` over a list, with `break` -/
def iter {α σ : Type} {O : Type} (next? : O → Option σ) (brk? : O → Option σ) (mk : σ → O)
    (step : α → σ → O) : List α → σ → O
  | [], s => mk s
  | a :: rest, s =>
    let o := step a s
    match next? o with
    | some s' => iter next? brk? mk step rest s'
    | none => match brk? o with
      | some s' => mk s'
      | none => o

def FOut.next? : FOut → Option FStore | .next s => some s | _ => none
def FOut.brk? : FOut → Option FStore | .brk s => some s | _ => none

def ordered {α : Type} (d : Dir) (l : List α) : List α := match d with | .forward => l | .reverse => l.reverse

def execF (ops : FOps) (callee : List S → Env → Option (Except Err Step)) (fuel : Nat) : FStmt → FStore → FOut
  | .skip, s => .next s
  | .seq a b, s =>
    (match execF ops callee fuel a s with
     | .next s' => execF ops callee fuel b s'
     | o => o)
  | .ite c t f, s => if evalBF s c then execF ops callee fuel t s else execF ops callee fuel f s
  | .arityCheck, s => if s.orig.length ≠ ops.arity then .ret (.error .arity) else .next s
  | .tryBroadcast a, s =>
    (match ops.broadcast (s.args a) with
     | .error e => .ret (.error e)
     | .ok (some r) => .ret (.ok (.val r))
     | .ok none => .next s)
  | .ifArms t f, s => if ops.arms.isEmpty then execF ops callee fuel f s else execF ops callee fuel t s
  | .setCur a, s => .next { s with cur := s.args a }
  | .loop body, s => loopN (execF ops callee fuel body) fuel s
  | .enterScope, s => .next { s with scope := [] }
  | .dropScope, s => .next { s with scope := [] }
  | .bindInputs a, s =>
    (match ops.bindInputs (s.args a) with
     | .error e => .ret (.error e)
     | .ok sc => .next { s with scope := sc })
  | .callArms a, s =>
    (match callee (s.args a) s.scope with
     | none => .stuck
     | some (.error e) => .ret (.error e)
     | some (.ok st) => .next { s with step := some st })
  | .matchStep r t, s =>
    (match s.step with
     | none => .stuck
     | some (.ret v) => execF ops callee fuel r { s with value := some v }
     | some (.tail xs) => execF ops callee fuel t { s with next := xs })
  | .breakValue, s => (match s.value with | some v => .brk { s with output := some (.ok v) } | none => .stuck)
  | .plainBody, s => .next { s with output := some (ops.plain s.orig) }
  | .returnOutput, s =>
    (match s.output with
     | none => .stuck
     | some (.ok v) => .ret (.ok (.val v))
     | some (.error e) => .ret (.error e))
  | .enumCheck, s => (match ops.enumCheck with | .error e => .ret (.error e) | .ok _ => .next s)
  | .forArms d body, s =>
    iter FOut.next? FOut.brk? FOut.next (fun arm s => execF ops callee fuel body { s with arm := some arm }) (ordered d ops.arms) s
  | .newEnv, s => .next { s with env := [] }
  | .matchArgs a, s =>
    (match s.arm with
     | none => .stuck
     | some (p, _) =>
       match ops.matchArgs p (s.args a) s.env with
       | .error e => .ret (.error e)
       | .ok (m, env) => .next { s with matched := m, env := env })
  | .ifSelfCall t, s =>
    (match s.arm with
     | none => .stuck
     | some (_, body) =>
       match ops.selfCall body with
       | none => .next s
       | some es => execF ops callee fuel t { s with tailExprs := some es })
  | .evalTailArgs, s =>
    (match s.tailExprs with
     | none => .stuck
     | some es =>
       match ops.evalArgs (s.env ++ s.scope) es with
       | .error e => .ret (.error e)
       | .ok xs => .next { s with tailArgs := some xs })
  | .ifTailArity t, s =>
    (match s.tailArgs with
     | none => .stuck
     | some xs => if xs.length = ops.arity then execF ops callee fuel t s else .next s)
  | .returnTail, s => (match s.tailArgs with | none => .stuck | some xs => .ret (.ok (.step (.tail xs))))
  | .evalBody, s =>
    (match s.arm with
     | none => .stuck
     | some (_, body) =>
       match ops.evalBody (s.env ++ s.scope) body with
       | .error e => .ret (.error e)
       | .ok v => .next { s with out := some v })
  | .coerce, s =>
    (match s.out with
     | none => .stuck
     | some v => match ops.coerce v with | .error e => .ret (.error e) | .ok w => .next { s with coerced := some w })
  | .returnValue, s => (match s.coerced with | none => .stuck | some v => .ret (.ok (.step (.ret v))))
  | .failNoArm, _ => .ret (.error .noArm)

/-- `execute_function_match_arms(fxn_def, args, p)` in the function scope `scope`; `none`: the tree reads a name that is not bound -/
def runArms (ops : FOps) (prog : FStmt) (args : List S) (scope : Env) : Option (Except Err Step) :=
  match execF ops (fun _ _ => none) 0 prog { orig := args, scope := scope } with
  | .ret (.ok (.step st)) => some (.ok st)
  | .ret (.error e) => some (.error e)
  | _ => none

/-- `execute_user_function(fxn_def, args, p)`; `fuel` bounds the turns of the tail-call loop -/
def runUser (ops : FOps) (armsProg prog : FStmt) (fuel : Nat) (args : List S) : Option (Except Err S) :=
  match execF ops (runArms ops armsProg) fuel prog { orig := args } with
  | .ret (.ok (.val v)) => some (.ok v)
  | .ret (.error e) => some (.error e)
  | _ => none

/-- the skeleton `stepArms` stands for -/
def expectedArms : FStmt :=
  .seq .enumCheck
  (.seq (.forArms .forward
    (.seq .newEnv
    (.seq (.matchArgs .orig)
    (.ite (.var .matched)
      (.seq (.ifSelfCall (.seq .evalTailArgs (.ifTailArity .returnTail)))
      (.seq .evalBody
      (.seq .coerce
      .returnValue)))
      .skip))))
  .failNoArm)

/-- the skeleton `callImpl` / `loopArms` stand for -/
def expectedUser : FStmt :=
  .seq .arityCheck
  (.seq (.tryBroadcast .orig)
  (.seq (.ifArms
    (.seq (.setCur .orig)
    (.loop
      (.seq .enterScope
      (.seq (.bindInputs .cur)
      (.seq (.callArms .cur)
      (.seq .dropScope
      (.matchStep .breakValue (.setCur .next))))))))
    .plainBody)
  .returnOutput))

/-- the argument expressions of a body that is literally a call of the function -/
def selfCallArgs : E → Option (List E)
  | .call1 a => some [a]
  | .call2 a b => some [a, b]
  | _ => none

/-- the model's reading of the leaves.  `self` is the meaning of a nested call; `left` is what a failed match leaves
    in the environment it was given (arbitrary: the accepted skeleton throws that environment away) -/
def modelFOps (f : FDef) (self : List S → Except Err S) (left : P → List S → Env → Env) : FOps :=
  { arity := f.arity
    arms := f.arms
    broadcast := fun _ => .ok none            -- the arguments of the model's calls are scalars
    bindInputs := fun a => .ok (inputsEnv f a)
    matchArgs := fun p a env =>
      match Arms.matchArgs p a env with
      | some e => .ok (true, e)
      | none => .ok (false, left p a env)
    selfCall := selfCallArgs
    evalArgs := Arms.evalArgs self
    evalBody := evalScalar self
    coerce := fun v => .ok v
    enumCheck := .ok ()                      -- no input of an enum kind
    plain := fun _ => .error .undef }

/-! ### match expressions -/

inductive MStmt where
  | skip
  | seq (a b : MStmt)
  | ite (c : BExp) (t f : MStmt)
  | evalSource                 -- `let source = expression(&match_expr.source, env, p)?;`
  | detach                     -- `let detached_source = match &source { MutableReference(r) => r.borrow().clone(), _ => source.clone() };`
  | baseFromCaller             -- `let mut base_env = env.cloned().unwrap_or_default();`
  | bindSourceVar              -- `if let Expression::Var(v) = &match_expr.source { base_env.insert(v.name.hash(), detached_source.clone()); }`
  | ifNoWildcard (t : MStmt)   -- `if !match_expr.arms.iter().any(|arm| matches!(arm.pattern, Pattern::Wildcard)) { t }`
  | ifInferMissing (t f : MStmt)  -- `if let Some((name, missing)) = infer_missing_enum_match_patterns(match_expr, &detached_source, p) { t } else { f }`
  | ifMissingEmpty (t f : MStmt)  -- `if missing.is_empty() { t } else { f }`
  | validateAll (e : EnvRef)   -- `validate_match_arm_output_kinds(match_expr, &e, p)?;`
  | failVariants               -- `return Err(MatchNonExhaustiveVariantsError ..)`
  | failNonExhaustive          -- `return Err(MatchNonExhaustiveError)`
  | emptySpecial               -- `if value_contains_empty(&detached_source) && .. { .. }` (sources with `_`: not read)
  | forArms (d : Dir) (body : MStmt)   -- `for (arm_ix, arm) in match_expr.arms.iter()[.rev()].enumerate() { body }`
  | cloneEnv (src : EnvRef)    -- `let mut guard_env = src.clone();`
  | matchPat (wild : Bool) (e : EnvRef)
      -- `let matched = match &arm.pattern { Pattern::Wildcard => wild, _ => pattern_matches_value_with_semantics(&arm.pattern, &detached_source, &mut e, p, OptionGuard)? };`
  | guard (gate : Bool) (e : EnvRef)
      -- `let passed_guard = [matched &&] match &arm.guard { Some(g) => guard_expression_true(g, &e, p)?, None => true };`
  | emptyCoalesce              -- the `#[cfg(feature = "matrix")] if value_contains_empty(..) && is_identity_option_matrix_arm(arm) { .. }` (not read)
  | evalBody (e : EnvRef)      -- `let output = expression(&arm.expression, Some(&e), p)?;`
  | validateKinds (e : EnvRef) -- `match_validate_arm_kinds(match_expr, arm_ix, &output.kind(), &detached_source, &e, p)?;`
  | returnOutput               -- `return Ok(output);`
  | failNoArm                  -- `Err(MatchNoArmMatchedError)` (the value of the function)
deriving DecidableEq, Repr

structure MOps where
  arms : List Arm
  src : V
  callerEnv : Env
  bindSource : Env → Env
  /-- `infer_missing_enum_match_patterns`: the missing variants when the source is of a known enum -/
  inferMissing : Option (List String)
  validateAll : Env → Except Err Unit
  /-- `pattern_matches_value_with_semantics(pattern, source, &mut env, p, OptionGuard)` -/
  matchP : P → V → Env → Except Err (Bool × Env)
  guardTrue : Env → E → Except Err Bool
  evalBody : Env → E → Except Err V
  /-- `match_validate_arm_kinds(match_expr, ix, kind of the value, source, base, p)` -/
  validateKinds : Nat → V → Env → Except Err Unit
  /-- what the blocks for sources with empty values do (`none`: nothing) -/
  emptySpecial : Option (Except Err V)

structure MStore where
  base : Env := []
  armEnv : Env := []
  matched : Bool := false
  passed : Bool := false
  missing : Option (List String) := none
  arm : Option (Arm × Nat) := none
  output : Option V := none

inductive MOut where
  | next (s : MStore)
  | brk (s : MStore)
  | ret (r : Except Err V)
  | stuck

def MOut.next? : MOut → Option MStore | .next s => some s | _ => none
def MOut.brk? : MOut → Option MStore | .brk s => some s | _ => none

def MStore.env (s : MStore) : EnvRef → Env
  | .base => s.base | .arm => s.armEnv

def MStore.setEnv (s : MStore) (r : EnvRef) (e : Env) : MStore :=
  match r with | .base => { s with base := e } | .arm => { s with armEnv := e }

def evalBM (s : MStore) : BExp → Bool
  | .var .matched => s.matched
  | .var .passed => s.passed
  | .not e => !evalBM s e
  | .and a b => evalBM s a && evalBM s b

def execM (ops : MOps) : MStmt → MStore → MOut
  | .skip, s => .next s
  | .seq a b, s =>
    (match execM ops a s with
     | .next s' => execM ops b s'
     | o => o)
  | .ite c t f, s => if evalBM s c then execM ops t s else execM ops f s
  | .evalSource, s => .next s
  | .detach, s => .next s
  | .baseFromCaller, s => .next { s with base := ops.callerEnv }
  | .bindSourceVar, s => .next { s with base := ops.bindSource s.base }
  | .ifNoWildcard t, s => if hasWildcard ops.arms then .next s else execM ops t s
  | .ifInferMissing t f, s =>
    (match ops.inferMissing with
     | some m => execM ops t { s with missing := some m }
     | none => execM ops f s)
  | .ifMissingEmpty t f, s =>
    (match s.missing with
     | none => .stuck
     | some m => if m.isEmpty then execM ops t s else execM ops f s)
  | .validateAll e, s => (match ops.validateAll (s.env e) with | .error err => .ret (.error err) | .ok _ => .next s)
  | .failVariants, _ => .ret (.error .nonExhaustive)
  | .failNonExhaustive, _ => .ret (.error .nonExhaustive)
  | .emptySpecial, s => (match ops.emptySpecial with | some r => .ret r | none => .next s)
  | .forArms d body, s =>
    iter MOut.next? MOut.brk? MOut.next (fun arm s => execM ops body { s with arm := some arm }) (ordered d ops.arms.zipIdx) s
  | .cloneEnv src, s => .next { s with armEnv := s.env src }
  | .matchPat wild e, s =>
    (match s.arm with
     | none => .stuck
     | some (arm, _) =>
       if arm.pat = .sp .wild then .next { s with matched := wild } else
       match ops.matchP arm.pat ops.src (s.env e) with
       | .error err => .ret (.error err)
       | .ok (m, env) => .next { (s.setEnv e env) with matched := m })
  | .guard gate e, s =>
    (match s.arm with
     | none => .stuck
     | some (arm, _) =>
       if gate && !s.matched then .next { s with passed := false } else
       match arm.guard with
       | none => .next { s with passed := true }
       | some g =>
         match ops.guardTrue (s.env e) g with
         | .error err => .ret (.error err)
         | .ok b => .next { s with passed := b })
  | .emptyCoalesce, s => (match ops.emptySpecial with | some r => .ret r | none => .next s)
  | .evalBody e, s =>
    (match s.arm with
     | none => .stuck
     | some (arm, _) =>
       match ops.evalBody (s.env e) arm.body with
       | .error err => .ret (.error err)
       | .ok v => .next { s with output := some v })
  | .validateKinds e, s =>
    (match s.arm, s.output with
     | some (_, ix), some v =>
       (match ops.validateKinds ix v (s.env e) with
        | .error err => .ret (.error err)
        | .ok _ => .next s)
     | _, _ => .stuck)
  | .returnOutput, s => (match s.output with | none => .stuck | some v => .ret (.ok v))
  | .failNoArm, _ => .ret (.error .noArm)

/-- `match_expression`; `none`: the tree reads a name that is not bound, or ends without a value -/
def runMatchExpr (ops : MOps) (prog : MStmt) : Option (Except Err V) :=
  match execM ops prog {} with
  | .ret r => some r
  | _ => none

/-- the skeleton `matchExpr` / `runMatch` / `firstArm` / `armApplies` stand for -/
def expectedMatch : MStmt :=
  .seq .evalSource
  (.seq .detach
  (.seq .baseFromCaller
  (.seq .bindSourceVar
  (.seq (.ifNoWildcard
    (.ifInferMissing
      (.ifMissingEmpty (.validateAll .base) .failVariants)
      .failNonExhaustive))
  (.seq .emptySpecial
  (.seq (.forArms .forward
    (.seq (.cloneEnv .base)
    (.seq (.matchPat true .arm)
    (.seq (.guard true .arm)
    (.ite (.and (.var .matched) (.var .passed))
      (.seq .emptyCoalesce
      (.seq (.evalBody .arm)
      (.seq (.validateKinds .base)
      .returnOutput)))
      .skip)))))
  .failNoArm))))))

/-- the model's reading of the leaves of `match_expression`: a top-level match (no caller environment), a source
    without empty values, `variants` the variants of the source's enum -/
def modelMOps (variants : List String) (arms : List Arm) (src : V) (left : P → V → Env → Env) : MOps :=
  { arms := arms
    src := src
    callerEnv := []
    bindSource := fun e => e
    inferMissing :=
      (match src with
       | .enm _ _ => if (armTags arms).isEmpty then none else some (variants.filter (fun t => !(armTags arms).contains t))
       | _ => none)
    validateAll := fun _ => Arms.validateAll none arms
    matchP := fun p v env =>
      match Arms.matchP true p v env with
      | some e => .ok (true, e)
      | none => .ok (false, left p v env)
    guardTrue := fun env g => Arms.guardTrue env (some g)
    evalBody := evalE noSelf
    validateKinds := fun ix v env => Arms.validateKinds env src ix (kindOf v) arms.zipIdx
    emptySpecial := none }

end MechVerif.ArmsIR
