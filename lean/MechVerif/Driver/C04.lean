import MechVerif.Driver.C03
import MechVerif.Spec.Assign
namespace MechVerif.Driver
open MechVerif.Num MechVerif.Scalar MechVerif.Mat MechVerif.Index MechVerif.Assign

def matObs (k : Kind) (m : Mat Val) : String := operandText k (.mat m)

/-- selector indices without the mask-length check (what the kernels effectively use) -/
def lenientIxs (s : Sel) (n : Nat) : List Nat :=
  match s with
  | .scalar i => [i]
  | .vec ix => ix
  | .all => (List.range n).map (· + 1)
  | .mask b => maskIx b

/-- 0-based linear positions an assignment may legitimately touch -/
def lenientTargets (m : Mat Val) (s1 : Sel) (s2 : Option Sel) : List Nat :=
  match s2 with
  | none => ((lenientIxs s1 (m.rows * m.cols)).filter (fun i => 1 ≤ i && i ≤ m.rows * m.cols)).map (· - 1)
  | some s2 =>
    let R := (lenientIxs s1 m.rows).filter (fun i => 1 ≤ i && i ≤ m.rows)
    let C := (lenientIxs s2 m.cols).filter (fun i => 1 ≤ i && i ≤ m.cols)
    (pairs R C).map (fun p => (p.2 - 1) * m.rows + (p.1 - 1))

/-- finding C04-D4/D5 as a decidable behaviour: the assignment should have been rejected;
    whatever the implementation did, it only wrote addressed in-range elements, and
    wrote the value the assignment denotes -/
def onlyAddressedChanged (f : Val → Val → Except Err Val) (m : Mat Val) (after : List Val)
    (targets : List Nat) (src : Operand Val) : Bool :=
  after.length == m.data.length &&
  (List.range after.length).all (fun p =>
    match m.data[p]?, after[p]? with
    | some old, some new =>
      new == old || (targets.contains p &&
        (match src with
         | .scalar v => (match f old v with | .ok x => x == new | .error _ => false)
         | .mat w => w.data.any (fun v => match f old v with | .ok x => x == new | .error _ => false)))
    | _, _ => false)

def parseAfter (k : Kind) (obs : String) : Option (String × List Val) :=
  match obs.splitOn "#" with
  | [st, mt] =>
    match parseMatObs mt with
    | some mo => (mo.els.mapM (parseElem k)).map (fun d => (st, d))
    | none => none
  | _ => none

/-- groups of six fields -/
def chunk6 : List String → List (List String)
  | a :: b :: c :: d :: e :: f :: rest => [a, b, c, d, e, f] :: chunk6 rest
  | _ => []

/-- a sequence of assignments to the same variable: every step is applied to what the previous
    steps left (the reference update).  A step the reference rejects (an arithmetic overflow of the
    kind, say) must leave the variable as it was; the documented non-atomic behaviour of a failing
    kernel (finding C04-D4) is recognised as in the single-assignment cases and ends the comparison. -/
def runC04seq (kn mt : String) (steps : List (List String)) (obs : String) : String × String × String :=
  match kindOfName kn with
  | none => ("bad-case", "bad-case", "-")
  | some k =>
    match parseOperand k mt with
    | some (.mat m0) =>
      let rec go (m : Mat Val) (sts : List (List String)) (os : List String) (ms ss : List String) : String × String × String :=
        match sts with
        | [] =>
          let spec := "@".intercalate ss
          ("@".intercalate ms, if obs == spec then "ok" else "bad:expected " ++ spec, "-")
        | st :: rest =>
          match st with
          | [s1t, s2t, opn, srct, srckn, _mode] =>
            (match kindOfName srckn with
             | some sk =>
               (match parseOperand sk srct, parseSel s1t, (if s2t == "-" then some (Sel.all, "-") else parseSel s2t) with
                | some src, some (s1, _), some (s2, _) =>
                  let twoD := s2t != "-"
                  let f : Val → Val → Except Err Val :=
                    if sk != k then (fun _ _ => .error .kind)
                    else match opn with
                      | "set" => (fun _ v => .ok v)
                      | "add" => scalarOp hwFloat k .add | "sub" => scalarOp hwFloat k .sub
                      | "mul" => scalarOp hwFloat k .mul | "div" => scalarOp hwFloat k .div
                      | _ => (fun _ _ => .error .other)
                  let r := if twoD then assign2 f m s1 s2 src else assign1 f m s1 src
                  let specM : Option (Mat Val) :=
                    if twoD then (match src with | .scalar v => update2 f m s1 s2 v | _ => none) else update1 f m s1 src
                  let mtxt := (match r.2 with | .ok _ => "ok#" | .error _ => "err#") ++ matObs k r.1
                  let stxt := match specM with | some m' => "ok#" ++ matObs k m' | none => "err#" ++ matObs k m
                  let o := os.headD ""
                  if specM.isNone && o != stxt then
                    -- rejected by the reference, and the variable did not stay as it was
                    let okBehaviour := match parseAfter k o with
                      | some (_, after) => onlyAddressedChanged f m after (lenientTargets m s1 (if twoD then some s2 else none)) src
                      | none => false
                    let spec := "@".intercalate (ss ++ [stxt])
                    (if okBehaviour then obs else "@".intercalate (ms ++ [mtxt]), "bad:expected " ++ spec ++ " (then the rest of the sequence)",
                      if okBehaviour && ("@".intercalate (os.take 0 ++ ss) == "@".intercalate ((obs.splitOn "@").take ss.length)) then "C04-D4" else "-")
                  else go (specM.getD m) rest (os.drop 1) (ms ++ [mtxt]) (ss ++ [stxt])
                | _, _, _ => ("bad-case", "bad-case", "-"))
             | none => ("bad-case", "bad-case", "-"))
          | _ => ("bad-case", "bad-case", "-")
      go m0 steps (obs.splitOn "@") [] []
    | _ => ("bad-case", "bad-case", "-")

def runC04 (fields : List String) (obs : String) : String × String × String :=
  match fields with
  | "aseq" :: kn :: mt :: rest => runC04seq kn mt (chunk6 rest) obs
  | _ :: kn :: mt :: s1t :: s2t :: opn :: srct :: srckn :: _mode :: label :: rest =>
    match kindOfName kn, kindOfName srckn with
    | some k, some sk =>
      match parseOperand k mt, parseOperand sk srct with
      | some (.mat m), some src =>
        match parseSel s1t, (if s2t == "-" then some (Sel.all, "-") else parseSel s2t) with
        | some (s1, _), some (s2, _) =>
          let twoD := s2t != "-"
          let f : Val → Val → Except Err Val :=
            if sk != k then (fun _ _ => .error .kind)
            else match opn with
              | "set" => (fun _ v => .ok v)
              | "add" => scalarOp hwFloat k .add | "sub" => scalarOp hwFloat k .sub
              | "mul" => scalarOp hwFloat k .mul | "div" => scalarOp hwFloat k .div
              | _ => (fun _ _ => .error .other)
          let r := if twoD then assign2 f m s1 s2 src else assign1 f m s1 src
          let seqModel := (match r.2 with | .ok _ => "ok#" | .error _ => "err#") ++ matObs k r.1
          let specM : Option (Mat Val) :=
            if twoD then (match src with | .scalar v => update2 f m s1 s2 v | _ => none) else update1 f m s1 src
          let specM : Option (Mat Val) :=
            if label == "rowcol" then (match src with | .mat w => update2v f m s1 s2 w | .scalar v => update2 f m s1 s2 v) else specM
          let unchanged := "err#" ++ matObs k m
          let spec := match specM with
            | some m' => "ok#" ++ matObs k m'
            | none => unchanged
          let verdict := if obs == spec then "ok" else "bad:expected " ++ spec
          if label == "rowcol" then
            -- a whole row or column from a vector: the reference result, or (for element kinds and storage
            -- forms without such a kernel) a clean rejection, which is finding C04-D7
            (if obs == unchanged then (unchanged, verdict, "C04-D7")
             else if specM.isNone then
               -- the reference rejects (an element does not fit the kind, a wrong shape): the statement must be an
               -- error; cells written before the failing one are the documented non-atomic behaviour (C04-D4)
               let okBehaviour := match parseAfter k obs with
                 | some (_, after) => onlyAddressedChanged f m after (lenientTargets m s1 (some s2)) src
                 | none => false
               (if okBehaviour then obs else seqModel, verdict, if okBehaviour then "C04-D4" else "-")
             else (spec, verdict, "-"))
          else
          if label == "unsupported" then (unchanged, verdict, "C04-D7")
          else if label == "deviant" then
            let recorded := match rest with
              | r0 :: _ => if r0.startsWith "rec=" then String.ofList ((unhexText (r0.drop 4).toString).getD []) else ""
              | [] => ""
            (recorded, verdict, if verdict == "ok" then "-" else (if opn == "div" && kn == "r64" then "C04-D9" else "C04-D8"))
          else if verdict == "ok" then (if specM.isSome then seqModel else obs, verdict, "-")
          else if specM.isNone then
            -- error path: the reference rejects; accept the documented non-atomic / lenient behaviour
            let okBehaviour := match parseAfter k obs with
              | some (_, after) => onlyAddressedChanged f m after (lenientTargets m s1 (if twoD then some s2 else none)) src
              | none => false
            (if okBehaviour then obs else seqModel, verdict, if okBehaviour then "C04-D4" else "-")
          else (seqModel, verdict, "-")
        | _, _ => ("bad-case", "bad-case", "-")
      | _, _ => ("bad-case", "bad-case", "-")
    | _, _ => ("bad-case", "bad-case", "-")
  | _ => ("bad-case", "bad-case", "-")

end MechVerif.Driver
