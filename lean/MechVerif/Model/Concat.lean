/-
Matrix literals with block entries: `matrix()` / `matrix_row()` of
src/interpreter/src/structures.rs evaluate every entry, concatenate each row
horizontally (all heights must agree) and the rows vertically (all widths must agree);
horzcat.rs / vertcat.rs copy the blocks into a column-major buffer.
-/
import MechVerif.Model.Mat
namespace MechVerif.Concat
open MechVerif.Num MechVerif.Mat

/-- a block: scalars are 1×1 -/
def blockOf {α : Type} : Operand α → Mat α
  | .scalar x => ⟨1, 1, [x]⟩
  | .mat m => m

/-- two blocks side by side: column-major data is simply appended -/
def hcat2 {α : Type} (a b : Mat α) : Except Err (Mat α) :=
  if a.rows = b.rows then .ok ⟨a.rows, a.cols + b.cols, a.data ++ b.data⟩ else .error .dim

/-- column `j` of a block as stored -/
def colOf {α : Type} (m : Mat α) (j : Nat) : List α := (m.data.drop (j * m.rows)).take m.rows

/-- two blocks on top of each other: every output column is the two input columns in turn -/
def vcat2 {α : Type} (a b : Mat α) : Except Err (Mat α) :=
  if a.cols = b.cols then
    .ok ⟨a.rows + b.rows, a.cols, (List.range a.cols).flatMap (fun j => colOf a j ++ colOf b j)⟩
  else .error .dim

def hcatAll {α : Type} : Mat α → List (Mat α) → Except Err (Mat α)
  | acc, [] => .ok acc
  | acc, b :: bs =>
    match hcat2 acc b with
    | .error e => .error e
    | .ok r => hcatAll r bs

def vcatAll {α : Type} : Mat α → List (Mat α) → Except Err (Mat α)
  | acc, [] => .ok acc
  | acc, b :: bs =>
    match vcat2 acc b with
    | .error e => .error e
    | .ok r => vcatAll r bs

def rowsM {α : Type} : List (List (Mat α)) → Except Err (List (Mat α))
  | [] => .ok []
  | [] :: _ => .error .other
  | (b :: bs) :: rest =>
    match hcatAll b bs with
    | .error e => .error e
    | .ok r =>
      match rowsM rest with
      | .error e => .error e
      | .ok rs => .ok (r :: rs)

/-- `[r1; r2; …]` with block entries -/
def matrixLit {α : Type} (rows : List (List (Mat α))) : Except Err (Mat α) :=
  match rowsM rows with
  | .error e => .error e
  | .ok [] => .error .other
  | .ok (r :: rs) => vcatAll r rs

/-! ### the copy kernels (`CopyMat` in src/core/src/structures/matrix.rs) over the column-major buffer

`copy_into`, `copy_into_v`, `copy_into_r` write the elements of the source, in storage order, over the positions
`offset, offset+1, …` of the destination and return the number of elements; `copy_into_row_major` writes column `c`
of the source over the positions `offset + c·R, …` (`R` the height of the destination), i.e. it places the source as
a block whose top left corner is the linear position `offset`, and returns the height of the source.  Writing
outside the buffer is an index panic; a source higher than the destination is an arithmetic panic.
`tools/extract_concat.py` regenerates the four routines from the source as Lean definitions and
`Lemmas/ConcatKernels.lean` proves them equal to these. -/

/-- `dst` with `src` written over the positions `off, …, off + |src| - 1` -/
def blit {α : Type} (src dst : List α) (off : Nat) : Except Err (List α) :=
  if src.length = 0 then .ok dst
  else if off + src.length ≤ dst.length then .ok (dst.take off ++ src ++ dst.drop (off + src.length))
  else .error .index

/-- `copy_into` / `copy_into_v` / `copy_into_r` -/
def copyLin {α : Type} (src dst : Mat α) (off : Nat) : Except Err (Mat α × Nat) :=
  match blit src.data dst.data off with
  | .error e => .error e
  | .ok d => .ok (⟨dst.rows, dst.cols, d⟩, src.rows * src.cols)

/-- columns `c, c+1, …` (`n` of them) of the source, each `R` positions after the one before -/
def blitCols {α : Type} (src : Mat α) (R : Nat) : Nat → Nat → List α → Nat → Except Err (List α)
  | _, 0, d, _ => .ok d
  | c, n + 1, d, pos =>
    match blit (colOf src c) d pos with
    | .error e => .error e
    | .ok d' => blitCols src R (c + 1) n d' (pos + R)

/-- `copy_into_row_major` -/
def copyRowMajor {α : Type} (src dst : Mat α) (off : Nat) : Except Err (Mat α × Nat) :=
  if dst.rows < src.rows then .error .overflow
  else
    match blitCols src dst.rows 0 src.cols dst.data off with
    | .error e => .error e
    | .ok d => .ok (⟨dst.rows, dst.cols, d⟩, src.rows)

end MechVerif.Concat
