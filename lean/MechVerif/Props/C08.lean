/-
C08 — Formatting a program does not change what it means.

The theorems cover formulas: the formatter's `term`/`factor` emitters print a tree as its
in-order sequence of operands and operators (Model: `fmt`), and the parser
(Model/Prec.lean `parseFormula`, proved in C02 to return the unique well-grouped tree of its
input) reads that sequence back.  For the rest of the grammar the round trip is checked on
the implementation directly (search, not proof).
-/
import MechVerif.Props.C02
namespace MechVerif.Prec

variable {α : Type}

/-- Formatting a parsed formula and parsing the text again gives the same tree — same
    structure of every sub-expression, same operators, same operands — with nothing left over. -/
theorem C08_formula_roundtrip (N : Nat) (a : α) (rest : Rest α) (h : OpsIn N rest) :
    let t := (parseFormula N a rest).1
    parseFormula N (fmt t).1 (fmt t).2 = (t, []) := by
  intro t
  have hin := C02_parse_inorder N a rest h
  have hall := C02_parse_consumes_all N a rest h
  simp only [fmt]
  have h1 : t.first = a := hin.1
  have h2 : t.tail = rest := hall.2
  rw [h1, h2]
  exact Prod.ext rfl hall.1

/-- Formatting the formatted text again gives the same text. -/
theorem C08_formula_idempotent (N : Nat) (a : α) (rest : Rest α) (h : OpsIn N rest) :
    let t := (parseFormula N a rest).1
    fmt (parseFormula N (fmt t).1 (fmt t).2).1 = fmt t := by
  intro t
  have := C08_formula_roundtrip N a rest h
  simp only at this
  rw [this]

/-- The text of a formula is its operands and operators in source order: formatting does not
    reorder, drop or add anything. -/
theorem C08_formula_text_is_source (N : Nat) (a : α) (rest : Rest α) (h : OpsIn N rest) :
    fmt (parseFormula N a rest).1 = (a, rest) := by
  have hin := C02_parse_inorder N a rest h
  have hall := C02_parse_consumes_all N a rest h
  simp only [fmt]
  exact Prod.ext hin.1 hall.2

end MechVerif.Prec
