import MechVerif.Driver.C02
import MechVerif.Driver.C06
import MechVerif.Model.StrLit
import MechVerif.Driver.C08S
namespace MechVerif.Driver.S08
open MechVerif.Prec MechVerif.Driver

/-- the formatter's spelling of each operator -/
def fmtSym (name : String) : String :=
  match name with
  | "or" => "||" | "and" => "&&" | "xor" => "⊻" | "eq" => "⩵" | "ne" => "≠" | "lt" => "<" | "le" => "≤" | "gt" => ">" | "ge" => "≥"
  | "add" => "+" | "sub" => "-" | "mul" => "*" | "div" => "/" | "mod" => "%" | "pow" => "^"
  | "join" => "⋈" | "ljoin" => "⟕" | "rjoin" => "⟖" | "fjoin" => "⟗" | "semi" => "⋉" | "anti" => "▷"
  | "union" => "∪" | "inter" => "∩" | "diff" => "∖" | "symdiff" => "Δ" | "subset" => "⊆" | "superset" => "⊇"
  | "psubset" => "⊊" | "psuperset" => "⊋" | "elem" => "∈" | "notelem" => "∉"
  | "matmul" => "**" | "dot" => "·" | "cross" => "⨯" | "solve" => "\\" | "seq" => "=:=" | "sne" => "=!=" | _ => "?"

open Formula in
mutual
/-- text of an operand as the `factor` emitter writes it -/
partial def fmtA (lits : List String) : Fac → String
  | .atom n => lits.getD n "?"
  | .paren t => "(" ++ fmtT lits t ++ ")"
  | .neg a => "-" ++ fmtA lits a
  | .not a => "!" ++ fmtA lits a
  | .tr a => fmtA lits a ++ "'"
/-- text of a formula: the in-order sequence `fmt t`, operators between single spaces -/
partial def fmtT (lits : List String) (t : Tree Fac) : String :=
  let (a, rest) := MechVerif.Prec.fmt t
  rest.foldl (fun acc p => acc ++ " " ++ fmtSym ((opTable.getD p.1.name ("?", "?", 0)).1) ++ " " ++ fmtA lits p.2) (fmtA lits a)
end

def hasLineStart (src pre : String) : Bool := src.startsWith pre || S06.hasSub src ("\n" ++ pre)

/-- a numbered section heading: `N. title` followed by a line of dashes -/
def hasNumberedSection (src : String) : Bool :=
  let lines := src.splitOn "\n"
  (lines.zip (lines.drop 1)).any (fun p =>
    let ds := p.1.toList.takeWhile Char.isDigit
    !ds.isEmpty && ((p.1.toList.drop ds.length).take 2 == ['.', ' ']) && p.2.startsWith "-----")

/-- some code fence (backticks or tildes) is opened without the `mech` code identifier -/
def hasPlainFence (src : String) : Bool :=
  ((src.splitOn "\n").foldl (fun (st : Bool × Bool) l =>
    if l.startsWith "```" || l.startsWith "~~~" then
      (if st.1 then (false, st.2) else (true, st.2 || !((l.drop 3).toString.startsWith "mech")))
    else st) (false, false)).2

/-- `class:hex` items of a string body -/
def parseStrSpec (spec : String) : Option (List StrLit.G) :=
  if spec == "-" then some [] else
  (spec.splitOn ",").mapM (fun it => match it.splitOn ":" with
    | [c, hx] =>
      (match S06.unhexStr hx with
       | none => none
       | some t =>
         let cls : Option StrLit.Cls := match c with
           | "e" => some .escapable | "p" => some .plain | "n" => some .newline | "q" => some .quote | "b" => some .backslash | _ => none
         cls.map (fun k => (⟨k, t.toList⟩ : StrLit.G)))
    | _ => none)

def runC08 (fields : List String) (obs : String) : String × String × String :=
  let bad := ("bad-case", "bad-case", "-")
  match fields with
  | _ :: cls :: hexsrc :: more =>
    if obs == "skip" then ("skip", "ok", "-") else
    match S06.unhexStr hexsrc with
    | none => bad
    | some src =>
      let parts := obs.splitOn "|"
      let r := parts.getD 1 ""
      let i := parts.getD 2 ""
      let model : String :=
        if cls == "formula" then
          let (toks, lits) := tokenise ((more.headD "").splitOn " ")
          match Formula.pForm gram (2 * toks.length + 4) toks with
          | some (t, []) =>
            "F=" ++ hexOfText ((fmtT lits t ++ "\n").toList) ++ "|R=same|I=same|T=" ++ sexprT lits t ++ "|U=" ++ sexprT lits t
          | _ => "unparsed-formula"
        else if cls == "syntax" then S08S.predict (more.headD "")
        else if cls == "string" then
          match parseStrSpec (more.headD "-") with
          | some gs =>
            (match StrLit.scan (gs ++ [StrLit.quoteG]) with
             | some (content, []) =>
               "F=" ++ hexOfText (("x := \"" ++ String.ofList (StrLit.escapeChars content) ++ "\"\n").toList) ++ "|R=same|I=same|S=" ++ hexOfText content
             | _ => "unscannable-string")
          | none => "bad-case"
        else obs
      let ok := r == "R=same" && i == "I=same"
      let verdict := if ok then "ok"
        else if r == "R=panic:format" then "bad:the formatter panicked"
        else if r == "R=noparse" then "bad:the formatted text does not parse"
        else if r == "R=differs" then "bad:the formatted text parses to a different tree"
        else "bad:formatting the formatted text again changes it"
      let region :=
        if ok then "-"
        else if cls == "file" then "C08-D12"
        else if cls == "documents" then
          (if hasLineStart src "- " then "C08-D9"
           else if hasLineStart src "| " then "C08-D10"
           else if hasNumberedSection src then "C08-D8"
           else if hasPlainFence src then "C08-D11"
           else "-")
        else "-"
      (model, verdict, region)
  | _ => bad

end MechVerif.Driver.S08
