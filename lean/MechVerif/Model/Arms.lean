/-
Arm selection: the pattern matcher of src/interpreter/src/patterns.rs, the arm loop of
match expressions (src/interpreter/src/expressions.rs `match_expression`) and of
user-defined functions (src/interpreter/src/functions.rs `execute_user_function`,
`execute_function_match_arms`) including the tail-call loop and single-argument
broadcast.

Values are scalars (numbers of kind f64 or u64 — integer valued here —, bools, strings),
tuples and row arrays of scalars, and enum variants with an optional scalar payload.
Expressions are the fragment guards and arm bodies are generated from: literals,
variables, arithmetic, comparison, logic, and calls of the function being defined.
-/
namespace MechVerif.Arms

inductive NK where
  | f64 | u64
deriving DecidableEq, Repr

inductive S where
  | num (k : NK) (n : Int)
  | bool (b : Bool)
  | str (s : String)
deriving DecidableEq, Repr

inductive V where
  | sc (s : S)
  | tup (l : List S)
  | arr (l : List S)
  | enm (tag : String) (p : Option S)
deriving DecidableEq, Repr

inductive Err where
  | undef | kind | overflow | noArm | nonExhaustive | armKind | arity | fuel | guard
deriving DecidableEq, Repr

inductive Op where
  | add | sub | mul | mod | gt | lt | ge | le | eq | ne | and | or
deriving DecidableEq, Repr

inductive E where
  | lit (s : S)
  | var (x : Nat)
  | bin (op : Op) (a b : E)
  | call1 (a : E)
  | call2 (a b : E)
deriving DecidableEq, Repr

/-- patterns at a scalar position; variables are numbered (the driver numbers the names it reads) -/
inductive SP where
  | wild
  | bind (x : Nat)
  | lit (s : S)
deriving DecidableEq, Repr

inductive P where
  | sp (p : SP)
  | tup (ps : List SP)
  | arr (pre : List SP) (spread : Bool) (suf : List SP)
  | enm (tag : String) (p : Option SP)
deriving DecidableEq, Repr

abbrev Env := List (Nat × V)

def Env.get (env : Env) (x : Nat) : Option V := (env.find? (fun p => p.1 == x)).map (·.2)

def U64MAX : Int := 2 ^ 64 - 1

/-- `values_match`: equal values, or an f64 and a u64 that agree after `as u64` -/
def valuesMatch (expected actual : S) : Bool :=
  if expected == actual then true else
  match expected, actual with
  | .num .f64 x, .num .u64 y => (if x < 0 then 0 else if x > U64MAX then U64MAX else x) == y
  | .num .u64 x, .num .f64 y => x == (if y < 0 then 0 else if y > U64MAX then U64MAX else y)
  | _, _ => false

/-- one scalar position. `og` = `PatternMatchSemantics::OptionGuard` (match expressions): a
    pattern expression that evaluates to a bool is taken as a condition. -/
def matchSP (og : Bool) (p : SP) (s : S) (env : Env) : Option Env :=
  match p with
  | .wild => some env
  | .bind x =>
    (match env.get x with
     | some v => if v == .sc s then some env else none
     | none => some ((x, .sc s) :: env))
  | .lit l =>
    (match og, l with
     | true, .bool b => if b then some env else none
     | _, _ => if valuesMatch l s then some env else none)

/-- positions left to right, threading the bindings -/
def matchSPs (og : Bool) : List SP → List S → Env → Option Env
  | [], [], env => some env
  | p :: ps, s :: ss, env =>
    (match matchSP og p s env with
     | some env' => matchSPs og ps ss env'
     | none => none)
  | _, _, _ => none

/-- `pattern_matches_value_with_semantics` -/
def matchP (og : Bool) (p : P) (v : V) (env : Env) : Option Env :=
  match p, v with
  | .sp .wild, _ => some env
  | .sp (.bind x), v =>
    (match env.get x with
     | some w => if w == v then some env else none
     | none => some ((x, v) :: env))
  | .sp (.lit l), .sc s => matchSP og (.lit l) s env
  | .sp (.lit (.bool b)), _ => if og then (if b then some env else none) else none
  | .sp (.lit _), _ => none
  | .tup ps, .tup ss => if ps.length = ss.length then matchSPs og ps ss env else none
  | .tup _, _ => none
  | .arr pre spread suf, .arr vs =>
    if vs.length < pre.length + suf.length then none else
    if !spread && vs.length != pre.length + suf.length then none else
    (match matchSPs og pre (vs.take pre.length) env with
     | some env' => matchSPs og suf (vs.drop (vs.length - suf.length)) env'
     | none => none)
  | .arr _ _ _, _ => none
  | .enm tag pp, .enm vtag payload =>
    if tag != vtag then none else
    (match payload, pp with
     | some s, some sp => matchSP og sp s env
     | none, none => some env
     | _, _ => none)
  | .enm _ _, _ => none

/-- function arms: several arguments are matched as a tuple pattern, one argument directly -/
def matchArgs (p : P) (args : List S) (env : Env) : Option Env :=
  match args with
  | [a] => matchP false p (.sc a) env
  | _ =>
    (match p with
     | .tup ps => if ps.length = args.length then matchSPs false ps args env else none
     | _ => none)

/-! expressions -/

def arith (op : Op) (k : NK) (x y : Int) : Except Err S :=
  if op = .mod ∧ y = 0 then .error .overflow else        -- remainder by zero panics
  let r : Int := match op with | .add => x + y | .sub => x - y | .mod => x % y | _ => x * y
  match k with
  | .u64 => if 0 ≤ r ∧ r ≤ U64MAX then .ok (.num .u64 r) else .error .overflow
  | .f64 => if -(2 ^ 53 : Int) ≤ r ∧ r ≤ 2 ^ 53 then .ok (.num .f64 r) else .error .overflow   -- beyond exact floats: not modelled

def cmp (op : Op) (x y : Int) : Bool :=
  match op with
  | .gt => x > y | .lt => x < y | .ge => x ≥ y | .le => x ≤ y | .eq => x == y | _ => x != y

def binop (op : Op) (a b : S) : Except Err S :=
  match op, a, b with
  | .add, .num k x, .num k' y | .sub, .num k x, .num k' y | .mul, .num k x, .num k' y | .mod, .num k x, .num k' y =>
    if k = k' then arith op k x y else .error .kind
  | .and, .bool x, .bool y => .ok (.bool (x && y))
  | .or, .bool x, .bool y => .ok (.bool (x || y))
  | .and, _, _ | .or, _, _ => .error .kind
  | .add, _, _ | .sub, _, _ | .mul, _, _ | .mod, _, _ => .error .kind
  | op, .num k x, .num k' y => if k = k' then .ok (.bool (cmp op x y)) else .error .kind
  | .eq, .bool x, .bool y => .ok (.bool (x == y))
  | .ne, .bool x, .bool y => .ok (.bool (x != y))
  | .eq, .str x, .str y => .ok (.bool (x == y))
  | .ne, .str x, .str y => .ok (.bool (x != y))
  | _, _, _ => .error .kind

def asScalar : V → Except Err S
  | .sc s => .ok s
  | _ => .error .kind

/-- evaluation of a guard or body in the bindings of the arm; `self` is the meaning of a
    call of the function being defined -/
def evalE (self : List S → Except Err S) (env : Env) : E → Except Err V
  | .lit s => .ok (.sc s)
  | .var x => (match env.get x with | some v => .ok v | none => .error .undef)
  | .bin op a b =>
    (match evalE self env a with
     | .error e => .error e
     | .ok va =>
       match evalE self env b with
       | .error e => .error e
       | .ok vb =>
         match asScalar va, asScalar vb with
         | .ok x, .ok y => (match binop op x y with | .ok r => .ok (.sc r) | .error e => .error e)
         | .error e, _ => .error e
         | _, .error e => .error e)
  | .call1 a =>
    (match evalE self env a with
     | .error e => .error e
     | .ok va => match asScalar va with
       | .ok x => (match self [x] with | .ok r => .ok (.sc r) | .error e => .error e)
       | .error e => .error e)
  | .call2 a b =>
    (match evalE self env a with
     | .error e => .error e
     | .ok va =>
       match evalE self env b with
       | .error e => .error e
       | .ok vb =>
         match asScalar va, asScalar vb with
         | .ok x, .ok y => (match self [x, y] with | .ok r => .ok (.sc r) | .error e => .error e)
         | .error e, _ => .error e
         | _, .error e => .error e)

def noSelf : List S → Except Err S := fun _ => .error .undef

/-! match expressions -/

structure Arm where
  pat : P
  guard : Option E
  body : E
deriving Repr

/-- `guard_expression_true` -/
def guardTrue (env : Env) (g : Option E) : Except Err Bool :=
  match g with
  | none => .ok true
  | some e =>
    (match evalE noSelf env e with
     | .ok (.sc (.bool b)) => .ok b
     | .ok _ => .error .guard
     | .error e => .error e)

/-- does the arm apply (pattern, then guard in the pattern's bindings)? -/
def armApplies (base : Env) (arm : Arm) (src : V) : Except Err (Option Env) :=
  match matchP true arm.pat src base with
  | none => .ok none
  | some env =>
    (match guardTrue env arm.guard with
     | .ok true => .ok (some env)
     | .ok false => .ok none
     | .error e => .error e)

/-- the arm loop: the first arm that applies -/
def firstArm (base : Env) (src : V) : List Arm → Except Err (Option (Arm × Env))
  | [] => .ok none
  | arm :: rest =>
    (match armApplies base arm src with
     | .error e => .error e
     | .ok (some env) => .ok (some (arm, env))
     | .ok none => firstArm base src rest)

def kindOf : V → String
  | .sc (.num .f64 _) => "f64" | .sc (.num .u64 _) => "u64" | .sc (.bool _) => "bool" | .sc (.str _) => "string"
  | .tup _ => "tuple" | .arr _ => "matrix" | .enm _ _ => "enum"

/-- `match_validate_arm_kinds`: every other non-wildcard arm that applies must produce a
    value of the chosen arm's kind -/
def validateKinds (base : Env) (src : V) (chosen : Nat) (kind : String) : List (Arm × Nat) → Except Err Unit
  | [] => .ok ()
  | (arm, ix) :: rest =>
    if ix = chosen || arm.pat = .sp .wild then validateKinds base src chosen kind rest else
    (match armApplies base arm src with
     | .error e => .error e
     | .ok none => validateKinds base src chosen kind rest
     | .ok (some env) =>
       match evalE noSelf env arm.body with
       | .error e => .error e
       | .ok v => if kindOf v = kind then validateKinds base src chosen kind rest else .error .armKind)

def hasWildcard (arms : List Arm) : Bool := arms.any (fun a => a.pat = .sp .wild)

/-- tags the arms name (literal atoms and variant patterns) -/
def armTags (arms : List Arm) : List String :=
  arms.filterMap (fun a => match a.pat with | .enm t _ => some t | _ => none)

/-- `validate_match_arm_output_kinds` (enum source covered variant by variant, no wildcard):
    the bodies that evaluate without the pattern's bindings must all have one kind -/
def validateAll (expected : Option String) : List Arm → Except Err Unit
  | [] => .ok ()
  | arm :: rest =>
    (match evalE noSelf [] arm.body with
     | .error _ => validateAll expected rest
     | .ok v =>
       match expected with
       | none => validateAll (some (kindOf v)) rest
       | some k => if kindOf v = k then validateAll expected rest else .error .armKind)

/-- the arm loop followed by the arm-kind validation of the other applicable arms -/
def runMatch (arms : List Arm) (src : V) : Except Err V :=
  match firstArm [] src arms with
  | .error e => .error e
  | .ok none => .error .noArm
  | .ok (some (arm, env)) =>
    (match evalE noSelf env arm.body with
     | .error e => .error e
     | .ok v =>
       let ix := (arms.zipIdx.find? (fun p => p.1.pat = arm.pat ∧ p.1.guard = arm.guard ∧ p.1.body = arm.body)).map (·.2)
       match validateKinds [] src (ix.getD 0) (kindOf v) arms.zipIdx with
       | .error e => .error e
       | .ok _ => .ok v)

/-- `match_expression` for a source without empty values. `variants` = the variants of the
    source's enum (empty for a source that is not an enum value). -/
def matchExpr (variants : List String) (arms : List Arm) (src : V) : Except Err V :=
  if hasWildcard arms then runMatch arms src else
  match src with
  | .enm _ _ =>
    if !(armTags arms).isEmpty && variants.all (fun t => (armTags arms).contains t) then
      (match validateAll none arms with
       | .error e => .error e
       | .ok _ => runMatch arms src)
    else .error .nonExhaustive
  | _ => .error .nonExhaustive

/-! user-defined functions -/

structure FDef where
  arity : Nat
  arms : List (P × E)
  inputs : List Nat := []        -- the declared input names (`bind_function_inputs`): visible in every arm's body
deriving Repr

/-- the declared inputs bound to the arguments of the current call; a pattern variable of the same
    name is found first -/
def inputsEnv (f : FDef) (args : List S) : Env := (f.inputs.zip args).map (fun p => (p.1, V.sc p.2))

inductive Step where
  | ret (v : S)
  | tail (args : List S)
deriving DecidableEq, Repr

/-- an arm body that is literally a call of the function with the right number of arguments
    is a tail call -/
def tailShape (f : FDef) (body : E) : Option (List E) :=
  match body with
  | .call1 a => if f.arity = 1 then some [a] else none
  | .call2 a b => if f.arity = 2 then some [a, b] else none
  | _ => none

def evalScalar (self : List S → Except Err S) (env : Env) (e : E) : Except Err S :=
  match evalE self env e with
  | .ok v => asScalar v
  | .error e => .error e

def evalArgs (self : List S → Except Err S) (env : Env) : List E → Except Err (List S)
  | [] => .ok []
  | e :: es =>
    (match evalScalar self env e with
     | .error err => .error err
     | .ok x => match evalArgs self env es with | .error err => .error err | .ok xs => .ok (x :: xs))

/-- one pass of `execute_function_match_arms`: the first arm whose pattern matches the
    arguments; a tail call hands back the next arguments instead of recursing -/
def stepArms (self : List S → Except Err S) (f : FDef) (args : List S) : List (P × E) → Except Err Step
  | [] => .error .noArm
  | (p, body) :: rest =>
    (match matchArgs p args [] with
     | none => stepArms self f args rest
     | some env =>
       match tailShape f body with
       | some es => (match evalArgs self (env ++ inputsEnv f args) es with | .ok xs => .ok (.tail xs) | .error e => .error e)
       | none => (match evalScalar self (env ++ inputsEnv f args) body with | .ok r => .ok (.ret r) | .error e => .error e))

/-- the `loop { … TailCall(next_args) => current_args = next_args }` of
    `execute_user_function`, with a bound on the number of iterations -/
def loopArms (self : List S → Except Err S) (f : FDef) : Nat → List S → Except Err S
  | 0, _ => .error .fuel
  | it + 1, args =>
    (match stepArms self f args f.arms with
     | .error e => .error e
     | .ok (.ret v) => .ok v
     | .ok (.tail args') => loopArms self f it args')

/-- a call as the interpreter runs it: arity check, then the loop; nested (non-tail) calls
    recurse with one unit less of depth -/
def callImpl (f : FDef) (it : Nat) : Nat → List S → Except Err S
  | 0, _ => .error .fuel
  | d + 1, args =>
    if args.length ≠ f.arity then .error .arity else loopArms (callImpl f it d) f it args

/-- the specification: plain recursion — every call, tail or not, is a recursive call -/
def runArmsRec (f : FDef) (self : List S → Except Err S) (args : List S) : List (P × E) → Except Err S
  | [] => .error .noArm
  | (p, body) :: rest =>
    (match matchArgs p args [] with
     | none => runArmsRec f self args rest
     | some env => evalScalar self (env ++ inputsEnv f args) body)

def callRec (f : FDef) : Nat → List S → Except Err S
  | 0, _ => .error .fuel
  | n + 1, args =>
    if args.length ≠ f.arity then .error .arity else runArmsRec f (callRec f n) args f.arms

/-- single-argument broadcast: a matrix argument is mapped element by element -/
def broadcast (call : List S → Except Err S) : List S → Except Err (List S)
  | [] => .ok []
  | x :: xs =>
    (match call [x] with
     | .error e => .error e
     | .ok y => match broadcast call xs with | .error e => .error e | .ok ys => .ok (y :: ys))

end MechVerif.Arms
