/-
Matrix literals with block entries: `matrix()` / `matrix_row()` of
src/interpreter/src/structures.rs evaluate every entry, concatenate each row
horizontally (all heights must agree) and the rows vertically (all widths must agree);
horzcat.rs / vertcat.rs copy the blocks into a column-major buffer.
-/
import MechVerif.Model.Mat
namespace MechVerif.Concat
open MechVerif.Num MechVerif.Mat

/-- a block: scalars are 1×1 -/
def blockOf {α : Type} : Operand α → Mat α
  | .scalar x => ⟨1, 1, [x]⟩
  | .mat m => m

/-- two blocks side by side: column-major data is simply appended -/
def hcat2 {α : Type} (a b : Mat α) : Except Err (Mat α) :=
  if a.rows = b.rows then .ok ⟨a.rows, a.cols + b.cols, a.data ++ b.data⟩ else .error .dim

/-- column `j` of a block as stored -/
def colOf {α : Type} (m : Mat α) (j : Nat) : List α := (m.data.drop (j * m.rows)).take m.rows

/-- two blocks on top of each other: every output column is the two input columns in turn -/
def vcat2 {α : Type} (a b : Mat α) : Except Err (Mat α) :=
  if a.cols = b.cols then
    .ok ⟨a.rows + b.rows, a.cols, (List.range a.cols).flatMap (fun j => colOf a j ++ colOf b j)⟩
  else .error .dim

def hcatAll {α : Type} : Mat α → List (Mat α) → Except Err (Mat α)
  | acc, [] => .ok acc
  | acc, b :: bs =>
    match hcat2 acc b with
    | .error e => .error e
    | .ok r => hcatAll r bs

def vcatAll {α : Type} : Mat α → List (Mat α) → Except Err (Mat α)
  | acc, [] => .ok acc
  | acc, b :: bs =>
    match vcat2 acc b with
    | .error e => .error e
    | .ok r => vcatAll r bs

def rowsM {α : Type} : List (List (Mat α)) → Except Err (List (Mat α))
  | [] => .ok []
  | [] :: _ => .error .other
  | (b :: bs) :: rest =>
    match hcatAll b bs with
    | .error e => .error e
    | .ok r =>
      match rowsM rest with
      | .error e => .error e
      | .ok rs => .ok (r :: rs)

/-- `[r1; r2; …]` with block entries -/
def matrixLit {α : Type} (rows : List (List (Mat α))) : Except Err (Mat α) :=
  match rowsM rows with
  | .error e => .error e
  | .ok [] => .error .other
  | .ok (r :: rs) => vcatAll r rs

end MechVerif.Concat
