/-
Reference semantics for C01: the broadcast shape of two operands and the element of
an operand that meets position (i, j) of the result.
-/
import MechVerif.Model.Mat
namespace MechVerif.Mat

inductive Shape where
  | scalar
  | mat (rows cols : Nat)
deriving DecidableEq, Repr

def Operand.shape {α : Type} : Operand α → Shape
  | .scalar _ => .scalar
  | .mat m => .mat m.rows m.cols

/-- a proper row vector 1×N (N ≥ 2) / column vector N×1 (N ≥ 2) / matrix (both ≥ 2) -/
def isRow (r c : Nat) : Prop := r = 1 ∧ c ≠ 1
def isCol (r c : Nat) : Prop := c = 1 ∧ r ≠ 1
def isMatrix (r c : Nat) : Prop := ¬ isRow r c ∧ ¬ isCol r c

instance (r c : Nat) : Decidable (isRow r c) := by unfold isRow; infer_instance
instance (r c : Nat) : Decidable (isCol r c) := by unfold isCol; infer_instance
instance (r c : Nat) : Decidable (isMatrix r c) := by unfold isMatrix; infer_instance

/-- the broadcast shape the property allows: equal shapes, scalar with matrix, or a
    matrix with a matching column / row vector; `none` = incompatible -/
def bshape : Shape → Shape → Option Shape
  | .scalar, .scalar => some .scalar
  | .scalar, .mat r c => some (.mat r c)
  | .mat r c, .scalar => some (.mat r c)
  | .mat r c, .mat r' c' =>
    if r = r' ∧ c = c' then some (.mat r c)
    else if isMatrix r c ∧ isCol r' c' ∧ r' = r then some (.mat r c)
    else if isMatrix r c ∧ isRow r' c' ∧ c' = c then some (.mat r c)
    else if isCol r c ∧ isMatrix r' c' ∧ r = r' then some (.mat r' c')
    else if isRow r c ∧ isMatrix r' c' ∧ c = c' then some (.mat r' c')
    else none

/-- the element of operand `o` that meets position (i, j) of an R×C result -/
def bAt {α : Type} (o : Operand α) (R C i j : Nat) : Option α :=
  match o with
  | .scalar x => some x
  | .mat m =>
    if m.rows = R ∧ m.cols = C then m.get? i j
    else if m.cols = 1 ∧ m.rows = R then m.get? i 0
    else if m.rows = 1 ∧ m.cols = C then m.get? 0 j
    else none

/-- the result `r` is the elementwise application of `f` over the broadcast operands -/
def IsBroadcast {α β : Type} (f : α → α → Except Num.Err β) (a b : Operand α) (r : Operand β) : Prop :=
  bshape a.shape b.shape = some r.shape ∧
  match r with
  | .scalar z => ∃ x y, a = .scalar x ∧ b = .scalar y ∧ f x y = .ok z
  | .mat m =>
    m.data.length = m.rows * m.cols ∧
    ∀ i j, i < m.rows → j < m.cols →
      ∃ x y z, bAt a m.rows m.cols i j = some x ∧ bAt b m.rows m.cols i j = some y ∧
        f x y = .ok z ∧ m.get? i j = some z

def Operand.wf {α : Type} : Operand α → Prop
  | .scalar _ => True
  | .mat m => m.data.length = m.rows * m.cols ∧ 0 < m.rows ∧ 0 < m.cols

end MechVerif.Mat
