/-
Numeric kinds of Mech and the integer arithmetic of the test profile (debug build:
an operation whose exact result is not representable panics, and the panic becomes
an error at the `interpret` boundary).
-/
deriving instance DecidableEq for Except

namespace MechVerif.Num

inductive IKind where
  | u8 | u16 | u32 | u64 | u128 | i8 | i16 | i32 | i64 | i128
deriving DecidableEq, Repr

def IKind.bits : IKind → Nat
  | .u8 | .i8 => 8 | .u16 | .i16 => 16 | .u32 | .i32 => 32 | .u64 | .i64 => 64 | .u128 | .i128 => 128

def IKind.signed : IKind → Bool
  | .i8 | .i16 | .i32 | .i64 | .i128 => true
  | _ => false

def IKind.lo (k : IKind) : Int := if k.signed then -(2 ^ (k.bits - 1) : Int) else 0
def IKind.hi (k : IKind) : Int := if k.signed then (2 ^ (k.bits - 1) : Int) - 1 else (2 ^ k.bits : Int) - 1

def IKind.inR (k : IKind) (v : Int) : Bool := decide (k.lo ≤ v) && decide (v ≤ k.hi)

def IKind.name : IKind → String
  | .u8 => "u8" | .u16 => "u16" | .u32 => "u32" | .u64 => "u64" | .u128 => "u128"
  | .i8 => "i8" | .i16 => "i16" | .i32 => "i32" | .i64 => "i64" | .i128 => "i128"

def IKind.all : List IKind := [.u8, .u16, .u32, .u64, .u128, .i8, .i16, .i32, .i64, .i128]

def IKind.ofName (s : String) : Option IKind := IKind.all.find? (fun k => k.name == s)

/-- error classes of the line protocol -/
inductive Err where
  | overflow      -- arithmetic overflow panic caught at the interpret boundary
  | empty         -- EmptyRange
  | kind          -- no implementation for these operand kinds / forms
  | index         -- index out of bounds
  | dim           -- dimension mismatch
  | other
deriving DecidableEq, Repr

/-- checked integer operation: the exact result if representable -/
def checked (k : IKind) (v : Int) : Except Err Int := if k.inR v then .ok v else .error .overflow

end MechVerif.Num
