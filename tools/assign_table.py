#!/usr/bin/env python3
"""Builds harness/src/c04_cells.txt (support table) and corpus/C04.cases (recorded
witnesses of deviant cells) from exploration runs of the C04 harness:
    C04_EXPLORE=1 harness/target/fast/mvh C04 <seed> quick .work/C04e<seed>
    lean/.lake/build/bin/mvdriver < cases.txt > model.txt
A (cell, kind) is `ok` when every explored sample met the reference result,
`unsupported` when every sample was a clean error (variable unchanged), `deviant`
otherwise."""
import collections, sys
def form(r, c):
    if r == 1 and c == 1: return 'MD1'
    if r == 1: return 'RD'
    if c == 1: return 'VD'
    return 'MD'
def cls(s):
    if s == '-': return '-'
    if s == 'a': return 'a'
    t, _, b = s.partition(':')
    if t == 'g': return 'g'
    return t
tab = collections.defaultdict(collections.Counter); wit = {}
for d in sys.argv[1:]:
    cases = open(d + '/cases.txt').read().split('\n')
    models = open(d + '/model.txt').read().split('\n')
    for c, m in zip(cases, models):
        if not c: continue
        case, _, obs = c.partition('\t@@\t'); f = case.split('\t'); mf = m.split('\t')
        p = f[2].split('|'); r, cc = int(p[1]), int(p[2])
        spec = obs if mf[1] == 'ok' else mf[1].split('bad:expected ')[1]
        if not spec.startswith('ok#'): continue
        before = 'mat:%s:%dx%d:[%s]' % (f[1], r, cc, p[3])
        out = 'ok' if obs == spec else ('unsupported' if obs == 'err#' + before else 'deviant')
        key = '|'.join([form(r, cc), f[5], 'S' if f[6].startswith('S') else 'V', f[8], cls(f[3]), cls(f[4]), f[1]])
        tab[key][out] += 1
        if out == 'deviant' and key not in wit: wit[key] = (f, obs)
status = {}
for k, v in tab.items():
    status[k] = 'ok' if set(v) == {'ok'} else ('unsupported' if set(v) == {'unsupported'} else 'deviant')
# a cell that deviates for some kind is treated as deviant for every kind
# (operand values can make a wrong kernel coincide with the reference on a few samples)
devcells = set(k.rsplit('|', 1)[0] for k, v in status.items() if v == 'deviant')
for k in list(status):
    if k.rsplit('|', 1)[0] in devcells: status[k] = 'deviant'
# a cell with both ok and unsupported samples of one kind is value dependent: not generated
with open('harness/src/c04_cells.txt', 'w') as out:
    for k in sorted(status): out.write('%s %s\n' % (k, status[k]))
with open('corpus/C04.cases', 'w') as out:
    out.write('# recorded witnesses of deviant (cell, kind) pairs: case fields + rec=<hex of the recorded observation>\n')
    seen = set()
    for k in sorted(wit):
        if status[k] != 'deviant': continue
        cellkey = k.rsplit('|', 1)[0]
        if cellkey in seen: continue      # one witness per cell (any kind)
        seen.add(cellkey)
        f, obs = wit[k]
        f = f[:9] + ['deviant', 'rec=' + obs.encode().hex()]
        out.write('\t'.join(f) + '\n')
cnt = collections.Counter(status.values())
print(dict(cnt), 'deviant cells:', len(set(k.rsplit('|', 1)[0] for k, v in status.items() if v == 'deviant')))
