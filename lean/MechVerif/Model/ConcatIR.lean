/-
C11, second tie to the source: the concatenation kernels as they are *written*.

`tools/extract_concat.py` translates the four copy routines of `copy_mat!` (src/core/src/structures/matrix.rs)
statement by statement into Lean definitions (`Gen/ConcatKernels.lean`) over the primitives below, and reads from
horzcat.rs / vertcat.rs, for the arms that exist with the default features, a table: which struct an arm builds over
which output buffer, how the arguments reach the struct, and what the struct's `solve` does with the copy routines
(which routine, which offset argument, what becomes of the returned value).  `evalCat` gives the table its meaning:
it is the dispatch of `impl_horzcat_arms!` / `impl_vertcat_arms!` followed by `solve`, with the copy routines as a
parameter.  `Lemmas/ConcatKernels.lean` proves that the generated routines compute `copyLin` / `copyRowMajor` of
`Model/Concat.lean` and that `evalCat` over the expected table computes `hcatAll` / `vcatAll`.
-/
import MechVerif.Model.Concat
namespace MechVerif.ConcatIR
open MechVerif.Num MechVerif.Mat MechVerif.Concat

/-! ### what the Rust constructs of the copy routines mean -/
section prim
variable {α : Type}

/-- nalgebra's `len()`: the number of elements of the shape -/
def len (m : Mat α) : Nat := m.rows * m.cols
def nrows (m : Mat α) : Nat := m.rows
def ncols (m : Mat α) : Nat := m.cols

/-- `m[k]` (linear, column-major index); out of range panics -/
def readLin (m : Mat α) (k : Nat) : Except Err α := getE m.data k

/-- `m[k] = v`; out of range panics -/
def writeLin (m : Mat α) (k : Nat) (v : α) : Except Err (Mat α) :=
  if k < m.data.length then .ok ⟨m.rows, m.cols, m.data.set k v⟩ else .error .index

/-- `a - b` on `usize`: a negative result is an overflow panic -/
def usub (a b : Nat) : Except Err Nat := if b ≤ a then .ok (a - b) else .error .overflow

/-- `c as usize` for a truth value -/
def b2n (c : Bool) : Nat := if c then 1 else 0

/-- the iterations `i, i+1, …` (`n` of them) of a loop body over its state; a panic ends the loop -/
def forFrom {σ : Type} (body : Nat → σ → Except Err σ) : Nat → Nat → σ → Except Err σ
  | _, 0, s => .ok s
  | i, n + 1, s =>
    match body i s with
    | .error e => .error e
    | .ok s' => forFrom body (i + 1) n s'

/-- `for i in 0..n { body }` -/
def forRange {σ : Type} (n : Nat) (init : σ) (body : Nat → σ → Except Err σ) : Except Err σ :=
  forFrom body 0 n init

end prim

/-! ### the table read from horzcat.rs / vertcat.rs -/

inductive Routine where
  | copy_into | copy_into_v | copy_into_r | copy_into_row_major
deriving DecidableEq, Repr

/-- the offset argument of a call: `0`, the variable `offset`, the index `*i` recorded with the argument -/
inductive OffArg where
  | zero | offset | index
deriving DecidableEq, Repr

/-- what becomes of the value the call returns: `let [mut] offset = …` / `offset = …`, `offset += …`, nothing -/
inductive Upd where
  | bind | add | drop
deriving DecidableEq, Repr

/-- `self.e<field>.<routine>(&self.out, <arg>)` -/
structure Step where
  field : Nat
  routine : Routine
  arg : OffArg
  upd : Upd
deriving DecidableEq, Repr

inductive Solve where
  /-- `fn solve(&self) {}`: the output is the argument itself -/
  | nop
  /-- `out_ptr[0] = self.arg.borrow().clone()` -/
  | scalar1
  /-- a fixed number of calls, one after the other -/
  | seq (steps : List Step)
  /-- `let mut offset = init; for e in &self.e0 { step }` -/
  | loop (init : Nat) (step : Step)
  /-- `for (e,i) in &self.matrix { e.routine(&self.out, *i); } for (e,i) in &self.scalar { out_ptr[*i] = e…; }` -/
  | indexed (routine : Routine)
deriving DecidableEq, Repr

/-- a component of the tuple pattern: a literal or a binding -/
inductive Pat where
  | lit (n : Nat) | any
deriving DecidableEq, Repr

/-- `shape()[0]` / `shape()[1]`; also: the matched number of rows / columns -/
inductive Dim where
  | rows | cols
deriving DecidableEq, Repr

/-- how a component of the scrutinee is computed from the arguments: `arguments[0].shape()[d]` or the sum over all -/
inductive Agg where
  | first (d : Dim) | sum (d : Dim)
deriving DecidableEq, Repr

/-- the output buffer: none (the argument is handed through), `DMatrix::from_element(r, c, default)`,
    `RowDVector::from_element(n, default)`, `DVector::from_element(n, default)` -/
inductive Alloc where
  | none | md (r c : Dim) | rd (n : Dim) | vd (n : Dim)
deriving DecidableEq, Repr

/-- how the arguments reach the struct -/
inductive Wiring where
  /-- one argument, handed through -/
  | single
  /-- field `e<k>` is argument number `order[k]` -/
  | fields (order : List Nat)
  /-- all arguments in order into the vector `e0` -/
  | inOrder
  /-- matrices and scalars into two vectors, each with its index; the index advances by `shape()[matAdv]` for a
      matrix and by `scalarAdv` for a scalar -/
  | byKind (matAdv : Dim) (scalarAdv : Nat)
deriving DecidableEq, Repr

structure Arm where
  pat : Pat × Pat × Pat
  structs : List String
  alloc : Alloc
  wiring : Wiring
deriving DecidableEq, Repr

structure Cat where
  rows : Agg
  cols : Agg
  arms : List Arm
deriving DecidableEq, Repr

/-! ### what the model expects to find -/

def expectedDestinations : List (Routine × String) :=
  [(.copy_into, "DMatrix"), (.copy_into_v, "DVector"), (.copy_into_r, "RowDVector"), (.copy_into_row_major, "DMatrix")]

/-- offsets: the first call starts at 0, every later one where the returned values of the earlier ones add up to -/
def seqOf (r : Routine) : Nat → List Step
  | 0 => []
  | 1 => [⟨0, r, .zero, .drop⟩]
  | n + 2 => ⟨0, r, .zero, .bind⟩ :: ((List.range n).map (fun k => ⟨k + 1, r, .offset, .add⟩) ++ [⟨n + 1, r, .offset, .drop⟩])

def expectedSolves : List (String × Solve) :=
  [("HorizontalConcatenateMD", .nop),
   ("HorizontalConcatenateS1D", .scalar1),
   ("HorizontalConcatenateRD", .nop),
   ("HorizontalConcatenateRDN", .indexed .copy_into_r),
   ("HorizontalConcatenateVD", .nop),
   ("HorizontalConcatenateTwoArgs", .seq (seqOf .copy_into 2)),
   ("HorizontalConcatenateThreeArgs", .seq (seqOf .copy_into 3)),
   ("HorizontalConcatenateFourArgs", .seq (seqOf .copy_into 4)),
   ("HorizontalConcatenateNArgs", .loop 0 ⟨0, .copy_into, .offset, .add⟩),
   ("VerticalConcatenateVD", .nop),
   ("VerticalConcatenateVD2", .seq (seqOf .copy_into_v 2)),
   ("VerticalConcatenateVD3", .seq (seqOf .copy_into_v 3)),
   ("VerticalConcatenateVD4", .seq (seqOf .copy_into_v 4)),
   ("VerticalConcatenateVDN", .indexed .copy_into_v),
   ("VerticalConcatenateTwoArgs", .seq (seqOf .copy_into_row_major 2)),
   ("VerticalConcatenateThreeArgs", .seq (seqOf .copy_into_row_major 3)),
   ("VerticalConcatenateFourArgs", .seq (seqOf .copy_into_row_major 4)),
   ("VerticalConcatenateNArgs", .loop 0 ⟨0, .copy_into_row_major, .offset, .add⟩)]

/-- side by side: the height of the first block, the widths added up; one row of blocks of height 1 goes to the
    row-vector kernel, anything else to the matrix kernels of its arity -/
def expectedHorzcat : Cat :=
  ⟨.first .rows, .sum .cols,
   [⟨(.lit 1, .lit 1, .lit 1), ["HorizontalConcatenateMD", "HorizontalConcatenateS1D"], .none, .single⟩,
    ⟨(.lit 1, .lit 1, .any), ["HorizontalConcatenateMD", "HorizontalConcatenateRD", "HorizontalConcatenateS1D"], .none, .single⟩,
    ⟨(.any, .lit 1, .any), ["HorizontalConcatenateRDN"], .rd .cols, .byKind .cols 1⟩,
    ⟨(.lit 1, .any, .any), ["HorizontalConcatenateMD", "HorizontalConcatenateVD"], .none, .single⟩,
    ⟨(.lit 2, .any, .any), ["HorizontalConcatenateTwoArgs"], .md .rows .cols, .fields [0, 1]⟩,
    ⟨(.lit 3, .any, .any), ["HorizontalConcatenateThreeArgs"], .md .rows .cols, .fields [0, 1, 2]⟩,
    ⟨(.lit 4, .any, .any), ["HorizontalConcatenateFourArgs"], .md .rows .cols, .fields [0, 1, 2, 3]⟩,
    ⟨(.any, .any, .any), ["HorizontalConcatenateNArgs"], .md .rows .cols, .inOrder⟩]⟩

/-- stacked: the heights added up, the width of the first block; columns of width 1 go to the column-vector kernels -/
def expectedVertcat : Cat :=
  ⟨.sum .rows, .first .cols,
   [⟨(.lit 1, .any, .lit 1), ["VerticalConcatenateVD"], .none, .single⟩,
    ⟨(.lit 2, .any, .lit 1), ["VerticalConcatenateVD2"], .vd .rows, .fields [0, 1]⟩,
    ⟨(.lit 3, .any, .lit 1), ["VerticalConcatenateVD3"], .vd .rows, .fields [0, 1, 2]⟩,
    ⟨(.lit 4, .any, .lit 1), ["VerticalConcatenateVD4"], .vd .rows, .fields [0, 1, 2, 3]⟩,
    ⟨(.any, .any, .lit 1), ["VerticalConcatenateVDN"], .vd .rows, .byKind .rows 1⟩,
    ⟨(.lit 2, .any, .any), ["VerticalConcatenateTwoArgs"], .md .rows .cols, .fields [0, 1]⟩,
    ⟨(.lit 3, .any, .any), ["VerticalConcatenateThreeArgs"], .md .rows .cols, .fields [0, 1, 2]⟩,
    ⟨(.lit 4, .any, .any), ["VerticalConcatenateFourArgs"], .md .rows .cols, .fields [0, 1, 2, 3]⟩,
    ⟨(.any, .any, .any), ["VerticalConcatenateNArgs"], .md .rows .cols, .inOrder⟩]⟩

/-! ### what the table means -/
section sem
variable {α : Type}

def Dim.of (m : Mat α) : Dim → Nat
  | .rows => m.rows
  | .cols => m.cols

/-- the matched number of rows / columns -/
def Dim.pick (r c : Nat) : Dim → Nat
  | .rows => r
  | .cols => c

def Agg.eval (bs : List (Mat α)) : Agg → Nat
  | .first d => match bs with
    | [] => 0
    | b :: _ => d.of b
  | .sum d => (bs.map d.of).sum

def Pat.admits : Pat → Nat → Bool
  | .lit k, n => k == n
  | .any, _ => true

/-- a `match` on a tuple takes the first arm whose pattern admits it -/
def selectArm (arms : List Arm) (n r c : Nat) : Option Arm :=
  arms.find? (fun a => a.pat.1.admits n && a.pat.2.1.admits r && a.pat.2.2.admits c)

def Alloc.buffer (d : α) (r c : Nat) : Alloc → Option (Mat α)
  | .none => Option.none
  | .md x y => some ⟨x.pick r c, y.pick r c, List.replicate (x.pick r c * y.pick r c) d⟩
  | .rd x => some ⟨1, x.pick r c, List.replicate (x.pick r c) d⟩
  | .vd x => some ⟨x.pick r c, 1, List.replicate (x.pick r c) d⟩

variable (impl : Routine → Mat α → Mat α → Nat → Except Err (Mat α × Nat))

/-- one call: the state is the output buffer and the variable `offset` -/
def runStep (s : Step) (e : Mat α) (ix : Nat) (st : Mat α × Nat) : Except Err (Mat α × Nat) :=
  match impl s.routine e st.1 (match s.arg with | .zero => 0 | .offset => st.2 | .index => ix) with
  | .error er => .error er
  | .ok (out, ret) => .ok (out, match s.upd with | .bind => ret | .add => st.2 + ret | .drop => st.2)

def runSeq (fields : List (Mat α)) : List Step → Mat α × Nat → Except Err (Mat α × Nat)
  | [], st => .ok st
  | s :: ss, st =>
    match fields[s.field]? with
    | none => .error .other
    | some e =>
      match runStep impl s e 0 st with
      | .error er => .error er
      | .ok st' => runSeq fields ss st'

def runLoop (s : Step) : List (Mat α) → Mat α × Nat → Except Err (Mat α × Nat)
  | [], st => .ok st
  | e :: es, st =>
    match runStep impl s e 0 st with
    | .error er => .error er
    | .ok st' => runLoop s es st'

/-- `let mut i = 0; for arg … { push((arg, i)); i += … }` -/
def indexArgs (matAdv : Dim) (scalarAdv : Nat) : Nat → List (Operand α) → List (Nat × Operand α)
  | _, [] => []
  | i, a :: as =>
    (i, a) :: indexArgs matAdv scalarAdv (i + (match a with | .scalar _ => scalarAdv | .mat m => matAdv.of m)) as

def copyMats (r : Routine) : List (Nat × Operand α) → Mat α → Except Err (Mat α)
  | [], out => .ok out
  | (_, .scalar _) :: ps, out => copyMats r ps out
  | (i, .mat m) :: ps, out =>
    match impl r m out i with
    | .error er => .error er
    | .ok (out', _) => copyMats r ps out'

def writeScalars : List (Nat × Operand α) → Mat α → Except Err (Mat α)
  | [], out => .ok out
  | (_, .mat _) :: ps, out => writeScalars ps out
  | (i, .scalar x) :: ps, out =>
    match writeLin out i x with
    | .error er => .error er
    | .ok out' => writeScalars ps out'

def asMat : Operand α → Except Err (Mat α)
  | .mat m => .ok m
  | .scalar _ => .error .kind

def allMats : List (Operand α) → Except Err (List (Mat α))
  | [] => .ok []
  | a :: as =>
    match asMat a, allMats as with
    | .ok m, .ok ms => .ok (m :: ms)
    | .error e, _ => .error e
    | _, .error e => .error e

def lookupSolve (solves : List (String × Solve)) (name : String) : Option Solve :=
  (solves.find? (fun e => e.1 == name)).map (·.2)

/-- dispatch and `solve`: the arm the arguments select builds its struct over a fresh buffer, `solve` fills it -/
def evalCat (cat : Cat) (solves : List (String × Solve)) (d : α) (args : List (Operand α)) : Except Err (Mat α) :=
  let bs := args.map blockOf
  let r := cat.rows.eval bs
  let c := cat.cols.eval bs
  match selectArm cat.arms args.length r c with
  | none => .error .kind
  | some arm =>
    match arm.wiring, arm.alloc.buffer d r c, arm.structs with
    | .single, none, _ =>
      -- every struct of a one-argument arm hands its argument through (a scalar into a fresh 1×1 buffer)
      if arm.structs.all (fun s => lookupSolve solves s == some .nop || lookupSolve solves s == some .scalar1) then
        match args with
        | [a] => .ok (blockOf a)
        | _ => .error .other
      else .error .other
    | .fields order, some out, [s] =>
      match lookupSolve solves s, allMats (order.map (fun k => args[k]?.getD (.scalar d))) with
      | some (.seq steps), .ok fs => mapE (runSeq impl fs steps (out, 0)) (·.1)
      | _, .error e => .error e
      | _, _ => .error .other
    | .inOrder, some out, [s] =>
      match lookupSolve solves s, allMats args with
      | some (.loop init step), .ok es => mapE (runLoop impl step es (out, init)) (·.1)
      | _, .error e => .error e
      | _, _ => .error .other
    | .byKind matAdv scalarAdv, some out, [s] =>
      match lookupSolve solves s with
      | some (.indexed routine) =>
        let ps := indexArgs matAdv scalarAdv 0 args
        bindE (copyMats impl routine ps out) (writeScalars ps)
      | _ => .error .other
    | _, _, _ => .error .other

/-! ### `matrix()` / `matrix_row()` around the two dispatches (src/interpreter/src/structures.rs; read by hand) -/

/-- `matrix_row()`: every entry must have the height of the first; then `MatrixHorzCat` is compiled and solved -/
def evalRow (horz : Cat) (solves : List (String × Solve)) (d : α) : List (Operand α) → Except Err (Mat α)
  | [] => .error .other
  | a :: as =>
    if as.all (fun x => (blockOf x).rows == (blockOf a).rows) then evalCat impl horz solves d (a :: as)
    else .error .dim

def evalRows (horz : Cat) (solves : List (String × Solve)) (d : α) : List (List (Operand α)) → Except Err (List (Mat α))
  | [] => .ok []
  | r :: rs =>
    match evalRow impl horz solves d r with
    | .error e => .error e
    | .ok m =>
      match evalRows horz solves d rs with
      | .error e => .error e
      | .ok ms => .ok (m :: ms)

/-- `matrix()`: the rows one by one; every row must have the width of the first; a single row is the result, several
    go to `MatrixVertCat` -/
def evalLit (horz vert : Cat) (solves : List (String × Solve)) (d : α) (rows : List (List (Operand α))) : Except Err (Mat α) :=
  match evalRows impl horz solves d rows with
  | .error e => .error e
  | .ok [] => .error .other
  | .ok [m] => .ok m
  | .ok (m :: ms) =>
    if ms.all (fun x => x.cols == m.cols) then evalCat impl vert solves d ((m :: ms).map .mat) else .error .dim

end sem
end MechVerif.ConcatIR
