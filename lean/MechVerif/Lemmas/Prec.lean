import MechVerif.Spec.Prec
namespace MechVerif.Prec

variable {α : Type}

def AllGe (k : Nat) (t : Tree α) : Prop := ∀ x ∈ t.ops, k ≤ x.lvl

/-- the next operator (if any) belongs to a looser level than `k` -/
def HeadBelow (k : Nat) (r : Rest α) : Prop := ∀ o b r', r = (o, b) :: r' → o.lvl < k

def OpsBelow (m : Nat) (r : Rest α) : Prop := ∀ x ∈ r, x.1.lvl < m

/-- what a level-k parser guarantees about its result on `a rest` -/
structure LevelOk (k : Nat) (a : α) (rest : Rest α) (res : Tree α × Rest α) : Prop where
  first : res.1.first = a
  split : rest = res.1.tail ++ res.2
  wg : WellGrouped res.1
  ge : AllGe k res.1
  below : HeadBelow k res.2

theorem ops_node (l r : Tree α) (o : Op) : (Tree.node l o r).ops = l.ops ++ o :: r.ops := by
  simp [Tree.ops, Tree.tail]

theorem opsBelow_suffix (m : Nat) (x y : Rest α) (h : OpsBelow m (x ++ y)) : OpsBelow m y :=
  fun e he => h e (List.mem_append_right _ he)

theorem loop_ok (p : α → Rest α → Tree α × Rest α) (k m : Nat)
    (hp : ∀ b r, OpsBelow m r → LevelOk (k + 1) b r (p b r)) :
    ∀ (n : Nat) (acc : Tree α) (r : Rest α), r.length ≤ n → OpsBelow m r → HeadBelow (k + 1) r →
      WellGrouped acc → AllGe k acc →
      let res := loopWith p k n acc r
      res.1.first = acc.first ∧ acc.tail ++ r = res.1.tail ++ res.2 ∧ WellGrouped res.1 ∧ AllGe k res.1 ∧
        HeadBelow k res.2 := by
  intro n
  induction n with
  | zero =>
    intro acc r hlen _ _ hwg hge
    have : r = [] := List.length_eq_zero_iff.mp (Nat.le_zero.mp hlen)
    subst this
    exact ⟨rfl, rfl, hwg, hge, fun o b r' h => by cases h⟩
  | succ n ih =>
    intro acc r hlen hbelow hhead hwg hge
    cases r with
    | nil => exact ⟨rfl, rfl, hwg, hge, fun o b r' h => by cases h⟩
    | cons x r' =>
      obtain ⟨o, b⟩ := x
      simp only [loopWith]
      have holt : o.lvl < k + 1 := hhead o b r' rfl
      by_cases hk : o.lvl = k
      · simp only [hk, if_true]
        have hr' : OpsBelow m r' := fun e he => hbelow e (List.mem_cons_of_mem _ he)
        have hpb := hp b r' hr'
        have hlen2 : (p b r').2.length ≤ n := by
          have := congrArg List.length hpb.split
          simp only [List.length_append, List.length_cons] at this hlen
          omega
        have hbelow2 : OpsBelow m (p b r').2 := by
          have h := hr'
          rw [hpb.split] at h
          exact opsBelow_suffix m _ _ h
        have hwg2 : WellGrouped (Tree.node acc o (p b r').1) := by
          refine ⟨?_, ?_, hwg, hpb.wg⟩
          · intro x hx; rw [hk]; exact hge x hx
          · intro x hx; have := hpb.ge x hx; omega
        have hge2 : AllGe k (Tree.node acc o (p b r').1) := by
          intro x hx
          rw [ops_node] at hx
          cases List.mem_append.mp hx with
          | inl h => exact hge x h
          | inr h =>
            cases List.mem_cons.mp h with
            | inl e => subst e; omega
            | inr h2 => have := hpb.ge x h2; omega
        obtain ⟨h1, h2, h3, h4, h5⟩ := ih (Tree.node acc o (p b r').1) (p b r').2 hlen2 hbelow2 hpb.below hwg2 hge2
        refine ⟨by simpa [Tree.first] using h1, ?_, h3, h4, h5⟩
        rw [← h2]
        simp only [Tree.tail, hpb.first, List.append_assoc, List.cons_append]
        rw [← hpb.split]
      · have hres : (if o.lvl = k then loopWith p k n (Tree.node acc o (p b r').1) (p b r').2 else (acc, (o, b) :: r'))
            = (acc, (o, b) :: r') := by simp [hk]
        rw [hres]
        refine ⟨rfl, rfl, hwg, hge, ?_⟩
        intro o' b' r'' h
        simp only [List.cons.injEq, Prod.mk.injEq] at h
        obtain ⟨⟨h1, _⟩, _⟩ := h
        subst h1
        omega

/-- the parser of every level delivers a faithful, well-grouped term and stops exactly
    at an operator of a looser level -/
theorem parseLevel_ok : ∀ (f k : Nat) (a : α) (rest : Rest α), OpsBelow (k + f) rest →
    LevelOk k a rest (parseLevel f k a rest) := by
  intro f
  induction f with
  | zero =>
    intro k a rest h
    refine ⟨rfl, by simp [parseLevel, Tree.tail], trivial, fun x hx => by simp [Tree.ops, Tree.tail, parseLevel] at hx, ?_⟩
    intro o b r' hr
    simp only [parseLevel] at hr
    have := h (o, b) (by rw [hr]; exact List.mem_cons_self)
    simpa using this
  | succ f ih =>
    intro k a rest h
    have hb : OpsBelow (k + 1 + f) rest := by
      intro e he; have := h e he; omega
    have h0 := ih (k + 1) a rest hb
    simp only [parseLevel]
    have hb2 : OpsBelow (k + 1 + f) (parseLevel f (k + 1) a rest).2 := by
      have hh := hb
      rw [h0.split] at hh
      exact opsBelow_suffix _ _ _ hh
    have hge0 : AllGe k (parseLevel f (k + 1) a rest).1 := fun x hx => by have := h0.ge x hx; omega
    obtain ⟨l1, l2, l3, l4, l5⟩ := loop_ok (parseLevel f (k + 1)) k (k + 1 + f)
      (fun b r hr => ih (k + 1) b r hr)
      (parseLevel f (k + 1) a rest).2.length (parseLevel f (k + 1) a rest).1 (parseLevel f (k + 1) a rest).2
      (Nat.le_refl _) hb2 h0.below h0.wg hge0
    exact ⟨by rw [l1]; exact h0.first, by rw [← l2]; exact h0.split, l3, l4, l5⟩

/-! ### a well-grouped tree is determined by its in-order sequence -/

theorem split_unique (L1 L2 R1 R2 : Rest α) (o1 o2 : Op) (b1 b2 : α)
    (h : L1 ++ (o1, b1) :: R1 = L2 ++ (o2, b2) :: R2)
    (hL1 : ∀ x ∈ L1, o1.lvl ≤ x.1.lvl) (hR1 : ∀ x ∈ R1, o1.lvl < x.1.lvl)
    (hL2 : ∀ x ∈ L2, o2.lvl ≤ x.1.lvl) (hR2 : ∀ x ∈ R2, o2.lvl < x.1.lvl) :
    L1 = L2 ∧ o1 = o2 ∧ b1 = b2 ∧ R1 = R2 := by
  have hlen : L1.length = L2.length := by
    rcases Nat.lt_trichotomy L1.length L2.length with hlt | heq | hgt
    · exfalso
      -- (o1,b1) sits inside L2, and (o2,b2) sits inside R1
      have e1 : (L2 ++ (o2, b2) :: R2)[L1.length]? = some (o1, b1) := by rw [← h]; simp
      rw [List.getElem?_append_left hlt] at e1
      have m1 : (o1, b1) ∈ L2 := List.mem_of_getElem? e1
      have e2 : (L1 ++ (o1, b1) :: R1)[L2.length]? = some (o2, b2) := by rw [h]; simp
      rw [List.getElem?_append_right (by omega)] at e2
      have hpos : L2.length - L1.length = (L2.length - L1.length - 1) + 1 := by omega
      rw [hpos, List.getElem?_cons_succ] at e2
      have m2 : (o2, b2) ∈ R1 := List.mem_of_getElem? e2
      have := hL2 _ m1; have := hR1 _ m2
      simp only at *
      omega
    · exact heq
    · exfalso
      have e1 : (L1 ++ (o1, b1) :: R1)[L2.length]? = some (o2, b2) := by rw [h]; simp
      rw [List.getElem?_append_left hgt] at e1
      have m1 : (o2, b2) ∈ L1 := List.mem_of_getElem? e1
      have e2 : (L2 ++ (o2, b2) :: R2)[L1.length]? = some (o1, b1) := by rw [← h]; simp
      rw [List.getElem?_append_right (by omega)] at e2
      have hpos : L1.length - L2.length = (L1.length - L2.length - 1) + 1 := by omega
      rw [hpos, List.getElem?_cons_succ] at e2
      have m2 : (o1, b1) ∈ R2 := List.mem_of_getElem? e2
      have := hL1 _ m1; have := hR2 _ m2
      simp only at *
      omega
  obtain ⟨hl, hr⟩ := List.append_inj h hlen
  simp only [List.cons.injEq, Prod.mk.injEq] at hr
  exact ⟨hl, hr.1.1, hr.1.2, hr.2⟩

theorem wellgrouped_unique : ∀ (t1 t2 : Tree α), WellGrouped t1 → WellGrouped t2 →
    t1.first = t2.first → t1.tail = t2.tail → t1 = t2 := by
  intro t1
  induction t1 with
  | leaf a =>
    intro t2 _ _ hf ht
    cases t2 with
    | leaf b => simp only [Tree.first] at hf; rw [hf]
    | node l o r => simp [Tree.tail] at ht
  | node l1 o1 r1 ihl ihr =>
    intro t2 h1 h2 hf ht
    cases t2 with
    | leaf b => simp [Tree.tail] at ht
    | node l2 o2 r2 =>
      obtain ⟨a1, a2, a3, a4⟩ := h1
      obtain ⟨b1, b2, b3, b4⟩ := h2
      simp only [Tree.tail] at ht
      simp only [Tree.first] at hf
      have key := split_unique l1.tail l2.tail r1.tail r2.tail o1 o2 r1.first r2.first ht
        (fun x hx => a1 x.1 (List.mem_map.mpr ⟨x, hx, rfl⟩))
        (fun x hx => a2 x.1 (List.mem_map.mpr ⟨x, hx, rfl⟩))
        (fun x hx => b1 x.1 (List.mem_map.mpr ⟨x, hx, rfl⟩))
        (fun x hx => b2 x.1 (List.mem_map.mpr ⟨x, hx, rfl⟩))
      obtain ⟨k1, k2, k3, k4⟩ := key
      rw [ihl l2 a3 b3 hf k1, ihr r2 a4 b4 k3 k4, k2]

/-! ### the grouping computed by `parseFormula` (stated as properties in Props/C02.lean) -/

/-- every operator of the flat formula belongs to one of the grammar levels 1 … N -/
def OpsIn (N : Nat) (rest : Rest α) : Prop := ∀ x ∈ rest, 1 ≤ x.1.lvl ∧ x.1.lvl ≤ N

/-- The parse tree is faithful to the text: its in-order traversal is the flat formula
    (first operand, then the operator/operand pairs it consumed). -/
theorem parse_inorder (N : Nat) (a : α) (rest : Rest α) (h : OpsIn N rest) :
    (parseFormula N a rest).1.first = a ∧ rest = (parseFormula N a rest).1.tail ++ (parseFormula N a rest).2 := by
  have := parseLevel_ok N 1 a rest (fun e he => by have := h e he; omega)
  exact ⟨this.first, this.split⟩

/-- … and it accounts for the whole formula. -/
theorem parse_consumes_all (N : Nat) (a : α) (rest : Rest α) (h : OpsIn N rest) :
    (parseFormula N a rest).2 = [] ∧ (parseFormula N a rest).1.tail = rest := by
  have hk := parseLevel_ok N 1 a rest (fun e he => by have := h e he; omega)
  have hnil : (parseFormula N a rest).2 = [] := by
    cases hr : (parseFormula N a rest).2 with
    | nil => rfl
    | cons x r' =>
      obtain ⟨o, b⟩ := x
      have hlt := hk.below o b r' hr
      have hmem : (o, b) ∈ rest := by
        rw [hk.split]; exact List.mem_append_right _ (by unfold parseFormula at hr; rw [hr]; exact List.mem_cons_self)
      have h1 : 1 ≤ o.lvl := (h (o, b) hmem).1
      omega
  refine ⟨hnil, ?_⟩
  have := hk.split
  unfold parseFormula at hnil
  rw [hnil, List.append_nil] at this
  exact this.symm

/-- The parse tree is the documented grouping: tighter levels sit below looser ones and
    operators of one level (including `^`) group from the left. -/
theorem parse_wellgrouped (N : Nat) (a : α) (rest : Rest α) (h : OpsIn N rest) :
    WellGrouped (parseFormula N a rest).1 :=
  (parseLevel_ok N 1 a rest (fun e he => by have := h e he; omega)).wg

/-- The documented grouping is unique, so the parser computes *the* grouping: any
    well-grouped tree with the same in-order sequence is the parse tree. -/
theorem grouping_unique (N : Nat) (a : α) (rest : Rest α) (h : OpsIn N rest) (t : Tree α)
    (hwg : WellGrouped t) (hf : t.first = a) (ht : t.tail = rest) : (parseFormula N a rest).1 = t := by
  apply wellgrouped_unique _ t (parse_wellgrouped N a rest h) hwg
  · rw [(parse_inorder N a rest h).1, hf]
  · rw [(parse_consumes_all N a rest h).2, ht]

end MechVerif.Prec
