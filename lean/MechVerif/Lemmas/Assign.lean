import MechVerif.Spec.Assign
import MechVerif.Lemmas.Index
namespace MechVerif.Assign
open MechVerif.Num MechVerif.Mat MechVerif.Index

variable {α : Type}

/-- the write loop never changes the number of elements -/
theorem scatter_length (f : α → α → Except Err α) (src : Nat → Except Err α) :
    ∀ (ts : List (Except Err Nat)) (k : Nat) (d : List α), (scatter f src ts k d).1.length = d.length := by
  intro ts
  induction ts with
  | nil => intro k d; rfl
  | cons t ts ih =>
    intro k d
    simp only [scatter]
    split
    · rfl
    · split
      · rfl
      · split
        · rfl
        · split
          · rfl
          · rw [ih]; simp

/-- frame: a position that is not a target keeps its value, whether or not the loop fails -/
theorem scatter_frame (f : α → α → Except Err α) (src : Nat → Except Err α) :
    ∀ (ts : List (Except Err Nat)) (k : Nat) (d : List α) (q : Nat),
      (∀ p, Except.ok p ∈ ts → p ≠ q) → (scatter f src ts k d).1[q]? = d[q]? := by
  intro ts
  induction ts with
  | nil => intro k d q _; rfl
  | cons t ts ih =>
    intro k d q hq
    simp only [scatter]
    split
    · rfl
    · rename_i p
      split
      · rfl
      · split
        · rfl
        · split
          · rfl
          · rename_i new _
            rw [ih (k + 1) (d.set p new) q (fun p' hp' => hq p' (List.mem_cons_of_mem _ hp'))]
            have : p ≠ q := hq p List.mem_cons_self
            simp [List.getElem?_set, this]

/-- success: with pairwise distinct targets the j-th target holds `f old (src (k+j))`
    and every source / old element was available -/
theorem scatter_writes (f : α → α → Except Err α) (src : Nat → Except Err α) :
    ∀ (ps : List Nat) (k : Nat) (d d' : List α), ps.Nodup →
      scatter f src (ps.map Except.ok) k d = (d', .ok ()) →
      ∀ j q, ps[j]? = some q → ∃ old v new, d[q]? = some old ∧ src (k + j) = .ok v ∧
        f old v = .ok new ∧ d'[q]? = some new := by
  intro ps
  induction ps with
  | nil => intro k d d' _ _ j q hj; simp at hj
  | cons p ps ih =>
    intro k d d' hnd h j q hj
    obtain ⟨hp, hnd'⟩ := List.nodup_cons.mp hnd
    simp only [List.map_cons, scatter] at h
    cases hg : getE d p with
    | error e => simp [hg] at h
    | ok old =>
      simp only [hg] at h
      cases hs : src k with
      | error e => simp [hs] at h
      | ok v =>
        simp only [hs] at h
        cases hf : f old v with
        | error e => simp [hf] at h
        | ok new =>
          simp only [hf] at h
          have hold : d[p]? = some old := getE_ok.mp hg
          cases j with
          | zero =>
            simp only [List.getElem?_cons_zero, Option.some.injEq] at hj
            subst hj
            refine ⟨old, v, new, hold, by simpa using hs, hf, ?_⟩
            have hfr := scatter_frame f src (ps.map Except.ok) (k + 1) (d.set p new) p (by
              intro p' hp' he
              have : p' ∈ ps := by
                obtain ⟨x, hx, hxe⟩ := List.mem_map.mp hp'
                cases hxe; exact hx
              rw [he] at this; exact hp this)
            rw [h] at hfr
            rw [hfr]
            have hlt : p < d.length := (List.getElem?_eq_some_iff.mp hold).1
            simp [List.getElem?_set, hlt]
          | succ j =>
            simp only [List.getElem?_cons_succ] at hj
            obtain ⟨old', v', new', h1, h2, h3, h4⟩ := ih (k + 1) (d.set p new) d' hnd' h j q hj
            have hne : p ≠ q := by
              intro he
              have : q ∈ ps := List.mem_of_getElem? hj
              rw [← he] at this; exact hp this
            refine ⟨old', v', new', ?_, ?_, h3, h4⟩
            · rw [List.getElem?_set] at h1
              simpa [hne] using h1
            · rw [show k + (j + 1) = k + 1 + j by omega]; exact h2

/-- failure at the first target leaves the data untouched -/
theorem scatter_first_failure (f : α → α → Except Err α) (src : Nat → Except Err α)
    (e : Err) (ts : List (Except Err Nat)) (k : Nat) (d : List α) :
    (scatter f src (.error e :: ts) k d).1 = d := rfl

/-! ### two-index forms -/


theorem pos_inj (rows r c r' c' : Nat) (hr : r < rows) (hr' : r' < rows) (h : c * rows + r = c' * rows + r') : r = r' ∧ c = c' := by
  have h1 : (c * rows + r) % rows = r := by rw [Nat.mul_comm, Nat.mul_add_mod]; exact Nat.mod_eq_of_lt hr
  have h2 : (c' * rows + r') % rows = r' := by rw [Nat.mul_comm, Nat.mul_add_mod]; exact Nat.mod_eq_of_lt hr'
  have hrr : r = r' := by rw [← h1, ← h2, h]
  subst hrr
  have hpos : 0 < rows := by omega
  have : c * rows = c' * rows := by omega
  exact ⟨rfl, Nat.eq_of_mul_eq_mul_right hpos this⟩

theorem nodup_map_of_inj_on {β γ : Type} (g : β → γ) : ∀ (l : List β), l.Nodup →
    (∀ a ∈ l, ∀ b ∈ l, g a = g b → a = b) → (l.map g).Nodup := by
  intro l
  induction l with
  | nil => intro _ _; simp
  | cons a as ih =>
    intro hnd hinj
    obtain ⟨ha, has⟩ := List.nodup_cons.mp hnd
    simp only [List.map_cons, List.nodup_cons]
    refine ⟨?_, ih has (fun x hx y hy => hinj x (List.mem_cons_of_mem _ hx) y (List.mem_cons_of_mem _ hy))⟩
    intro hmem
    obtain ⟨b, hb, hbe⟩ := List.mem_map.mp hmem
    have := hinj a List.mem_cons_self b (List.mem_cons_of_mem _ hb) hbe.symm
    subst this; exact ha hb

/-- the column-major position of the 1-based cell (r, c) -/
def cellPos (m : Mat α) (p : Nat × Nat) : Nat := (p.2 - 1) * m.rows + (p.1 - 1)

theorem rcTarget_ok (m : Mat α) (r c p : Nat) :
    rcTarget m r c = .ok p ↔ (1 ≤ r ∧ r ≤ m.rows ∧ 1 ≤ c ∧ c ≤ m.cols ∧ p = cellPos m (r, c)) := by
  unfold rcTarget cellPos
  constructor
  · intro h
    obtain ⟨r0, hr0, h⟩ := bindE_ok.mp h
    obtain ⟨c0, hc0, h⟩ := bindE_ok.mp h
    obtain ⟨a1, a2⟩ := pred1_ok.mp hr0
    obtain ⟨b1, b2⟩ := pred1_ok.mp hc0
    split at h
    · next hlt => simp only [Except.ok.injEq] at h; subst a2; subst b2; exact ⟨a1, by omega, b1, by omega, h.symm⟩
    · cases h
  · rintro ⟨h1, h2, h3, h4, h5⟩
    apply bindE_ok.mpr
    refine ⟨r - 1, pred1_ok.mpr ⟨h1, rfl⟩, ?_⟩
    apply bindE_ok.mpr
    refine ⟨c - 1, pred1_ok.mpr ⟨h3, rfl⟩, ?_⟩
    have : r - 1 < m.rows ∧ c - 1 < m.cols := by omega
    rw [if_pos this, h5]

theorem cellPos_inj (m : Mat α) (p p' : Nat × Nat) (hp : 1 ≤ p.1 ∧ p.1 ≤ m.rows ∧ 1 ≤ p.2) (hp' : 1 ≤ p'.1 ∧ p'.1 ≤ m.rows ∧ 1 ≤ p'.2)
    (h : cellPos m p = cellPos m p') : p = p' := by
  unfold cellPos at h
  obtain ⟨a, b⟩ := pos_inj m.rows (p.1 - 1) (p.2 - 1) (p'.1 - 1) (p'.2 - 1) (by omega) (by omega) h
  apply Prod.ext <;> omega

theorem mem_pairs (R C : List Nat) (p : Nat × Nat) : p ∈ pairs R C ↔ p.1 ∈ R ∧ p.2 ∈ C := by
  unfold pairs
  simp only [List.mem_flatMap, List.mem_map]
  constructor
  · rintro ⟨c, hc, r, hr, e⟩; subst e; exact ⟨hr, hc⟩
  · rintro ⟨hr, hc⟩; exact ⟨p.2, hc, p.1, hr, rfl⟩


end MechVerif.Assign
