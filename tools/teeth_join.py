#!/usr/bin/env python3
"""Teeth of the C18 translator tie, without touching /repo: copies table_ops.rs (`git -C /repo show HEAD:`) into a
temporary tree, applies one small change, runs tools/extract_join.py on the copy (`repo=` argument) and builds
MechVerif.Props.C18 with the definitions generated from it; reports which Lean proof fails first, or that the reader
refused the source (NOTE, committed file stays), or that the change was absorbed (re-formatting, renaming).
Gen/JoinKernel.lean is regenerated from /repo at the end.   usage: tools/teeth_join.py [experiment-id ...]"""
import os, re, shutil, subprocess, sys, tempfile
ROOT = os.path.dirname(os.path.dirname(os.path.abspath(__file__)))
sys.path.insert(0, os.path.join(ROOT, "tools"))
import extract_join as EJ

def sub(old, new, count=1):
    """replace `old` (white space flexible) by `new`; the text must occur exactly `count` times"""
    pat = re.compile(r'\s*'.join(re.escape(t) for t in re.findall(r'\w+|[^\w\s]', old)))
    def f(text):
        hits = pat.findall(text)
        if len(hits) != count: raise ValueError("%d occurrences of %r" % (len(hits), old[:40]))
        return pat.sub(lambda m: new, text)
    return f

def rename(*pairs):
    def f(text):
        for a, b in pairs:
            if not re.search(r'\b%s\b' % a, text): raise ValueError("no " + a)
            text = re.sub(r'\b%s\b' % a, b, text)
        return text
    return f

def crlf_tabs_comments(text):
    lines = text.split('\n')
    out = []
    for l in lines:
        n = len(l) - len(l.lstrip(' '))
        out.append('\t' * (n // 4) + ' ' * (n % 4) + l.lstrip(' '))
        if l.strip().startswith('for lhs_row in'): out.append('\t\t\t// one pass over the left rows /* nested */')
    return '\r\n'.join(out).replace('fn rows_match(', '/* the key test */ fn rows_match(')

EXPERIMENTS = [
 # (id, what, transformation)
 ("any-for-all", "rows_match: `.any(` for `.all(`", sub("common_cols.iter().all(", "common_cols.iter().any(")),
 ("semi-per-match", "LeftSemi arm pushes the left row once per matching right row",
  sub("JoinMode::LeftSemi => { if !matched_rhs.is_empty() { out_rows.push(lhs_only_row(lhs, lhs_row)); } }",
      "JoinMode::LeftSemi => { for _r in matched_rhs { out_rows.push(lhs_only_row(lhs, lhs_row)); } }")),
 ("semi-anti-swapped", "LeftAnti arm tests `!matched_rhs.is_empty()`",
  sub("JoinMode::LeftAnti => { if matched_rhs.is_empty()", "JoinMode::LeftAnti => { if !matched_rhs.is_empty()")),
 ("unmatched-pass-left", "the unmatched-right pass also runs for LeftOuter",
  sub("if matches!(mode, JoinMode::RightOuter | JoinMode::FullOuter) { for rhs_row",
      "if matches!(mode, JoinMode::RightOuter | JoinMode::FullOuter | JoinMode::LeftOuter) { for rhs_row")),
 ("unmatched-pass-right-only", "the unmatched-right pass does not run for FullOuter",
  sub("if matches!(mode, JoinMode::RightOuter | JoinMode::FullOuter) { for rhs_row",
      "if matches!(mode, JoinMode::RightOuter) { for rhs_row")),
 ("optional-wrong-side", "right-only columns made optional under RightOuter | FullOuter",
  sub("let out_kind = if matches!(mode, JoinMode::LeftOuter | JoinMode::FullOuter)",
      "let out_kind = if matches!(mode, JoinMode::RightOuter | JoinMode::FullOuter)")),
 ("optional-keys-too", "left columns made optional even when they are join keys",
  sub("let out_kind = if !common_lhs.contains(lhs_id) && matches!(mode, JoinMode::RightOuter | JoinMode::FullOuter)",
      "let out_kind = if matches!(mode, JoinMode::RightOuter | JoinMode::FullOuter)")),
 ("optional-not-made", "make_optional_kind returns the kind unchanged",
  sub("_ => ValueKind::Option(Box::new(kind.clone())),", "_ => kind.clone(),")),
 ("shared-from-right", "merge_rows: the guard `if common_rhs.contains(rhs_id) { continue; }` dropped (the right table's value of a shared column overwrites the left one)",
  sub("for (rhs_id, _) in rhs.data.iter() { if common_rhs.contains(rhs_id) { continue; } let value = if rhs_empty",
      "for (rhs_id, _) in rhs.data.iter() { let value = if rhs_empty")),
 ("pad-not-empty", "merge_rows: `rhs_empty` ignored (the padded row reads right row 0)",
  sub("let value = if rhs_empty || rhs_row == 0 {", "let value = if rhs_row > rhs.rows {")),
 ("flag-off-by-one", "`rhs_matched[rhs_row] = true` (all four arms)",
  sub("rhs_matched[rhs_row - 1] = true;", "rhs_matched[rhs_row] = true;", 4)),
 ("flag-not-set-right", "RightOuter arm does not flag the matched right rows",
  sub("// handled when iterating unmatched rhs rows below } else { for rhs_row in matched_rhs { rhs_matched[rhs_row - 1] = true;",
      "} else { for rhs_row in matched_rhs {")),
 ("unmatched-keys-empty", "unmatched right row: the join-key columns are left empty",
  sub(".unwrap_or(Value::Empty); row.insert(*lhs_id, value); } else {", ".unwrap_or(Value::Empty); row.insert(*lhs_id, Value::Empty); } else {")),
 ("inner-loop-bound", "the matching loop runs over `1..=lhs.rows`",
  sub("for rhs_row in 1..=rhs.rows { if rows_match", "for rhs_row in 1..=lhs.rows { if rows_match")),
 ("match-wrong-column", "rows_match compares the left key column with itself",
  sub("let rhs_val = rhs.data.get(rhs_col).map(|(_, col)| col.index1d(rhs_row));",
      "let rhs_val = lhs.data.get(lhs_col).map(|(_, col)| col.index1d(lhs_row));")),
 ("common-by-id", "shared columns discovered by id instead of by name",
  sub("if let Some(rhs_id) = rhs_name_to_id.get(lhs_name) { common_cols.push((*lhs_id, *rhs_id)); }",
      "if let Some(rhs_id) = rhs_name_to_id.get(lhs_name) { common_cols.push((*lhs_id, *lhs_id)); }")),
 ("semi-columns", "LeftSemi keeps the merged column list",
  sub("if matches!(mode, JoinMode::LeftSemi | JoinMode::LeftAnti) { output_cols =", "if matches!(mode, JoinMode::LeftAnti) { output_cols =")),
 ("wrapper-mode", "TableLeftSemiJoin hands JoinMode::LeftAnti to compile_table_join",
  sub("compile_table_join(arguments, JoinMode::LeftSemi)", "compile_table_join(arguments, JoinMode::LeftAnti)")),
 ("operands-swapped", "compile_table_join resolves lhs from arguments[1]",
  sub("let lhs = resolve(&arguments[0]);", "let lhs = resolve(&arguments[1]);")),
 ("descriptor-name", "`table/left-semi-join` registered for TableLeftAntiJoin and vice versa",
  lambda t: sub('name: "table/left-semi-join", ptr: &TableLeftSemiJoin{}', 'name: "table/left-semi-join", ptr: &TableLeftAntiJoin{}')(
            sub('name: "table/left-anti-join", ptr: &TableLeftAntiJoin{}', 'name: "table/left-anti-join", ptr: &TableLeftSemiJoin{}')(t))),
 ("expr-symbol-wrapper", "expressions.rs: TableOp::LeftOuterJoin compiles TableRightOuterJoin",
  sub("FormulaOperator::Table(TableOp::LeftOuterJoin) => TableLeftOuterJoin {}", "FormulaOperator::Table(TableOp::LeftOuterJoin) => TableRightOuterJoin {}")),
 ("expr-symbol-operands", "expressions.rs: TableOp::LeftSemiJoin hands on `vec![rhs, lhs]`",
  sub("TableLeftSemiJoin {}.compile(&vec![lhs, rhs])", "TableLeftSemiJoin {}.compile(&vec![rhs, lhs])")),
 # harmless
 ("renamed-locals", "locals renamed in rows_match, merge_rows and build_joined_table (same meaning)",
  rename(("lhs_val", "a"), ("rhs_val", "b"), ("matched_rhs", "hits"), ("out_rows", "acc"), ("rhs_matched", "seen"),
         ("common_cols", "keys"), ("lhs_row", "i"), ("rhs_row", "j"), ("rhs_name_to_id", "by_name"), ("output_cols", "oc"),
         ("value", "end"))),
 ("crlf-tabs-comments", "CRLF line ends, tabs, extra comments (same meaning)", crlf_tabs_comments),
 ("reformatted", "the LeftAnti arm on one line, the inner loop's `if` spread over lines (same meaning)",
  lambda t: sub("JoinMode::LeftAnti => { if matched_rhs.is_empty() { out_rows.push(lhs_only_row(lhs, lhs_row)); } }",
                "JoinMode::LeftAnti => { if matched_rhs.is_empty() { out_rows.push(lhs_only_row(lhs, lhs_row)); } }")(
            sub("if rows_match(lhs, lhs_row, rhs, rhs_row, &common_cols) {", "if rows_match(\n lhs,\n lhs_row,\n rhs,\n rhs_row,\n &common_cols,\n )\n {")(t))),
 ("filter-chain", "matched_rhs computed by `(1..=rhs.rows).filter(..).collect()` (same meaning, another form)",
  sub("let mut matched_rhs: Vec<usize> = vec![]; for rhs_row in 1..=rhs.rows { if rows_match(lhs, lhs_row, rhs, rhs_row, &common_cols) { matched_rhs.push(rhs_row); } }",
      "let matched_rhs: Vec<usize> = (1..=rhs.rows).filter(|r| rows_match(lhs, lhs_row, rhs, *r, &common_cols)).collect();")),
 ("while-loop", "the unmatched pass written as a `while` loop", sub("for rhs_row in 1..=rhs.rows { if rhs_matched[rhs_row - 1] { continue; }",
      "let mut rhs_row = 0; while rhs_row < rhs.rows { rhs_row += 1; if rhs_matched[rhs_row - 1] { continue; }")),
 ("len-for-is-empty", "LeftSemi arm tests `matched_rhs.len() > 0` (same meaning, not the same text)",
  sub("JoinMode::LeftSemi => { if !matched_rhs.is_empty()", "JoinMode::LeftSemi => { if matched_rhs.len() > 0")),
 ("early-return", "an early `return` for two empty tables added", sub("let mut out_rows: Vec<HashMap<u64, Value>> = vec![];",
      "if lhs.rows == 0 && rhs.rows == 0 { return Err(MechError::new(EmptyJoin, None)); } let mut out_rows: Vec<HashMap<u64, Value>> = vec![];")),
]

def theorem_at(path, line):
    name = "?"
    for n, l in enumerate(open(path), 1):
        m = re.match(r'\s*(?:private )?(?:theorem|example|def)\s*([\w.\']*)', l)
        if m: name = m.group(1) or "example (line %d)" % n
        if n >= line: break
    return name

def run(exp):
    eid, what, tf = exp
    tmp = tempfile.mkdtemp(prefix="teeth_c18_")
    try:
        dst = os.path.join(tmp, EJ.SRC)
        os.makedirs(os.path.dirname(dst), exist_ok=True)
        text = subprocess.run(["git", "-C", "/repo", "show", "HEAD:" + EJ.SRC], stdout=subprocess.PIPE, check=True).stdout.decode().replace('\r\n', '\n')
        try: new = text if eid.startswith("expr-") else tf(text)
        except ValueError as e: return "%s: NOT APPLIED (%s)" % (eid, e)
        os.makedirs(os.path.dirname(os.path.join(tmp, EJ.EXPR_RS)), exist_ok=True)
        etext = subprocess.run(["git", "-C", "/repo", "show", "HEAD:" + EJ.EXPR_RS], stdout=subprocess.PIPE, check=True).stdout.decode()
        if eid.startswith("expr-"): etext = tf(etext); new = text
        open(os.path.join(tmp, EJ.EXPR_RS), "w", newline='').write(etext)
        open(dst, "w", newline='').write(new)
        ok, msg = EJ.generate(ROOT, repo=tmp)
        if not ok: return "%s — %s: reader refuses → NOTE, committed file stays (%s)" % (eid, what, msg)
        p = subprocess.run(["lake", "build", "MechVerif.Props.C18"], cwd=os.path.join(ROOT, "lean"), stdout=subprocess.PIPE, stderr=subprocess.STDOUT, text=True)
        if p.returncode == 0: return "%s — %s: extracted, all proofs pass" % (eid, what)
        bad = re.findall(r"error: (MechVerif/[\w/]+\.lean):(\d+)", p.stdout)
        names = []
        for b in bad:
            n = "%s (%s)" % (theorem_at(os.path.join(ROOT, "lean", b[0]), int(b[1])), os.path.basename(b[0]))
            if n not in names: names.append(n)
        return "%s — %s: build FAILS at %s" % (eid, what, ", ".join(names[:3]) or p.stdout[-300:])
    finally:
        shutil.rmtree(tmp, ignore_errors=True)

if __name__ == "__main__":
    want = sys.argv[1:]
    try:
        for e in EXPERIMENTS:
            if want and e[0] not in want: continue
            print(run(e), flush=True)
    finally:
        print("restored:", EJ.generate(ROOT), flush=True)
