/-
Bitwise model of CRC-32/ISO-HDLC (reflected, polynomial 0xEDB88320, init and
xorout 0xFFFFFFFF) — the function `crc32fast::hash` computes — and of
`verify_crc_trailer_seek` (`src/core/src/program/program.rs`).
Bytes are `BitVec 8`; a file is a `List Byte`.
-/
namespace MechVerif.Crc

abbrev Byte := BitVec 8

def POLY : BitVec 32 := 0xEDB88320#32
def ONES : BitVec 32 := 0xFFFFFFFF#32

def lsb (s : BitVec 32) : Bool := s.getLsbD 0
/-- one division step (multiplication by x in the reflected representation) -/
def Z (s : BitVec 32) : BitVec 32 := if lsb s then (s >>> 1) ^^^ POLY else s >>> 1
def bit (b : Bool) : BitVec 32 := if b then 1#32 else 0#32
def step (s : BitVec 32) (b : Bool) : BitVec 32 := Z (s ^^^ bit b)
def run (s : BitVec 32) (m : List Bool) : BitVec 32 := m.foldl step s

/-- bits of a byte in transmission order (least significant first) -/
def byteBits (x : Byte) : List Bool :=
  [x.getLsbD 0, x.getLsbD 1, x.getLsbD 2, x.getLsbD 3, x.getLsbD 4, x.getLsbD 5, x.getLsbD 6, x.getLsbD 7]

def bitsOfBytes (f : List Byte) : List Bool := f.flatMap byteBits

def crc32 (f : List Byte) : BitVec 32 := run ONES (bitsOfBytes f) ^^^ ONES

/-- little-endian u32 from four bytes -/
def le32 (b0 b1 b2 b3 : Byte) : BitVec 32 := (b3 ++ b2 ++ b1 ++ b0 : BitVec 32)

inductive VErr where
  | short | crc
deriving DecidableEq, Repr

/-- `verify_crc_trailer_seek`: the last four bytes (little endian) must equal the
    CRC-32 of everything before them -/
def verify (f : List Byte) : Except VErr Unit :=
  if f.length < 4 then .error .short else
  match f.drop (f.length - 4) with
  | [b0, b1, b2, b3] =>
    if crc32 (f.take (f.length - 4)) == le32 b0 b1 b2 b3 then .ok () else .error .crc
  | _ => .error .short

def verifies (f : List Byte) : Bool :=
  match verify f with | .ok _ => true | .error _ => false

end MechVerif.Crc
