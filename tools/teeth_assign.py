#!/usr/bin/env python3
"""Teeth of the C04 translator tie, without touching /repo: copies the source files the translator reads into a
temporary directory, applies one small change, runs tools/extract_assign.py on the copy (`repo=` argument) and builds
MechVerif.Props.C04 with the table generated from it; reports which Lean proof fails, or that the reader refused the
body, or that the change was absorbed (re-formatting, renaming).  The generated file is regenerated from /repo at
the end.   usage: tools/teeth_assign.py [experiment-id …]"""
import os, re, shutil, subprocess, sys, tempfile
ROOT = os.path.dirname(os.path.dirname(os.path.abspath(__file__)))
sys.path.insert(0, os.path.join(ROOT, "tools"))
import extract_assign as EA

M = EA.MATRIX_RS
OP = "machines/math/src/op_assign/%s_assign.rs"
ST = EA.STATEMENTS_RS
FILES = [M, ST] + [OP % o for o in EA.OPS]

# (id, what, file, old, new)
EXPERIMENTS = [
 ("loops-swapped", "assign_2d_all_range: the row loop moved outside the column loop", M,
  "      for cix in $ix.iter() {\n        for rix in 0..($sink).nrows() {\n          ($sink).column_mut(cix - 1)[rix] = ($source).clone();",
  "      for rix in 0..($sink).nrows() {\n        for cix in $ix.iter() {\n          ($sink).column_mut(cix - 1)[rix] = ($source).clone();"),
 ("minus1-dropped", "set_1d_range: `- 1` dropped", M,
  "        ($sink)[($ix)[i] - 1] = ($source).clone();", "        ($sink)[($ix)[i]] = ($source).clone();"),
 ("source-0", "set_1d_range_vec: `source[i]` → `source[0]`", M,
  "        ($sink)[($ix)[i] - 1] = ($source)[i].clone();", "        ($sink)[($ix)[i] - 1] = ($source)[0].clone();"),
 ("nrows-ncols", "assign_2d_all_scalar: loop to `ncols()` instead of `nrows()`", M,
  "      for i in 0..$sink.nrows() {\n        ($sink).column_mut($ix - 1)[i] = ($source).clone();",
  "      for i in 0..$sink.ncols() {\n        ($sink).column_mut($ix - 1)[i] = ($source).clone();"),
 ("wrong-operator", "add_assign_1d_range: `-=` in the `+=` kernel", OP % "add",
  "        ($sink)[($ix)[i] - 1] += ($source).clone();", "        ($sink)[($ix)[i] - 1] -= ($source).clone();"),
 ("row-col-swapped", "assign_2d_range_range: `sink[(c, r)]`", M,
  "        let r = $ix1[rix] - 1;\n        for cix in 0..($ix2).len() {\n          let c = $ix2[cix] - 1;\n          ($sink)[(r, c)] = ($source).clone();",
  "        let r = $ix1[rix] - 1;\n        for cix in 0..($ix2).len() {\n          let c = $ix2[cix] - 1;\n          ($sink)[(c, r)] = ($source).clone();"),
 ("wrong-argument", "assign_2d_scalar_range_v: the row taken from `$ix2`'s loop variable (`row_mut(i)`)", M,
  "        ($sink).row_mut($ix1 - 1)[cix] = ($source)[i].clone();", "        ($sink).row_mut(i)[cix] = ($source)[i].clone();"),
 ("source-other-var", "assign_2d_range_scalar_v: `source[rix - 1]` instead of `source[i]`", M,
  "        col[rix - 1] = ($source)[i].clone();", "        col[rix - 1] = ($source)[rix - 1].clone();"),
 ("deviation-repaired", "set_1d_range_b (listed, C04-D5): a length check added", M,
  "macro_rules! set_1d_range_b {\n  ($source:expr, $ix:expr, $sink:expr) => {\n    unsafe { \n",
  "macro_rules! set_1d_range_b {\n  ($source:expr, $ix:expr, $sink:expr) => {\n    unsafe { \n      if $ix.len() != $sink.len() { panic!(\"mask length\"); }\n"),
 ("deviation-changed", "set_1d_range_vec_b (listed, C04-D6): the mask test dropped", M,
  "        if $ix[i] == true {\n          ($sink)[i] = ($source)[i].clone();\n        }", "        { ($sink)[i] = ($source)[i].clone(); }"),
 ("hoist-added", "assign_2d_scalar_range: the row view taken before the loop", M,
  "      for i in 0..($ix2).len() {\n        let cix = $ix2[i] - 1; \n        ($sink).row_mut($ix1 - 1)[cix] = ($source).clone();",
  "      let mut row = ($sink).row_mut($ix1 - 1);\n      for i in 0..($ix2).len() {\n        let cix = $ix2[i] - 1; \n        row[cix] = ($source).clone();"),
 ("arm-rewired", "op_assign!: the `[1,n]` arm of one subscript compiles MatrixAssignScalar", ST,
  "                  [1,n] => plan.borrow_mut().push([<$op AssignRange>]{}.compile(&fxn_input)?),\n                  [n,1] => plan.borrow_mut().push([<$op AssignRange>]{}.compile(&fxn_input)?),\n                  _ => todo!(),\n                }\n              },\n              [Subscript::Formula(ix1),Subscript::All]",
  "                  [1,n] => plan.borrow_mut().push(MatrixAssignScalar{}.compile(&fxn_input)?),\n                  [n,1] => plan.borrow_mut().push([<$op AssignRange>]{}.compile(&fxn_input)?),\n                  _ => todo!(),\n                }\n              },\n              [Subscript::Formula(ix1),Subscript::All]"),
 ("arm-repaired", "op_assign!: the `[1,1]` arm (listed, C04-D1) compiles the operator's own struct", ST,
  "                  [1,1] => plan.borrow_mut().push(MatrixAssignScalar{}.compile(&fxn_input)?),\n                  [1,n] => plan.borrow_mut().push([<$op AssignRange>]",
  "                  [1,1] => plan.borrow_mut().push([<$op AssignRange>]{}.compile(&fxn_input)?),\n                  [1,n] => plan.borrow_mut().push([<$op AssignRange>]"),
 ("operator-instances", "`op_assign!(mul_assign, Div)`", ST, "op_assign!(mul_assign, Mul);", "op_assign!(mul_assign, Div);"),
 ("renamed-reformatted", "set_1d_range_vec: loop variable renamed, bound bound by `let`, other layout (same meaning)", M,
  "      for i in 0..($ix).len() {\n        ($sink)[($ix)[i] - 1] = ($source)[i].clone();\n      }",
  "      let n = $ix.len();\n      for k in 0 .. n\n      {\n        let target = $ix[k] - 1;\n        $sink[target] = $source[k].clone();\n      }"),
 ("iter-form", "set_1d_range: the loop written with `iter().enumerate()` (same meaning)", M,
  "      for i in 0..($ix).len() {\n        ($sink)[($ix)[i] - 1] = ($source).clone();\n      }",
  "      for (_k, &j) in $ix.iter().enumerate() {\n        ($sink)[j - 1] = ($source).clone();\n      }"),
 ("unknown-loop", "set_1d_range: the loop runs backwards (`.rev()`)", M,
  "      for i in 0..($ix).len() {\n        ($sink)[($ix)[i] - 1] = ($source).clone();", "      for i in (0..($ix).len()).rev() {\n        ($sink)[($ix)[i] - 1] = ($source).clone();"),
 ("second-write", "assign_1d_scalar: a second statement writes the sink", M,
  "      ($sink)[$ix - 1] = ($source).clone();\n    };}", "      ($sink)[$ix - 1] = ($source).clone();\n      ($sink)[0] = ($source).clone();\n    };}"),
]

def theorem_at(path, line):
    name = "?"
    for n, l in enumerate(open(path), 1):
        m = re.match(r'\s*(?:theorem|example)\s*([\w.\']*)', l)
        if m: name = m.group(1) or "example (line %d)" % n
        if n >= line: break
    return name

def run(exp):
    eid, what, f, old, new = exp
    tmp = tempfile.mkdtemp(prefix="teeth_c04_")
    try:
        for p in FILES:
            os.makedirs(os.path.dirname(os.path.join(tmp, p)), exist_ok=True)
            shutil.copy(os.path.join("/repo", p), os.path.join(tmp, p))
        text = open(os.path.join(tmp, f), newline='').read().replace('\r\n', '\n')
        pat = re.compile(r'\s+'.join(re.escape(t) for t in old.split()))      # white space in the text to change is flexible
        hits = pat.findall(text)
        if len(hits) != 1: return "%s: NOT APPLIED (%d occurrences of the text to change)" % (eid, len(hits))
        open(os.path.join(tmp, f), "w", newline='').write(pat.sub(lambda m: new, text))
        ok, msg = EA.generate(ROOT, repo=tmp)
        if not ok: return "%s — %s: reader refuses → NOTE, committed table stays (%s)" % (eid, what, msg)
        p = subprocess.run(["lake", "build", "MechVerif.Props.C04"], cwd=os.path.join(ROOT, "lean"), stdout=subprocess.PIPE, stderr=subprocess.STDOUT, text=True)
        if p.returncode == 0: return "%s — %s: extracted table unchanged in meaning, all proofs pass" % (eid, what)
        bad = sorted(set(re.findall(r"error: (MechVerif/[\w/]+\.lean):(\d+)", p.stdout)))
        names = sorted(set("%s (%s)" % (theorem_at(os.path.join(ROOT, "lean", b[0]), int(b[1])), os.path.basename(b[0])) for b in bad))
        return "%s — %s: proof fails: %s" % (eid, what, ", ".join(names) or p.stdout[-300:])
    finally:
        shutil.rmtree(tmp, ignore_errors=True)

if __name__ == "__main__":
    want = sys.argv[1:]
    try:
        for e in EXPERIMENTS:
            if want and e[0] not in want: continue
            print(run(e), flush=True)
    finally:
        print("restored:", EA.generate(ROOT), flush=True)
