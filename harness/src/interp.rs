//! Helpers around the real parser/interpreter: canonical value text, error kinds.
use mech_core::*;
use mech_syntax::*;
use mech_interpreter::*;
use crate::common::*;

pub fn f64c(x: f64) -> String { if x.is_nan() { "7ff8000000000000".into() } else { format!("{:016x}", x.to_bits()) } }
pub fn f32c(x: f32) -> String { if x.is_nan() { "7fc00000".into() } else { format!("{:08x}", x.to_bits()) } }

/// true iff every top-level element of the parsed text is code (no paragraph fallback)
pub fn is_all_code(tree: &Program) -> bool {
  let d = format!("{:?}", tree);
  !d.contains("Paragraph(") && !d.contains("Paragraph {")
}

pub fn parse_code(src: &str) -> Result<Program, String> {
  match std::panic::catch_unwind(|| parser::parse(src)) {
    Err(_) => Err("parsepanic".into()),
    Ok(Err(_)) => Err("parseerr".into()),
    Ok(Ok(t)) => if is_all_code(&t) { Ok(t) } else { Err("notcode".into()) },
  }
}

pub fn form_of<T>(m: &mech_core::matrix::Matrix<T>) -> &'static str {
  match m { mech_core::matrix::Matrix::DMatrix(_) => "MD", mech_core::matrix::Matrix::DVector(_) => "VD", mech_core::matrix::Matrix::RowDVector(_) => "RD" }
}

fn mat<T: Clone + std::fmt::Debug + 'static>(kind: &str, m: &mech_core::matrix::Matrix<T>, f: impl Fn(&T) -> String) -> String
where T: PartialEq {
  let sh = m.shape();
  let v = m.as_vec();
  format!("mat:{}:{}x{}:[{}]", kind, sh[0], sh[1], v.iter().map(|x| f(x)).collect::<Vec<_>>().join(" "))
}

pub fn r64c(x: &R64) -> String { format!("{}/{}", x.numer(), x.denom()) }
pub fn c64c(x: &C64) -> String { format!("{},{}", f64c(x.0.re), f64c(x.0.im)) }

/// canonical text of a value; storage form is not part of it
pub fn canon(v: &Value) -> String {
  match v {
    Value::MutableReference(r) => canon(&r.borrow()),
    Value::U8(x) => format!("u8:{}", x.borrow()),
    Value::U16(x) => format!("u16:{}", x.borrow()),
    Value::U32(x) => format!("u32:{}", x.borrow()),
    Value::U64(x) => format!("u64:{}", x.borrow()),
    Value::U128(x) => format!("u128:{}", x.borrow()),
    Value::I8(x) => format!("i8:{}", x.borrow()),
    Value::I16(x) => format!("i16:{}", x.borrow()),
    Value::I32(x) => format!("i32:{}", x.borrow()),
    Value::I64(x) => format!("i64:{}", x.borrow()),
    Value::I128(x) => format!("i128:{}", x.borrow()),
    Value::F32(x) => format!("f32:{}", f32c(*x.borrow())),
    Value::F64(x) => format!("f64:{}", f64c(*x.borrow())),
    Value::Bool(x) => format!("bool:{}", x.borrow()),
    Value::String(x) => format!("string:{}", hexs(&x.borrow())),
    Value::R64(x) => format!("r64:{}", r64c(&x.borrow())),
    Value::C64(x) => format!("c64:{}", c64c(&x.borrow())),
    Value::Index(x) => format!("ix:{}", x.borrow()),
    Value::MatrixU8(m) => mat("u8", m, |x| x.to_string()),
    Value::MatrixU16(m) => mat("u16", m, |x| x.to_string()),
    Value::MatrixU32(m) => mat("u32", m, |x| x.to_string()),
    Value::MatrixU64(m) => mat("u64", m, |x| x.to_string()),
    Value::MatrixU128(m) => mat("u128", m, |x| x.to_string()),
    Value::MatrixI8(m) => mat("i8", m, |x| x.to_string()),
    Value::MatrixI16(m) => mat("i16", m, |x| x.to_string()),
    Value::MatrixI32(m) => mat("i32", m, |x| x.to_string()),
    Value::MatrixI64(m) => mat("i64", m, |x| x.to_string()),
    Value::MatrixI128(m) => mat("i128", m, |x| x.to_string()),
    Value::MatrixF32(m) => mat("f32", m, |x| f32c(*x)),
    Value::MatrixF64(m) => mat("f64", m, |x| f64c(*x)),
    Value::MatrixBool(m) => mat("bool", m, |x| x.to_string()),
    Value::MatrixString(m) => mat("string", m, |x| hexs(x)),
    Value::MatrixIndex(m) => mat("ix", m, |x| x.to_string()),
    Value::MatrixR64(m) => mat("r64", m, |x| r64c(x)),
    Value::MatrixC64(m) => mat("c64", m, |x| c64c(x)),
    Value::MatrixValue(m) => mat("value", m, |x| canon(x)),
    Value::Set(s) => {
      let s = s.borrow();
      let mut els: Vec<String> = s.set.iter().map(|x| canon(x)).collect();
      els.sort();
      format!("set:{}:n{}:{{{}}}", s.kind, s.num_elements, els.join("|"))
    }
    Value::Table(t) => {
      let t = t.borrow();
      let mut cols: Vec<String> = vec![];
      for (id, (kind, col)) in t.data.iter() {
        let name = t.col_names.get(id).cloned().unwrap_or(format!("#{}", id));
        let vals: Vec<String> = col.as_vec().iter().map(|x| canon(x)).collect();
        cols.push(format!("{}<{}>={}", name, kind, vals.join(",")));
      }
      format!("table:{}x{}:[{}]", t.rows, t.cols, cols.join(";"))
    }
    Value::Record(r) => {
      let r = r.borrow();
      let mut cols: Vec<String> = vec![];
      for (i, (id, v)) in r.data.iter().enumerate() {
        let name = r.field_names.get(id).cloned().unwrap_or(format!("#{}", id));
        let kind = r.kinds.get(i).map(|k| format!("{}", k)).unwrap_or("?".into());
        cols.push(format!("{}<{}>={}", name, kind, canon(v)));
      }
      format!("record:[{}]", cols.join(";"))
    }
    Value::Enum(e) => {
      let e = e.borrow();
      let names = e.names.borrow();
      let vs: Vec<String> = e.variants.iter().map(|(id, payload)| {
        let n = names.get(id).cloned().unwrap_or(format!("#{}", id));
        match payload { Some(p) => format!("{}({})", n, canon(p)), None => n }
      }).collect();
      format!("enum:{}", vs.join("|"))
    }
    Value::Tuple(t) => { let t = t.borrow(); format!("tup:({})", t.elements.iter().map(|x| canon(x)).collect::<Vec<_>>().join(";")) }
    Value::Atom(a) => { let a = a.borrow(); let id = (a.0).0; let d = (a.0).1.borrow(); format!("atom:{}", d.get(&id).cloned().unwrap_or(format!("#{}", id))) }
    Value::Empty => "empty".to_string(),
    other => format!("other:{}", hexs(&format!("{:?}", other))),
  }
}

pub fn form(v: &Value) -> &'static str {
  match v {
    Value::MutableReference(r) => form(&r.borrow()),
    Value::MatrixU8(m) => form_of(m), Value::MatrixU16(m) => form_of(m), Value::MatrixU32(m) => form_of(m),
    Value::MatrixU64(m) => form_of(m), Value::MatrixU128(m) => form_of(m), Value::MatrixI8(m) => form_of(m),
    Value::MatrixI16(m) => form_of(m), Value::MatrixI32(m) => form_of(m), Value::MatrixI64(m) => form_of(m),
    Value::MatrixI128(m) => form_of(m), Value::MatrixF32(m) => form_of(m), Value::MatrixF64(m) => form_of(m),
    Value::MatrixBool(m) => form_of(m), Value::MatrixString(m) => form_of(m), Value::MatrixIndex(m) => form_of(m),
    Value::MatrixR64(m) => form_of(m), Value::MatrixC64(m) => form_of(m), Value::MatrixValue(m) => form_of(m),
    _ => "S",
  }
}

/// interpret `src` in a fresh interpreter; Ok(value) or Err(kind name); host panics are "hostpanic"
pub fn eval(src: &str) -> Result<Value, String> {
  let tree = parse_code(src)?;
  let mut intrp = Interpreter::new(0);
  match std::panic::catch_unwind(std::panic::AssertUnwindSafe(|| intrp.interpret(&tree))) {
    Ok(Ok(v)) => Ok(v),
    Ok(Err(e)) => Err(e.kind_name().to_string()),
    Err(_) => Err("hostpanic".to_string()),
  }
}

/// like `eval` with the transition limit lowered and the FSM trace collected:
/// returns (result, the `state=` text of every `[trace][fsm][step]` event)
pub fn eval_fsm(src: &str, max_steps: usize) -> (Result<Value, String>, Vec<String>) {
  let tree = match parse_code(src) { Ok(t) => t, Err(e) => return (Err(e), vec![]) };
  let mut intrp = Interpreter::new(0);
  intrp.max_steps = max_steps;
  intrp.trace = true;
  intrp.trace_to_stdout = false;
  let r = match std::panic::catch_unwind(std::panic::AssertUnwindSafe(|| intrp.interpret(&tree))) {
    Ok(Ok(v)) => Ok(v),
    Ok(Err(e)) => Err(e.kind_name().to_string()),
    Err(_) => Err("hostpanic".to_string()),
  };
  let steps: Vec<String> = intrp.trace_events().iter().filter(|e| e.channel.as_deref() == Some("fsm") && e.label.as_deref().map(|l| l.trim()) == Some("step"))
    .map(|e| e.message.clone()).collect();
  (r, steps)
}

pub fn eval_obs(src: &str) -> String {
  match eval(src) { Ok(v) => canon(&v), Err(e) => format!("err:{}", e) }
}

/// all variables of the interpreter, sorted by name: `name=value;...`
pub fn symbols(intrp: &Interpreter) -> String {
  let st = intrp.symbols();
  let st = st.borrow();
  let d = st.dictionary.borrow();
  let mut v: Vec<String> = st.symbols.iter().map(|(k, val)| format!("{}={}", d.get(k).cloned().unwrap_or("?".into()), canon(&val.borrow()))).collect();
  v.sort();
  v.join(";")
}
