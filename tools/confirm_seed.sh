#!/bin/bash
# usage: tools/confirm_seed.sh <worktree> <demo-test-name>   — confirms a seeded change in its author's scratch worktree:
# demonstration fails with the change, the whole suite passes with it, demonstration passes without it.
wt=$1; demo=${2:-seed_demo}
cd $wt || exit 2
export CARGO_NET_OFFLINE=true
git apply --check -R patch.diff 2>/dev/null || { git apply patch.diff || { echo "CONFIRM: patch neither applied nor applicable"; exit 2; }; }
echo "== demo WITH change"; cargo test --offline --test $demo 2>&1 | grep -E "^test result|panicked|error(\[|:)" | head -5
echo "== suite WITH change"; cargo test --workspace --no-fail-fast --offline 2>&1 | grep -E "^test result" | awk '{p+=$4; f+=$6} END {print "passed",p,"failed",f}'
git apply -R patch.diff
echo "== demo WITHOUT change"; cargo test --offline --test $demo 2>&1 | grep -E "^test result|panicked|error(\[|:)" | head -5
git apply patch.diff
